"""C14 - later configuration sources override earlier ones key by key.

Model: coq/Config/Layers.v (`load`), theorems in Property_C14.v.
Abstract source stacks (defaults, files, directories, keyring, overrides; absent /
unreadable / unopenable / header-less files, unparsable lines, duplicates, undecodable
bytes) are rendered to real files and directories in a scratch directory and loaded with
the real `config._load` / `config.load`.

  corr:render   the harness's rendering of abstract lines to INI text, checked against
                configparser itself (the line-level oracle)
  corr:load     model `load` vs real `_load` / `load` (raw config as a key -> value map)
Multi-step cases: after a load the files are edited in place and loaded again in the same process
(monitor reload_sees_current_files, and the second load is a correspondence case of its own).
Monitors: load_total (nothing escapes), last_setter_wins (the Gallina predicate
`last_setter_holds` evaluated on the implementation's result), faults_skip_only_themselves
and frame (two-run comparisons on the real code).
"""

from __future__ import annotations

import configparser
import json
import os
import pathlib
import shutil
import tempfile
import types as pytypes

from cfglib import Interner
from common import vlib
from common.vlib import g_bool, g_list

AREA = "Config"
PROP_FILES = ["Property_C14.v"]
CORPUS = vlib.VERIF / "corpus" / "C14"
COQ_IMPORTS = ("From Common Require Import Res Str Cases.\n"
               "From Config Require Import Types Schema Layers.\n")

SECTIONS = ["core", "audio", "alpha", "beta", "Alpha", "x y", "é"]
KEYS = ["a", "b", "c", "mixer", "output", "cache_dir", "k é", "x.y", "n1"]
VALUES = ["1", "2", "3", "on", "software", "a b", "x;y", "#notcomment", "a = b", "a: b", "é\U0001F600", "\\n esc",
          "%(x)s", "[v]", "", "", "long " * 8 + "v", "a\nb", "\nm1\nm2", "a\nb c\nd", "$XDG_X/y", "~/z", "a\tb", "v#x", "v;x", "Top 40 #1 hits", "a\t#b", "x #"]


# ------------------------------------------------------------------ abstract stacks
# line: ("H", section) | ("O", key, value) | ("G", text)
# source: {"kind": absent|unreadable|openfails|lines, "lines": [...], "undecodable": bool, "noise": seed}
# file entry: {"file": source} | {"dir": [{"name":..., "eligible": bool, "shape": file|dir|dangling|link, "src": source}]}


def gen_lines(rng, allow_dups=True):
    lines = []
    nsec = rng.choice([1, 2, 2, 3])
    for _ in range(nsec):
        lines.append(("H", rng.choice(SECTIONS[:3]) if rng.random() < 0.85 else rng.choice(SECTIONS)))
        for _ in range(rng.choice([0, 1, 2, 3, 4, 5])):
            r = rng.random()
            if r < 0.12:
                lines.append(("G", rng.choice(["garbage line", "%%%", "[broken", "novalue", "é é é"])))
            else:
                lines.append(("O", rng.choice(KEYS[:5]) if rng.random() < 0.8 else rng.choice(KEYS), rng.choice(VALUES)))
    if not allow_dups:
        seen_s, seen_o, out, cur = set(), set(), [], None
        for ln in lines:
            if ln[0] == "H":
                if ln[1] in seen_s:
                    cur = None
                    continue
                seen_s.add(ln[1])
                cur = ln[1]
                out.append(ln)
            elif ln[0] == "O":
                if cur is None or (cur, ln[1]) in seen_o:
                    continue
                seen_o.add((cur, ln[1]))
                out.append(ln)
            elif cur is not None:
                out.append(ln)
        lines = out
    return lines


def gen_source(rng, dups_ok):
    k = rng.weighted([("lines", 7), ("absent", 1), ("unreadable", 0.8), ("openfails", 0.5), ("noheader", 1), ("empty", 0.3)])
    if k in ("absent", "unreadable", "openfails"):
        src = {"kind": k, "lines": gen_lines(rng, False) if k != "absent" else [], "undecodable": False}
    elif k == "noheader":
        first = rng.choice([("O", "a", "9"), ("G", "stray text")])
        src = {"kind": "lines", "lines": [first, *gen_lines(rng, False)], "undecodable": False}
    elif k == "empty":
        src = {"kind": "lines", "lines": [], "undecodable": False}
    else:
        dup = dups_ok and rng.random() < 0.25
        src = {"kind": "lines", "lines": gen_lines(rng, dup), "undecodable": False}
        if rng.random() < 0.12:
            src["undecodable"] = True
            src["lines"].append(("H", "alpha"))
            src["lines"].append(("O", "raw" + str(rng.randint(0, 2)), "b\udcff\udcfey"))
    src["noise"] = rng.randint(0, 10**6)
    return src


def gen_stack(rng):
    # defaults are trusted strings: no unparsable lines (read_string on them is unguarded)
    defaults = [[ln for ln in gen_lines(rng, False) if ln[0] != "G"] for _ in range(rng.choice([0, 1, 1, 2]))]
    files = []
    for _ in range(rng.choice([0, 1, 2, 3, 3, 4, 5])):
        if rng.random() < 0.22:
            members, names = [], ["a.conf", "b.conf", "c.txt", "d.CONF", ".conf", "e.conf", "zz.conf", "sub.conf", "n.conf.bak"]
            rng.shuffle(names)
            for name in names[: rng.choice([0, 1, 2, 3, 4])]:
                shape = rng.weighted([("file", 6), ("dir", 0.9), ("dangling", 0.5), ("link", 0.8), ("socket", 0.5)])
                src = gen_source(rng, True)
                if shape in ("dir", "dangling", "socket"):
                    src = {"kind": "lines", "lines": gen_lines(rng, False), "undecodable": False, "noise": 0}
                eligible = shape in ("file", "link") and name.endswith(".conf") and name != ".conf"
                if shape in ("file", "link") and src["kind"] == "absent":
                    src["kind"] = "unreadable"
                    src["lines"] = gen_lines(rng, False)
                members.append({"name": name, "eligible": eligible, "shape": shape, "src": src})
            files.append({"dir": members})
        else:
            files.append({"file": gen_source(rng, True)})
    # the same path listed more than once: an earlier file or directory again, or a file that
    # also lives inside a listed directory.  Every occurrence is a source of its own.
    for _ in range(rng.choice([0, 0, 1, 1, 2])):
        if not files:
            break
        i = rng.randrange(len(files))
        src_entry = files[i]
        if "same_as" in src_entry or "same_as_member" in src_entry:
            continue
        if "dir" in src_entry and src_entry["dir"] and rng.random() < 0.5:
            cands = [m for m in src_entry["dir"] if m["shape"] in ("file", "link")]
            if not cands:
                continue
            m = rng.choice(cands)
            new = {"file": json.loads(json.dumps(m["src"])), "same_as_member": [i, m["name"]]}
        else:
            new = {**json.loads(json.dumps(src_entry)), "same_as": i}
        pos = rng.randint(i + 1, len(files))
        for fe in files:   # keep earlier references pointing at the same entries
            if "same_as" in fe and fe["same_as"] >= pos:
                fe["same_as"] += 1
            if "same_as_member" in fe and fe["same_as_member"][0] >= pos:
                fe["same_as_member"][0] += 1
        files.insert(pos, new)
    # empty values are assignments too: "" at a higher layer blanks what a lower layer set
    # key spellings that differ only in case are DIFFERENT keys in the keyring and -o layers
    # (configparser lower-cases the keys of files only)
    # override / keyring sections include configparser's reserved default-section name and case variants:
    # overrides never go through the parser, so these are ordinary (unknown) sections
    osecs = SECTIONS[:4] * 4 + ["DEFAULT", "default", "Core", "AUDIO"]
    overrides = [[rng.choice(osecs), rng.choice(KEYS[:5] + ["Mixer", "A", "Output"]),
                  rng.choice(VALUES[:12] + ["", "", "", "alsasink device=hw:1", "cGFzcw==", "a/b=c/d", "k=v=w"])]
                 for _ in range(rng.choice([0, 0, 1, 2, 3]))]
    keyring = [[rng.choice(SECTIONS[:3] * 4 + ["DEFAULT", "Core"]), rng.choice(KEYS[:4] + ["Mixer", "A", "B"]), rng.choice(["secret", "pä\udcffss", "", "x #1"])]
               for _ in range(rng.choice([0, 0, 0, 1, 2]))]
    # the command line gives the overrides as texts "section/key=value": they go through the real parser
    pads = ["", "", " ", "  ", "\t"]
    texts = [f"{rng.choice(pads)}{s_}{rng.choice(pads)}/{rng.choice(pads)}{k_}{rng.choice(pads)}={rng.choice(pads)}{v_}{rng.choice(pads)}"
             for s_, k_, v_ in overrides]
    spelling = [rng.choice(["abs", "abs", "home", "xdg"]) for _ in files]
    return {"defaults": defaults, "files": files, "keyring": keyring, "overrides": overrides, "override_texts": texts,
            "spelling": spelling}


def edited_stack(stack, rng):
    """The same files and directories with other contents (what a user edit leaves behind)."""
    s2 = json.loads(json.dumps(stack))

    def edit(src):
        if src["kind"] == "absent":
            return
        first_bad = src["lines"] and src["lines"][0][0] != "H"
        src["lines"] = [list(x) for x in gen_lines(rng, True)]
        if first_bad and rng.random() < 0.5:
            src["lines"].insert(0, ["O", "a", "9"])
        src["undecodable"] = False
        src["noise"] = rng.randint(0, 10**6)

    for fe in s2["files"]:
        if "same_as" in fe or "same_as_member" in fe:
            continue
        if "file" in fe:
            edit(fe["file"])
        else:
            for m in fe["dir"]:
                if m["shape"] in ("file", "link"):
                    edit(m["src"])
    for fe in s2["files"]:
        if "same_as" in fe:
            tgt = s2["files"][fe["same_as"]]
            for k in ("file", "dir"):
                if k in tgt:
                    fe[k] = json.loads(json.dumps(tgt[k]))
        elif "same_as_member" in fe:
            j, name = fe["same_as_member"]
            fe["file"] = json.loads(json.dumps(next(m["src"] for m in s2["files"][j]["dir"] if m["name"] == name)))
    return s2


# ------------------------------------------------------------------ rendering


def render_lines(lines, noise_seed):
    rng = vlib.Rng(noise_seed, "render")
    out = []
    if rng.random() < 0.3:
        out.append(rng.choice(["# leading comment", "; semi comment", "", "   "]))
    for ln in lines:
        if ln[0] == "H":
            out.append(f"[{ln[1]}]" + rng.choice(["", "", "  "]))
        elif ln[0] == "G":
            out.append(ln[1])
        else:
            key, val = ln[1], ln[2]
            if key.isascii() and rng.random() < 0.25:
                key = key.upper() if rng.random() < 0.5 else key.capitalize()
            delim = rng.choice([" = ", "=", " =", ": ", ":", " : "])
            parts = val.split("\n")
            first = parts[0]
            tail = ""
            if len(parts) == 1 and rng.random() < 0.2 and first != "":
                tail = rng.choice(["  ; trailing comment", " ;x", "\t; t"])
            if first == "":
                delim = delim.rstrip(" ") if rng.random() < 0.5 else delim
            out.append(f"{key}{delim}{first}{tail}")
            indent = rng.choice(["  ", "    ", "\t"])
            out.extend(indent + p for p in parts[1:])
        if rng.random() < 0.15:
            out.append(rng.choice(["", "# c", ";c", "  # indented comment"]))
    return "\n".join(out) + ("\n" if rng.random() < 0.8 else "")


def src_bytes(src):
    return render_lines(src["lines"], src.get("noise", 0)).encode("utf-8", "surrogateescape")


class Materialised:
    def __init__(self, stack):
        self.root = pathlib.Path(tempfile.mkdtemp(prefix="verif-c14-"))
        self.unreadable, self.openfails = set(), set()
        self.paths = []
        self.dir_orders = []   # per file entry: None or list of member dicts in iterdir order
        for i, fe in enumerate(stack["files"]):
            if "same_as" in fe:
                j = fe["same_as"]
                self.paths.append(self.paths[j])
                self.dir_orders.append(self.dir_orders[j])
                continue
            if "same_as_member" in fe:
                j, name = fe["same_as_member"]
                self.paths.append(self.paths[j] / name)
                self.dir_orders.append(None)
                continue
            if "file" in fe:
                p = self.root / f"f{i}.conf"
                self._write(p, fe["file"])
                self.paths.append(p)
                self.dir_orders.append(None)
            else:
                d = self.root / f"d{i}"
                d.mkdir()
                for m in fe["dir"]:
                    p = d / m["name"]
                    if m["shape"] == "dir":
                        p.mkdir()
                        (p / "inner.conf").write_bytes(src_bytes(m["src"]))
                    elif m["shape"] == "dangling":
                        p.symlink_to(d / "nonexistent-target")
                    elif m["shape"] == "socket":
                        import socket as _socket

                        sk = _socket.socket(_socket.AF_UNIX)   # exists, is readable, but open() fails
                        try:
                            sk.bind(str(p))
                        finally:
                            sk.close()
                    elif m["shape"] == "link":
                        tgt = self.root / f"t{i}-{m['name']}.target"
                        self._write(tgt, m["src"])
                        p.symlink_to(tgt)
                    else:
                        self._write(p, m["src"])
                by_name = {m["name"]: m for m in fe["dir"]}
                self.dir_orders.append([by_name[g.name] for g in d.iterdir()])
                self.paths.append(d)

    def rewrite(self, stack2):
        """Put the contents of `stack2` (same structure, other lines) at the SAME paths."""
        for i, fe in enumerate(stack2["files"]):
            if "same_as" in fe or "same_as_member" in fe:
                continue
            if "file" in fe:
                if fe["file"]["kind"] != "absent":
                    self.paths[i].write_bytes(src_bytes(fe["file"]))
            else:
                for m in fe["dir"]:
                    if m["shape"] in ("file", "link"):
                        (self.paths[i] / m["name"]).resolve().write_bytes(src_bytes(m["src"]))
        # directory orders name the members of the new stack
        for i, fe in enumerate(stack2["files"]):
            if self.dir_orders[i] is None:
                continue
            j = fe.get("same_as", i)
            by_name = {m["name"]: m for m in stack2["files"][j]["dir"]}
            self.dir_orders[i] = [by_name[m["name"]] for m in self.dir_orders[i]]

    def _write(self, p, src):
        if src["kind"] == "absent":
            return
        p.write_bytes(src_bytes(src))
        rp = str(p.resolve())
        if src["kind"] == "unreadable":
            self.unreadable.add(rp)
        if src["kind"] == "openfails":
            self.openfails.add(rp)

    def close(self):
        shutil.rmtree(self.root, ignore_errors=True)


class Faults:
    """os.access / Path.open failures for chosen paths (the sandbox runs as root)."""

    def __init__(self, mat):
        self.mat = mat

    def __enter__(self):
        from mopidy import config as C

        mat = self.mat
        self.C = C
        self.saved_os = C.os
        self.saved_open = pathlib.Path.open
        real_open = pathlib.Path.open

        class OsProxy:
            def __getattr__(self, name):
                return getattr(os, name)

            @staticmethod
            def access(p, mode, *a, **k):
                if str(p) in mat.unreadable:
                    return False
                return os.access(p, mode, *a, **k)

        def fake_open(self_, *a, **k):
            if str(self_) in mat.openfails:
                raise PermissionError(13, "Permission denied (injected)", str(self_))
            return real_open(self_, *a, **k)

        C.os = OsProxy()
        pathlib.Path.open = fake_open
        # ~ and $XDG_CONFIG_DIR lead into the scratch directory while the load runs
        from mopidy.internal import path as P

        self.P = P
        self.saved_home = os.environ.get("HOME")
        self.saved_xdg = P.XDG_DIRS.get("XDG_CONFIG_DIR")
        os.environ["HOME"] = str(mat.root)
        P.XDG_DIRS["XDG_CONFIG_DIR"] = pathlib.Path(mat.root)
        return self

    def __exit__(self, *exc):
        self.C.os = self.saved_os
        pathlib.Path.open = self.saved_open
        if self.saved_home is None:
            os.environ.pop("HOME", None)
        else:
            os.environ["HOME"] = self.saved_home
        if self.saved_xdg is None:
            self.P.XDG_DIRS.pop("XDG_CONFIG_DIR", None)
        else:
            self.P.XDG_DIRS["XDG_CONFIG_DIR"] = self.saved_xdg


def canon_exc(e):
    if isinstance(e, (configparser.DuplicateSectionError, configparser.DuplicateOptionError)):
        return "DuplicateError"
    if isinstance(e, UnicodeDecodeError):
        return "DecodeError"
    return type(e).__name__


def canon_raw(raw):
    out = {}
    for sec, kv in raw.items():
        d = {}
        for k, v in kv.items():
            if isinstance(v, bytes):
                v = v.decode(errors="surrogateescape")
            if not isinstance(v, str):
                v = f"<{type(v).__name__}>"   # e.g. un-joined list left behind by an aborted read
            d[k] = v
        if d:
            out[sec] = d
    return out


def render_defaults(stack):
    """Extension default strings as the code accepts them: str or bytes, MIXED in one list."""
    out = []
    for i, d in enumerate(stack["defaults"]):
        text = render_lines(d, 17 + i)
        as_bytes = (i + len(stack["files"])) % 2 == 1
        try:
            out.append(text.encode("utf-8") if as_bytes else text)
        except UnicodeEncodeError:
            out.append(text)
    return out


def spelled_paths(stack, mat):
    """The `files` argument as a user writes it: absolute, through ~ or through $XDG_CONFIG_DIR
    (HOME and XDG_CONFIG_DIR point into the scratch directory while the load runs)."""
    spell = stack.get("spelling") or []
    out = []
    for i, p in enumerate(mat.paths):
        how = spell[i] if i < len(spell) else "abs"
        rel = pathlib.Path(p).relative_to(mat.root)
        out.append(pathlib.Path("~") / rel if how == "home" else pathlib.Path("$XDG_CONFIG_DIR") / rel if how == "xdg" else p)
    return out


def parse_overrides(stack):
    """-o section/key=value texts through mopidy.commands.config_override_type (the real parser)."""
    from mopidy import commands

    texts = stack.get("override_texts") or [f"{s}/{k}={v}" for s, k, v in stack["overrides"]]
    if len(OVERRIDE_TEXTS) < 5000:
        OVERRIDE_TEXTS.extend(texts)
    return [tuple(commands.config_override_type(t)) for t in texts]


def run_load(stack, via_load=False, mat=None):
    """-> (materialised, ("ok", rawdict) | ("raise", canonical exception))"""
    from mopidy import config as C

    mat = mat if mat is not None else Materialised(stack)
    defaults = render_defaults(stack)
    keyring = [(s, k, v.encode("utf-8", "surrogateescape")) for s, k, v in stack["keyring"]]
    overrides = parse_overrides(stack)
    try:
        with Faults(mat):
            if via_load:
                captured = {}
                saved_fetch, saved_validate = C.keyring.fetch, C._validate
                C.keyring.fetch = lambda: list(keyring)
                C._validate = lambda raw, schemas: (captured.setdefault("raw", raw), {})
                try:
                    C.load(spelled_paths(stack, mat), [], defaults, overrides)
                    out = ("ok", canon_raw(captured["raw"]))
                finally:
                    C.keyring.fetch, C._validate = saved_fetch, saved_validate
            else:
                raw = C._load(spelled_paths(stack, mat), defaults, keyring + overrides)
                out = ("ok", canon_raw(raw))
    except Exception as e:  # noqa: BLE001
        out = ("raise", canon_exc(e))
    return mat, out


# ------------------------------------------------------------------ Gallina


def g_line(ln, I):
    if ln[0] == "H":
        return f"(Header {I.s(ln[1])})"
    if ln[0] == "G":
        return "Garbage"
    return f"(Opt {I.s(ln[1])} {I.s(ln[2])})"


def g_source(src, I):
    k = src["kind"]
    if k == "absent":
        return "Absent"
    if k == "unreadable":
        return "Unreadable"
    if k == "openfails":
        return "OpenFails"
    return f"(Lines {g_bool(src['undecodable'])} {g_list([g_line(x, I) for x in src['lines']])})"


def g_stack(stack, mat, out, I, extra_defaults=()):
    defaults = g_list([g_list([g_line(x, I) for x in d]) for d in [*extra_defaults, *stack["defaults"]]])
    files = []
    for fe, order in zip(stack["files"], mat.dir_orders):
        if "file" in fe:
            files.append(f"(FFile {g_source(fe['file'], I)})")
        else:
            files.append("(FDir " + g_list([f"({g_bool(m['eligible'])}, {g_source(m['src'], I)})" for m in order]) + ")")
    ovr = g_list([f"({I.s(s)}, {I.s(k)}, {I.s(v)})" for s, k, v in [*stack["keyring"], *stack["overrides"]]])
    if out[0] == "ok":
        obs = "(LReturned " + g_list([f"({I.s(s)}, {g_list([f'({I.s(k)}, {I.s(v)})' for k, v in kv.items()])})"
                                      for s, kv in out[1].items()]) + ")"
    else:
        obs = f"(LRaised {out[1]})"
    return f"({defaults}, {g_list(files)}, {ovr}, {obs})"


def snapshot(mat):
    return pytypes.SimpleNamespace(dir_orders=list(mat.dir_orders), paths=list(mat.paths), root=mat.root)


KINDS = {"file": "KRegular", "link": "KLinkToFile", "dir": "KDirectory", "dangling": "KDangling", "socket": "KSocket"}


def g_fs_case(stack, snap, out, I, extra_defaults=()):
    """The same case for the file-system model (LayersFs.v): nodes by path, symlink targets, the
    list of paths as given.  Eligibility of directory members is NOT supplied: the model decides
    from name and kind."""
    nodes, links = {}, {}
    for i, fe in enumerate(stack["files"]):
        if "same_as" in fe or "same_as_member" in fe:
            continue
        p = str(snap.paths[i])
        if "file" in fe:
            nodes[p] = f"(NFile {g_source(fe['file'], I)})"
            continue
        order = snap.dir_orders[i]
        nodes[p] = "(NDir " + g_list([f"({I.s(m['name'])}, {KINDS[m['shape']]})" for m in order]) + ")"
        for m in order:
            mp = p + "/" + m["name"]
            if m["shape"] == "file":
                nodes[mp] = f"(NFile {g_source(m['src'], I)})"
            elif m["shape"] == "link":
                tgt = str(snap.root / f"t{i}-{m['name']}.target")
                links[mp] = tgt
                nodes[tgt] = f"(NFile {g_source(m['src'], I)})"
            elif m["shape"] == "dir":
                nodes[mp] = "(NDir [([105; 110; 110; 101; 114; 46; 99; 111; 110; 102], KRegular)])"
            elif m["shape"] == "socket":
                nodes[mp] = "(NFile OpenFails)"
    defaults = g_list([g_list([g_line(x, I) for x in d]) for d in [*extra_defaults, *stack["defaults"]]])
    ovr = g_list([f"({I.s(s)}, {I.s(k)}, {I.s(v)})" for s, k, v in [*stack["keyring"], *stack["overrides"]]])
    if out[0] == "ok":
        obs = "(LReturned " + g_list([f"({I.s(s)}, {g_list([f'({I.s(k)}, {I.s(v)})' for k, v in kv.items()])})"
                                      for s, kv in out[1].items()]) + ")"
    else:
        obs = f"(LRaised {out[1]})"
    gn = g_list([f"({I.s(k)}, {v})" for k, v in nodes.items()])
    gl = g_list([f"({I.s(k)}, {I.s(v)})" for k, v in links.items()])
    return f"({gn}, {gl}, {defaults}, {g_list([I.s(str(p)) for p in snap.paths])}, {ovr}, {obs})"


# ------------------------------------------------------------------ python mirrors (monitors, render oracle)


def effective(src):
    if src["kind"] != "lines":
        return []
    lines = src["lines"]
    if lines and lines[0][0] != "H":
        return []
    cur, out = None, []
    for ln in lines:
        if ln[0] == "H":
            cur = ln[1]
        elif ln[0] == "O" and cur is not None:
            out.append((cur, ln[1], ln[2]))
    return out


def stack_cause(stack, mat):
    """Why the pre-fix code would abort on this stack (for keying findings)."""
    causes = set()

    def scan(src):
        if src["kind"] != "lines":
            return
        if src["undecodable"]:
            causes.add("undecodable")
        seen_s, seen_o, cur = set(), set(), None
        if src["lines"] and src["lines"][0][0] != "H":
            return
        for ln in src["lines"]:
            if ln[0] == "H":
                if ln[1] in seen_s:
                    causes.add("duplicate-section")
                seen_s.add(ln[1])
                cur = ln[1]
            elif ln[0] == "O":
                if (cur, ln[1]) in seen_o:
                    causes.add("duplicate-option")
                seen_o.add((cur, ln[1]))

    for fe, order in zip(stack["files"], mat.dir_orders):
        if "file" in fe:
            scan(fe["file"])
        else:
            for m in order:
                if m["eligible"]:
                    scan(m["src"])
    return "+".join(sorted(causes)) or "none"


RENDERED = []
OVERRIDE_TEXTS = []


def render_oracle_check(chk, src):
    """configparser (non-strict) on the rendered text of one source == its abstract effect."""
    text = src_bytes(src).decode("utf-8", "surrogateescape")
    if len(RENDERED) < 4000:
        RENDERED.append(text)
    p = configparser.RawConfigParser(inline_comment_prefixes=(";",), strict=False)
    kind = "ok"
    try:
        p.read_string(text)
    except configparser.MissingSectionHeaderError:
        kind = "noheader"
    except configparser.ParsingError:
        kind = "parsing"
    got = {}
    for s in p.sections():
        for k, v in p.items(s):
            got[(s, k)] = v
    want = {}
    for s, k, v in effective(src):
        want[(s, k)] = v
    first_bad = src["lines"] and src["lines"][0][0] != "H"
    has_garbage = any(ln[0] == "G" for ln in src["lines"])
    ok = got == want and (kind == "noheader") == bool(first_bad) and (first_bad or (kind == "parsing") == has_garbage)
    if not ok:
        chk.corr_failure("render", {"lines": src["lines"], "noise": src.get("noise"), "text": text[:400]},
                         f"configparser: kind={kind} got={sorted(got.items())[:6]} want={sorted(want.items())[:6]}")
    return ok


def strip_faults(stack, mat):
    """The same stack without faulty sources, ineligible members and unparsable lines."""
    def clean(src):
        if src["kind"] != "lines" or (src["lines"] and src["lines"][0][0] != "H"):
            return None
        return {**src, "lines": [ln for ln in src["lines"] if ln[0] != "G"]}

    files = []
    for fe, order in zip(stack["files"], mat.dir_orders):
        if "file" in fe:
            c = clean(fe["file"])
            if c is not None:
                files.append({"file": c})
        else:
            for m in order:
                if m["eligible"]:
                    c = clean(m["src"])
                    if c is not None:
                        files.append({"file": c})
    return {**stack, "files": files}


# ------------------------------------------------------------------ INI syntax: model parse_ini vs configparser

INI_LINES = ["[a]", "[b c]", "[a]b]", "[]", "[", "[a", "a]", "[a] ; c", "[a] # c", "  [a]", "k=v", "k = v", "k : v", "k:v", "K = V", "k",
             "k é = Xé", " k = v", "  cont", "\tcont2", "", "   ", "# c", "; c", "  # ic", "  ; ic", "k = v ; c", "k = v;c", "k = v #c",
             "k = ;c", "=v", " = v", ":", "k =", "k = ", "k = a = b", "k = a: b", "k: a = b", "x ;", ";x = 1", "a ; b = c", "k = v\r",
             "k2 = w", "  more ; c", "  [notheader]", "   k3 = z", "garbage line", "%%%", "k = \\n esc", "k=\x0bv\x0c", "\x1ck = v"]


def ini_observe(text):
    p = configparser.RawConfigParser(inline_comment_prefixes=(";",), strict=False)
    err = False
    try:
        p.read_string(text)
    except configparser.MissingSectionHeaderError:
        return None
    except configparser.ParsingError:
        err = True
    return ({s: dict(p.items(s)) for s in p.sections() if p.items(s)}, err)


def g_icase(text, obs, I):
    chars = sorted({c for c in text if ord(c) >= 128})
    tl = g_list([f"({ord(c)}, {I.s(c.lower())})" for c in chars])
    if obs is None:
        g = "None"
    else:
        cfg = g_list([f"({I.s(s)}, {g_list([f'({I.s(k)}, {I.s(v)})' for k, v in kv.items()])})" for s, kv in obs[0].items()])
        g = f"(Some ({cfg}, {g_bool(obs[1])}))"
    return f"({tl}, {I.s(text)}, {g})"


def ini_stage(chk, texts, soups=1.0):
    """Every rendered config file of this run plus random line soups: parse_ini == configparser."""
    rng = chk.rng
    n = int((600 if chk.tier == "quick" else 6000) * soups)
    texts = list(texts)
    for _ in range(n):
        lines = [rng.choice(INI_LINES) for _ in range(rng.randint(1, 9))]
        if rng.random() < 0.7:
            lines.insert(0, rng.choice(["[a]", "[b c]", "[é]"]))
        texts.append("\n".join(lines) + ("\n" if rng.random() < 0.5 else ""))
    texts = [t for t in dict.fromkeys(texts) if "[DEFAULT]" not in t and "\u03a3" not in t]
    per, ok = 300, True
    shards = [texts[i:i + per] for i in range(0, len(texts), per)]
    files = []
    for shard in shards:
        I = Interner()
        terms = [g_icase(t, ini_observe(t), I) for t in shard]
        files.append(vlib.COQ_HEADER + COQ_IMPORTS + "From Config Require Import Ini IniCases.\n" + I.header()
                     + "Definition cases : list icase :=\n " + g_list(terms) + ".\n"
                     + "Eval vm_compute in mismatches icase_ok cases.\n")
    for si, (rc, outp) in enumerate(vlib.coq_eval_many(AREA, files, jobs=12)):
        bad = vlib.parse_nat_list(outp)
        if rc != 0 or bad is None:
            ok = False
            chk.corr_failure("ini", {"shard": si, "error": "coq evaluation failed"}, outp[-2000:])
            continue
        for i in bad:
            ok = False
            t = shards[si][i]
            chk.corr_failure("ini", {"text": t, "configparser": repr(ini_observe(t))[:400]})
    chk.count(len(texts), nontrivial_key=None)
    chk.dist("ini:texts", len(texts))
    chk.obligation("corr:ini", "correspondence", ok)


def override_stage(chk, texts):
    """Model parse_override vs the real commands.config_override_type on every -o text of the run
    plus malformed and adversarial ones."""
    import argparse

    from mopidy import commands

    rng = chk.rng
    texts = list(dict.fromkeys(texts))
    parts = ["audio", "a/b", "x=y", "", " ", "=", "/", "k", "é", "v w", "\t", "==", "//", "alsasink device=hw:1"]
    for _ in range(300 if chk.tier == "quick" else 3000):
        texts.append("".join(rng.choice(parts + ["/", "=", "/", "="]) for _ in range(rng.randint(0, 6))))
    I = Interner()
    terms = []
    for t in texts:
        try:
            obs = tuple(commands.config_override_type(t))
        except argparse.ArgumentTypeError:
            obs = None
        g = "None" if obs is None else f"(Some ({I.s(obs[0])}, {I.s(obs[1])}, {I.s(obs[2])}))"
        terms.append(f"({I.s(t)}, {g})")
    rc, outp = vlib.coq_eval(AREA, vlib.COQ_HEADER + COQ_IMPORTS + "From Config Require Import LayersFs Override.\n" + I.header()
                             + "Definition cases : list ocase :=\n " + g_list(terms) + ".\n"
                             + "Eval vm_compute in mismatches ocase_ok cases.\n")
    bad = vlib.parse_nat_list(outp)
    ok = rc == 0 and bad == []
    for i in (bad or [])[:5]:
        chk.corr_failure("override", {"text": texts[i]})
    if rc != 0 or bad is None:
        chk.corr_failure("override", {"error": "coq evaluation failed"}, outp[-1500:])
    chk.dist("override:texts", len(texts))
    chk.obligation("corr:override", "correspondence", ok)


# ------------------------------------------------------------------ the keyring layer: keyring.fetch() against a fake Secret Service


def keyring_stage(chk):
    """mopidy.config.keyring.fetch() driven through its branches by a fake python-dbus module and a fake
    freedesktop Secret Service (no dbus, no session bus, service not running, OpenSession refused, nothing
    stored, unlocked items, locked items that unlock without a prompt, locked items that need a prompt, and
    mixtures).  Expectation: every secret the service can hand over without a prompt is returned, and
    config.load puts it above the files and below the command line."""
    import types as _t

    from mopidy import config as C
    from mopidy.config import keyring as K

    class DBusException(Exception):
        pass

    def make(sc):
        state = {"unlock_calls": 0, "dismissed": 0, "items": {f"/item/{i}": list(it) for i, it in enumerate(sc["items"])}}

        class Service:
            def OpenSession(self, algorithm, value):  # noqa: N802
                if sc.get("open_session_fails"):
                    raise DBusException("refused")
                return ("", "/session/1")

            def SearchItems(self, attributes):  # noqa: N802
                its = state["items"]
                return ([p for p in its if not its[p][3]], [p for p in its if its[p][3]])

            def Unlock(self, paths):  # noqa: N802
                state["unlock_calls"] += 1
                if sc["unlock"] == "prompt":
                    return ([], "/prompt/1")
                for p in paths:
                    state["items"][p][3] = False
                return (list(paths), "/")

            def GetSecrets(self, items, session, byte_arrays=False):  # noqa: N802
                assert all(not state["items"][p][3] for p in items), "secret of a locked item requested"
                return {p: (session, b"", state["items"][p][2], "text/plain") for p in items}

        class Props:
            def __init__(self, path):
                self.path = path

            def Get(self, interface, name):  # noqa: N802
                it = state["items"][self.path]
                return {"service": "mopidy", "section": it[0], "key": it[1]}

        class Prompt:
            def Dismiss(self):  # noqa: N802
                state["dismissed"] += 1

        class Bus:
            def name_has_owner(self, name):
                return sc.get("has_owner", True)

            def get_object(self, name, path):
                return path

        def interface(obj, iface):
            if iface.endswith("Secret.Service"):
                return Service()
            if iface.endswith("DBus.Properties"):
                return Props(obj)
            return Prompt()

        def session_bus():
            if sc.get("bus_fails"):
                raise DBusException("no session bus")
            return Bus()

        d = _t.ModuleType("dbus")
        d.String = lambda value, variant_level=0: value
        d.exceptions = _t.SimpleNamespace(DBusException=DBusException)
        d.SessionBus = session_bus
        d.Interface = interface
        return d, state

    secrets = [("audio", "mixer", b"kr-mixer"), ("proxy", "password", b"p\xffw"), ("alpha", "a", b""), ("audio", "output", b"kr-out")]
    scenarios = [{"name": "no-dbus", "dbus": False, "items": [], "unlock": "noprompt"},
                 {"name": "no-session-bus", "bus_fails": True, "items": [(*secrets[0], False)], "unlock": "noprompt"},
                 {"name": "service-not-running", "has_owner": False, "items": [(*secrets[0], False)], "unlock": "noprompt"},
                 {"name": "open-session-refused", "open_session_fails": True, "items": [(*secrets[0], False)], "unlock": "noprompt"}]
    for nu in range(3):
        for nl in range(3):
            for unlock in ("noprompt", "prompt"):
                if nl == 0 and unlock == "prompt":
                    continue
                items = [(*secrets[i], False) for i in range(nu)] + [(*secrets[nu + j], True) for j in range(nl) if nu + j < len(secrets)]
                scenarios.append({"name": f"unlocked={nu},locked={len(items) - nu},unlock={unlock}", "items": items, "unlock": unlock})
    saved = (K.dbus, K.EMPTY_STRING)
    try:
        for sc in scenarios:
            infra_down = sc.get("dbus") is False or sc.get("bus_fails") or sc.get("has_owner") is False or sc.get("open_session_fails")
            want = set() if infra_down else {(s_, k_, v_) for s_, k_, v_, locked in sc["items"] if not locked or sc["unlock"] == "noprompt"}
            if sc.get("dbus") is False:
                K.dbus, state = None, {}
            else:
                K.dbus, state = make(sc)
                K.EMPTY_STRING = ""
            kind = ("mixed" if any(i[3] for i in sc["items"]) and not all(i[3] for i in sc["items"]) else
                    "locked-only" if sc["items"] and all(i[3] for i in sc["items"]) else "unlocked-only" if sc["items"] else "empty")
            case = {"stage": "keyring", "scenario": sc["name"]}
            chk.count(1, nontrivial_key="keyring:" + sc["name"])
            chk.dist("keyring:scenarios")
            try:
                got = K.fetch()
            except Exception as e:  # noqa: BLE001
                chk.monitor_failure("keyring_fetch", {"scenario": kind, "unlock": sc["unlock"], "what": "exception"},
                                    f"keyring.fetch() raised {type(e).__name__} in scenario {sc['name']}", case)
                continue
            gotset = {(a, b, bytes(c)) for a, b, c in got}
            if gotset != want:
                chk.monitor_failure("keyring_fetch", {"scenario": kind, "unlock": sc["unlock"], "what": "secrets"},
                                    f"keyring.fetch() in scenario {sc['name']}: returned {sorted(gotset)}, the service hands over "
                                    f"without a prompt {sorted(want)}", case)
                continue
            # the fetched secrets sit above the files and below the command line
            if want and not infra_down:
                K.dbus, state = make(sc)
                captured = {}
                real_validate = C._validate
                C._validate = lambda raw, schemas, _c=captured: (_c.setdefault("raw", raw), {})
                try:
                    C.load([], [], ["[audio]\nmixer = ext-default\noutput = ext-default\n[alpha]\na = ext-default\n"],
                           [("audio", "output", "cli")])
                finally:
                    C._validate = real_validate
                raw = canon_raw(captured.get("raw", {}))
                for s_, k_, v_ in want:
                    exp = "cli" if (s_, k_) == ("audio", "output") else v_.decode(errors="surrogateescape")
                    if raw.get(s_, {}).get(k_) != exp:
                        chk.monitor_failure("keyring_layer", {"scenario": kind},
                                            f"{s_}/{k_}: effective raw value {raw.get(s_, {}).get(k_)!r}, expected {exp!r} "
                                            "(keyring above defaults/files, below the command line)", case)
    finally:
        K.dbus, K.EMPTY_STRING = saved


# ------------------------------------------------------------------ main stage


def default_conf_lines():
    from mopidy import config as C

    text = C.read(pathlib.Path(C.__file__).parent / "default.conf")
    p = configparser.RawConfigParser(inline_comment_prefixes=(";",))
    p.read_string(text)
    lines = []
    for s in p.sections():
        lines.append(("H", s))
        lines += [("O", k, v) for k, v in p.items(s)]
    return lines


def load_stage(chk):
    rng = chk.rng
    n = 2500 if chk.tier == "quick" else 14000
    stacks = []
    if CORPUS.is_dir():
        for f in sorted(CORPUS.glob("*.json")):
            stacks += [(s, "corpus") for s in json.loads(f.read_text())["stacks"]]
    stacks += [(gen_stack(rng), "generated") for _ in range(n)]
    if chk.replay_case:
        stacks = [(chk.replay_case["stack"], "replay")]
    dlines = default_conf_lines()
    builders, kept, render_ok = [], [], True
    for idx, (stack, label) in enumerate(stacks):
        stack = json.loads(json.dumps(stack))  # normalise tuples -> lists
        for d in stack["defaults"]:
            for i, ln in enumerate(d):
                d[i] = tuple(ln)
        for fe in stack["files"]:
            for src in ([fe["file"]] if "file" in fe else [m["src"] for m in fe["dir"]]):
                src["lines"] = [tuple(x) for x in src["lines"]]
        via_load = idx % 4 == 3
        mat, out = run_load(stack, via_load)
        case = {"stack": stack, "via_load": via_load}
        try:
            cause = stack_cause(stack, mat)
            all_asg = [a for d in stack["defaults"] for a in effective({"kind": "lines", "lines": d})]
            n_file_asg = 0
            for fe, order in zip(stack["files"], mat.dir_orders):
                for src in ([fe["file"]] if "file" in fe else [m["src"] for m in order if m["eligible"]]):
                    eff = effective(src)
                    n_file_asg += len(eff)
                    all_asg += eff
                    if src["kind"] == "lines":
                        render_ok &= render_oracle_check(chk, src)
            all_asg += [tuple(x) for x in stack["keyring"] + stack["overrides"]]
            keys = [(a[0], a[1]) for a in all_asg]
            contested = len(keys) - len(set(keys))
            nfault = sum(1 for fe in stack["files"] for src in ([fe["file"]] if "file" in fe else [m["src"] for m in fe["dir"]])
                         if src["kind"] != "lines" or (src["lines"] and src["lines"][0][0] != "H")
                         or any(x[0] == "G" for x in src["lines"]))
            chk.count(1, nontrivial_key=json.dumps(stack, sort_keys=True) if contested and len(stack["files"]) >= 2 else None)
            chk.dist(f"load:contested_keys={'0' if not contested else '1-2' if contested <= 2 else '>2'}")
            chk.dist(f"load:faulty_sources={'0' if not nfault else '1' if nfault == 1 else '>1'}")
            chk.dist(f"load:pre-fix-abort-cause={cause}")
            chk.dist("load:via=" + ("load" if via_load else "_load"))
            nrep = sum(1 for fe in stack["files"] if "same_as" in fe or "same_as_member" in fe)
            chk.dist(f"load:repeated_paths={'0' if not nrep else '>=1'}")
            if out[0] == "raise":
                chk.monitor_failure("load_total", {"call": "_load", "exception": out[1], "cause": cause},
                                    f"{out[1]} escaped config.{'load' if via_load else '_load'} (stack has: {cause})", case)
                if out[1] not in ("DuplicateError", "DecodeError"):
                    continue
            else:
                chk.sample({"files": len(stack["files"]), "assignments": len(all_asg), "contested": contested,
                            "faulty": nfault, "result_sections": sorted(out[1])[:5]}, cap=5)
                # two-run monitor: faults and unparsable lines only remove themselves
                if nfault and rng.random() < 0.6:
                    s2 = strip_faults(stack, mat)
                    mat2, out2 = run_load(s2, via_load)
                    mat2.close()
                    if out2 != out:
                        chk.monitor_failure("faults_skip_only_themselves", {"call": "_load"},
                                            "removing the faulty files / unparsable lines changed the result",
                                            {**case, "without_faults": s2})
                if via_load:
                    validated_probe(chk, stack, mat, case, dlines)
                # two-run monitor: frame
                if all_asg and rng.random() < 0.4:
                    frame_probe(chk, stack, mat, out, rng, via_load, case, all_asg)
            extra = [dlines] if via_load else []
            kept.append(case)
            snap = snapshot(mat)
            builders.append(lambda I, stack=stack, mat=snap, out=out, extra=extra:
                            (g_stack(stack, mat, out, I, extra), g_fs_case(stack, mat, out, I, extra)))
            # multi-step: edit the files in place (same paths, same process) and load again
            preset = chk.replay_case.get("reload") if chk.replay_case else None
            if out[0] == "ok" and stack["files"] and (preset or rng.random() < 0.3):
                reload_probe(chk, stack, mat, via_load, rng, case, builders, kept, extra, preset)
        finally:
            mat.close()
    chk.obligation("corr:render", "correspondence", render_ok)
    # model vs implementation, and the Gallina property predicate on the implementation's result
    per = 150
    shards = [builders[i:i + per] for i in range(0, len(builders), per)]
    texts = []
    for shard in shards:
        I = Interner()
        both = [mk(I) for mk in shard]
        terms, fterms = [b[0] for b in both], [b[1] for b in both]
        texts.append(vlib.COQ_HEADER + COQ_IMPORTS + "From Config Require Import LayersFs.\n" + I.header()
                     + "Definition cases : list lcase :=\n " + g_list(terms) + ".\n"
                     + "Definition fcases : list lfcase :=\n " + g_list(fterms) + ".\n"
                     + "Eval vm_compute in mismatches lcase_ok cases.\n"
                     + "Eval vm_compute in mismatches last_setter_holds cases.\n"
                     + "Eval vm_compute in mismatches lfcase_ok fcases.\n")
    ok, ok_fs = True, [True]
    for si, (rc, outp) in enumerate(vlib.coq_eval_many(AREA, texts, jobs=12)):
        lists = vlib.parse_all_lists(outp)
        if rc != 0 or len(lists) != 3:
            ok = False
            chk.corr_failure("load", {"shard": si, "error": "coq evaluation failed"}, outp[-2000:])
            continue
        for i in lists[0]:
            ok = False
            chk.corr_failure("load", kept[si * per + i])
        for i in lists[1]:
            case = kept[si * per + i]
            if not any(mf["case"] is case for mf in chk.monitor_failures if mf["monitor"] == "load_total"):
                chk.monitor_failure("last_setter_wins", {"call": "_load"},
                                    "some key's effective value is not the one of its last setter in priority order", case)
        for i in lists[2]:
            ok_fs[0] = False
            chk.corr_failure("load_paths", kept[si * per + i])
    chk.obligation("corr:load", "correspondence", ok)
    chk.obligation("corr:load_paths", "correspondence", ok and ok_fs[0])


def validated_probe(chk, stack, mat, case, dlines):
    """The full config.load (layering + validation, nothing stubbed but the keyring): the validated
    value of every String key is what its type makes of the LAST setter of exactly that key --
    spellings differing in case are different keys in the keyring and -o layers."""
    from mopidy import config as C
    from mopidy.config import schemas as S
    from mopidy.config import types as T

    exts = []
    for name in ["alpha", "beta", "Alpha", "x y", "é"]:
        sc = S.ConfigSchema(name)
        for k in KEYS:
            sc[k] = T.String(optional=True)
        exts.append(sc)
    defaults = render_defaults(stack)
    keyring = [(s, k, v.encode("utf-8", "surrogateescape")) for s, k, v in stack["keyring"]]
    saved = C.keyring.fetch
    try:
        with Faults(mat):
            C.keyring.fetch = lambda: list(keyring)
            cfg, errs = C.load(spelled_paths(stack, mat), exts, defaults, parse_overrides(stack))
    except Exception as e:  # noqa: BLE001
        chk.monitor_failure("load_total", {"call": "load", "exception": canon_exc(e), "cause": "validated"},
                            f"{canon_exc(e)} escaped the full config.load", case)
        return
    finally:
        C.keyring.fetch = saved
    asgs = effective({"kind": "lines", "lines": dlines})
    for d in stack["defaults"]:
        asgs += effective({"kind": "lines", "lines": d})
    for fe, order in zip(stack["files"], mat.dir_orders):
        for src in ([fe["file"]] if "file" in fe else [m["src"] for m in order if m["eligible"]]):
            asgs += effective(src)
    asgs += [tuple(x) for x in stack["keyring"] + stack["overrides"]]
    last = {}
    for s, k, v in asgs:
        last[(s, k)] = v
    watched = [(sc.name, k) for sc in exts for k in KEYS] + [("audio", "mixer"), ("audio", "output")]
    chk.dist("load:validated-probe")
    for s, k in watched:
        if (s, k) not in last:
            continue
        try:
            want = T.String(optional=True).deserialize(last[(s, k)])
        except ValueError:
            want = None
        got = cfg.get(s, {}).get(k, "<absent>")
        if got != want:
            variants = sorted({k2 for (s2, k2) in last if s2 == s and k2 != k and k2.lower() == k.lower()})
            chk.monitor_failure("validated_last_setter", {"call": "load"},
                                f"validated {s}/{k} is {got!r}, its last setter says {want!r}"
                                + (f" (other spellings set in this stack: {variants})" if variants else ""), case)
            return


def reload_probe(chk, stack, mat, via_load, rng, case, builders, kept, extra, preset=None):
    """Second load in the same process after the files were edited in place: the result must be
    that of the files as they are now (judged by the model / last_setter_holds like any other
    case, and compared with a load of the same contents from fresh paths)."""
    s2 = preset or edited_stack(stack, rng)
    mat.rewrite(s2)
    _m, out2 = run_load(s2, via_load, mat=mat)
    case2 = {**case, "reload": s2}
    chk.count(1, nontrivial_key=json.dumps(s2, sort_keys=True))
    chk.dist("load:reload-after-edit")
    if out2[0] == "raise":
        chk.monitor_failure("load_total", {"call": "_load", "exception": out2[1], "cause": "reload"},
                            f"{out2[1]} escaped the second load after the files were edited", case2)
        if out2[1] not in ("DuplicateError", "DecodeError"):
            return
    mat3, out3 = run_load(s2, via_load)
    try:
        same_order = ([[m["name"] for m in o] if o else None for o in mat.dir_orders]
                      == [[m["name"] for m in o] if o else None for o in mat3.dir_orders])
    finally:
        mat3.close()
    if same_order and out2 != out3:
        chk.monitor_failure("reload_sees_current_files", {"call": "_load"},
                            "a second load in the same process, after the config files were edited in place, does not "
                            "give the values the files hold now (differs from loading the same contents from fresh paths)",
                            case2)
    kept.append(case2)
    snap = snapshot(mat)
    builders.append(lambda I, s2=s2, snap=snap, out2=out2, extra=extra:
                    (g_stack(s2, snap, out2, I, extra), g_fs_case(s2, snap, out2, I, extra)))


def frame_probe(chk, stack, mat, out, rng, via_load, case, all_asg):
    s, k = rng.choice(all_asg)[:2]

    def keep(ln, cur):
        return ln[0] != "O" or (cur == s and ln[1] == k) or rng.random() < 0.5

    def filt(lines):
        cur, res = None, []
        for ln in lines:
            if ln[0] == "H":
                cur = ln[1]
                res.append(ln)
            elif keep(ln, cur):
                res.append(ln)
        if lines and lines[0][0] != "H":
            return list(lines)
        return res

    s2 = json.loads(json.dumps(stack))
    s2["defaults"] = [filt([tuple(x) for x in d]) for d in s2["defaults"]]
    for fe in s2["files"]:
        for src in ([fe["file"]] if "file" in fe else [m["src"] for m in fe["dir"]]):
            src["lines"] = filt([tuple(x) for x in src["lines"]])
    s2["overrides"] = [o for o in s2["overrides"] if (o[0] == s and o[1] == k) or rng.random() < 0.5]
    s2.pop("override_texts", None)
    s2["keyring"] = [o for o in s2["keyring"] if (o[0] == s and o[1] == k) or rng.random() < 0.5]
    mat2, out2 = run_load(s2, via_load)
    same_order = mat2.dir_orders is not None
    try:
        # directory member order is whatever the file system gives: compare only when equal
        names1 = [[m["name"] for m in o] if o else None for o in mat.dir_orders]
        names2 = [[m["name"] for m in o] if o else None for o in mat2.dir_orders]
        same_order = names1 == names2
    finally:
        mat2.close()
    if out2[0] != "ok" or not same_order:
        return
    v1 = out[1].get(s, {}).get(k)
    v2 = out2[1].get(s, {}).get(k)
    if v1 != v2:
        chk.monitor_failure("frame", {"call": "_load"},
                            f"value of {s}/{k} changed ({v1!r} -> {v2!r}) when only other keys' assignments were removed",
                            {**case, "other": s2, "key": [s, k]})


def run(chk):
    chk.rule = ("source stacks (defaults, files/directories with faults, keyring, overrides) rendered to real files; "
                "non-trivial = at least two file entries and at least one key set by more than one assignment; "
                "distinct by abstract stack")
    chk.trusted_base = [
        "Coq 8.16.1 kernel + vm_compute (no native_compute)",
        "harness/c14.py: stack generator, INI renderer (cross-checked against configparser: corr:render), "
        "fault injection (os.access / Path.open), Gallina emitter",
        "configparser as the line-level parser (oracle), pathlib.iterdir order read back from the scratch directory",
    ]
    chk.assumptions = [
        "built-in and extension default strings are well-formed INI (read_string on them is not guarded by the code)",
        "no section is named DEFAULT (configparser's inheritance section)",
        "config file paths are expandable paths (a --config argument like ~nosuchuser/x is outside this property)",
        "empty sections are not observed; bytes from the keyring are compared after surrogateescape decoding",
    ]
    chk.replay_case = None
    if chk.replay:
        data = json.loads(pathlib.Path(chk.replay).read_text())
        c = data.get("case") or (data.get("correspondence_failures") or [{}])[0].get("case")
        chk.replay_case = c if isinstance(c, dict) and "stack" in c else None
    chk.proof_stage(PROP_FILES, thorough_coqchk=(chk.tier == "thorough"))
    vlib.setup_impl()
    import logging

    logging.disable(logging.CRITICAL)
    RENDERED.clear()
    OVERRIDE_TEXTS.clear()
    load_stage(chk)
    if not chk.replay_case:
        ini_stage(chk, RENDERED)
        override_stage(chk, OVERRIDE_TEXTS)
    if not chk.replay_case or chk.replay_case.get("stage") == "keyring":
        keyring_stage(chk)
