"""Child driver for the Files area (C11, C19): performs ONE file-replacing action of the
real implementation inside a freshly forked process, bracketed by marker system calls, so
that `strace -f` sees exactly the calls of that action and strace's per-tracee fault
injection counters start at the fork.

usage: python files_child.py <spec.json>        (PYTHONPATH = repo/src : fakegi : harness)

The driver (this process, untraced) prepares everything, forks the child, which blocks on
a pipe; the driver attaches `strace -f -p <child> <spec["strace"]...>`, waits until
/proc/<child>/status shows the tracer and only then releases the child.

spec: {"action": "dump" | "teardown" | "m3u_save" | "m3u_create",
       "dir": <absolute directory that is watched>, ...action specific...}
Prints one JSON line {"exit": code | null, "signal": n | null}.
Exit code of the forked child: 0 returned normally, 3 raised OSError, 4 raised another
exception, 5 returned None where a value signals a logged failure (m3u).
"""
import json
import os
import pathlib
import sys
import tempfile


def mark(name):
    try:
        os.unlink("/nonexistent-verif/" + name)
    except OSError:
        pass


def make_state(n, salt):
    import hashlib

    from mopidy.internal.models import CoreState, StoredState, TracklistState
    from mopidy.models import TlTrack, Track

    def h(i):
        return hashlib.sha256(f"{salt}:{i}".encode()).hexdigest()

    tl = tuple(
        TlTrack(tlid=i + 1, track=Track(uri=f"dummy:{h(i)}", name=f"track {i} {h(i)[:6]}"))
        for i in range(n)
    )
    return StoredState(
        version="verif", state=CoreState(tracklist=TracklistState(tl_tracks=tl, next_tlid=n + 1))
    )


def make_playlist(spec):
    from mopidy.models import Playlist, Track

    tracks = tuple(Track(uri=u, name=nm) for u, nm in spec["tracks"])
    return Playlist(uri=spec["uri"], name=spec.get("name"), tracks=tracks)


def make_provider(spec, directory):
    from mopidy.m3u.playlists import M3UPlaylistsProvider

    cfg = {
        "m3u": {
            "playlists_dir": str(directory),
            "base_dir": spec.get("base_dir") or str(directory),
            "default_encoding": spec.get("encoding", "latin-1"),
            "default_extension": spec.get("ext", ".m3u8"),
        },
        "core": {"data_dir": str(directory)},
    }
    return M3UPlaylistsProvider(backend=None, config=cfg)


def build(spec, directory):
    """Return a zero-argument callable performing the action on `directory`."""
    action = spec["action"]
    if action == "dump":
        from mopidy.internal import storage

        state = make_state(spec["n"], spec.get("salt", 0))
        target = pathlib.Path(directory) / spec.get("name", "state.json.gz")
        return lambda: storage.dump(target, state) or True
    if action == "teardown":
        from mopidy.core import Core

        cfg = {"core": {"max_tracklist_length": 10000, "restore_state": True,
                        "data_dir": str(pathlib.Path(directory).parent)}}
        core = Core(config=cfg, mixer=None, backends=[])
        return lambda: core._teardown() or True
    if action == "m3u_save":
        provider = make_provider(spec, directory)
        playlist = make_playlist(spec)
        return lambda: provider.save(playlist)
    if action == "m3u_create":
        provider = make_provider(spec, directory)
        return lambda: provider.create(spec["name"])
    raise SystemExit(f"unknown action {action}")


def main():
    spec = json.loads(pathlib.Path(sys.argv[1]).read_text())
    import mopidy

    want = os.environ.get("VERIF_EXPECT_SRC")
    if want and not str(pathlib.Path(mopidy.__file__).resolve()).startswith(want):
        raise SystemExit(f"mopidy imported from {mopidy.__file__}, expected {want}")
    # warm-up in a scratch directory: lazy imports, codec lookups etc. happen here, not
    # inside the traced action
    warm = tempfile.mkdtemp(prefix="verif-warm-")
    try:
        wd = pathlib.Path(warm) / "core"
        wd.mkdir()
        try:
            build(dict(spec, uri=spec.get("warm_uri", spec.get("uri"))), wd)()
        except Exception:  # noqa: BLE001
            pass
    finally:
        import shutil

        shutil.rmtree(warm, ignore_errors=True)
    run = build(spec, spec["dir"])
    os.chdir("/")
    sys.stdout.flush()
    rfd, wfd = os.pipe()
    pid = os.fork()
    if pid == 0:
        code = 4
        try:
            # no traced system call before the tracer is attached: strace's injection counters are
            # per call name from the moment of attaching, so a close() racing with the attach would
            # shift every later close ordinal by one (seen under heavy load)
            os.read(rfd, 1)  # wait until the tracer is attached
            os.close(wfd)
            os.close(rfd)
            mark("BEGIN")
            try:
                r = run()
                code = 0 if r is not None else 5
            except OSError:
                code = 3
            except BaseException:  # noqa: BLE001
                code = 4
            # let garbage collection flush/close whatever the action left open, as it
            # would happen in the long-running server
            import gc

            gc.collect()
            mark("END")
        finally:
            os._exit(code)
    os.close(rfd)
    import subprocess
    import time

    tracer = None
    if spec.get("strace"):
        tracer = subprocess.Popen(["strace", "-f", "-p", str(pid), *spec["strace"]],
                                  stdout=subprocess.DEVNULL, stderr=subprocess.PIPE)
        deadline = time.time() + 20
        attached = False
        while time.time() < deadline:
            try:
                txt = pathlib.Path(f"/proc/{pid}/status").read_text()
            except OSError:
                break
            m = [ln for ln in txt.splitlines() if ln.startswith("TracerPid:")]
            if m and int(m[0].split()[1]) != 0:
                attached = True
                break
            if tracer.poll() is not None:
                break
            time.sleep(0.002)
        if not attached:
            os.kill(pid, 9)
            os.waitpid(pid, 0)
            err = tracer.stderr.read().decode(errors="replace") if tracer.poll() is not None else ""
            tracer.kill()
            print(json.dumps({"exit": None, "signal": None, "error": "strace did not attach: " + err[-300:]}))
            return
    os.write(wfd, b"x")
    os.close(wfd)
    _, status = os.waitpid(pid, 0)
    if tracer is not None:
        try:
            tracer.wait(timeout=30)
        except subprocess.TimeoutExpired:
            tracer.kill()
    out = {"exit": os.WEXITSTATUS(status) if os.WIFEXITED(status) else None,
           "signal": os.WTERMSIG(status) if os.WIFSIGNALED(status) else None}
    print(json.dumps(out))


if __name__ == "__main__":
    main()
