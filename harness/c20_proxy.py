"""C20 stage G: _unwrap_stream over the REAL requests session that
mopidy.internal.http.get_requests_session builds, with and without a [proxy] section, when
connection attempts are refused or hang.

Nothing touches the network: urllib3.util.connection.create_connection is replaced by a
scripted stand-in that records every connection attempt (address, allowed time) and either
refuses at once or uses up the whole time it was allowed - in VIRTUAL time: the loop's clock
(mopidy.stream.actor.time) is the tick clock of c20_unwrap, advanced by the stand-in.
Monitors: each URI the loop downloads costs exactly one connection attempt (no URI is
fetched twice, whatever the session's adapters do), every attempt is allowed no more than
the time left, and the whole unwrapping ends within the configured timeout.
"""

import socket

from common import vlib

import c20_parse
import c20_unwrap as U

AREA = "Untrusted"

PROXIES = [
    {},
    {"hostname": None},
    {"scheme": "http", "hostname": "proxy.example.com", "port": 3128},
    {"scheme": "http", "hostname": "proxy.example.com", "port": 3128, "username": "u", "password": "p"},
    {"hostname": "10.0.0.1"},
    {"scheme": "https", "hostname": "secure-proxy.example.com", "port": 443},
]


class Net:
    """Scripted transport: connection attempts fail as scripted, in virtual time."""

    def __init__(self, clock, mode):
        self.clock, self.mode = clock, mode
        self.attempts = []  # (host, port, allowed seconds, virtual time when attempted)

    def create_connection(self, address, timeout=None, *_a, **_k):
        self.attempts.append((address[0], address[1], timeout, self.clock.now()))
        if len(self.attempts) > 50:
            raise c20_parse.Diverged
        mode = self.mode if self.mode != "mixed" else ("hang" if len(self.attempts) % 2 else "refuse")
        if mode == "hang":
            # a proxy / host that swallows SYN packets: the attempt uses up all it was allowed
            if isinstance(timeout, (int, float)):
                self.clock.add(int(round(timeout * U.TICKS)))
            raise socket.timeout("timed out")
        raise ConnectionRefusedError(111, "Connection refused")


def gen_case(rng):
    timeout = rng.choice([50, 410, 1024, 5120])  # ticks
    return {"proxy": rng.choice(PROXIES), "mode": rng.choice(["hang", "hang", "refuse", "mixed"]), "timeout": timeout,
            "uri": rng.choice(["http://radio.example.com/listen.m3u", "https://radio.example.com/l.pls", "http://10.1.2.3:8000/stream"]),
            "scan": rng.choice([("error",), ("result", False, "text/plain"), ("result", False, None)]),
            "t0": rng.choice([0, 1000, 1700000000 * U.TICKS])}


def run_impl(actor, http, case):
    import urllib3.util.connection as conn

    clock = U.FakeClock([case["t0"]] * 8, [0])
    world = U.World({case["uri"]: {"scan": case["scan"], "get": ("error",)}}, clock, None)  # scanner only
    session = http.get_requests_session(proxy_config=case["proxy"], user_agent="verif/1.0")
    session.trust_env = False  # no proxies / netrc from the environment
    net = Net(clock, case["mode"])
    old_t, old_c = actor.time, conn.create_connection
    actor.time, conn.create_connection = clock, net.create_connection
    try:
        try:
            r = actor._unwrap_stream(case["uri"], timeout=case["timeout"] * 1000 / U.TICKS, scanner=world, requests_session=session)  # noqa: SLF001
            obs = ("ok", r)
        except c20_parse.Diverged:
            obs = ("raise", "DidNotTerminate")
        except Exception as exc:  # noqa: BLE001
            obs = ("raise", type(exc).__name__)
    finally:
        actor.time, conn.create_connection = old_t, old_c
        session.close()
    case["obs"], case["attempts"], case["elapsed"] = obs, net.attempts, clock.now() - case["t0"]
    case["scans"] = [t for t in world.trace if t[0] == "scan"]
    return case


def monitors(chk, c):
    meta = {"proxy": {k: v for k, v in c["proxy"].items() if k != "password"}, "mode": c["mode"], "timeout_ticks": c["timeout"], "uri": c["uri"],
            "attempts": [(h, p, None if t is None else round(t * U.TICKS), at - c["t0"]) for h, p, t, at in c["attempts"]],
            "elapsed_ticks": c["elapsed"], "result": repr(c["obs"][1])}
    proxied = bool(c["proxy"].get("hostname"))
    key = {"call": "_unwrap_stream", "proxy": proxied}
    if c["obs"][0] == "raise":
        chk.monitor_failure("unwrap_total", {**key, "exc": c["obs"][1]}, f"_unwrap_stream raised {c['obs'][1]} with a failing connection", meta)
        return
    if c["obs"][1] != (None, None):
        chk.monitor_failure("unwrap_total", {**key, "exc": "bad-result"}, "a URI that cannot be connected to yielded a stream", meta)
    if len(c["attempts"]) != 1:
        chk.monitor_failure("fetch_once", {**key, "kind": "connection-attempts"},
                            f"one playlist URI cost {len(c['attempts'])} connection attempts instead of one", meta)
    deadline = c["t0"] + c["timeout"]
    for _h, _p, allowed, at in c["attempts"]:
        if allowed is None or at > deadline or round(allowed * U.TICKS) > deadline - at:
            chk.monitor_failure("deadline_respected", {**key, "kind": "connect"},
                                "a connection attempt was started after the configured timeout had elapsed or was allowed more than the time left", meta)
            break
    if c["elapsed"] > c["timeout"]:
        chk.monitor_failure("deadline_respected", {**key, "kind": "total"},
                            f"unwrapping one unreachable URI took {c['elapsed']} ticks with a timeout of {c['timeout']} ticks", meta)


def run(chk, _fx=None):
    vlib.setup_impl()
    from mopidy.internal import http
    from mopidy.stream import actor

    n = 150 if chk.tier == "quick" else 1500
    rng = vlib.Rng(chk.seed, "C20-proxy")
    corpus = [{"proxy": p, "mode": m, "timeout": 410, "uri": "http://radio.example.com/listen.m3u", "scan": ("result", False, "text/plain"), "t0": 0}
              for p in PROXIES for m in ("hang", "refuse")]
    for c in corpus + [gen_case(rng) for _ in range(n)]:
        run_impl(actor, http, c)
        monitors(chk, c)
        chk.count(1, nontrivial_key=(repr(c["proxy"]), c["mode"], c["timeout"], c["uri"]) if c["proxy"].get("hostname") else None)
        chk.dist(f"proxy:configured={bool(c['proxy'].get('hostname'))}")
        chk.dist(f"proxy:connect={c['mode']}")
    chk.obligation("monitor:proxy-connect", "monitor", True)
