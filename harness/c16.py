"""C16 - local backends never leave their configured directories.

Real M3UPlaylistsProvider / FileLibraryProvider on real temporary trees (inside/ next to
outside/, nested directories, dotfiles, symlinks in both directions, dangling links) against
the tree model coq/Files/Fs.v:

* guard:   path.is_path_inside_base_dir and provider._is_in_basedir  ==  inside_base / m3u_guard
* touches: every open/unlink/rename/mkstemp/listdir the provider performs (recorded by
           wrapping the os-level functions) is among the directory entries the model predicts
* browse:  result list == model `browse` for all settings combinations
Monitors (the property on the real run): every touched entry lies inside the resolved
playlists directory; the whole tree outside the playlists directory is byte-identical after
every call; no result carries content of an outside file; browse results resolve inside a
media directory and honour the dotfile / extension / symlink settings.
"""
from __future__ import annotations

import builtins
import io
import json
import os
import shutil
import tempfile
import urllib.parse
from pathlib import Path, PurePosixPath

from common import vlib
from common.vlib import g_bool, g_list, g_opt, g_str, g_z

AREA = "Files"
PROP_FILES = ["Property_C16.v"]
CORPUS = vlib.VERIF / "corpus" / "C16"
COQ_IMPORTS = (vlib.COQ_HEADER + "From Common Require Import Str Res Cases.\n"
               "From Files Require Import M3u Fs.\n")
SECRET = "OUTSIDE-SECRET"


def g_name(b):
    return g_list([g_z(x) for x in b])


def g_path(comps):
    return g_list([g_name(c) for c in comps])


# ---------------------------------------------------------------------------- trees

FILE_NAMES = ["a.m3u8", "b.m3u", "song.mp3", "notes.txt", "cover.JPG", "pic.Png", "x.log", ".hidden.m3u8", ".dot",
              "noext", "ünï.m3u8", "sp ace.m3u8", "UP.M3U8", "d.ot.ted.m3u8", "t.ZIP", "q.html", "trailing."]
DIR_NAMES = ["sub", "deep", ".hid", "Sub2", "mus ic", "é"]


def gen_dir(rng, depth, where, counter):
    """-> dict name -> ('F', content) | ('D', dict) | ('L', target-string)"""
    d = {}
    for _ in range(rng.randint(1, 5)):
        n = rng.choice(FILE_NAMES)
        counter[0] += 1
        d[n] = ("F", f"dummy:{SECRET if where == 'outside' else 'inside'}-{counter[0]}\n")
    if depth < 2:
        for _ in range(rng.randint(0, 2)):
            d[rng.choice(DIR_NAMES)] = ("D", gen_dir(rng, depth + 1, where, counter))
    return d


def all_paths(d, prefix):
    out = []
    for n, v in d.items():
        out.append((prefix + [n], v[0]))
        if v[0] == "D":
            out += all_paths(v[1], prefix + [n])
    return out


def gen_tree(rng, root):
    counter = [0]
    tree = {"inside": ("D", gen_dir(rng, 0, "inside", counter)),
            "outside": ("D", gen_dir(rng, 0, "outside", counter))}
    if rng.random() < 0.4:
        tree["inside2"] = ("D", gen_dir(rng, 1, "inside", counter))
    ins = all_paths(tree["inside"][1], ["inside"]) + [(["inside"], "D")]
    outs = all_paths(tree["outside"][1], ["outside"]) + [(["outside"], "D")]

    def add_link(where_paths, name, target_comps, from_dir):
        style = rng.random()
        if style < 0.5:
            tgt = str(root) + "/" + "/".join(target_comps)
        else:
            tgt = "/".join([".."] * len(from_dir) + target_comps)
        node = tree
        for c in from_dir:
            node = node[c][1]
        node[name] = ("L", tgt)

    def pick_dir(paths):
        return rng.choice([p for p, k in paths if k == "D"])

    for _ in range(rng.randint(1, 5)):
        kind = rng.weighted([("in->out", 3), ("in->in", 2), ("out->in", 3), ("dangling", 1), ("dangling-creatable", 2.5), ("in->..", 1),
                             ("loop", 0.15), ("out->out", 0.5), ("chain", 0.7)])
        nm = rng.choice(["lnk.m3u8", "link", "l2.m3u8", "ldir", ".lnk", "L.MP3"])
        if kind == "in->out":
            add_link(ins, nm, rng.choice(outs)[0], pick_dir(ins))
        elif kind == "in->in":
            add_link(ins, nm, rng.choice(ins)[0], pick_dir(ins))
        elif kind == "out->in":
            add_link(outs, nm, rng.choice(ins)[0], pick_dir(outs))
        elif kind == "out->out":
            add_link(outs, nm, rng.choice(outs)[0], pick_dir(outs))
        elif kind == "dangling":
            add_link(ins, nm, ["outside", "nope", "gone.m3u8"], pick_dir(ins))
        elif kind == "dangling-creatable":
            # the target does not exist but its directory does: whoever writes THROUGH the link creates it
            add_link(ins, rng.choice(["dang.m3u8", "lnk.m3u8", "fresh.m3u8"]), ["outside", f"made-via-link-{counter[0]}.m3u8"],
                     rng.choice([["inside"], pick_dir(ins)]))
        elif kind == "in->..":
            dd = pick_dir(ins)
            node = tree
            for c in dd:
                node = node[c][1]
            node[nm] = ("L", "..")
        elif kind == "chain":
            dd = pick_dir(ins)
            node = tree
            for c in dd:
                node = node[c][1]
            node["c1"] = ("L", "c2")
            node["c2"] = ("L", str(root) + "/" + "/".join(rng.choice(outs + ins)[0]))
        else:
            dd = pick_dir(ins)
            node = tree
            for c in dd:
                node = node[c][1]
            node["loopA"] = ("L", "loopB")
            node["loopB"] = ("L", "loopA")
    return tree


def build(tree, at):
    for n, v in tree.items():
        p = os.path.join(at, n)
        if v[0] == "F":
            with open(p, "w", encoding="utf-8") as fh:
                fh.write(v[1])
        elif v[0] == "D":
            os.mkdir(p)
            build(v[1], p)
        else:
            os.symlink(v[1], p)


def rebuild(tree, root):
    for n in os.listdir(root):
        p = os.path.join(root, n)
        if os.path.isdir(p) and not os.path.islink(p):
            shutil.rmtree(p)
        else:
            os.unlink(p)
    build(tree, str(root))


def snapshot(at):
    out = {}
    for dp, dns, fns in os.walk(at, followlinks=False):
        for n in dns + fns:
            p = os.path.join(dp, n)
            rel = os.path.relpath(p, at)
            if os.path.islink(p):
                out[rel] = "->" + os.readlink(p)
            elif os.path.isdir(p):
                out[rel] = "<dir>"
            else:
                with open(p, "rb") as fh:
                    out[rel] = fh.read()
    return out


def g_node(v):
    if v[0] == "F":
        return "F"
    if v[0] == "D":
        return "D " + g_list([f"({g_name(os.fsencode(n))}, {g_node(x)})" for n, x in v[1].items()])
    t = os.fsencode(v[1])
    comps = t.split(b"/")
    if t.startswith(b"/"):
        return f"L {g_path([c for c in comps if c])} true"
    return f"L {g_path(comps)} false"


def g_fs(tree, root):
    """model root = real '/': wrap the tree in the components of the scratch root"""
    term = "D " + g_list([f"({g_name(os.fsencode(n))}, {g_node(x)})" for n, x in tree.items()])
    for c in reversed([c for c in os.fsencode(str(root)).split(b"/") if c]):
        term = f"D [({g_name(c)}, {term})]"
    return term


def comps_of(p):
    return [c for c in os.fsencode(str(p)).split(b"/") if c]


# ---------------------------------------------------------------------------- recording


class Recorder:
    """Wrap the os-level functions the providers use; record (kind, resolved entry)."""

    NAMES = [("os", "unlink"), ("os", "remove"), ("os", "rename"), ("os", "replace"), ("os", "rmdir"),
             ("os", "mkdir"), ("os", "listdir"), ("os", "scandir"), ("os", "open"), ("os", "symlink"), ("os", "link"),
             ("io", "open"), ("builtins", "open"), ("tempfile", "mkstemp")]

    def __init__(self):
        self.touches = []
        self.effects = set()    # touches whose call returned without an exception
        self.temps = set()      # entries of the temporary files mkstemp created
        self.saved = {}

    def _entry(self, p):
        p = os.fsencode(os.fspath(p))
        d, b = os.path.split(p.rstrip(b"/") if p != b"/" else p)
        return os.path.realpath(d or b"."), b

    def __enter__(self):
        mods = {"os": os, "io": io, "builtins": builtins, "tempfile": tempfile}
        rec = self

        def wrap(modname, fname, orig):
            def f(*a, **k):
                mark = len(rec.touches)
                try:
                    if fname in ("unlink", "remove", "rmdir", "mkdir"):
                        rec.touches.append(("entry",) + rec._entry(a[0]))
                    elif fname in ("rename", "replace", "link"):
                        rec.touches.append(("entry",) + rec._entry(a[0]))
                        rec.touches.append(("entry",) + rec._entry(a[1]))
                    elif fname == "symlink":
                        rec.touches.append(("entry",) + rec._entry(a[1]))
                    elif fname in ("listdir", "scandir"):
                        rec.touches.append(("list", os.path.realpath(os.fsencode(os.fspath(a[0] if a else "."))), b""))
                    elif fname == "mkstemp":
                        d = k.get("dir") if "dir" in k else (a[2] if len(a) > 2 else None)
                        # tempfile normalises `dir` lexically (os.path.abspath) before creating the file
                        rec.touches.append(("create", os.path.realpath(os.path.abspath(
                            os.fsencode(os.fspath(d or tempfile.gettempdir())))), b""))
                    elif fname == "open" and not isinstance(a[0], int):
                        mode = k.get("mode", a[1] if len(a) > 1 else "r")
                        flags = a[1] if modname == "os" and len(a) > 1 else 0
                        writing = (isinstance(mode, str) and any(c in mode for c in "wax+")) or \
                                  (modname == "os" and flags & (os.O_WRONLY | os.O_RDWR | os.O_CREAT))
                        if writing:
                            rec.touches.append(("entry",) + rec._entry(a[0]))
                        else:
                            rec.touches.append(("read", os.path.realpath(os.fsencode(os.fspath(a[0]))), b""))
                except (ValueError, TypeError):
                    pass
                n_before = mark
                r = orig(*a, **k)
                # the call succeeded: what it touched is an EFFECT (a failed call changes nothing)
                rec.effects.update(rec.touches[n_before:])
                if fname == "mkstemp":
                    rec.temps.add(rec._entry(r[1]))
                return r
            return f

        for modname, fname in self.NAMES:
            mod = mods[modname]
            orig = getattr(mod, fname)
            self.saved[(modname, fname)] = orig
            setattr(mod, fname, wrap(modname, fname, orig))
        return self

    def __exit__(self, *exc):
        mods = {"os": os, "io": io, "builtins": builtins, "tempfile": tempfile}
        for (modname, fname), orig in self.saved.items():
            setattr(mods[modname], fname, orig)
        return False


def g_touch(t):
    kind, d, b = t
    dc = g_path([c for c in d.split(b"/") if c])
    if kind == "entry":
        return f"TEntry {dc} {g_name(b)}"
    if kind == "create":
        return f"TCreateIn {dc}"
    if kind == "read":
        return f"TRead {dc}"
    return f"TList {dc}"


# ---------------------------------------------------------------------------- inputs


def gen_upaths(rng, tree, root):
    """strings as urlsplit(uri).path would deliver them (still percent-encoded)"""
    q = urllib.parse.quote
    ins = all_paths(tree["inside"][1], [])
    outs = all_paths(tree["outside"][1], [])
    R = str(root)
    cands = ["", ".", "..", "../outside", "sub/..", "sub/../..", "x/../../outside/a.m3u8", q(R + "/inside"), q(R + "/outside"),
             q(R), "/", "/etc/passwd", "new.m3u8", "sub/new.m3u8", "%2e%2e/outside/a.m3u8", "%2e%2e%2foutside%2fa.m3u8",
             "..%2Foutside", "a%00b.m3u8", "L" * 300 + ".m3u8", "sub/" + "L" * 260, "//inside/a.m3u8", "a.m3u8/",
             "a.m3u8/x", "./a.m3u8", "ünï.m3u8", "%FF%FE.m3u8", "a.m3u8%2F..%2F..%2Foutside", q(R + "/inside/../outside/a.m3u8"),
             q(R + "/outside/../inside/a.m3u8"), "link/..", "ldir/../a.m3u8", "nonexistent/../../outside/x.m3u8",
             "foo", "noext", "sub/foo", ".foo", "foo.", "Sub2/bar", q(R + "/inside/foo")]
    for p, k in ins:
        cands.append(q("/".join(p)))
        if rng.random() < 0.3:
            cands.append(q(R + "/inside/" + "/".join(p)))
        if k in ("D", "L"):
            cands.append(q("/".join(p)) + "/" + rng.choice(["a.m3u8", "new.m3u8", "..", "../../outside/a.m3u8", "secret.m3u8"]))
        if k == "L":
            # a link placed inside: lexical and physical ".." disagree behind it
            cands.append(q("/".join(p)) + "/../../lex.m3u8")
            cands.append(q("/".join(p)) + "/../lex.m3u8")
    for p, k in outs:
        if rng.random() < 0.6:
            cands.append(q(R + "/outside/" + "/".join(p)))
        if rng.random() < 0.5:
            cands.append("../outside/" + q("/".join(p)))
        if k in ("D", "L") and rng.random() < 0.7:
            cands.append(q(R + "/outside/" + "/".join(p)) + "/" + rng.choice(["a.m3u8", "new.m3u8", ".."]))
    rng.shuffle(cands)
    return cands


# compatibility characters that become '/', '.', '..', '\\', blanks or ASCII under NFKC/NFKD (and
# precomposed/decomposed pairs for NFC/NFD): a file name must be taken as it is, never re-spelled
UNICODE_NAMES = ["\u2024\u2024\uff0foutside\uff0fmoved", "\uff0e\uff0e\uff0f\uff0e\uff0e\uff0fx", "a\uff0fb", "\u2024\u2024",
                 "\uff0e\uff0e", "\uff0e", "\u2024", "\ufe52\ufe52\uff0fx", "\uff3cback\uff3c", "\u3000", "\u00a0", "\u3000x\u3000",
                 "sub\uff0fnew", "\uff0fabs", "\u2025\uff0foutside\uff0fy", "cafe\u0301", "caf\u00e9", "\u212b", "\ufb01", "\uff11",
                 "\u2215x", "\u2044y", "\u2400"]
CREATE_NAMES = UNICODE_NAMES + ["dang", "dang", "fresh", "lnk", "new", "a/b", "..", ".", " ", "../x", "/abs", "lnk", "l2", "link", "ldir", "c1", "a", "b", "sp ace", "ünï",
                "x" * 300, "nul\x00byte", "a.m3u8", ".hidden", "sub"]
RENAME_NAMES = UNICODE_NAMES + ["Re/named", "Re/named", "plain", "..", " .. ", ".", " . ", "../x", "../../x", "/etc/x", "..|..",
                "outside", "../outside", "a.b", " ", "sub", "x" * 300]


def oracle_upath(raw):
    try:
        return urllib.parse.urlsplit("m3u:" + raw).path
    except ValueError:
        return None


# ---------------------------------------------------------------------------- M3U stage


def exc_code(e):
    if isinstance(e, RuntimeError):
        return 1
    if isinstance(e, OSError):
        return 2
    if isinstance(e, ValueError):
        return 3
    if type(e).__name__ == "BackendError":
        return 4
    return 9


def m3u_stage(chk):
    import files_child
    from mopidy.internal import path as mpath
    from mopidy.models import Playlist, Track

    quick = chk.tier == "quick"
    n_trees = 40 if quick else 400
    per_tree = 30 if quick else 60
    guard_cases, guard_meta = [], []
    op_cases, op_meta = [], []
    for ti in range(n_trees):
        rng = chk.rng
        root = Path(os.path.realpath(tempfile.mkdtemp(prefix="verif-c16-")))
        try:
            tree = gen_tree(rng, root)
            build(tree, str(root))
            base = root / "inside"
            # m3u/base_dir (where relative track paths inside playlists are looked up; the shipped
            # default is the music directory) is NOT a place for playlists: configure it to
            # something else than the playlists dir in most runs
            base_dir_cfg = rng.choice([None, root / "outside", root / "outside", root, root / "outside" / "sub"])
            chk.dist("m3u:base_dir=" + ("playlists_dir" if base_dir_cfg is None else
                                         "<R>/" + str(base_dir_cfg.relative_to(root)) if base_dir_cfg != root else "<R>"))
            provider = files_child.make_provider({"ext": ".m3u8", "base_dir": None if base_dir_cfg is None else str(base_dir_cfg)}, base)
            fs_name = f"fs{ti}"
            fs_term = g_fs(tree, root)
            base_c = g_path(comps_of(base))
            ups = gen_upaths(rng, tree, root)[:per_tree]
            this_guard, this_ops = [], []
            for raw in ups:
                upath = oracle_upath(raw)
                if upath is None:
                    continue
                uri = "m3u:" + raw
                p = mpath.uri_to_path(uri)
                # --- guard correspondence (read-only)
                try:
                    g = provider._is_in_basedir(p)
                    gcode = 10 if g else 11
                except Exception as e:  # noqa: BLE001
                    gcode = exc_code(e)
                ap = p if p.is_absolute() else base / p
                try:
                    g2 = mpath.is_path_inside_base_dir(ap, base)
                    g2code = 10 if g2 else 11
                except Exception as e:  # noqa: BLE001
                    g2code = exc_code(e)
                this_guard.append(f"({g_str(upath)}, {gcode}, {g2code})")
                guard_meta.append({"tree": ti, "uri": uri, "guard": gcode, "inside_base": g2code})
                chk.count(1, nontrivial_key=("g", ti, raw) if ("%" in raw or ".." in raw or raw.startswith("/") or gcode != 10) else None)
                chk.dist({10: "guard:inside", 11: "guard:refused"}.get(gcode, "guard:raises"))
                # --- operations
                op = rng.choice(["delete", "lookup", "get_items", "save", "save_rename", "save_rename", "create", "as_list"])
                create_name = rng.choice(CREATE_NAMES + [PurePosixPath(n).stem for n in tree["inside"][1]])
                # the new name of a renaming save: ordinary, with separators, '.', '..' (they
                # survive path_from_name when the URI has no extension), names of existing
                # directories, blank-ish
                new_name = rng.choice(RENAME_NAMES + [n for n in tree["inside"][1] if tree["inside"][1][n][0] == "D"])
                pure = PurePosixPath(os.fsdecode(os.fsencode(str(p))))
                if pure.suffix == "" and pure.name not in ("", "..") and rng.random() < 0.6:
                    # no extension: nothing is appended to the new name, so '.', '..' survive
                    op = "save_rename"
                    if rng.random() < 0.6:
                        new_name = rng.choice(["..", " .. ", ".", " "])
                stripped = new_name.strip().replace("/", "|")
                if op == "save_rename" and new_name == pure.stem:
                    op = "save"
                if op in ("create", "as_list"):
                    # these do not take a URI: classify by the file create() will name
                    cls = (False, False)
                before = snapshot(str(root))
                if op not in ("create", "as_list"):
                    cls = classify_path(p, base)
                extra = "true"
                with Recorder() as rec:
                    try:
                        if op == "delete":
                            res = provider.delete(uri)
                        elif op == "lookup":
                            res = provider.lookup(uri)
                            res = None if res is None else [t.uri for t in res.tracks]
                        elif op == "get_items":
                            res = provider.get_items(uri)
                            res = None if res is None else [t.uri for t in res]
                        elif op == "save":
                            res = provider.save(Playlist(uri=uri, tracks=(Track(uri="dummy:new"),)))
                            res = res and res.uri
                        elif op == "create":
                            res = provider.create(create_name)
                            res = res and res.uri
                        elif op == "as_list":
                            refs = provider.as_list()
                            res = [r.uri for r in refs]
                            names = [os.fsencode(str(mpath.uri_to_path(r.uri))) for r in refs]
                            extra = (f"match m3u_as_list_names fs base with Ok l => same_names l "
                                     f"{g_list([g_name(n) for n in names])} | _ => false end")
                        else:
                            res = provider.save(Playlist(uri=uri, name=new_name, tracks=(Track(uri="dummy:new"),)))
                            res = res and res.uri
                        raised = 0
                    except Exception as e:  # noqa: BLE001
                        res, raised = None, exc_code(e)
                after = snapshot(str(root))
                cdirs = {t[1] for t in rec.touches if t[0] == "create"}
                touches = [t for t in dict.fromkeys(rec.touches)
                           if not (t[0] == "entry" and ((t[1], t[2]) in rec.temps
                                                        or (t[1] in cdirs and t[2].startswith(b"tmp"))))]
                effects = [t for t in touches if t in rec.effects]
                monitors_m3u(chk, op, uri if op not in ("create", "as_list") else f"{op}({create_name!r})", cls, root, base,
                             before, after, effects, res, ti, tree,
                             new_name if op == "save_rename" else None,
                             "playlists_dir" if base_dir_cfg is None else str(base_dir_cfg).replace(str(root), "<R>"))
                mop = {"create": f"m3u_create fs base (create_component {g_name(os.fsencode(create_name.strip()))} "
                                 f"{g_name(b'.m3u8')})",
                       "as_list": "m3u_as_list fs base",
                       "delete": "m3u_delete fs base p", "lookup": "m3u_lookup fs base p", "get_items": "m3u_lookup fs base p",
                       "save": "m3u_save fs base p",
                       "save_rename": f"m3u_rename fs base p {g_name(os.fsencode(stripped + pure.suffix))}"}[op]
                this_ops.append((upath, mop, raised, touches, extra))
                op_meta.append({"tree": ti, "op": op, "uri": uri, "raised": raised, "new_name": new_name if op == "save_rename" else None,
                                "touches": [(k, os.fsdecode(d), os.fsdecode(b)) for k, d, b in touches]})
                chk.dist("op:" + op)
                if op in ("create", "as_list"):
                    chk.dist(f"{op}:" + ({0: "returned", 1: "RuntimeError", 2: "OSError", 3: "ValueError", 4: "BackendError"}.get(raised, "other")
                                         if raised or op == "as_list" else ("created" if res else "None")))
                chk.count(1, nontrivial_key=("o", ti, op, raw) if touches else None)
                if after != before:
                    rebuild(tree, root)
            if ti < 2:
                chk.sample({"tree": sorted("/".join(p) + ("@" if k == "L" else "/" if k == "D" else "") for p, k in all_paths(tree, []))[:14],
                            "uris": ups[:6]})
            guard_cases.append((fs_name, fs_term, base_c, this_guard))
            op_cases.append((fs_name, fs_term, base_c, this_ops))
            # --- sequences on ONE provider with the file system changed in between: a URI is served
            #     while its entry is a regular file inside, then the entry is replaced on disk by a
            #     symbolic link to an outside file and the same provider is asked again
            import copy
            in_files = [pth for pth, k in all_paths(tree["inside"][1], []) if k == "F"]
            out_files = [pth for pth, k in all_paths(tree["outside"][1], []) if k == "F"]
            for k in range(3 if quick else 5):
                if not in_files or not out_files:
                    break
                pth, tgt = rng.choice(in_files), rng.choice(out_files)
                uri = "m3u:" + urllib.parse.quote("/".join(pth))
                upath = oracle_upath(urllib.parse.quote("/".join(pth)))
                for _ in range(2):
                    provider.lookup(uri)
                    provider.get_items(uri)
                tree2 = copy.deepcopy(tree)
                node = tree2["inside"][1]
                for c in pth[:-1]:
                    node = node[c][1]
                node[pth[-1]] = ("L", str(root.joinpath("outside", *tgt)))
                rebuild(tree2, root)
                op = rng.choice(["lookup", "get_items", "get_items", "save", "delete"])
                before = snapshot(str(root))
                cls = classify_path(mpath.uri_to_path(uri), base)
                with Recorder() as rec:
                    try:
                        if op == "lookup":
                            res = provider.lookup(uri)
                            res = None if res is None else [t.uri for t in res.tracks]
                        elif op == "get_items":
                            res = provider.get_items(uri)
                            res = None if res is None else [t.uri for t in res]
                        elif op == "save":
                            res = provider.save(Playlist(uri=uri, tracks=(Track(uri="dummy:new"),)))
                            res = res and res.uri
                        else:
                            res = provider.delete(uri)
                        raised = 0
                    except Exception as e:  # noqa: BLE001
                        res, raised = None, exc_code(e)
                after = snapshot(str(root))
                cdirs = {t[1] for t in rec.touches if t[0] == "create"}
                touches = [t for t in dict.fromkeys(rec.touches)
                           if not (t[0] == "entry" and ((t[1], t[2]) in rec.temps or (t[1] in cdirs and t[2].startswith(b"tmp"))))]
                monitors_m3u(chk, op + "-after-entry-became-link", uri, cls, root, base, before, after,
                             [t for t in touches if t in rec.effects], res, ti, tree2, None,
                             "playlists_dir" if base_dir_cfg is None else str(base_dir_cfg).replace(str(root), "<R>"))
                mop = {"lookup": "m3u_lookup fs base p", "get_items": "m3u_lookup fs base p", "save": "m3u_save fs base p",
                       "delete": "m3u_delete fs base p"}[op]
                op_cases.append((f"fs{ti}s{k}", g_fs(tree2, root), base_c, [(upath, mop, raised, touches, "true")]))
                op_meta.append({"tree": ti, "op": op + "-after-entry-became-link", "uri": uri, "raised": raised, "new_name": None,
                                "touches": [(a, os.fsdecode(d), os.fsdecode(b)) for a, d, b in touches]})
                chk.dist("op:stale-sequence:" + op)
                chk.count(1, nontrivial_key=("seq", ti, k))
                rebuild(tree, root)
        finally:
            shutil.rmtree(root, ignore_errors=True)

    # --- Coq: guard correspondence
    texts, index = [], []
    for group in [guard_cases[i:i + 5] for i in range(0, len(guard_cases), 5)]:
        body, n = [], 0
        defs = ""
        for fs_name, fs_term, base_c, items in group:
            defs += f"Definition {fs_name} : node := {fs_term}.\n"
            body.append(f"map (fun c => let '(u, g, g2) := c in let p := abs_path {base_c} u in "
                        f"(guard_code (m3u_guard {fs_name} {base_c} p) =? 1) || "   # symlink loop: outside the modelled domain
                        f"((guard_code (m3u_guard {fs_name} {base_c} p) =? g) && (guard_code (inside_base {fs_name} {base_c} p) =? g2))) "
                        f"({g_list(items)} : list (str * Z * Z))")
            n += len(items)
        texts.append(COQ_IMPORTS + defs + "Definition oks : list bool := " + " ++ ".join(body) + ".\n"
                     + "Eval vm_compute in mismatches (fun b : bool => b) oks.\n")
        index.append(n)
    ok = True
    pos = 0
    for n, (rc, out) in zip(index, vlib.coq_eval_many(AREA, texts, jobs=14)):
        bad = vlib.parse_nat_list(out)
        if rc != 0 or bad is None:
            ok = False
            chk.corr_failure("guard", {"coq": "evaluation failed"}, out[-1500:])
        else:
            for i in bad:
                ok = False
                chk.corr_failure("guard", guard_meta[pos + i], "model guard differs from _is_in_basedir / is_path_inside_base_dir")
        pos += n
    chk.obligation("corr:guard", "correspondence", ok)

    # --- Coq: touches correspondence
    texts, index = [], []
    for group in [op_cases[i:i + 5] for i in range(0, len(op_cases), 5)]:
        defs, body, n = "", [], 0
        for fs_name, fs_term, base_c, items in group:
            defs += f"Definition {fs_name} : node := {fs_term}.\n"
            for upath, mop, raised, touches, extra in items:
                body.append(f"(let fs := {fs_name} in let base := {base_c} in let p := abs_path base {g_str(upath)} in "
                            f"check_outcome ({mop}) {raised} {g_list([g_touch(t) for t in touches])} && ({extra}))")
                n += 1
        texts.append(COQ_IMPORTS + defs
                     + "Definition check_outcome (o : outcome) (raised : Z) (real : list touch) : bool :=\n"
                       "  match o with\n  | Refused => (raised =? 0) && match real with [] => true | _ => false end\n"
                       "  | Raised GLoop => true   (* symlink loop: outside the modelled domain *)\n"
                       "  | Raised e => (gexn_code e =? raised)\n"
                       "  | Acts l => (raised =? 0) && subset_touch real l && match real with [] => false | _ => true end\n  end.\n"
                     + "Definition oks : list bool := " + g_list(body) + ".\n"
                     + "Eval vm_compute in mismatches (fun b : bool => b) oks.\n")
        index.append(n)
    ok = True
    pos = 0
    for n, (rc, out) in zip(index, vlib.coq_eval_many(AREA, texts, jobs=14)):
        bad = vlib.parse_nat_list(out)
        if rc != 0 or bad is None:
            ok = False
            chk.corr_failure("m3u_touches", {"coq": "evaluation failed"}, out[-1500:])
        else:
            for i in bad:
                ok = False
                chk.corr_failure("m3u_touches", op_meta[pos + i], "entries touched by the provider differ from the model")
        pos += n
    chk.obligation("corr:m3u_touches", "correspondence", ok)


def classify_path(p, base):
    """(symlink located outside the playlists dir that points into it?, resolves to the dir itself?)"""
    base_b = os.fsencode(str(base))
    ap = p if p.is_absolute() else base / p
    try:
        parent_real = os.path.realpath(os.fsencode(str(ap.parent)))
        link_outside = os.path.islink(ap) and not (parent_real == base_b or parent_real.startswith(base_b + b"/"))
        is_base = os.path.realpath(os.fsencode(str(ap))) == base_b
    except ValueError:
        link_outside, is_base = False, False
    return link_outside, is_base


def monitors_m3u(chk, op, uri, cls, root, base, before, after, touches, res, ti, tree, new_name=None, base_dir_note=None):
    """`touches`: the recorded calls that SUCCEEDED (effects)."""
    base_b = os.fsencode(str(base))
    link_outside, is_base = cls
    case = {"op": op, "uri": uri.replace(str(root), "<R>"), "new_name": new_name, "m3u_base_dir": base_dir_note,
            "tree": sorted("/".join(q) + ("@" if k == "L" else "/" if k == "D" else "") for q, k in all_paths(tree, []))[:40]}

    def inside(d):
        return d == base_b or d.startswith(base_b + b"/")

    for kind, d, b in touches:
        dd = os.path.dirname(d) if kind == "read" else d
        if not inside(dd):
            chk.monitor_failure(
                "touch_inside_playlists_dir",
                {"call": op, "kind": kind, "symlink_outside_pointing_in": bool(link_outside), "path_is_playlists_dir": bool(is_base)},
                f"{op} touched {kind} {os.fsdecode(d).replace(str(root), '<R>')}/{os.fsdecode(b)} outside the playlists directory",
                case)
    # the tree outside inside/ must be unchanged
    changed = sorted(k for k in set(before) | set(after)
                     if before.get(k) != after.get(k) and not (k == "inside" or k.startswith("inside/")))
    if changed:
        chk.monitor_failure(
            "outside_unchanged",
            {"call": op, "symlink_outside_pointing_in": bool(link_outside), "path_is_playlists_dir": bool(is_base)},
            f"{op} changed entries outside the playlists directory: {changed[:4]}", case | {"changed": changed[:6]})
    if isinstance(res, list) and any(SECRET in (u or "") for u in res) and not link_outside:
        chk.monitor_failure("no_outside_content", {"call": op}, f"{op} returned content of a file outside the playlists directory", case)


# ---------------------------------------------------------------------------- browse stage


ODD_DIR_NAMES = ["inside, arch", "inside,2", "mu sic, old and new", "é, ü", "a=b", "semi;colon", "x , y", "inside2, z", "tab\there"]


def config_from_text(rng, mdirs, st):
    """Build the provider's config through the REAL loader from a [file] section text that names
    exactly `mdirs` (multi-line style; comma style only when no path contains a comma)."""
    from unittest import mock

    from mopidy import config as config_lib
    from mopidy.file import Extension

    entries = [str(m) + rng.choice(["", "|Name", "|Na, me", "|My Music"]) for m in mdirs]
    comma_ok = not any("," in e for e in entries)
    if comma_ok and rng.random() < 0.4:
        media = "media_dirs = " + rng.choice([", ", ",", " , "]).join(entries) + "\n"
    else:
        media = "media_dirs =\n" + "".join(f"    {e}\n" for e in entries)
    exts = st["excluded_file_extensions"]
    if exts and rng.random() < 0.5:
        ex = "excluded_file_extensions =\n" + "".join(f"  {e}\n" for e in exts)
    else:
        ex = "excluded_file_extensions = " + ", ".join(exts) + "\n"
    text = ("[file]\nenabled = true\n" + media + f"show_dotfiles = {'true' if st['show_dotfiles'] else 'false'}\n" + ex
            + f"follow_symlinks = {'yes' if st['follow_symlinks'] else 'no'}\nmetadata_timeout = 1000\n")
    work = Path(tempfile.mkdtemp(prefix="verif-c16-"))
    try:
        conf = work / "mopidy.conf"
        conf.write_text(text, encoding="utf-8")
        ext = Extension()
        with mock.patch("mopidy.config.keyring.fetch", return_value=[]):
            config, errors = config_lib.load([conf], [ext.get_config_schema()], [ext.get_default_config()], [])
        if errors.get("file"):
            raise RuntimeError(f"config text rejected: {errors['file']} for {text!r}")
        return config, text
    finally:
        shutil.rmtree(work, ignore_errors=True)


def served_monitor(chk, prov, mdirs, text, root):
    """The directories the provider serves are exactly the (existing) directories that were
    configured -- observed through the public API (root_directory / browse('file:root'))."""
    from mopidy.internal import path as mpath

    want = sorted(os.path.realpath(str(m)) for m in mdirs if os.path.isdir(m))
    rd = prov.root_directory
    if rd is None:
        got = []
    elif rd.uri == "file:root":
        got = sorted(os.path.realpath(str(mpath.uri_to_path(r.uri))) for r in prov.browse("file:root"))
    else:
        got = [os.path.realpath(str(mpath.uri_to_path(rd.uri)))]
    if got != want:
        chk.monitor_failure(
            "served_dirs_as_configured", {"call": "FileLibraryProvider", "via_config_text": text is not None,
                                          "extra": bool(set(got) - set(want))},
            "the file provider serves " + str([g.replace(str(root), '<R>') for g in got]) + " but the configuration names "
            + str([w.replace(str(root), '<R>') for w in want]),
            {"config_text": None if text is None else text.replace(str(root), "<R>")})


def browse_stage(chk):
    from mopidy.file.library import FileLibraryProvider
    from mopidy.internal import path as mpath

    quick = chk.tier == "quick"
    n_trees = 30 if quick else 300
    cases, meta = [], []
    for ti in range(n_trees):
        rng = chk.rng
        root = Path(os.path.realpath(tempfile.mkdtemp(prefix="verif-c16-")))
        try:
            tree = gen_tree(rng, root)
            # directories whose NAMES are hard for the config syntax (commas, '=', blanks inside,
            # non-ASCII): they sit next to inside/ and may or may not be configured
            cnt = [1000]
            odd = rng.sample(ODD_DIR_NAMES, 2)
            for nm in odd:
                tree[nm] = ("D", gen_dir(rng, 1, "inside", cnt))
            build(tree, str(root))
            via_text = rng.random() < 0.6
            if via_text:
                pick = rng.choice([[odd[0]], [odd[0]], ["inside", odd[0]], [odd[1], odd[0], "inside"], ["inside"]])
                mdirs = [root / n for n in pick]
            else:
                mdirs = [root / "inside"] + ([root / "inside2"] if "inside2" in tree and rng.random() < 0.7 else [])
            fs_term = g_fs(tree, root)
            items = []
            for _ in range(3 if quick else 5):
                st = {"show_dotfiles": rng.random() < 0.5,
                      "excluded_file_extensions": rng.choice([[], [".jpg", ".png", ".TXT"], [".m3u8"], [".Log", ".zip", ".html"]]),
                      "follow_symlinks": rng.random() < 0.6}
                if via_text:
                    cfg, text = config_from_text(rng, mdirs, st)
                    chk.dist("browse:media_dirs-via-config.load")
                else:
                    cfg, text = {"file": {"media_dirs": [str(m) for m in mdirs], "metadata_timeout": 1000, **st}}, None
                prov = FileLibraryProvider(backend=None, config=cfg)
                served_monitor(chk, prov, mdirs, text, root)
                targets = [root / "inside", root / "outside", root, root / "inside" / "sub", root / "inside" / "nope"]
                targets += [root / n for n in odd] + [root / n / "sub" for n in odd]
                for pth, k in all_paths(tree, []):
                    if k in ("D", "L") or rng.random() < 0.15:
                        targets.append(root.joinpath(*pth))
                for t in rng.sample(targets, min(len(targets), 8)):
                    uri = mpath.path_to_uri(t) if rng.random() < 0.8 else "file://" + urllib.parse.quote(str(t) + "/../" + t.name)
                    before = snapshot(str(root))
                    try:
                        refs = prov.browse(uri)
                        obs = [(r.type, r.name, r.uri) for r in refs]
                        raised = 0
                    except Exception as e:  # noqa: BLE001
                        obs, raised = [], exc_code(e)
                    after = snapshot(str(root))
                    if not raised:
                        browse_monitors(chk, prov, uri, st, mdirs, obs, before, after, root)
                    up = urllib.parse.urlsplit(uri).path
                    refs_g = g_list([f"({'KDir' if ty == 'directory' else 'KTrack'}, {g_name(os.fsencode(nm))}, "
                                     f"{g_path(comps_of(mpath.uri_to_path(u)))})" for ty, nm, u in obs])
                    st_g = (f"(mkS {g_bool(st['show_dotfiles'])} "
                            f"{g_list([g_str(e.lower()) for e in st['excluded_file_extensions']])} {g_bool(st['follow_symlinks'])})")
                    items.append(f"({g_str(up)}, {st_g}, {raised}, {refs_g})")
                    meta.append({"tree": ti, "uri": uri.replace(str(root), "<R>"), "settings": st, "raised": raised,
                                 "result": [(a, b, c.replace(str(root), "<R>")) for a, b, c in obs][:10]})
                    chk.count(1, nontrivial_key=("b", ti, uri, json.dumps(st, sort_keys=True)) if obs else None)
                    chk.dist("browse:" + ("raises" if raised else "empty" if not obs else "results"))
            cases.append((f"fs{ti}", fs_term, g_list([g_path(comps_of(m)) for m in mdirs]), items))
        finally:
            shutil.rmtree(root, ignore_errors=True)
    texts, index = [], []
    for group in [cases[i:i + 4] for i in range(0, len(cases), 4)]:
        defs, body, n = "", [], 0
        for fs_name, fs_term, md, items in group:
            defs += f"Definition {fs_name} : node := {fs_term}.\n"
            body.append(f"map (check_browse {fs_name} {md}) ({g_list(items)} : list (str * settings * Z * list ref))")
            n += len(items)
        texts.append(COQ_IMPORTS + defs.replace("Definition fs", "Definition XX").replace("Definition XX", "Definition fs")
                     + "" )
        texts[-1] = (COQ_IMPORTS
                     + "Definition check_browse (fs : node) (md : list path) (c : str * settings * Z * list ref) : bool :=\n"
                       "  let '(u, st, raised, refs) := c in\n"
                       "  match browse fs md st (snd (pure_path (unquote_to_bytes u))) with\n"
                       "  | Ok l => (raised =? 0) && same_refs l refs\n  | Raise GLoop => true\n  | Raise e => gexn_code e =? raised\n  | Diverge => false end.\n"
                     + defs + "Definition oks : list bool := " + " ++ ".join(body) + ".\n"
                     + "Eval vm_compute in mismatches (fun b : bool => b) oks.\n")
        index.append(n)
    ok, pos = True, 0
    for n, (rc, out) in zip(index, vlib.coq_eval_many(AREA, texts, jobs=14)):
        bad = vlib.parse_nat_list(out)
        if rc != 0 or bad is None:
            ok = False
            chk.corr_failure("browse", {"coq": "evaluation failed"}, out[-1500:])
        else:
            for i in bad:
                ok = False
                chk.corr_failure("browse", meta[pos + i], "browse result differs from the model")
        pos += n
    chk.obligation("corr:browse", "correspondence", ok)


def browse_monitors(chk, prov, uri, st, mdirs, obs, before, after, root):
    from mopidy.internal import path as mpath

    case = {"uri": uri.replace(str(root), "<R>"), "settings": st}
    if before != after:
        chk.monitor_failure("browse_read_only", {"call": "browse"}, "browse changed the tree", case)
    mreal = [os.path.realpath(str(m)) for m in mdirs]
    dirp = mpath.uri_to_path(uri)
    for ty, nm, u in obs:
        rp = os.path.realpath(str(mpath.uri_to_path(u)))
        d = os.path.dirname(rp) if os.path.isfile(rp) else rp
        if not any(d == m or d.startswith(m + "/") for m in mreal):
            chk.monitor_failure("browse_confined", {"call": "browse", "type": ty},
                                f"browse listed {u.replace(str(root), '<R>')} which resolves outside every media directory", case)
        if nm.startswith(".") and not st["show_dotfiles"]:
            chk.monitor_failure("browse_settings", {"call": "browse", "setting": "show_dotfiles"}, f"dotfile {nm!r} listed", case)
        sfx = Path(nm).suffix.lower()
        if sfx and sfx in [e.lower() for e in st["excluded_file_extensions"]]:
            chk.monitor_failure("browse_settings", {"call": "browse", "setting": "excluded_file_extensions"},
                                f"{nm!r} listed although {sfx} is excluded", case)
        if not st["follow_symlinks"] and os.path.islink(os.path.join(str(dirp), nm)):
            chk.monitor_failure("browse_settings", {"call": "browse", "setting": "follow_symlinks"},
                                f"symlink {nm!r} listed although follow_symlinks is off", case)
    # completeness: an allowed plain entry of an inside directory must be listed
    try:
        listing = sorted(os.listdir(dirp)) if os.path.isdir(dirp) and obs is not None else []
    except OSError:
        listing = []
    rd = os.path.realpath(str(dirp))
    if listing and any(rd == m or rd.startswith(m + "/") for m in mreal):
        names = {nm for _, nm, _ in obs}
        for nm in listing:
            full = os.path.join(str(dirp), nm)
            if os.path.islink(full):
                continue
            allowed = (st["show_dotfiles"] or not nm.startswith(".")) and \
                Path(nm).suffix.lower() not in [e.lower() for e in st["excluded_file_extensions"]]
            if allowed and (os.path.isfile(full) or os.path.isdir(full)) and nm not in names:
                chk.monitor_failure("browse_settings", {"call": "browse", "setting": "missing-entry"},
                                    f"allowed entry {nm!r} is not listed", case)


def run(chk):
    chk.rule = ("guard/ops: (tree, URI) pairs whose URI uses '..', an absolute path or percent-encoding, or is refused/raises; "
                "browse: (tree, settings, directory) with a non-empty result; trees contain symlinks in both directions")
    chk.trusted_base = [
        "Coq 8.16.1 kernel + vm_compute (no native_compute)",
        "harness/c16.py: tree generator, Recorder (wrappers around os/io/tempfile functions), snapshots",
        "os.path.realpath of the host as the reference for 'resolved directory' in the monitors",
    ]
    chk.assumptions = [
        "urlsplit is an oracle (the model receives urlsplit(uri).path); str.lower only for ASCII extensions",
        "no concurrent modification of the tree (TOCTOU is not modelled); the kernel refuses to unlink/rename '.' and '..'",
        "symlink loops are outside the modelled domain (realpath's lexical fallback): such cases are only monitored, not compared",
        "scope of the M3U clause: symlinks placed inside the playlists directory (outside->inside links are classified separately)",
    ]
    import logging
    logging.disable(logging.CRITICAL)
    chk.proof_stage(PROP_FILES, thorough_coqchk=(chk.tier == "thorough"))
    vlib.setup_impl()
    m3u_stage(chk)
    browse_stage(chk)
