"""C06 - the audio layer turns GStreamer activity into a consistent event protocol; the
software mixer reads back volume/mute.

Model: coq/Audio/{Model,Mixer}.v.  Implementation: the real (unstarted) Audio object, its
real _Handler, SoftwareMixerAdapter and SoftwareMixer on scripted fake elements
(harness/c06_driver.py).  GStreamer itself is absent and is not modelled: message sequences
are inputs and the theorems hold for all of them.
"""

from __future__ import annotations

import json
import logging

import c06_driver as drv
from common import vlib
from common.vlib import g_bool, g_list, g_opt, g_z

AREA = "Audio"
PROP_FILES = ["Property_C06.v"]

STATES = drv.STATES
GST = {"VOID_PENDING": "VOID", "NULL": "NULL", "READY": "READY", "PAUSED": "PAUSED", "PLAYING": "PLAYING"}
RANK = {s: i for i, s in enumerate(STATES)}
IMAGE = {"PLAYING": "playing", "PAUSED": "paused", "NULL": "stopped"}
PSTATE = {"stopped": "Stopped", "paused": "Paused", "playing": "Playing"}
BMODE = {"STREAM": "BStream", "DOWNLOAD": "BDownload", "TIMESHIFT": "BTimeshift", "LIVE": "BLive"}
KEEP_KINDS = ["str", "int", "bytes", "date", "datetime", "sample"]
DROP_KINDS = ["object", "baddate", "emptysample"]
N_IDS = 12
N_URIS = 4
REQUEST = {"prep": "READY", "start": "PLAYING", "pause": "PAUSED", "stop": "NULL", "err": "NULL"}


def keep(i):
    return ["k", i, KEEP_KINDS[i % len(KEEP_KINDS)]]


# ------------------------------------------------------------------ audit workaround


def _install_audit_workaround():
    """vlib.coq_property_audit parses the header line "Axioms:" of a Print Assumptions block
    as an assumption called "Axioms" (its regex matches `name :` at line start).  Only blocks
    that are not closed are affected, i.e. the T6 theorems, which list the PrimFloat/PrimInt63
    kernel primitives.  harness/common is not ours to edit, so the spurious entry is removed
    here; every real name is still checked against vlib's allow-list."""
    import re

    if getattr(vlib, "_c06_audit_patched", False):
        return
    orig = vlib.coq_property_audit

    def audit(area, prop_file, timeout=600):
        ok, theorems = orig(area, prop_file, timeout)
        for t in theorems:
            t["axioms"] = [a for a in t.get("axioms", []) if a != "Axioms"]
            if t["name"] != "<unaudited>":
                t["bad"] = [a for a in t.get("bad", []) if a != "Axioms"]
        text = vlib._strip_coq_comments((vlib.COQ / area / prop_file).read_text())
        printed = re.findall(r"Print\s+Assumptions\s+([A-Za-z0-9_'.]+)\s*\.", text)
        audited = [t for t in theorems if t["name"] != "<unaudited>"]
        ok = (not any(t["bad"] for t in theorems)) and len(audited) == len(printed)
        return ok, theorems

    vlib.coq_property_audit = audit
    vlib._c06_audit_patched = True


# ------------------------------------------------------------------ generator


class Sim:
    """A toy pipeline used ONLY to make a share of the generated message sequences look like
    what GStreamer sends (state walks towards the requested state, stream-start after
    preroll, buffering runs).  It is not part of the model or of any claim."""

    ORDER = ["NULL", "READY", "PAUSED", "PLAYING"]

    def __init__(self):
        self.cur = "NULL"
        self.want = "NULL"
        self.fresh = False

    def request(self, s):
        self.want = s

    def next_message(self, rng):
        if self.cur != self.want:
            i, j = self.ORDER.index(self.cur), self.ORDER.index(self.want)
            new = self.ORDER[i + (1 if j > i else -1)]
            old, self.cur = self.cur, new
            if new == "READY" and self.want == "NULL":
                self.cur = "NULL"  # the final READY->NULL change is never posted
                return ("sc", True, old, new, "NULL")
            pending = "VOID_PENDING" if new == self.want else self.want
            if new == "PAUSED" and self.fresh:
                self.fresh = False
                return [("sc", True, old, new, pending), ("ss",)]
            return ("sc", True, old, new, pending)
        return None


def gen_tag(rng):
    n = rng.weighted([(1, 5), (2, 3), (3, 1), (0, 0.3)])
    keys = rng.sample(range(len(drv.TAG_NAMES)), n)
    pairs = []
    for k in keys:
        raws = []
        for _ in range(rng.weighted([(1, 6), (2, 2), (0, 0.4)])):
            if rng.random() < 0.15:
                raws.append(["d", rng.choice(DROP_KINDS)])
            else:
                raws.append(keep(rng.randrange(N_IDS)))
        pairs.append([k, raws])
    return ("tag", pairs)


def gen_random_input(rng, malformed):
    k = rng.weighted([("sc", 8), ("buf", 5), ("tag", 5), ("ss", 2), ("eos", 1), ("err", 0.7), ("other", 0.3),
                      ("warn", 0.3), ("async", 0.3), ("elem", 0.4),
                      ("seg", 1), ("prep", 1.5), ("uri", 2), ("start", 2), ("pause", 1.5), ("stop", 1.2),
                      ("seek", 1), ("tags?", 1.5), ("pos?", 0.8), ("atfcb", 0.8), ("srccb", 0.5),
                      ("atf", 1.6), ("src", 1.2)])
    if k == "sc":
        news = STATES if malformed else STATES[1:]
        return ("sc", rng.random() < 0.9, rng.choice(STATES), rng.choice(news), rng.choice(STATES))
    if k == "buf":
        pct = rng.choice([0, 1, 5, 9, 10, 11, 50, 99, 100, 100, 100, 101, -1, rng.randint(0, 100)])
        return ("buf", pct, rng.choice([None, None, "STREAM", "DOWNLOAD", "TIMESHIFT", "LIVE"]))
    if k == "tag":
        return gen_tag(rng)
    if k == "other":
        return ("other", rng.choice(drv.OTHER_KINDS))
    if k == "seg":
        return ("seg", rng.choice([0, 999999, 1000000, 1234567890, rng.randrange(0, 10**12)]))
    if k in ("prep", "start", "pause", "stop"):
        return (k, rng.random() < 0.9)
    if k == "uri":
        return ("uri", rng.randrange(N_URIS), rng.random() < 0.2, rng.random() < 0.2)
    if k == "seek":
        return ("seek", rng.choice([0, 1, 1500, rng.randrange(0, 10**7)]), rng.random() < 0.8)
    if k == "elem":
        return ("elem", rng.random() < 0.6)
    if k == "pos?":
        return ("pos?", rng.random() < 0.8, rng.choice([0, 999999, 1000000, 1500000000, rng.randrange(0, 10**12)]))
    if k in ("atfcb", "srccb"):
        return (k, rng.random() < 0.75)
    if k == "atf":
        nxt = None if rng.random() < 0.2 else [rng.randrange(N_URIS), rng.random() < 0.2, rng.random() < 0.3]
        return ("atf", rng.random() < 0.25, nxt)
    if k == "src":
        return ("src", rng.random() < 0.9, rng.random() < 0.6, rng.random() < 0.6, rng.random() < 0.6)
    return (k,)


def gen_case(rng, max_len):
    style = rng.weighted([("plausible", 5), ("chaos", 3), ("malformed", 1)])
    n = rng.randint(1, max_len)
    sim = Sim()
    out = []
    while len(out) < n:
        if style == "plausible" and rng.random() < 0.6:
            m = sim.next_message(rng)
            if m is not None:
                out.extend(m if isinstance(m, list) else [m])
                continue
        if style == "plausible" and rng.random() < 0.25:
            # a typical client move: track change or buffering run
            move = rng.choice(["change", "bufrun", "stop", "gapless", "race"])
            if move == "change":
                out += [("prep", True), ("uri", rng.randrange(N_URIS), False, False)]
                if rng.random() < 0.7:
                    out.append(gen_tag(rng))
                out.append((rng.choice(["start", "start", "pause"]), True))
                sim.cur = "READY" if sim.cur != "NULL" else sim.cur
                sim.request("PLAYING" if out[-1][0] == "start" else "PAUSED")
                sim.fresh = True
            elif move == "race":
                # #1222/#1430: a transition completes while a track change is already requested
                # (pause/start immediately followed by prepare_change); the report is dropped
                first = rng.choice(["pause", "start", "stop"])
                tgt = REQUEST[first]
                out += [(first, True), ("prep", True),
                        ("sc", True, rng.choice(STATES[1:]), tgt, "VOID_PENDING"),
                        (rng.choice(["start", "pause"]), True)]
                sim.cur, sim.want = tgt, REQUEST[out[-1][0]]
            elif move == "gapless":
                # about-to-finish: the next URI is set while playing, its tags arrive, then it starts
                if rng.random() < 0.6:
                    out += [("atfcb", True), ("atf", False, [rng.randrange(N_URIS), False, rng.random() < 0.3]),
                            ("src", True, True, rng.random() < 0.5, rng.random() < 0.5)]
                else:
                    out.append(("uri", rng.randrange(N_URIS), False, False))
                for _ in range(rng.randint(0, 2)):
                    out.append(gen_tag(rng))
                out.append(("ss",))
            elif move == "bufrun":
                out += [("buf", p, rng.choice([None, "STREAM"])) for p in rng.choice([[5, 40, 100], [0, 100], [9, 8, 100, 100], [50, 100]])]
            else:
                out.append(("stop", True))
                sim.request("NULL")
            continue
        i = gen_random_input(rng, malformed=(style == "malformed"))
        if i[0] in REQUEST and i[0] != "err":
            sim.request(REQUEST[i[0]])
        out.append(i)
    return out[: max(n, 1)], style


def gen_repeats(rng):
    """Histories in which the audio layer must emit the SAME event twice in a row (same tag key
    updated twice, same URI started twice, same position, same state report)."""
    style = rng.choice(["directed", "stutter"])
    if style == "stutter":
        base, _ = gen_case(rng, 25)
        out = []
        for i in base:
            out.extend([i] * rng.weighted([(1, 5), (2, 3), (3, 1)]))
        return out[:60]
    out = []
    if rng.random() < 0.7:
        out += [("prep", True), ("uri", rng.randrange(N_URIS), False, rng.random() < 0.5), ("start", True)]
    for _ in range(rng.randint(1, 5)):
        k = rng.choice(["ss", "title", "seg", "eos", "sc", "gapless", "pos"])
        n = rng.randint(2, 3)
        if k == "ss":
            out += [("ss",)] * n
        elif k == "title":      # a radio stream updating one tag: tags_changed([key]) each time
            key = rng.randrange(len(drv.TAG_NAMES))
            if rng.random() < 0.6:
                out.append(("ss",))
            ids = rng.sample(range(N_IDS), n)
            out += [("tag", [[key, [keep(i)]]]) for i in ids]
        elif k == "seg":
            p = rng.choice([0, 1234567890])
            out += [("seg", p)] * n
        elif k == "eos":
            out += [("eos",)] * n
        elif k == "sc":
            new = rng.choice(["PLAYING", "PAUSED", "NULL"])
            out += [("sc", True, "READY", new, "VOID_PENDING")] * (n + 1)
        elif k == "gapless":    # repeat-single: the same URI started again, nothing in between
            u = rng.randrange(N_URIS)
            out += [("atfcb", True)] + [("atf", False, [u, False, False]), ("ss",)] * n
        else:
            out += [("pos?", True, 1500000000)] * n
    return out[:60]


REPEAT_CORPUS = [
    # radio title updated twice: two tags_changed(['title'])
    [("uri", 0, False, True), ("ss",), ("tag", [[0, [keep(1)]]]), ("tag", [[0, [keep(2)]]]), ("tag", [[0, [keep(3)]]])],
    # same URI started twice gaplessly: two stream_changed(uri)
    [("uri", 1, False, False), ("ss",), ("uri", 1, False, False), ("ss",), ("ss",)],
    [("start", True), ("sc", True, "PAUSED", "PLAYING", "VOID_PENDING"), ("sc", True, "PAUSED", "PLAYING", "VOID_PENDING"),
     ("sc", True, "PAUSED", "PLAYING", "VOID_PENDING"), ("seg", 5000000), ("seg", 5000000), ("eos",), ("eos",)],
]


CORPUS_INLINE = [
    # about-to-finish: refused inside the actor thread, ignored without callback, else runs set_uri
    [("atf", False, [1, False, False]), ("atfcb", True), ("atf", True, [2, False, True]), ("atf", False, [3, True, True]),
     ("src", True, True, True, True), ("tag", [[0, [keep(2)]]]), ("ss",), ("atf", False, None), ("atfcb", False),
     ("atf", False, [0, False, False]), ("ss",), ("src", False, True, True, True), ("srccb", True),
     ("src", True, False, True, False), ("src", True, True, False, True)],
    [("warn",), ("async",), ("elem", True), ("elem", False), ("other", "INFO"), ("pos?", True, 1500000000),
     ("pos?", False, 77), ("pos?", True, 999999), ("seek", 1500, True)],
    # live dict_keys view at stream start (fixed): tags after stream start must not leak back
    [("prep", True), ("uri", 1, False, False), ("tag", [[0, [keep(1)]]]), ("ss",), ("tag", [[1, [keep(2)]]])],
    # silent state update while a track change is requested (target READY)
    [("start", True), ("sc", True, "PAUSED", "PLAYING", "VOID_PENDING"), ("prep", True),
     ("sc", True, "PLAYING", "PAUSED", "VOID_PENDING"), ("start", True), ("sc", True, "PAUSED", "PLAYING", "VOID_PENDING")],
    # malformed: completed transition into VOID_PENDING
    [("sc", True, "NULL", "VOID_PENDING", "VOID_PENDING"), ("tags?",)],
    # buffering never overrides pause / stop / track change
    [("start", True), ("buf", 5, None), ("pause", True), ("buf", 100, None), ("start", True), ("buf", 3, None),
     ("buf", 100, None), ("prep", True), ("buf", 2, None), ("buf", 100, None), ("stop", True), ("buf", 0, None)],
    # READY->NULL rewrite and stopped => stream_changed(None)
    [("start", True), ("sc", True, "PAUSED", "PLAYING", "VOID_PENDING"), ("stop", True),
     ("sc", True, "PLAYING", "PAUSED", "NULL"), ("sc", True, "PAUSED", "READY", "NULL")],
    # second stream start without set_uri; EOS resets tags; tags before any set_uri
    [("tag", [[0, [keep(1)]]]), ("ss",), ("tags?",), ("tag", [[0, [keep(1)]], [2, [keep(3), ["d", "object"]]]]), ("eos",),
     ("tag", [[0, [keep(1)]]]), ("tag", [[0, [keep(1)]]]), ("tags?",)],
    # messages from other elements are ignored
    [("start", True), ("sc", False, "PAUSED", "PLAYING", "VOID_PENDING"), ("sc", False, "PAUSED", "READY", "NULL")],
]


# ------------------------------------------------------------------ running the implementation


def run_impl(inputs, rng=None, real_listener=False):
    rig = drv.Rig(rng=rng, real_listener=real_listener)
    try:
        obs = [rig.apply(i) for i in inputs]
        # what a consumer that reads the event payloads later (another thread) sees
        for o in obs:
            for e in o["events"]:
                e["late"] = drv.late_payload(e["name"], e["live"])
                del e["live"]
        return obs
    finally:
        rig.close()


# ------------------------------------------------------------------ monitors (property predicates on the real run)


def expected_conversion(pairs):
    """tags.convert_taglist restated on the harness encoding (key index -> kept ids)."""
    res = {}
    for k, raws in pairs:
        ids = [r[1] for r in raws if r[0] == "k"]
        if ids:
            res.setdefault(drv.TAG_NAMES[k], []).extend(ids)
    return res


def value_id(canon):
    """Inverse of Rig.raw_value followed by convert_taglist, on canonical values."""
    t, v = canon
    try:
        if t == "str" and v.startswith("s"):
            i = int(v[1:])
            return i if KEEP_KINDS[i % 6] == "str" else -1
        if t == "int":
            return v - 1000 if KEEP_KINDS[(v - 1000) % 6] == "int" else -1
        if t == "str" and v.startswith("b"):
            i = int(v[1:])
            return i if KEEP_KINDS[i % 6] == "bytes" else -1
        if t == "str" and len(v) == 10 and v[4] == "-":
            y, m, d = int(v[:4]), int(v[5:7]), int(v[8:])
            i = (y - 1900) * 336 + (m - 1) * 28 + (d - 1)
            return i if KEEP_KINDS[i % 6] == "date" else -1
        if t == "str" and len(v) == 4:
            i = int(v) - 1000
            return i if KEEP_KINDS[i % 6] == "datetime" else -1
        if t == "bytes" and v.startswith("img"):
            i = int(v[3:])
            return i if KEEP_KINDS[i % 6] == "sample" else -1
    except ValueError:
        pass
    return -1


def tags_ids(canon_tags):
    return {k: [value_id(x) for x in vs] for k, vs in canon_tags}


def monitors(inputs, obs):
    """Evaluate the property's clauses on one real execution.  Returns a list of
    (monitor, key, what).  Mirrors theorems T1-T5 of Property_C06.v."""
    fails = []

    def fail(mon, key, what):
        fails.append((mon, key, what))

    requested = "NULL"       # last state asked for by a control call (or by on_error)
    reached = "stopped"      # playback state reached by the last completed playbin transition
    last_cmd = None          # last set_state the pipeline received
    last_uri = None
    in_pending = False       # a set_uri happened and its stream has not started yet
    pending_acc = {}         # what TAG messages delivered since that set_uri
    atf_cb = False           # an about-to-finish callback is registered
    src_cb = False           # a source-setup callback is registered
    last_live = False        # live_stream flag of the last set_uri performed
    reported = {}            # accumulation of what tags_changed reported for the current stream
    prev_tags = {}
    log = []
    for idx, (inp, o) in enumerate(zip(inputs, obs)):
        k = inp[0]
        evs = [e for e in o["events"] if e["cls"] == "AudioListener"]
        names = [e["name"] for e in evs]
        state_cmds = [c[2] for c in o["cmds"] if c[1] == "state"]
        cur_tags = tags_ids(o["tags"])
        req_before = requested
        if k in REQUEST:
            requested = REQUEST[k]
        # the set_uri this input performs, if any (the call, or the about-to-finish callback run
        # outside the actor thread)
        new_uri = None
        if k == "uri":
            new_uri = inp[1]
        elif k == "atf" and not inp[1] and atf_cb and inp[2] is not None:
            new_uri = inp[2][0]
        if k == "uri":
            last_live = bool(inp[3])
        elif new_uri is not None:
            last_live = bool(inp[2][2])

        # ---- glue (theorems C06_about_to_finish_guard, C06_source_setup_commands,
        #      C06_get_position_spec)
        if k == "atf" and (inp[1] or not atf_cb) and (o["cmds"] or evs):
            fail("about_to_finish_guard", {"input": "atf", "in_actor_thread": bool(inp[1])},
                 f"about-to-finish ran although {'in the actor thread' if inp[1] else 'no callback is registered'}: {o['cmds']}")
        if k == "src":
            got = [c[0] + "." + c[1] for c in fold_proxy(o["cmds"])]
            if inp[1]:
                exp = ((["cb.source"] if src_cb else []) + (["source.live"] if last_live and inp[2] else [])
                       + (["source.proxy3"] if inp[3] and inp[4] else []))
                if got != exp or o["ret"][0] == "raise":
                    fail("source_setup", {"input": "src", "clause": "commands"}, f"source-setup did {got} ({o['ret']}), expected {exp}")
            elif o["ret"] != ("raise", "AudioException") or got:
                fail("source_setup", {"input": "src", "clause": "no_factory"}, f"source without factory: {o['ret']} {got}")
        if k == "pos?" and o["ret"] != ("pos", (inp[2] // 1000000) if inp[1] else 0):
            fail("get_position", {"input": "pos?"}, f"get_position() = {o['ret']} for pipeline answer {inp[1:]}")
        if k == "atfcb":
            atf_cb = bool(inp[1])
        if k == "srccb":
            src_cb = bool(inp[1])

        # ---- Audio.state / old_state / new_state = last REACHED state (theorems
        #      C06_T1_state_is_last_reached, C06_T1_reports_match_last_reached), also when the
        #      report is suppressed because a track change (READY) is requested
        reached_before = reached
        if k == "sc" and inp[1]:
            n_, p_ = inp[3], inp[4]
            if n_ == "READY" and p_ == "NULL":
                n_, p_ = "NULL", "VOID_PENDING"
            if p_ == "VOID_PENDING" and n_ in IMAGE:
                reached = IMAGE[n_]
        if o["state"] != reached:
            fail("state_is_last_reached", {"clause": "audio_state"},
                 f"Audio.state is {o['state']} but the pipeline last reached {reached} (requested {req_before})")
        for e in evs:
            if e["name"] == "state_changed" and (e["sent"].get("old_state") != reached_before
                                                 or e["sent"].get("new_state") != reached):
                fail("state_is_last_reached", {"clause": "report"},
                     f"state_changed({e['sent'].get('old_state')} -> {e['sent'].get('new_state')}) but the pipeline "
                     f"went {reached_before} -> {reached}")

        # ---- T1 reports_sound
        for e in evs:
            if e["name"] != "state_changed":
                continue
            p = e["sent"]
            if k != "sc" or not inp[1]:
                fail("reports_sound", {"input": k, "clause": "source"}, f"state_changed emitted by input {inp!r}")
                continue
            _, _, _old, new, pend = inp
            if new == "READY" and pend == "NULL":
                new, pend = "NULL", "VOID_PENDING"
            if pend != "VOID_PENDING" or new not in IMAGE:
                fail("reports_sound", {"input": "sc", "clause": "intermediate"},
                     f"state_changed for a non-completed/READY transition {inp!r}")
                continue
            if p.get("new_state") != IMAGE[new]:
                fail("reports_sound", {"input": "sc", "clause": "new_state"},
                     f"new_state {p.get('new_state')} is not the state reached ({IMAGE[new]})")
            want = IMAGE.get(req_before)
            if want is not None:
                exp = None if want == IMAGE[new] else want
                if p.get("target_state") != exp:
                    fail("reports_sound", {"input": "sc", "clause": "target_state"},
                         f"target_state {p.get('target_state')} but requested {req_before}, reached {new}")
        # ---- T1 converse (C06_T1_reports_complete): a completed transition is reported unless a
        #      track change (READY) is the requested state
        if k == "sc" and inp[1]:
            new, pend = inp[3], inp[4]
            if new == "READY" and pend == "NULL":
                new, pend = "NULL", "VOID_PENDING"
            if pend == "VOID_PENDING" and new in IMAGE and IMAGE.get(req_before) is not None \
                    and "state_changed" not in names:
                fail("reports_complete", {"input": "sc", "clause": "lost"},
                     f"completed transition {inp!r} not reported while {req_before} requested")
        if names.count("state_changed") > 1:
            fail("reports_sound", {"input": k, "clause": "once"}, "more than one state_changed for one message")

        # ---- T3 stream announced once, with the last requested URI, when it starts
        streams = [e["sent"].get("uri") for e in evs if e["name"] == "stream_changed"]
        if k == "ss":
            exp_uri = None if last_uri is None else drv.uri_of(last_uri)
            if streams != [exp_uri]:
                fail("stream_announced_once", {"input": "ss"}, f"stream start announced {streams}, expected [{exp_uri}]")
        elif any(u is not None for u in streams):
            fail("stream_announced_once", {"input": k}, f"stream_changed({streams}) outside a stream start")
        if new_uri is not None:
            last_uri = new_uri

        # ---- T4 tags
        tag_evs = [e for e in evs if e["name"] == "tags_changed"]
        if len(tag_evs) > 1:
            fail("tags", {"input": k, "clause": "once"}, "more than one tags_changed for one message")
        if k == "ss":
            acc = pending_acc if in_pending else {}
            keys = sorted(acc)
            got = [sorted(e["sent"].get("tags", [])) for e in tag_evs]
            if got != ([keys] if keys else []):
                fail("tags", {"input": "ss", "clause": "reported_in_full"},
                     f"stream start reported {got}, accumulated since set_uri: {keys}")
            if cur_tags != acc:
                fail("tags", {"input": "ss", "clause": "current_tags"},
                     f"get_current_tags {cur_tags} != accumulation {acc}")
            in_pending, pending_acc, reported = False, {}, {}
        elif in_pending:
            if tag_evs:
                fail("tags", {"input": k, "clause": "withheld"}, "tags_changed between set_uri and stream start")
            if k == "tag":
                pending_acc.update(expected_conversion(inp[1]))
        elif k == "tag":
            changed = sorted(kk for kk in set(cur_tags) | set(prev_tags) if cur_tags.get(kk) != prev_tags.get(kk))
            got = [sorted(e["sent"].get("tags", [])) for e in tag_evs]
            if got != ([changed] if changed else []):
                fail("tags", {"input": "tag", "clause": "exact_diff"},
                     f"tags_changed {got} but the keys whose value changed are {changed}")
            exp = dict(prev_tags)
            exp.update(expected_conversion(inp[1]))
            if cur_tags != exp:
                fail("tags", {"input": "tag", "clause": "update"}, f"current tags {cur_tags} != {exp}")
        elif tag_evs:
            fail("tags", {"input": k, "clause": "source"}, f"tags_changed emitted by input {inp!r}")
        if new_uri is not None:
            in_pending, pending_acc = True, {}
        if k == "eos":
            reported = {}
        for e in tag_evs:
            for kk in e["sent"].get("tags", []):
                if kk in cur_tags:
                    reported[kk] = cur_tags[kk]
        if cur_tags != reported:
            fail("tags", {"clause": "accumulation"},
                 f"get_current_tags {cur_tags} != accumulation of reports {reported}")
        if k == "tags?" and o["ret"][0] == "tags" and tags_ids(o["ret"][1]) != reported:
            fail("tags", {"clause": "accumulation"}, "get_current_tags() result != accumulation of reports")
        prev_tags = cur_tags

        # ---- T5 buffering never overrides
        if k == "buf":
            if RANK[req_before] < RANK["PAUSED"] and o["cmds"]:
                fail("buffering_never_overrides", {"input": "buf", "clause": "track_change"},
                     f"buffering issued {o['cmds']} while {req_before} requested")
            for c in state_cmds:
                if not (c == req_before or (c == "PAUSED" and req_before == "PLAYING")):
                    fail("buffering_never_overrides", {"input": "buf", "clause": "override"},
                         f"buffering set the pipeline to {c} while {req_before} requested")
            if any(c[1] != "state" for c in o["cmds"]):
                fail("buffering_never_overrides", {"input": "buf", "clause": "foreign"}, f"buffering issued {o['cmds']}")
        elif k in ("sc", "tag", "ss", "eos", "seg", "other", "tags?", "warn", "async", "elem", "pos?",
                   "atfcb", "srccb") and o["cmds"]:
            fail("buffering_never_overrides", {"input": k, "clause": "message_commands"},
                 f"message {k} made the audio layer command the pipeline: {o['cmds']}")
        if state_cmds:
            last_cmd = state_cmds[-1]
        if last_cmd is not None and last_cmd != requested:
            if not (requested == "PLAYING" and last_cmd == "PAUSED" and o["buffering"]):
                fail("buffering_never_overrides", {"clause": "invariant"},
                     f"pipeline last told {last_cmd} but {requested} requested (buffering={o['buffering']})")
        log.extend((e["name"], e["sent"]) for e in evs)

        # ---- payloads must not change after they were sent
        for e in evs:
            if e.get("late") is not None and e["late"] != e["sent"]:
                fail("payload_stable", {"event": e["name"], "input": k},
                     f"{e['name']} payload read later {e['late']} != as sent {e['sent']}")

    # ---- T2 stopped => stream_changed(None) immediately
    for j, (name, p) in enumerate(log):
        if name == "state_changed" and p.get("new_state") == "stopped":
            nxt = log[j + 1] if j + 1 < len(log) else None
            if nxt is None or nxt[0] != "stream_changed" or nxt[1].get("uri") is not None:
                fail("stopped_then_stream_none", {"clause": "follows"}, f"stopped not followed by stream_changed(None): {nxt}")
    return fails


# ------------------------------------------------------------------ Gallina emission


def e_raw(r):
    return f"Keep {g_z(r[1])}" if r[0] == "k" else "Drop"


def e_input(i):
    k = i[0]
    if k == "sc":
        return f"{'S_' if i[1] else 'X_'} {GST[i[2]]} {GST[i[3]]} {GST[i[4]]}"
    if k == "buf":
        return f"Buffering {g_z(i[1])} {g_opt(None if i[2] is None else BMODE[i[2]])}"
    if k == "tag":
        return "Tag " + g_list([f"({kk}, {g_list([e_raw(r) for r in raws])})" for kk, raws in i[1]])
    if k == "seg":
        return f"Segment {g_z(i[1])}"
    if k == "uri":
        return f"SetUri {i[1]} (mkF {g_bool(i[2])} {g_bool(i[3])})"
    if k == "elem":
        return f"Element {g_bool(i[1])}"
    if k == "pos?":
        return f"GetPosition {g_bool(i[1])} {g_z(i[2])}"
    if k == "atfcb":
        return f"SetAtfCallback {g_bool(i[1])}"
    if k == "srccb":
        return f"SetSourceCallback {g_bool(i[1])}"
    if k == "atf":
        nxt = "None" if i[2] is None else f"(Some ({i[2][0]}, mkF {g_bool(i[2][1])} {g_bool(i[2][2])}))"
        return f"AboutToFinish {g_bool(i[1])} {nxt}"
    if k == "src":
        return f"SourceSetup {g_bool(i[1])} {g_bool(i[2])} {g_bool(i[3])} {g_bool(i[4])}"
    if k == "seek":
        return f"SetPosition {g_z(i[1])} {g_bool(i[2])}"
    simple = {"ss": "StreamStart", "eos": "Eos", "err": "Error", "other": "Other", "tags?": "GetCurrentTags",
              "warn": "Warning", "async": "AsyncDone"}
    if k in simple:
        return simple[k]
    return {"prep": "PrepareChange", "start": "Start", "pause": "Pause", "stop": "Stop"}[k] + " " + g_bool(i[1])


class Unrepresentable(Exception):
    pass


def e_dict(canon_tags):
    items = []
    for k, vs in canon_tags:
        if k not in drv.TAG_NAMES:
            raise Unrepresentable(f"tag key {k!r}")
        items.append((drv.TAG_NAMES.index(k), g_list([g_z(value_id(x)) for x in vs])))
    return g_list([f"({k}, {v})" for k, v in sorted(items)])


def e_pstate(s):
    if s not in PSTATE:
        raise Unrepresentable(f"playback state {s!r}")
    return PSTATE[s]


def uri_id(u):
    for i in range(N_URIS):
        if u == drv.uri_of(i):
            return i
    raise Unrepresentable(f"uri {u!r}")


def e_uri(u):
    return "None" if u is None else f"(Some {uri_id(u)})"


def e_event(e):
    n, p = e["name"], e["sent"]
    if n == "state_changed":
        t = p.get("target_state")
        return f"OState {e_pstate(p.get('old_state'))} {e_pstate(p.get('new_state'))} {g_opt(None if t is None else e_pstate(t))}"
    if n == "stream_changed":
        return f"OStream {e_uri(p.get('uri'))}"
    if n == "tags_changed":
        keys = []
        for kk in p.get("tags", []):
            if kk not in drv.TAG_NAMES:
                raise Unrepresentable(f"tag key {kk!r}")
            keys.append(drv.TAG_NAMES.index(kk))
        return f"OTags {g_list([str(x) for x in sorted(keys)])}"
    if n == "reached_end_of_stream":
        return "OEos"
    if n == "position_changed":
        return f"OPosition {g_z(p.get('position'))}"
    raise Unrepresentable(f"event {n!r}")


def e_cmd(c):
    kind, what, a, b = c
    if kind == "playbin" and what == "state":
        return f"CSetState {GST[a]}"
    if kind == "playbin" and what == "prop" and a == "flags":
        return f"CFlags {g_z(b)}"
    if kind == "playbin" and what == "prop" and a == "uri":
        return f"CUri {uri_id(b)}"
    if kind == "queue" and what == "seek":
        return f"CSeek {g_z(a)}"
    if kind == "cb" and what == "atf":
        return "CCallAtf"
    if kind == "cb" and what == "source":
        return "CCallSource"
    if kind == "source" and what == "live" and a is True:
        return "CSetLive"
    if kind == "source" and what == "proxy3":
        return "CProxy"
    raise Unrepresentable(f"command {c!r}")


def fold_proxy(cmds):
    """utils.setup_proxy sets proxy, proxy-id, proxy-pw on the source: one modelled command.
    The proxy URL must be httpclient.format_proxy(config, auth=False) of the rig's config."""
    out, i = [], 0
    while i < len(cmds):
        c = cmds[i]
        names = [x[2] for x in cmds[i: i + 3] if x[0] == "source" and x[1] == "prop"]
        if c[0] == "source" and c[1] == "prop" and names == ["proxy", "proxy-id", "proxy-pw"] \
                and cmds[i][3] == "https://proxy.example:8080" and cmds[i + 1][3] == "u" and cmds[i + 2][3] == "p":
            out.append(("source", "proxy3", None, None))
            i += 3
        else:
            out.append(c)
            i += 1
    return out


def e_obs(o, prev_tags):
    r = o["ret"]
    if r[0] == "none":
        ret = "ONone"
    elif r[0] == "bool":
        ret = f"(OBool {g_bool(r[1])})"
    elif r[0] == "tags":
        ret = f"(OTagsRet {e_dict(r[1])})"
    elif r == ("raise", "KeyError"):
        ret = "ORaise"
    elif r == ("raise", "AudioException"):
        ret = "ORaiseAudio"
    elif r[0] == "pos":
        ret = f"(OPos {g_z(r[1])})"
    else:
        raise Unrepresentable(f"exception {r!r}")
    evs = g_list([e_event(e) for e in o["events"] if e["cls"] == "AudioListener"])
    # compared commands: set_state, the uri property, seeks (other playbin properties such as
    # "flags" are not something the property speaks about)
    cmds = g_list([e_cmd(c) for c in fold_proxy(o["cmds"]) if not (c[0] == "playbin" and c[1] == "prop" and c[2] != "uri")])
    tags = "None" if o["tags"] == prev_tags else f"(Some {e_dict(o['tags'])})"
    return f"B_ {ret} {evs} {cmds} {e_pstate(o['state'])} {GST[o['target']]} {g_bool(o['buffering'])} {tags}"


def e_case(inputs, obs):
    prev = []
    bs = []
    for o in obs:
        bs.append(e_obs(o, prev))
        prev = o["tags"]
    return f"({g_list([e_input(i) for i in inputs])},\n  {g_list(bs)})"


CASES_HEADER = (vlib.COQ_HEADER + "From Common Require Import Res Str Cases.\nFrom Audio Require Import Model Obs Monitor.\n")


def coq_compare(chk, name, cases):
    """cases: list of (inputs, obs).  Evaluates, inside Coq, for every case the index of the
    first step on which model and implementation disagree (-1 = none); records failures."""
    shards = [cases[i: i + 250] for i in range(0, len(cases), 250)]
    texts = []
    for shard in shards:
        texts.append(CASES_HEADER + "Definition cases : list (list input * list obs) :=\n "
                     + g_list([e_case(i, o) for i, o, _ in shard]) + ".\n"
                     + "Eval vm_compute in map (fun c => first_bad init (fst c) (snd c) 0) cases.\n"
                     + "Eval vm_compute in map monitor_code cases.\n")
    results = vlib.coq_eval_many(AREA, texts, jobs=12)
    ok = True
    for shard, (rc, out) in zip(shards, results):
        lists = vlib.parse_all_lists(out)
        firsts = lists[0] if lists else None
        if rc != 0 or len(lists) != 2 or len(firsts) != len(shard) or len(lists[1]) != len(shard):
            ok = False
            chk.corr_failure(name, {"shard": "coq evaluation failed"}, out[-2000:])
            continue
        # Gallina monitors (Monitor.v: T1, T2, T3, T4 withholding, T5 invariant) on the implementation's trace
        for (inputs, obs, real), code in zip(shard, lists[1]):
            for bit, mon in ((1, "coq:stopped_followed"), (2, "coq:stream_announced_once"), (4, "coq:buffering_invariant"),
                             (8, "coq:reports_sound"), (16, "coq:tags_withheld"), (32, "coq:state_is_last_reached")):
                if code & bit:
                    sig = (mon, "{}")
                    if sig in chk.__dict__.setdefault("_c06_seen_fail", set()):
                        chk.dist("monitor-repeat:" + mon)
                        continue
                    chk._c06_seen_fail.add(sig)
                    chk.monitor_failure(mon, {"evaluated": "Monitor.monitor_code on the implementation trace"},
                                        f"Gallina monitor {mon} is false on the real execution",
                                        {"inputs": inputs, "real_listener": real})
        for (inputs, obs, real), cut in zip(shard, firsts):
            if cut == -1:
                continue
            ok = False
            chk.corr_failure(name, {"inputs": inputs[: cut + 1], "real_listener": real},
                             {"first_disagreeing_step": cut, "impl_step": slim(obs[cut]) if 0 <= cut < len(obs) else None})
    return ok


def slim(o):
    return {"ret": o["ret"], "events": [(e["name"], e["sent"]) for e in o["events"]], "cmds": o["cmds"],
            "state": o["state"], "target": o["target"], "buffering": o["buffering"], "tags": o["tags"]}


# ------------------------------------------------------------------ stages


def shrink_monitor(inputs, monitor, key, real_listener=False):
    def fails(cand):
        try:
            return any(m == monitor and kk == key
                       for m, kk, _ in monitors(cand, run_impl(cand, real_listener=real_listener)))
        except Exception:  # noqa: BLE001
            return False
    return vlib.shrink_list(inputs, fails)


def check_cases(chk, name, all_inputs, rng, listener=lambda idx: False):
    """listener(idx) -> observe case idx at a real AudioListener actor (events as RECEIVED
    through mopidy.listener.send and the pykka mailbox) instead of at a patched send."""
    cases = []
    seen_fail = chk.__dict__.setdefault("_c06_seen_fail", set())
    for idx, inputs in enumerate(all_inputs):
        inputs = [tuple(i) for i in inputs]
        real = bool(listener(idx))
        chk.dist("observed-at:" + ("listener-actor" if real else "patched-send"))
        obs = run_impl(inputs, rng=rng, real_listener=real)
        nontrivial = None
        names = [e["name"] for o in obs for e in o["events"]]
        buf_cmds = any(o["cmds"] for i, o in zip(inputs, obs) if i[0] == "buf")
        if "state_changed" in names and ("tags_changed" in names or buf_cmds or
                                         any(e["name"] == "stream_changed" and e["sent"].get("uri") for o in obs for e in o["events"])):
            nontrivial = json.dumps(inputs)
        chk.count(1, nontrivial_key=nontrivial)
        chk.dist(f"len<={10 if len(inputs) <= 10 else 30 if len(inputs) <= 30 else 60}")
        for i in inputs:
            chk.dist("in:" + i[0])
        for n in names:
            chk.dist("ev:" + n)
        for o in obs:
            for c in fold_proxy(o["cmds"]):
                chk.dist("cmd:" + c[0] + "." + c[1] + ("." + str(c[2]) if c[1] in ("state", "prop") and c[0] == "playbin" else ""))
            if o["ret"][0] == "raise":
                chk.dist("raise:" + o["ret"][1])
        if any(o["ret"][0] == "raise" for o in obs):
            chk.dist("case:raises")
        if buf_cmds:
            chk.dist("case:buffering-commands")
        for mon, key, what in monitors(inputs, obs):
            sig = (mon, json.dumps(key, sort_keys=True))
            if sig in seen_fail:
                # one (shrunk) representative per failure shape is reported; the rest are counted
                chk.dist("monitor-repeat:" + mon)
                continue
            seen_fail.add(sig)
            small = shrink_monitor(inputs, mon, key, real_listener=real)
            chk.monitor_failure(mon, key, what, {"inputs": small, "real_listener": real})
        try:
            e_case(inputs, obs)
            cases.append((inputs, obs, real))
        except Unrepresentable as ex:
            chk.corr_failure(name, {"inputs": inputs}, f"implementation showed something outside the model's vocabulary: {ex}")
        if len(chk.samples) < 3 and nontrivial:
            chk.sample({"inputs": inputs[:12], "events": [(e["name"], e["sent"]) for o in obs[:12] for e in o["events"]]})
    ok = coq_compare(chk, name, cases)
    return ok and not any(c["name"] == name for c in chk.corr_failures)


def sweep_inputs(full):
    """All STATE_CHANGED triples x requested states (x prior reported states x source)."""
    setups = {"NULL": [("stop", True)], "READY": [("prep", True)], "PAUSED": [("pause", True)], "PLAYING": [("start", True)]}
    priors = {"stopped": [], "playing": [("start", True), ("sc", True, "PAUSED", "PLAYING", "VOID_PENDING")],
              "paused": [("pause", True), ("sc", True, "READY", "PAUSED", "VOID_PENDING")]}
    out = []
    for prior in (priors if full else ["playing"]):
        for tgt, setup in setups.items():
            for src in ([True, False] if full else [True]):
                for o in STATES:
                    for n in STATES:
                        for p in STATES:
                            out.append(priors[prior] + setup + [("sc", src, o, n, p), ("tags?",)])
    return out


def search_hook_factory(chk):
    def hook(cf):
        case = cf.get("case") or {}
        base = case.get("inputs")
        if not base:
            return None
        real = bool(case.get("real_listener"))
        rng = vlib.Rng(chk.seed, "c06-search")
        for _ in range(300):
            cand = [tuple(i) for i in base]
            for _ in range(rng.randint(1, 3)):
                op = rng.choice(["ins", "del", "rep"])
                pos = rng.randrange(len(cand) + 1)
                if op == "ins" or not cand:
                    cand.insert(pos, gen_random_input(rng, True))
                elif op == "del" and len(cand) > 1:
                    cand.pop(min(pos, len(cand) - 1))
                else:
                    cand[min(pos, len(cand) - 1)] = gen_random_input(rng, True)
            try:
                fails = monitors(cand, run_impl(cand, real_listener=real))
            except Exception:  # noqa: BLE001
                continue
            if fails:
                mon, key, what = fails[0]
                return {"monitor": mon, "key": key, "what": what, "case": {"inputs": shrink_monitor(cand, mon, key, real_listener=real), "real_listener": real}}
        return None
    return hook


def load_corpus():
    out = [list(c) for c in CORPUS_INLINE]
    d = vlib.VERIF / "corpus" / "C06"
    if d.is_dir():
        for f in sorted(d.glob("*.json")):
            data = json.loads(f.read_text())
            out.append([tuple(i) for i in data["inputs"]])
    return out


def run(chk):
    logging.disable(logging.CRITICAL)
    chk.rule = ("sequences of 1-60 bus messages / pad events / control calls (plausible pipeline walks, uniform chaos, "
                "malformed VOID_PENDING transitions); non-trivial = the run emitted a state_changed AND (a tags_changed "
                "or a buffering-issued command or a stream_changed with a URI); distinct by input sequence")
    chk.trusted_base = [
        "Coq 8.16.1 kernel + vm_compute (no native_compute); PrimFloat/Uint63 kernel primitives for T6",
        "harness/c06.py generator, Gallina emitter and canonicalisation; harness/c06_driver.py fake elements/messages; harness/fakegi",
        "Python dict/list/== semantics transcribed in Audio/Model.v (correspondence-checked)",
    ]
    chk.assumptions = [
        "GStreamer is not modelled: the theorems hold for ALL sequences of bus messages/pad events, a superset of what a pipeline emits",
        "events are observed at mopidy.listener.send (delivery to listeners is pykka, not modelled)",
        "binary64 arithmetic of CPython floats = Coq PrimFloat (IEEE 754 round-to-nearest-even); Python round() = half-to-even",
    ]
    chk.search_hook = search_hook_factory(chk)
    _install_audit_workaround()
    chk.proof_stage(PROP_FILES, thorough_coqchk=(chk.tier == "thorough"))
    vlib.setup_impl()

    if chk.replay:
        data = json.loads(open(chk.replay).read())
        case = data.get("case") or (data.get("correspondence_failures") or [{}])[0].get("case") or {}
        inputs = [[tuple(i) for i in case["inputs"]]]
        ok = check_cases(chk, "audio", inputs, None, listener=lambda _i: bool(case.get("real_listener")))
        chk.obligation("corr:audio", "correspondence", ok)
        return

    quick = chk.tier == "quick"
    n = 1500 if quick else 60000
    max_len = 60
    gen = []
    for _ in range(n):
        inputs, style = gen_case(chk.rng, max_len if chk.rng.random() < 0.5 else 20)
        chk.dist("style:" + style)
        gen.append(inputs)
    # every third case is observed at a real listener actor
    ok = check_cases(chk, "audio", load_corpus() + gen, vlib.Rng(chk.seed, "c06-answers"),
                     listener=lambda i: i % 3 == 1)
    chk.obligation("corr:audio", "correspondence", ok)

    # delivery: histories with identical consecutive events, observed where a listener actor
    # receives them (mopidy.listener.send + pykka mailbox are then inside the checked path)
    reps = list(REPEAT_CORPUS) + load_corpus() + [gen_repeats(chk.rng) for _ in range(250 if quick else 4000)]
    ok = check_cases(chk, "audio_listener", reps, vlib.Rng(chk.seed, "c06-answers-2"), listener=lambda i: True)
    chk.obligation("corr:audio_listener", "correspondence", ok)

    sweep = sweep_inputs(full=not quick)
    ok = check_cases(chk, "state_sweep", sweep, None)
    chk.obligation("corr:state_sweep", "correspondence", ok)
    chk.notes.append(f"state sweep: {len(sweep)} cases = all 125 (old,new,pending) triples x 4 requested states"
                     + ("" if quick else " x 3 prior reported states x {playbin, other element}"))
    chk.exhaustive = True

    try:
        import c06_mixer
    except ImportError:
        c06_mixer = None
    if c06_mixer is not None:
        c06_mixer.run(chk)
    try:
        import c06_utils
    except ImportError:
        c06_utils = None
    if c06_utils is not None:
        c06_utils.run(chk)
    try:
        import c06_pipeline
    except ImportError:
        c06_pipeline = None
    if c06_pipeline is not None:
        c06_pipeline.run(chk)
