"""Shared helpers of the Rpc area (harness/c07.py, harness/c08.py): Python <-> Gallina JSON,
a JSON text encoder that can write literal tokens (NaN, 1e400, duplicate keys)."""

from common.vlib import g_list, g_str, g_z


class Raw:
    """A literal token written verbatim into the JSON text (e.g. NaN, 1e400)."""

    def __init__(self, text):
        self.text = text

    def __repr__(self):
        return f"Raw({self.text})"


def enc(v):
    """Encode to JSON text; ``Raw`` tokens verbatim; dict given as list of pairs allowed."""
    import json

    if isinstance(v, Raw):
        return v.text
    if v is None or isinstance(v, bool | int | str):
        return json.dumps(v, ensure_ascii=False)
    if isinstance(v, float):
        return json.dumps(v)  # NaN / Infinity literals for non-finite values
    if isinstance(v, list | tuple):
        return "[" + ",".join(enc(x) for x in v) + "]"
    if isinstance(v, dict):
        return "{" + ",".join(json.dumps(str(k), ensure_ascii=False) + ":" + enc(x) for k, x in v.items()) + "}"
    raise TypeError(type(v))


def g_json(v):
    """Python value (as returned by a JSON parser) -> Gallina term of type Json.json."""
    if v is None:
        return "JNull"
    if v is True:
        return "(JBool true)"
    if v is False:
        return "(JBool false)"
    if isinstance(v, int):
        return f"(JInt {g_z(v)})"
    if isinstance(v, float):
        return f"(JFloat {g_str(repr(v))})"
    if isinstance(v, str):
        return f"(JStr {g_str(v)})"
    if isinstance(v, list | tuple):
        return "(JArr " + g_list([g_json(x) for x in v]) + ")"
    if isinstance(v, dict):
        return "(JObj " + g_list([f"({g_str(k)}, {g_json(x)})" for k, x in v.items()]) + ")"
    raise TypeError(f"not a JSON value: {type(v)}")


def json_depth(v):
    if isinstance(v, list | tuple):
        return 1 + max((json_depth(x) for x in v), default=0)
    if isinstance(v, dict):
        return 1 + max((json_depth(x) for x in v.values()), default=0)
    return 0


def run_shards(vlib, area, header, case_type, shards_items, evals, jobs=8, timeout=900):
    """Compile one generated file per shard.

    ``shards_items``: list of lists of Gallina case terms.  ``evals``: list of Gallina
    boolean functions over a case; the file prints ``mismatches f cases`` for each.
    Returns a list (per shard) of either None (coq failed; second element is the log) or
    a list of index lists, one per eval.
    """
    texts = []
    for items in shards_items:
        t = header + f"Definition cases : list ({case_type}) :=\n " + g_list(items) + ".\n"
        for f in evals:
            t += f"Eval vm_compute in mismatches ({f}) cases.\n"
        texts.append(t)
    results = vlib.coq_eval_many(area, texts, timeout=timeout, jobs=jobs)
    out = []
    for rc, log in results:
        lists = vlib.parse_all_lists(log)
        if rc != 0 or len(lists) != len(evals):
            out.append((None, log))
        else:
            out.append((lists, log))
    return out
