"""Shared driver for the core-world properties C01-C05 and C10."""

from __future__ import annotations

import json
import logging
from pathlib import Path

import core_gen
import core_monitors as M
import core_run
from common import vlib

AREA = "Core"

TRUSTED = [
    "Coq 8.16.1 kernel + vm_compute (no native_compute); coq-record-update (RecordSet) for record setters",
    "harness/core_env.py: AudioEnv (environment specification, same rules as coq/Core/Model.v env_*), scripted backend built on the real mopidy.backend.PlaybackProvider, patched random.shuffle (rotate/reverse oracle = Model.shuf_concrete)",
    "harness/core_run.py + core_gen.py: generator, flat observation encoder, Gallina emitter",
    "pykka mailbox FIFO (in-order delivery of audio notifications) is assumed; Deliver ops make the schedule explicit",
]
ASSUMPTIONS = [
    "the audio layer seen by the core behaves like AudioEnv (DESIGN.md section 3); GStreamer is not modelled",
    "in the MODEL backend play/pause/resume/stop/seek/get_time_position do not raise; on the implementation a monitor-only stage (core_faulty.py) makes play() and prepare_change() raise: requests still end, TypeError from play() and any prepare_change() failure are contained, any other exception from play() reaches the client (recorded finding, the code's own TODO)",
    "client arguments are type-correct (ints, bools, lists) except that add(tracks=...) may carry items that are not Tracks; range errors are part of the quantifier",
]


def _monitors(prop, case, trace, profile):
    settled = profile in ("settled", "settledf")
    if prop == "C01":
        return M.c01(case, trace)
    if prop == "C02":
        return M.c02(case, trace, settled=settled)
    if prop == "C03":
        return M.c03(case, trace, settled=settled)
    if prop == "C04":
        return M.c04(case, trace)
    if prop == "C05":
        return M.c05(case, trace)
    if prop == "C10":
        return M.c10(case, trace)
    raise AssertionError(prop)


def _nontrivial(prop, case, trace):
    names = [e[0] for t in trace for e in t["events"]]
    if prop == "C01":
        return names.count("tracklist_changed") >= 2 and any(t["exc"] for t in trace)
    if prop == "C02":
        pending_calls = sum(1 for i, t in enumerate(trace)
                            if i > 0 and t["op"][0] not in ("deliver", "tick") and trace[i - 1]["queue_len"] > 0)
        return "track_playback_started" in names and (pending_calls >= 1 or case["profile"] in ("settled", "settledf"))
    if prop == "C03":
        return names.count("track_playback_started") >= 2
    if prop == "C04":
        return any(len(t["attempts"]) >= 2 for t in trace)
    if prop == "C05":
        return any(not ok for t in trace for _, ok in t["attempts"]) and "track_playback_started" in names
    if prop == "C10":
        return any(t["op"][0] == "load" and (t["pending"] is not None or t["tl"]) for t in trace)
    return True


def run_monitors(chk, prop, case, trace, profile, shrink=True):
    hits = list(_monitors(prop, case, trace, profile))
    seen = set()
    for mon, key, what, step in hits:
        k = (mon, json.dumps(key, sort_keys=True))
        if k in seen:
            continue
        seen.add(k)
        small = dict(case)
        small["ops"] = case["ops"][: step + 1]
        if shrink and len(small["ops"]) > 3:
            small["ops"] = _shrink(prop, small, profile, mon, key)
        chk.monitor_failure(mon, key, f"{what} [{mon}]", {"case": small, "step": step, "profile": profile})
    return bool(hits)


def _shrink(prop, case, profile, mon, key):
    def fails(ops):
        c = dict(case)
        c["ops"] = ops
        try:
            _, trace = core_run.run_case(c)
        except Exception:  # noqa: BLE001
            return False
        return any(m == mon and k == key for m, k, _, _ in _monitors(prop, c, trace, profile))

    try:
        return vlib.shrink_list(case["ops"], fails, max_steps=150)
    except Exception:  # noqa: BLE001
        return case["ops"]


def make_search_hook(chk, prop):
    """Directed search after a broken tie: mutate the disagreeing case and run the monitors."""

    def hook(cf):
        case = cf["case"].get("case") if isinstance(cf["case"], dict) else None
        if not case or "ops" not in case:
            return None
        profile = case.get("profile", "schedule")
        variants = []
        ops = case["ops"]
        for n in range(1, len(ops) + 1):
            variants.append(ops[:n])
        for m in range(16):
            variants.append([["setmode", w, bool(m >> w & 1)] for w in range(4)] + ops)
        for i in range(len(ops)):
            variants.append(ops[:i] + ops[i + 1:])
        # continuations: let pending notifications arrive / end the track / stop after the
        # disagreeing prefix
        tails = [[["deliver"]] * k for k in (1, 2, 4, 8)]
        tails += [[["atf"]] + [["deliver"]] * 6, [["stop"]] + [["deliver"]] * 4, [["next"]] + [["deliver"]] * 6,
                  [["previous"]] + [["deliver"]] * 6, [["pause"], ["resume"]] + [["deliver"]] * 6,
                  [["save"], ["load", [True] * 5]] + [["deliver"]] * 8]
        variants = [ops + t for t in tails] + variants
        findings = vlib.load_findings(prop)
        # each variant also with a backend that refuses everything once the script is used up
        scripted = [(v, case["script"]) for v in variants[:300]] + \
                   [(v, list(case["script"]) + [True] * 900) for v in variants[:150]]
        for v, scr in scripted:
            c = dict(case)
            c["ops"] = v
            c["script"] = scr
            try:
                _, trace = core_run.run_case(c)
            except Exception:  # noqa: BLE001
                continue
            for mon, key, what, step in _monitors(prop, c, trace, profile):
                if any(vlib.finding_matches(e, mon, key) for e in findings):
                    continue
                c["ops"] = v[: step + 1]
                return {"monitor": mon, "key": key, "what": what, "case": {"case": c, "step": step}}
        return None

    return hook


def load_corpus(prop):
    d = vlib.VERIF / "corpus" / prop
    out = []
    if d.is_dir():
        for f in sorted(d.glob("*.json")):
            c = json.loads(f.read_text())
            c.setdefault("profile", "schedule")
            c.setdefault("volume", None)
            c.setdefault("mute", None)
            out.append(c)
    return out


def run_core(chk, prop, profiles, prop_files, quick_n=350, thorough_n=9000):
    """profiles: list of (profile_name, weight)."""
    vlib.setup_impl()
    logging.disable(logging.CRITICAL)
    chk.trusted_base = TRUSTED
    chk.assumptions = ASSUMPTIONS
    chk.search_hook = make_search_hook(chk, prop)
    chk.proof_stage(prop_files, thorough_coqchk=(chk.tier == "thorough"))
    if chk.replay:
        data = json.loads(Path(chk.replay).read_text())
        cases = [data["case"]["case"]] if "case" in data and isinstance(data["case"], dict) and "case" in data["case"] else []
        pairs = []
        for c in cases:
            obs, trace = core_run.run_case(c)
            pairs.append((c, obs))
            run_monitors(chk, prop, c, trace, c.get("profile", "schedule"), shrink=False)
            chk.count(1, nontrivial_key=json.dumps(c["ops"]))
            chk.sample({"ops": c["ops"]})
        bad = core_run.check_cases(chk, pairs, "core-world") if pairs else []
        for i in bad:
            chk.corr_failure("core-world", {"case": pairs[i][0]})
        chk.obligation("corr:core-world", "correspondence", not bad)
        return
    pairs = []
    # corpus first
    for c in load_corpus(prop):
        obs, trace = core_run.run_case(c)
        pairs.append((c, obs))
        run_monitors(chk, prop, c, trace, c.get("profile", "schedule"), shrink=False)
        chk.count(1, nontrivial_key=json.dumps(c["ops"]) if _nontrivial(prop, c, trace) else None)
        chk.dist("corpus")
    total = quick_n if chk.tier == "quick" else thorough_n
    wsum = sum(w for _, w in profiles)
    for profile, w in profiles:
        n = max(1, int(total * w / wsum))
        rng = vlib.Rng(chk.seed, f"{prop}-{profile}")
        for _ in range(n):
            mco = None
            if chk.tier == "thorough":
                mco = {"settled": 25, "settledf": 25, "restore": 30}.get(profile, 60)
            case, obs, trace = core_gen.generate_and_run(rng, profile, mco)
            pairs.append((case, obs))
            run_monitors(chk, prop, case, trace, profile)
            chk.count(1, nontrivial_key=json.dumps(case["ops"]) if _nontrivial(prop, case, trace) else None)
            chk.dist(f"profile:{profile}")
            chk.dist(f"ops<={(len(case['ops']) // 20 + 1) * 20}")
            for t in trace:
                if t["exc"]:
                    chk.dist(f"exc:{t['exc']}")
            chk.dist("ops_total", len(case["ops"]))
            if len(chk.samples) < 3:
                chk.sample({"profile": profile, "kinds": case["kinds"], "lens": case["lens"],
                            "script": case["script"], "ops": case["ops"][:25]})
    bad = core_run.check_cases(chk, pairs, "core-world")
    for i in bad[:20]:
        case = pairs[i][0]
        detail = ""
        try:
            mobs, _ = core_run.model_obs(case)
            if mobs is not None:
                for j, (a, b) in enumerate(zip(mobs, pairs[i][1])):
                    if a != b:
                        detail = f"first differing step {j} op={case['ops'][j]} model={a} impl={b}"
                        case = dict(case)
                        case["ops"] = case["ops"][: j + 1]
                        break
        except Exception as e:  # noqa: BLE001
            detail = f"diagnosis failed: {e!r}"
        chk.corr_failure("core-world", {"case": case}, detail)
    chk.obligation("corr:core-world", "correspondence", not bad,
                   f"{len(bad)} of {len(pairs)} cases disagree" if bad else "")
    chk.notes.append(f"correspondence: {len(pairs)} op sequences, observation compared after every op")
