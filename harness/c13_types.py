"""C13, typed stages (run from c13.py).

  corr:serialize   every ConfigValue.serialize(value, display) on values in the range of the
                   real deserialize (all classes, Pair/List nesting) and on None
  corr:format      config._format (display on/off, disabled) on validated configs over the
                   bundled and synthetic schemas
Monitors (Python mirrors of the theorems of Property_C13.v):
  type_roundtrip         deserialize(serialize(v)) == v, with the carve-outs the property makes
  mask_noninterference   two values differing only in set secrets serialize/format identically
                         when display is on
  secret_preserved       with display off a secret's serialization decodes to itself
  format_load_roundtrip  format(display off) written to a file, _load + _validate gives the config
                         back (for values the INI syntax can carry); same for format_initial
"""

from __future__ import annotations

import json
import math
import pathlib
import shutil
import tempfile
import types as pytypes

import c12
import cfglib
from cfglib import Interner, g_fl, g_ty, g_z
from common import vlib
from common.vlib import g_bool, g_list

AREA = "Config"
COQ_IMPORTS = ("From Common Require Import Res Str Cases.\n"
               "From Config Require Import Escape Types Schema Tables Serialize STables.\n")


# ------------------------------------------------------------------ values -> Gallina (iteration order kept)


def g_val_ordered(ty, v, I):
    """Like cfglib.g_val but a frozenset is emitted in its iteration order (what serialize walks)."""
    if isinstance(v, frozenset):
        sub = ty[3] if ty[0] == "List" else ty
        return f"(VSet {g_list([g_val_ordered(sub, x, I) for x in v])})"
    if isinstance(v, tuple) and ty[0] == "Pair" and len(v) == 2:
        return f"(VPair {g_val_ordered(ty[4], v[0], I)} {g_val_ordered(ty[5], v[1], I)})"
    if isinstance(v, tuple):
        sub = ty[3] if ty[0] == "List" else ty
        return f"(VTuple {g_list([g_val_ordered(sub, x, I) for x in v])})"
    return cfglib.g_val(ty, v, I)


def collect(v, ints, floats, strings):
    from mopidy.config import types as T

    if isinstance(v, bool) or v is None or isinstance(v, T.DeprecatedValue):
        return
    if isinstance(v, T._TransformedValue):
        strings.add(v.original)
        strings.add(str(v))
    elif isinstance(v, str):
        strings.add(v)
    elif isinstance(v, int):
        ints.add(v)
    elif isinstance(v, float):
        floats.append(v)
    elif isinstance(v, (tuple, frozenset)):
        for x in v:
            collect(x, ints, floats, strings)


def g_stables(values, I):
    ints, floats, strings = set(), [], set()
    for v in values:
        collect(v, ints, floats, strings)
    ti = g_list([f"({g_z(z)}, {I.s(str(z))})" for z in sorted(ints)])
    seen, tf = set(), []
    for f in floats:
        key = g_fl(f)
        if key not in seen:
            seen.add(key)
            tf.append(f"({key}, {I.s(repr(f))})")
    chars = sorted({c for s in strings for c in s if ord(c) >= 128})
    tl = g_list([f"({ord(c)}, {I.s(c.lower())})" for c in chars])
    return f"{ti}, {g_list(tf)}, {tl}"


def run_serialize(ty, v, display):
    from mopidy.config import types as T

    obj = cfglib.to_impl(ty)
    try:
        r = obj.serialize(v, display=display)
    except ValueError:
        return ("raise", 0)
    except TypeError:
        return ("raise", 1)
    except AttributeError:
        return ("raise", 2)
    except Exception as e:  # noqa: BLE001
        return ("raise-other", type(e).__name__)
    if isinstance(r, T.DeprecatedValue):
        return ("dep",)
    if isinstance(r, str):
        return ("str", r)
    return ("other", type(r).__name__)


def g_sres(out, I):
    if out[0] == "str":
        return f"(SStr {I.s(out[1])})"
    if out[0] == "dep":
        return "SDep"
    if out[0] == "raise":
        return f"(SRaise {out[1]})"
    return "SStuck"


# ------------------------------------------------------------------ equality and carve-outs


def deep_eq(a, b):
    from mopidy.config import types as T

    if type(a) is not type(b):
        return False
    if isinstance(a, T._TransformedValue):
        return str(a) == str(b) and a.original == b.original
    if isinstance(a, float):
        return (a != a and b != b) or (a == b and math.copysign(1, a) == math.copysign(1, b))
    if isinstance(a, tuple):
        return len(a) == len(b) and all(deep_eq(x, y) for x, y in zip(a, b))
    if isinstance(a, frozenset):
        return len(a) == len(b) and all(any(deep_eq(x, y) for y in b) for x in a)
    if isinstance(a, T.DeprecatedValue):
        return True
    return a == b


SPECIAL = ("\\", "\n", "\t")


def roundtrip_scope(ty, v):  # noqa: PLR0911, PLR0912
    """None if the property demands deserialize(serialize(v)) == v for this (type, value);
    otherwise the name of the carve-out that applies (list syntax, pair ambiguity, ...)."""
    from mopidy.config import types as T

    k = ty[0]
    if k == "Deprecated":
        return "deprecated"
    if v is None:
        # None is an accepted value only of optional types that can return it
        if not cfglib.ty_optional(ty) or k in ("List", "LogColor", "LogLevel"):
            return "none-not-accepted-by-type"
        return None
    if isinstance(v, T.DeprecatedValue):
        return "deprecated"
    if k == "Hostname":
        return None
    if k == "Pair":
        sep = ty[3]
        if sep == "" or any(c in sep for c in SPECIAL) or sep != sep.strip() or any(ch.isspace() for ch in sep):
            return "pair-separator-not-plain"
        for t, x in ((ty[4], v[0]), (ty[5], v[1])):
            if t[0] in ("List", "Deprecated"):
                return "pair-component-is-list"
            r = roundtrip_scope(t, x)
            if r:
                return r
        texts = []
        for t, x in ((ty[4], v[0]), (ty[5], v[1])):
            out = run_serialize(t, x, False)
            if out[0] != "str":
                return "pair-component-unserializable"
            texts.append(T.decode(out[1]))
        x1, x2 = texts
        whole = x1 + sep + x2
        if whole.strip() != whole or whole == "":
            return "pair-ambiguous"
        if ty[2] and x1 == x2:
            return "pair-ambiguous" if sep in x1 or x1 == "" else None
        if whole.split(sep, 1) != [x1, x2]:
            return "pair-ambiguous"
        return None
    if k == "List":
        sub = ty[3]
        if sub[0] in ("List", "Deprecated"):
            return "list-of-lists"
        if sub[0] == "Pair" and any(c[0] == "List" for c in (sub[4], sub[5])):
            return "list-of-lists"
        for x in v:
            if x is None:
                return "list-item-none"
            r = roundtrip_scope(sub, x)
            if r:
                return r
            out = run_serialize(sub, x, False)
            if out[0] != "str":
                return "list-item-unserializable"
            s = out[1]
            if s == "" or any(c in s for c in SPECIAL) or s != s.strip():
                return "list-item-not-single-line-backslash-free"
        return None
    return None


def ini_scope(text_values):
    """Carve-out of T5: can the INI syntax carry these serialized values unchanged?"""
    for s in text_values:
        lines = s.split("\n")
        for i, ln in enumerate(lines):
            if "\r" in ln:
                return "line-break-character"
            for j, ch in enumerate(ln):
                if ch == ";" and (j == 0 and i > 0 or (j > 0 and ln[j - 1].isspace()) or (j == 0 and i == 0)):
                    return "inline-comment-prefix"
            if i > 0 and ln.strip().startswith(("#", ";")):
                return "comment-like-list-item"
            if i > 0 and ln.strip() == "":
                return "blank-list-item"
        if s != s.strip() and not s.startswith("\n"):
            return "outer-whitespace"
    return None


def replace_secrets(ty, v, fresh):
    """Another value differing from v exactly at the set Secret positions."""
    from mopidy.config import types as T

    k = ty[0]
    if v is None:
        return None, 0
    if k == "Secret":
        new = fresh()
        if isinstance(v, T._TransformedValue):
            return T._TransformedValue(new, new.lower()), 1
        return new, 1
    if k == "Pair" and isinstance(v, tuple) and len(v) == 2:
        a, n1 = replace_secrets(ty[4], v[0], fresh)
        b, n2 = replace_secrets(ty[5], v[1], fresh)
        return (a, b), n1 + n2
    if k == "List" and isinstance(v, (tuple, frozenset)):
        out, n = [], 0
        for x in v:
            y, m = replace_secrets(ty[3], x, fresh)
            out.append(y)
            n += m
        return (tuple(out) if isinstance(v, tuple) else out), n   # keep positions (a list, not a set)
    return v, 0


def secret_texts(ty, v, acc):
    from mopidy.config import types as T

    k = ty[0]
    if v is None:
        return acc
    if k == "Secret":
        acc.append(v.original if isinstance(v, T._TransformedValue) else v)
    elif k == "Pair" and isinstance(v, tuple) and len(v) == 2:
        secret_texts(ty[4], v[0], acc)
        secret_texts(ty[5], v[1], acc)
    elif k == "List" and isinstance(v, (tuple, frozenset)):
        for x in v:
            secret_texts(ty[3], x, acc)
    return acc


# ------------------------------------------------------------------ stage: serialize


VALUE_STRINGS = ["plain", "C:\\new\\tunes", "\\\\nas\\share", "D:\\backup", "line1\nline2", "tab\there", "\\", "end\\",
                 "\\n", "\\\\n", "a\\tb\\\\", "x", "é\\né", "two words", "semi;colon", "a=b", "\\t\\n\\\\",
                 "Top 40 #1 hits", "a\t#b", "#lead", "C# minor", "x #", "pw #1", "x ;y"]


def gen_value(ty, rng):
    """A value of `ty` built directly (not through deserialize), or NotImplemented.

    Strings are escape-heavy: literal backslashes followed by n / t / backslash, real newlines
    and tabs.  Every value produced is one the type accepts (stripped, non-empty, in range)."""
    from mopidy.config import types as T

    k = ty[0]
    if k in ("String", "Secret"):
        tr = ty[3] if k == "String" else ty[2]
        if k == "String" and ty[2] is not None:
            return NotImplemented
        s = rng.choice(VALUE_STRINGS)
        if tr is None:
            return s
        if tr == "lower":
            return T._TransformedValue(s, s.lower())
        if isinstance(tr, tuple) and tr[0] == "oracle":
            s = rng.choice(VALUE_STRINGS + ['""', '"quoted"', '""', '"'])
            return T._TransformedValue(s, tr[2](s))
        return NotImplemented
    if k == "Integer":
        if ty[4] is not None:
            return NotImplemented
        lo = ty[2] if ty[2] is not None else -5
        hi = ty[3] if ty[3] is not None else lo + 1000
        if lo > hi:
            return NotImplemented   # empty range: the type accepts nothing
        if rng.random() < 0.4:
            # integers that are not exact doubles / machine-word boundaries
            big = [z for z in (2**53 + 1, 2**53 - 1, -(2**53) - 1, 2**63 - 1, 2**63 + 1, 2**64 + 1, 10**18 + 1, 10**22 + 1,
                               65535, 65534) if lo <= z and (ty[3] is None or z <= ty[3])]
            if big:
                return rng.choice(big)
        return rng.randint(lo, max(lo, min(hi, lo + 100000)))
    if k == "Boolean":
        return rng.random() < 0.5
    if k == "LogLevel":
        return rng.choice([50, 40, 30, 20, 10, 5, 0])
    if k == "LogColor":
        return rng.choice(["black", "red", "white"])
    if k == "Pair":
        a, b = gen_value(ty[4], rng), gen_value(ty[5], rng)
        if a is NotImplemented or b is NotImplemented:
            return NotImplemented
        if ty[2] and rng.random() < 0.4 and ty[4] == ty[5]:
            b = a
            if isinstance(a, T._TransformedValue) and rng.random() < 0.7:
                # same effective value, different spelling: compares equal, serializes differently
                twin = a.original.swapcase()
                tr = ty[4][3] if ty[4][0] == "String" else ty[4][2]
                fn = cfglib._tr_fn(tr)
                if fn(twin) == str(a) and twin != a.original:
                    b = T._TransformedValue(twin, fn(twin))
        return (a, b)
    if k == "List":
        items = []
        for _ in range(rng.choice([1, 2, 3])):
            x = gen_value(ty[3], rng)
            if x is NotImplemented:
                return NotImplemented
            items.append(x)
        if ty[2]:
            try:
                return frozenset(items)
            except TypeError:
                return NotImplemented
        return tuple(items)
    return NotImplemented


def gen_ty_pairish(rng):
    """Pair shapes (also inside List) over string-like halves, for the re-encode step."""
    S = lambda: rng.choice([("String", False, None, None), ("String", True, None, None), ("Secret", False, None),
                            ("String", False, None, "lower"), ("Integer", False, None, None, None), ("Boolean", False)])
    sep = rng.choice(["|", "|", "=", "::", "->"])
    pair = ("Pair", rng.random() < 0.3, rng.random() < 0.35, sep, S(), S())
    shape = rng.choice(["pair", "pair", "list-pair", "pair-pair", "twin"])
    if shape == "twin":
        low = rng.choice([("String", False, None, "lower"), ("Secret", False, "lower")])
        return ("Pair", False, True, sep, low, low)
    if shape == "pair":
        return pair
    if shape == "list-pair":
        return ("List", True, False, pair)
    return ("Pair", False, False, "=" if sep != "=" else "|", ("String", False, None, None), pair)


def gen_ty_secretish(rng):
    """Types with Secret leaves at various depths (for the masking monitor)."""
    leaf = ("Secret", rng.random() < 0.5, rng.choice([None, None, "lower"]))
    shape = rng.choice(["leaf", "pair", "list", "list-pair", "pair-pair"])
    other = rng.choice([("String", True, None, None), ("Integer", True, None, None, None), ("Boolean", True)])
    if shape == "leaf":
        return leaf
    if shape == "pair":
        return ("Pair", rng.random() < 0.3, rng.random() < 0.4, rng.choice(["|", ":", "::"]), *rng.sample([leaf, other], 2))
    if shape == "list":
        return ("List", True, rng.random() < 0.3, leaf)
    if shape == "list-pair":
        return ("List", True, False, ("Pair", False, rng.random() < 0.4, "|", other, leaf))
    return ("Pair", False, False, "=", other, ("Pair", False, rng.random() < 0.4, "|", leaf, leaf))


def value_to_json(v):
    from mopidy.config import types as T

    if isinstance(v, T._TransformedValue):
        return {"orig": v.original, "str": str(v)}
    if isinstance(v, tuple):
        return [value_to_json(x) for x in v]
    if isinstance(v, frozenset):
        return {"set": [value_to_json(x) for x in v]}
    return v


def value_from_json(ty, j):
    from mopidy.config import types as T

    if isinstance(j, dict) and "orig" in j:
        cls = T._ExpandedPath if ty[0] == "Path" else T._TransformedValue
        return cls(j["orig"], j["str"])
    if isinstance(j, dict) and "set" in j:
        return frozenset(value_from_json(ty[3], x) for x in j["set"])
    if isinstance(j, list) and ty[0] == "Pair":
        return (value_from_json(ty[4], j[0]), value_from_json(ty[5], j[1]))
    if isinstance(j, list):
        return tuple(value_from_json(ty[3], x) for x in j)
    return j


def list_of_deprecated(ty):
    if ty[0] == "List":
        return "Deprecated" in cfglib.ty_kinds(ty[3])
    if ty[0] == "Pair":
        return list_of_deprecated(ty[4]) or list_of_deprecated(ty[5])
    return False


def instance_sequence(chk, ty, raw_t, raw, v1, rng, scratch):
    """ONE type object used for a sequence of calls: deserialize text 1, deserialize some other texts
    (one-line, single item, empty, invalid), then serialize the first value.  A config type is a
    description, not a memory: the text must be the one a fresh object writes, and must load back
    (on that same object) to the first value."""
    from mopidy.config import types as T

    rec = cfglib.Recorder()
    obj = cfglib.to_impl(rec.wrap_transformers(ty))
    others = [rng.choice(["", "single", "a, b", "x", "1", "true", "\n  one\n  two", "a|b", "bogus ,"]) if rng.random() < 0.6
              else scratch.subst(cfglib.gen_raw(ty, rng)) for _ in range(rng.randint(1, 3))]
    case = {"stage": "serialize", "ty": c12.strip_fn(ty), "raw": raw_t, "sequence": others}
    try:
        with rec.active():
            first = obj.deserialize(raw)
            for t in others:
                try:
                    obj.deserialize(t)
                except ValueError:
                    pass
            text = obj.serialize(first, display=False)
            fresh = cfglib.to_impl(rec.wrap_transformers(ty)).serialize(first, display=False)
            back = obj.deserialize(text) if isinstance(text, str) and isinstance(fresh, str) and text != fresh else None
    except Exception as e:  # noqa: BLE001
        chk.monitor_failure("instance_stateless", {"type": ty[0], "what": "exception"},
                            f"{type(e).__name__} in a deserialize/deserialize/serialize sequence on one {ty[0]} object", case)
        return
    chk.dist("ser:instance-sequence")
    if isinstance(fresh, T.DeprecatedValue) and isinstance(text, T.DeprecatedValue):
        return
    if text != fresh:
        lost = back is None or not deep_eq(back, first)
        chk.monitor_failure("instance_stateless", {"type": ty[0], "what": "serialize-depends-on-history"},
                            f"{ty[0]}: after deserializing other texts the same object serializes the first value as {text!r}, "
                            f"a fresh object as {fresh!r}" + ("; and that text does not load back to the value" if lost else ""), case)


def serialize_stage(chk, scratch, bundled_types):
    from mopidy.config import types as T

    rng = chk.rng
    n = 3000 if chk.tier == "quick" else 40000
    cases = []
    for c in corpus("serialize"):
        cases.append((c12.ty_from_json(c["ty"]), c["raw"]))
    for _ in range(n):
        r = rng.random()
        ty = rng.choice(bundled_types) if r < 0.25 else gen_ty_secretish(rng) if r < 0.45 else cfglib.gen_ty(rng)
        if list_of_deprecated(ty):
            continue   # List(subtype=Deprecated()) is not a usable type: "\n  ".join() of DeprecatedValue objects
        cases.append((ty, cfglib.gen_raw(ty, rng)))
    # value-first cases: (type, None raw, value built directly)
    direct = []
    for c in corpus("value"):
        direct.append((c12.ty_from_json(c["ty"]), value_from_json(c12.ty_from_json(c["ty"]), c["value"])))
    for _ in range(n // 3):
        r = rng.random()
        ty = gen_ty_pairish(rng) if r < 0.6 else gen_ty_secretish(rng) if r < 0.8 else cfglib.gen_ty(rng)
        if list_of_deprecated(ty):
            continue
        v = gen_value(ty, rng)
        if v is not NotImplemented:
            direct.append((ty, v))
    if chk.replay_case and chk.replay_case.get("stage") == "serialize":
        rc = chk.replay_case
        if "value" in rc:
            t_ = c12.ty_from_json(rc["ty"])
            cases, direct = [], [(t_, value_from_json(t_, rc["value"]))]
        else:
            cases, direct = [(c12.ty_from_json(rc["ty"]), rc["raw"])], []
    builders, kept = [], []
    re_builders, re_kept = [], []
    counter = [0]

    def fresh():
        counter[0] += 1
        return f"other-secret-{counter[0]}\\x"

    work = []
    for ty, raw_t in cases:
        if cfglib.has_final_sigma_hazard(raw_t):
            continue
        raw = scratch.subst(raw_t)
        rec, out = c12.run_deserialize(ty, raw)
        values = [None]
        if out[0] == "ok" and out[1] is not None:
            values.insert(0, out[1])
        work.append((ty, raw_t, values))
        if out[0] == "ok" and out[1] is not None and rng.random() < 0.35:
            instance_sequence(chk, ty, raw_t, raw, out[1], rng, scratch)
    for ty, v in direct:
        work.append((ty, None, [v]))
    for ty, raw_t, values in work:
        for v in values:
            case = {"stage": "serialize", "ty": c12.strip_fn(ty), "raw": raw_t, "value_is_none": v is None}
            if raw_t is None:
                case = {"stage": "serialize", "ty": c12.strip_fn(ty), "value": value_to_json(v)}
                chk.dist("ser:value-first")
            outs = {d: run_serialize(ty, v, d) for d in (False, True)}
            chk.count(1, nontrivial_key=(repr(c12.strip_fn(ty)), raw_t if raw_t is not None else repr(value_to_json(v))) if v is not None and len(cfglib.ty_kinds(ty)) >= 1
                      and (isinstance(v, (tuple, frozenset)) or (isinstance(v, str) and any(c in v for c in SPECIAL))) else None)
            chk.dist("ser:type=" + ty[0])
            chk.dist("ser:value=" + ("None" if v is None else "set"))
            for d, o in outs.items():
                if o[0] in ("raise-other", "other"):
                    chk.monitor_failure("serialize_total", {"type": ty[0], "exception": str(o[1])},
                                        f"{ty[0]}.serialize raised/returned {o[1]}", case)
                elif o[0] == "raise":
                    known = ty[0] == "Boolean"
                    if not known:
                        exn = ["ValueError", "TypeError", "AttributeError"][o[1]]
                        chk.monitor_failure("serialize_total", {"type": ty[0], "exception": exn,
                                                                "value": "None" if v is None else "set"},
                                            f"{ty[0]}.serialize raised {exn} on {'None' if v is None else 'an accepted value'}", case)
                if o[0] in ("raise-other", "other"):
                    continue
                kept.append({**case, "display": d})
                builders.append(lambda I, ty=ty, v=v, d=d, o=o:
                                f"({g_stables([v], I)}, {g_ty(ty, I)}, {g_val_ordered(ty, v, I)}, {g_bool(d)}, {g_sres(o, I)})")
            # ---- T2 round trip
            scope = roundtrip_scope(ty, v)
            chk.dist("ser:roundtrip-scope=" + (scope or "in-scope"))
            if scope is None and outs[False][0] == "str":
                rec2, back = c12.run_deserialize(ty, outs[False][1])
                ok = back[0] == "ok" and deep_eq(back[1], v)
                if back[0] == "ok" or back[1] == "ValueError":
                    # corr:reparse -- model deserialize vs implementation on the serialized text
                    re_kept.append({**case, "text": outs[False][1]})
                    re_builders.append(lambda I, rec2=rec2, ty=ty, text=outs[False][1], back=back:
                                       f"({rec2.g_tables(I)}, {g_ty(ty, I)}, {I.s(text)}, {c12.g_dobs(ty, back, I)})")
                if not ok:
                    key = {"type": ty[0], "value": "None" if v is None else "set"}
                    if ty[0] in ("Pair", "List"):
                        key["leaf"] = failing_leaf(ty, v)
                    chk.monitor_failure("type_roundtrip", key,
                                        f"deserialize(serialize(v)) != v for {ty[0]}: {cfglib.canon_val(v)!r} -> "
                                        f"{outs[False][1]!r} -> {back[0] if back[0] != 'ok' else cfglib.canon_val(back[1])!r}", case)
            # ---- T3 masking / T4 preservation
            if v is not None and "Secret" in cfglib.ty_kinds(ty):
                v2, nsec = replace_secrets(ty, v, fresh)
                if nsec:
                    chk.dist("ser:secrets=" + ("1" if nsec == 1 else ">1"))
                    o2 = run_serialize(ty, v2, True)
                    if o2 != outs[True]:
                        chk.monitor_failure("mask_noninterference", {"call": "serialize", "type": ty[0]},
                                            "display=True output depends on the value of a secret", {**case, "other": repr(o2)[:200]})
                    if ty[0] == "Secret" and outs[False][0] == "str":
                        want = v.original if isinstance(v, T._TransformedValue) else v
                        if T.decode(outs[False][1]) != want:
                            chk.monitor_failure("secret_preserved", {"call": "serialize"},
                                                "display=False serialization does not decode to the secret", case)
        chk.sample({"type": c12.strip_fn(ty), "value": cfglib.canon_val(values[0]),
                    "serialized": outs[False][1][:60] if outs[False][0] == "str" else outs[False][0]}, cap=8)
    ok2, bad2 = c12.eval_cases(chk, "reparse", "dcase", "dcase_ok", re_builders, per=400)
    for i in bad2:
        chk.corr_failure("reparse", re_kept[i])
    chk.obligation("corr:reparse", "correspondence", ok2 and not bad2)
    ok, bad = c12.eval_cases(chk, "serialize", "scase", "scase_ok", builders, per=400)
    # c12.eval_cases uses c12's imports; the typed stages need Serialize/STables as well
    for i in bad:
        chk.corr_failure("serialize", kept[i])
    chk.obligation("corr:serialize", "correspondence", ok and not bad)


def failing_leaf(ty, v):
    """Which leaf type breaks the round trip inside a Pair/List (for keying findings)."""
    if ty[0] == "Pair" and isinstance(v, tuple) and len(v) == 2:
        for t, x in ((ty[4], v[0]), (ty[5], v[1])):
            r = failing_leaf(t, x)
            if r:
                return r
        return None
    if ty[0] == "List" and isinstance(v, (tuple, frozenset)):
        for x in v:
            r = failing_leaf(ty[3], x)
            if r:
                return r
        return None
    out = run_serialize(ty, v, False)
    if out[0] != "str":
        return ty[0]
    _rec, back = c12.run_deserialize(ty, out[1])
    if back[0] != "ok" or not deep_eq(back[1], v):
        return ty[0] + (":None" if v is None else "")
    return None


# ------------------------------------------------------------------ stage: format


def run_format(schema_asts, cfg, display, disable):
    from mopidy import config as C

    schemas = c12.build_schemas(schema_asts)
    try:
        return ("text", C._format(cfg, {}, schemas, display, disable))
    except ValueError:
        return ("raise", 0)
    except TypeError:
        return ("raise", 1)
    except AttributeError:
        return ("raise", 2)
    except Exception as e:  # noqa: BLE001
        return ("raise-other", type(e).__name__)


def g_fres(out, I):
    if out[0] == "text":
        return f"(FText {I.s(out[1])})"
    if out[0] == "raise":
        return f"(FRaise {out[1]})"
    return "FStuck"


def g_config(schema_asts, cfg, I):
    by_name = {s[1]: s for s in schema_asts}
    secs = []
    for sec, kv in cfg.items():
        s = by_name[sec]
        items = []
        for k, v in kv.items():
            t = s[2] if s[0] == "map" else dict(s[2])[k]
            items.append(f"({I.s(k)}, {g_val_ordered(t, v, I)})")
        secs.append(f"({I.s(sec)}, {g_list(items)})")
    return g_list(secs)


def config_values(cfg):
    return [v for kv in cfg.values() for v in kv.values()]


def config_eq(a, b):
    if set(a) != set(b):
        return False
    for s in a:
        if set(a[s]) != set(b[s]):
            return False
        if not all(deep_eq(a[s][k], b[s][k]) for k in a[s]):
            return False
    return True


def first_diff(a, b):
    for s in sorted(set(a) | set(b)):
        for k in sorted(set(a.get(s, {})) | set(b.get(s, {}))):
            x, y = a.get(s, {}).get(k, "<absent>"), b.get(s, {}).get(k, "<absent>")
            if x == "<absent>" or y == "<absent>" or not deep_eq(x, y):
                return s, k, x, y
    return None


def key_type(schema_asts, sec, k):
    for s in schema_asts:
        if s[1] == sec:
            return s[2] if s[0] == "map" else dict(s[2]).get(k)
    return None


def load_text(text, schema_asts, tmpdir, rec_unused=None):
    from mopidy import config as C

    p = pathlib.Path(tmpdir) / "roundtrip.conf"
    p.write_bytes(text.encode("utf-8", "surrogateescape"))
    raw = C._load([p], [], [])
    schemas = c12.build_schemas(schema_asts)
    rec = cfglib.Recorder()
    with rec.active():
        return C._validate(raw, schemas)


INI_TEXTS = []


def format_stage(chk, scratch, schemas, base):
    from mopidy import config as C

    rng = chk.rng
    n = 250 if chk.tier == "quick" else 3000
    tmpdir = tempfile.mkdtemp(prefix="verif-c13-")
    builders, kept = [], []
    try:
        todo = []
        for c in corpus("format"):
            todo.append((schemas, {**{s: dict(kv) for s, kv in base.items()}, **c["raw"]}, "corpus"))
        todo.append((schemas, {s: dict(kv) for s, kv in base.items()}, "defaults"))
        for _ in range(n):
            r_ = rng.random()
            if r_ < 0.2:
                # pair-heavy sections: a ConfigSchema with Pair / List-of-Pair keys and a MapConfigSchema of Pairs
                ss = [("config", "alpha", (("mount", gen_ty_pairish(rng)), ("mounts", ("List", True, False, gen_ty_pairish(rng))),
                                           ("name", ("String", True, None, None)))),
                      ("map", "beta", gen_ty_pairish(rng))]
                raw = {"alpha": {k: cfglib.gen_raw(t, rng) for k, t in ss[0][2] if rng.random() < 0.85},
                       "beta": {k: cfglib.gen_raw(ss[1][2], rng) for k in rng.sample(["m1", "m2", "x.y"], rng.randint(0, 3))}}
                todo.append((ss, raw, "pairish"))
            elif r_ < 0.6:
                raw, _ = c12.gen_raw_config(schemas, base, rng, scratch)
                todo.append((schemas, raw, "bundled"))
            else:
                ss = [s for s in c12.gen_schema_list(rng)
                      if not any(list_of_deprecated(t) for t in ([s[2]] if s[0] == "map" else [t for _, t in s[2]]))]
                if not ss:
                    continue
                raw, _ = c12.gen_raw_config(ss, {}, rng, scratch, intensity=rng.choice([2, 4, 8, 12]))
                todo.append((ss, raw, "synthetic"))
        if chk.replay_case and chk.replay_case.get("stage") == "format":
            c = chk.replay_case
            ss = schemas if c.get("schemas") == "bundled" else [c12.ty_from_json(s) for s in c["schemas"]]
            todo = [(ss, c["raw"], "replay")]
        # MapConfigSchema sections (loglevels / logcolors) with valid and invalid entries mixed, in
        # varying SOURCE orders (format writes them sorted, so the reload meets them in another order)
        for _ in range(max(20, n // 8)):
            names = rng.sample(["alpha", "mopidy", "mopidy.http", "pykka", "zeta", "m3u", "beta.x"], rng.randint(2, 5))
            lv = {k: rng.choice(["debug", "info", "warning", "bogus", "trace", "", "10", "error"]) for k in names}
            lc = {k: rng.choice(["red", "blue", "orange", "RED", "", "green"]) for k in rng.sample(names, rng.randint(1, len(names)))}
            raw = {s_: dict(kv) for s_, kv in base.items()}
            raw["loglevels"], raw["logcolors"] = lv, lc
            todo.append((schemas, raw, "map-mix"))
        # value-first configs: the values are built directly, not obtained by loading text
        for _ in range(n // 2):
            ss, cfg = gen_direct_config(rng)
            todo.append((ss, None, "value-first", cfg))
        for c in corpus("format-values"):
            ss = [c12.ty_from_json(s_) for s_ in c["schemas"]]
            cfg = {sec: {k: value_from_json(key_type(ss, sec, k), v) for k, v in kv.items()} for sec, kv in c["config"].items()}
            todo.append((ss, None, "corpus-values", cfg))
        if chk.replay_case and chk.replay_case.get("stage") == "format" and "config" in chk.replay_case:
            c = chk.replay_case
            ss = [c12.ty_from_json(s_) for s_ in c["schemas"]]
            cfg = {sec: {k: value_from_json(key_type(ss, sec, k), v) for k, v in kv.items()} for sec, kv in c["config"].items()}
            todo = [(ss, None, "replay", cfg)]
        for item in todo:
            ss, raw_t, label = item[:3]
            if raw_t is None:
                cfg, errs = item[3], {}
                case = {"stage": "format", "schemas": [c12.strip_fn(s) for s in ss],
                        "config": {sec: {k: value_to_json(v) for k, v in kv.items()} for sec, kv in cfg.items()}}
            else:
                if any(cfglib.has_final_sigma_hazard(x) for kv in raw_t.values() for kx in kv.items() for x in kx):
                    continue
                raw = {sec: {k: scratch.subst(v) for k, v in kv.items()} for sec, kv in raw_t.items()}
                _rec, out = c12.run_validate(ss, raw)
                if out[0] != "ok":
                    continue
                cfg, errs = out[1], out[2]
                case = {"stage": "format", "schemas": "bundled" if ss is schemas else [c12.strip_fn(s) for s in ss], "raw": raw_t}
            outs = {}
            for display, disable in ((False, False), (True, False), (False, True)):
                o = run_format(ss, cfg, display, disable)
                outs[(display, disable)] = o
                if o[0] == "text" and len(INI_TEXTS) < (300 if chk.tier == "quick" else 3000):
                    INI_TEXTS.append(o[1])
                    if disable:   # the initial file with its comment marks removed
                        INI_TEXTS.append("\n".join(ln[1:] if ln.startswith("#") else ln for ln in o[1].split("\n")))
                if o[0] == "raise-other" or (o[0] == "raise" and o[1] != 0):
                    exn = o[1] if o[0] == "raise-other" else ["ValueError", "TypeError", "AttributeError"][o[1]]
                    chk.monitor_failure("serialize_total", {"call": "_format", "exception": exn},
                                        f"config._format raised {exn} on a validated config", case)
                    if o[0] == "raise-other":
                        continue
                kept.append({**case, "display": display, "disable": disable})
                builders.append(lambda I, ss=ss, cfg=cfg, d=display, dis=disable, o=o:
                                f"({g_stables(config_values(cfg), I)}, {g_list([c12.g_schema(s, I) for s in ss])}, "
                                f"{g_config(ss, cfg, I)}, {g_bool(d)}, {g_bool(dis)}, {g_fres(o, I)})")
            chk.count(1, nontrivial_key=json.dumps(raw_t if raw_t is not None else case["config"], sort_keys=True) if any(
                isinstance(v, (tuple, frozenset)) or (isinstance(v, str) and any(c in v for c in SPECIAL))
                for v in config_values(cfg)) else None)
            chk.dist(f"format:{label}")
            # ---- schema objects are descriptions, not memories: after validating other configs the same
            # objects must format this config exactly as fresh ones do
            if raw_t is not None and rng.random() < 0.3 and outs[(False, False)][0] == "text":
                from mopidy import config as C_

                shared = c12.build_schemas(ss)
                rec_s = cfglib.Recorder()
                try:
                    with rec_s.active():
                        cfg_a, _ = C_._validate(raw, shared)
                        other, _ = c12.gen_raw_config(ss, raw_t if ss is schemas else {}, rng, scratch, intensity=6)
                        C_._validate({s_: {k_: scratch.subst(v_) for k_, v_ in kv_.items()} for s_, kv_ in other.items()}, shared)
                        C_._validate({s_: {k_: "" for k_ in kv_} for s_, kv_ in raw.items()}, shared)
                        text_s = C_._format(cfg_a, {}, shared, False, False)
                    if text_s != outs[(False, False)][1]:
                        chk.monitor_failure("instance_stateless", {"call": "_format", "what": "format-depends-on-history"},
                                            "after validating other configs the same schema objects format this config "
                                            "differently from freshly built ones", {**case, "other": other})
                    chk.dist("format:shared-schema-sequence")
                except Exception as e:  # noqa: BLE001
                    chk.monitor_failure("instance_stateless", {"call": "_format", "what": "exception"},
                                        f"{type(e).__name__} in a validate/validate/format sequence on shared schema objects", case)
            # ---- T3 at the format level: change every set secret, display output must not move
            nsec_total, cfg2 = 0, {}
            for sec, kv in cfg.items():
                cfg2[sec] = {}
                for k, v in kv.items():
                    t = key_type(ss, sec, k)
                    v2, nsec = replace_secrets(t, v, lambda: f"changed-{nsec_total}-\\n") if t else (v, 0)
                    if isinstance(v2, list):
                        v2 = tuple(v2)
                    cfg2[sec][k] = v2
                    nsec_total += nsec
            if nsec_total and outs[(True, False)][0] == "text":
                o2 = run_format(ss, cfg2, True, False)
                chk.dist("format:configs-with-secrets")
                if o2 != outs[(True, False)]:
                    chk.monitor_failure("mask_noninterference", {"call": "_format"},
                                        "format(display=True) differs between configs that differ only in set secrets", case)
            # ---- T5: format(display off) -> file -> _load + _validate == config
            o = outs[(False, False)]
            if o[0] == "text":
                texts = []
                for s in c12.build_schemas(ss):
                    for k, r in s.serialize(cfg.get(s.name, {}), display=False).items():
                        if isinstance(r, str):
                            texts.append(r)
                scope = ini_scope(texts)
                if scope is None and any(k != k.lower() or k == "" or k != k.strip() or any(c in k for c in "=:#;[\n\r")
                                         for kv in cfg.values() for k in kv):
                    scope = "key-name-not-ini-safe"   # only reachable through command-line overrides
                # keys that are in error are not compared below, so they do not decide the scope either
                scopes = [roundtrip_scope(key_type(ss, sec, k), v) for sec, kv in cfg.items() for k, v in kv.items()
                          if key_type(ss, sec, k) is not None and k not in errs.get(sec, {})]
                scope = scope or next((x for x in scopes if x), None)
                chk.dist("format:roundtrip-scope=" + (scope or "in-scope"))
                if scope is None:
                    try:
                        cfg_back, _errs = load_text(o[1], ss, tmpdir)
                        # keys that were in error (None) are not part of the effective config
                        ok_part = {s_: {k_: v_ for k_, v_ in kv_.items() if k_ not in errs.get(s_, {})} for s_, kv_ in cfg.items()}
                        back_part = {s_: {k_: v_ for k_, v_ in kv_.items() if k_ not in errs.get(s_, {})}
                                     for s_, kv_ in cfg_back.items() if s_ in cfg}
                        same = config_eq(ok_part, back_part)
                        d = None if same else first_diff(ok_part, back_part)
                    except Exception as e:  # noqa: BLE001
                        same, d = False, ("<exception>", type(e).__name__, "", "")
                    if not same:
                        t = key_type(ss, d[0], d[1]) if d[0] != "<exception>" else None
                        leaf = failing_leaf(t, d[2]) if t is not None and d[2] != "<absent>" else None
                        chk.monitor_failure("format_load_roundtrip",
                                            {"call": "format", "leaf": leaf or (t[0] if t else d[1])},
                                            f"format(display=False) loaded back differs at {d[0]}/{d[1]}: "
                                            f"{cfglib.canon_val(d[2]) if d[2] != '<absent>' else d[2]!r} vs "
                                            f"{cfglib.canon_val(d[3]) if d[3] != '<absent>' else d[3]!r}", case)
        format_initial_probe(chk, schemas, tmpdir)
    finally:
        shutil.rmtree(tmpdir, ignore_errors=True)
    per = 40
    shards = [builders[i:i + per] for i in range(0, len(builders), per)]
    texts = []
    for shard in shards:
        I = Interner()
        terms = [mk(I) for mk in shard]
        texts.append(vlib.COQ_HEADER + COQ_IMPORTS + I.header()
                     + "Definition cases : list fcase :=\n " + g_list(terms) + ".\n"
                     + "Eval vm_compute in mismatches fcase_ok cases.\n")
    ok = True
    for si, (rc, outp) in enumerate(vlib.coq_eval_many(AREA, texts, jobs=12)):
        bad = vlib.parse_nat_list(outp)
        if rc != 0 or bad is None:
            ok = False
            chk.corr_failure("format", {"shard": si, "error": "coq evaluation failed"}, outp[-2000:])
            continue
        for i in bad:
            ok = False
            chk.corr_failure("format", kept[si * per + i])
    chk.obligation("corr:format", "correspondence", ok)
    # the INI layer: the configparser model (Ini.v) against configparser on every text _format wrote
    import c14

    c14.ini_stage(chk, INI_TEXTS, soups=0.3)


def gen_direct_config(rng):
    """A schema list and a config over it whose values are built directly (gen_value)."""
    S, So = ("String", False, None, None), ("String", True, None, None)
    SQ = ("Secret", False, ("oracle", 8, cfglib.ORACLE_TRS[8]))
    LOW = ("String", False, None, "lower")
    pool = [S, So, ("Secret", False, None), ("Secret", True, "lower"), SQ, SQ, LOW, ("Pair", False, True, "|", LOW, LOW), ("Integer", False, None, None, None), ("Boolean", False),
            ("List", True, False, S), ("List", True, True, S), ("Pair", False, False, "|", S, S),
            ("Pair", False, True, "=", S, ("Secret", False, None)), ("List", True, False, ("Pair", False, False, "=", S, S)),
            ("LogLevel",), ("LogColor",)]
    keys = [(name, rng.choice(pool)) for name in rng.sample(["title", "name", "password", "items", "mount", "mounts", "level", "n"],
                                                            rng.randint(1, 5))]
    mt = rng.choice([S, ("Secret", False, None), ("Pair", False, False, "|", S, S), ("LogLevel",)])
    ss = [("config", "alpha", tuple(keys)), ("map", "beta", mt)]
    cfg = {"alpha": {k: gen_value(t, rng) for k, t in keys}}
    names = rng.sample(["mopidy", "pykka", "x.y"], rng.randint(0, 2))
    if names:
        cfg["beta"] = {k: gen_value(mt, rng) for k in names}
    return ss, cfg


class FakeExtension:
    """An extension whose defaults contain '#' in every position the INI syntax can carry."""

    dist_name, ext_name, version = "Mopidy-Fake", "fake", "0.1"
    EXPECT = {"enabled": True, "title": "Top 40 #1 hits", "lead": "#lead", "tabbed": "a\t#b", "tail": "x #",
              "token": "pw #1", "items": ("a #1", "b# c", "d")}

    def get_default_config(self):
        return ("[fake]\nenabled = true\ntitle = Top 40 #1 hits\nlead = #lead\ntabbed = a\\t#b\ntail = x #\n"
                "token = pw #1\nitems =\n  a #1\n  b# c\n  d\n")

    def get_config_schema(self):
        from mopidy.config import schemas as S
        from mopidy.config import types as T

        s = S.ConfigSchema("fake")
        s["enabled"] = T.Boolean()
        for k in ("title", "lead", "tabbed", "tail"):
            s[k] = T.String()
        s["token"] = T.Secret()
        s["items"] = T.List()
        return s


def format_initial_probe(chk, schemas, tmpdir):
    """format_initial over the bundled extensions: uncommented, it loads back to the defaults."""
    from mopidy import config as C
    from mopidy import file, http, m3u, softwaremixer, stream

    data = [pytypes.SimpleNamespace(extension=m.Extension()) for m in (http, file, m3u, softwaremixer, stream)]
    data.append(pytypes.SimpleNamespace(extension=FakeExtension()))
    case = {"stage": "format_initial"}
    try:
        text = C.format_initial(data)
    except Exception as e:  # noqa: BLE001
        chk.monitor_failure("format_load_roundtrip", {"call": "format_initial", "leaf": type(e).__name__},
                            f"format_initial raised {type(e).__name__}", case)
        return
    header, _, body = text.partition("\n\n")
    if not all(ln.startswith("#") for ln in header.split("\n")):
        chk.monitor_failure("format_load_roundtrip", {"call": "format_initial", "leaf": "header"},
                            "format_initial header is not a comment block", case)
    active = [ln for ln in body.split("\n") if ln and not ln.startswith(("#", "["))]
    if active:
        chk.monitor_failure("format_load_roundtrip", {"call": "format_initial", "leaf": "active-line"},
                            f"format_initial emits an active setting: {active[0]!r}", case)
    uncommented = "\n".join(ln[1:] if ln.startswith("#") else ln for ln in body.split("\n"))
    defaults = [C.read(pathlib.Path(C.__file__).parent / "default.conf")] + [d.extension.get_default_config() for d in data]
    real_schemas = C._schemas[:] + [d.extension.get_config_schema() for d in data]
    want, _ = C._validate(C._load([], defaults, []), real_schemas)
    p = pathlib.Path(tmpdir) / "initial.conf"
    p.write_text(uncommented)
    got, _ = C._validate(C._load([p], [], []), real_schemas)
    chk.count(1, nontrivial_key="format_initial")
    chk.dist("format:format_initial")
    if not config_eq(want, got):
        d = first_diff(want, got)
        chk.monitor_failure("format_load_roundtrip", {"call": "format_initial", "leaf": str(d[1])},
                            f"format_initial (uncommented) loads back differently at {d[0]}/{d[1]}", case)
    # the extension defaults written down by hand: what the initial file must carry
    for k, v in FakeExtension.EXPECT.items():
        if got.get("fake", {}).get(k) != v:
            chk.monitor_failure("format_load_roundtrip", {"call": "format_initial", "leaf": "hash-in-value"},
                                f"initial config file: fake/{k} = {v!r} comes back as {got.get('fake', {}).get(k)!r}", case)
    # with every line commented out the file sets nothing
    p.write_text(text)
    raw = C._load([p], [], [])
    if any(kv for kv in raw.values()):
        chk.monitor_failure("format_load_roundtrip", {"call": "format_initial", "leaf": "not-inert"},
                            "the generated initial config file sets values although everything is commented out", case)


# ------------------------------------------------------------------ entry


def corpus(kind):
    out = []
    d = vlib.VERIF / "corpus" / "C13"
    if d.is_dir():
        for f in sorted(d.glob("*.json")):
            data = json.loads(f.read_text())
            if data.get("kind") == kind:
                out += data["cases"]
    return out


def run(chk):
    chk.rule += ("; typed stages: (type, value, display) triples with values taken from the real deserialize, "
                 "non-trivial = composite value or a string with backslash/newline/tab; validated configs over "
                 "bundled/synthetic schemas formatted with display on/off/disabled")
    chk.trusted_base += [
        "harness/c13_types.py + cfglib.py + c12.py drivers: value generator (via the real deserialize), emitter, "
        "carve-out predicates roundtrip_scope / ini_scope (what the property excludes: list items that are not "
        "single-line and backslash-free, ambiguous pair separators, values the INI syntax cannot carry)",
        "str(int) / repr(float) tables computed by the harness (oracle)",
    ]
    chk.assumptions += [
        "configparser carries ini-safe values unchanged (INI layer: correspondence/monitor only, no Gallina parser)",
        "a frozenset is serialized in its iteration order, which the harness reads back from the same object",
    ]
    chk.replay_case = getattr(chk, "replay_case", None)
    if chk.replay and chk.replay_case is None:
        data = json.loads(pathlib.Path(chk.replay).read_text())
        c = data.get("case") or (data.get("correspondence_failures") or [{}])[0].get("case")
        chk.replay_case = c if isinstance(c, dict) and "stage" in c else None
    vlib.setup_impl()
    import logging

    logging.disable(logging.CRITICAL)
    saved_imports = c12.COQ_IMPORTS
    c12.COQ_IMPORTS = COQ_IMPORTS
    scratch = cfglib.Scratch()
    chk.scratch = scratch
    INI_TEXTS.clear()
    try:
        schemas, base = c12.bundled()
        bundled_types = [t for s in schemas for t in ([s[2]] if s[0] == "map" else [t for _, t in s[2]])]
        if not chk.replay_case or chk.replay_case.get("stage") == "serialize":
            serialize_stage(chk, scratch, bundled_types)
        if not chk.replay_case or chk.replay_case.get("stage") in ("format", "format_initial"):
            format_stage(chk, scratch, schemas, base)
    finally:
        c12.COQ_IMPORTS = saved_imports
        scratch.close()
