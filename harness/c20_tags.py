"""C20 stage C: mopidy.audio.tags.convert_tags_to_track  <->  Untrusted/Tags.v.

Tag sets are built as fake Gst.TagList objects holding the value types GStreamer
delivers (str, unsigned ints, GLib.Date, Gst.DateTime of any precision, bytes, samples),
passed through the real convert_taglist and then through the real
convert_tags_to_track, followed by the `.replace(uri=..., length=...)` that
file/library.py and stream/actor.py apply.  The model gets the dict convert_taglist
produced (restricted to the keys the function reads); pydantic's UUID parser is an
oracle supplied as a table.  A second stream calls convert_tags_to_track directly with
ill-typed dicts (ints in string tags, empty lists) to validate the model's raise sites;
those are outside the property's quantifier and are compared but not monitored.
"""

import re
import uuid as uuid_mod

from common import vlib
from common.vlib import g_list, g_opt, g_pair, g_str, g_z

import c20_parse

AREA = "Untrusted"
FX = "true"

KEYS = {
    "composer": "KComposer", "performer": "KPerformer", "artist": "KArtist", "album-artist": "KAlbumArtist",
    "musicbrainz-artistid": "KMbArtistId", "musicbrainz-sortname": "KMbSortname", "musicbrainz-albumartistid": "KMbAlbumArtistId",
    "genre": "KGenre", "title": "KTitle", "organization": "KOrganization", "comment": "KComment", "location": "KLocation",
    "copyright": "KCopyright", "track-number": "KTrackNumber", "album-disc-number": "KDiscNumber", "bitrate": "KBitrate",
    "musicbrainz-trackid": "KMbTrackId", "album": "KAlbum", "track-count": "KTrackCount", "album-disc-count": "KDiscCount",
    "musicbrainz-albumid": "KMbAlbumId", "date": "KDate", "datetime": "KDateTime",
}
NUMERIC = {"track-number", "album-disc-number", "bitrate", "track-count", "album-disc-count"}
MBID = {"musicbrainz-artistid", "musicbrainz-albumartistid", "musicbrainz-trackid", "musicbrainz-albumid"}
STRING = set(KEYS) - NUMERIC - MBID - {"date", "datetime"}
OTHER_TAGS = ["image", "track-gain", "container-format", "audio-codec", "has-crc", "extended-comment", "minimum-bitrate"]

DATE_RE = re.compile(r"\d{4}(-\d{2}-\d{2})?")


class FakeTagList:
    def __init__(self, items):
        self.items = items

    def n_tags(self):
        return len(self.items)

    def nth_tag_name(self, n):
        return self.items[n][0]

    def get_tag_size(self, tag):
        return len(dict(self.items)[tag])

    def get_value_index(self, tag, i):
        return dict(self.items)[tag][i]


def make_sample(gi, data):
    """A Gst.Sample whose buffer maps to `data` (None: no buffer)."""

    class _Info:
        pass

    class _Mem:
        def map(self, _flags):
            info = _Info()
            info.data = data
            return True, info

        def unmap(self, _info):
            return None

    class _Buf:
        def get_all_memory(self):
            return _Mem()

    class _Sample(gi.Gst.Sample):
        def get_buffer(self):
            return None if data is None else _Buf()

    return _Sample()


GOOD_UUID = "12345678-1234-1234-1234-123456789abc"


def gen_mbid(rng):
    k = rng.weighted([("good", 5), ("upper", 1), ("plain", 1), ("braces", 1), ("urn", 1), ("bad", 5)])
    u = str(uuid_mod.UUID(int=rng.getrandbits(128)))
    if k == "good":
        return u
    if k == "upper":
        return u.upper()
    if k == "plain":
        return u.replace("-", "")
    if k == "braces":
        return "{" + u + "}"
    if k == "urn":
        return "urn:uuid:" + u
    return rng.choice(["", "x", u[:-1], u + " ", " " + u, u.replace("-", "", 1), u[:8] + "_" + u[9:], "not-a-uuid", u + "0", "g" + u[1:],
                       "{" + u, u + "}", "urn:uuid:", "00000000-0000-0000-0000-00000000000", "١" * 32, u.replace("-", " "), u + "\n"])


def gen_text(rng):
    return rng.choice(["", "A", "Some Name", "Tést", "; ", "a; b", "\U0001F3B5", " spaced ", "0", "Beatles, The", "x" * 40, "\u0000", "T"])


def gen_uint(rng):
    return rng.choice([0, 0, 1, 2, 7, 12, 99, 320000, 2**31 - 1, 2**31, 2**32 - 1, 2**63, 2**64 - 1])


def gen_date_value(rng, gi):
    y = rng.choice([0, 1, 33, 1900, 1999, 2000, 2014, 2016, 9999, 10000, 65535])
    m = rng.choice([0, 1, 2, 6, 12, 13])
    d = rng.choice([0, 1, 15, 28, 29, 30, 31, 32])
    if rng.random() < 0.6:
        y, m, d = rng.choice([1970, 2001, 2014]), rng.randint(1, 12), rng.randint(1, 28)
    return gi.GLib.Date.new_dmy(d, m, y)


def gen_datetime_value(rng, gi):
    prec = rng.randint(1, 6)
    fields = [rng.choice([1, 987, 1999, 2014, 9999]), rng.randint(1, 12), rng.randint(1, 28), rng.randint(0, 23), rng.randint(0, 59), rng.randint(0, 59)]
    if prec == 4:
        prec = 5  # hour without minute does not exist
    return gi.Gst.DateTime(*fields[:prec])


class Unknown:
    """A tag value of a type convert_taglist does not know (it ignores those)."""

    def __repr__(self):
        return "<unknown-type value>"


def gen_taglist(rng, gi):
    """(items for a FakeTagList, faulty?)  faulty = contains a signed number"""
    items = []
    faulty = False
    present = [k for k in KEYS if rng.random() < rng.choice([0.15, 0.35, 0.6])]
    rng.shuffle(present)
    for k in present:
        n = 1 if rng.random() < 0.75 else rng.randint(2, 3)
        if k in NUMERIC:
            vals = []
            for _ in range(n):
                if rng.random() < 0.08:
                    vals.append(rng.choice([-1, -2**31, -7]))
                    faulty = True
                else:
                    vals.append(gen_uint(rng))
        elif k in MBID:
            vals = [gen_mbid(rng) for _ in range(n)]
        elif k == "date":
            vals = [gen_date_value(rng, gi) for _ in range(n)]
        elif k == "datetime":
            vals = [gen_datetime_value(rng, gi) for _ in range(n)]
        else:
            vals = [gen_text(rng) if rng.random() < 0.9 else rng.choice(["café".encode(), b"\xff\xferaw"]) for _ in range(n)]
        # values convert_taglist cannot convert (a sample without data, a value of a type it
        # does not know): mixed in, or - for a tenth of the tags - the ONLY values of the tag
        r = rng.random()
        if r < 0.10:
            vals = [rng.choice([make_sample(gi, None), make_sample(gi, b""), Unknown()]) for _ in range(rng.randint(1, 2))]
        elif r < 0.18:
            vals.insert(rng.randrange(len(vals) + 1), rng.choice([make_sample(gi, None), Unknown()]))
        items.append((k, vals))
    for k in OTHER_TAGS:
        if rng.random() < 0.15:
            v = {"image": make_sample(gi, rng.choice([None, b"", b"\x89PNG", memoryview(b"jpeg")])), "track-gain": -6.5, "has-crc": True, "minimum-bitrate": 128000}.get(k, "x")
            items.append((k, [v]))
    return items, faulty


DIRECT_STRINGS = ["2014", "2014-01", "2014-01-01", "2014-01-01\n", "٢٠١٤", "2014-1-1", "T2014", "2014T", "20141", "201", "",
                  "２０１４-٠١-۱४", "2014-01-01T10:00:00Z", "2014-01T", "abcd", "2014_01_01", "2014-01-011", " 2014"]


def gen_direct(rng):
    """Dict handed straight to convert_tags_to_track: arbitrary strings for the date
    tags (typed), or ill-typed values (ints in string tags, empty lists)."""
    d = {}
    kind = rng.weighted([("dates", 3), ("illtyped", 3)])
    for k in KEYS:
        if rng.random() < 0.3:
            n = rng.randint(1, 2)
            if k in NUMERIC:
                d[k] = [rng.choice([gen_uint(rng), -1]) for _ in range(n)]
            elif k in MBID:
                d[k] = [gen_mbid(rng) for _ in range(n)]
            elif k in ("date", "datetime"):
                d[k] = [rng.choice(DIRECT_STRINGS) for _ in range(n)]
            else:
                d[k] = [gen_text(rng) for _ in range(n)]
    if kind == "illtyped":
        for k in rng.sample(sorted(KEYS), rng.randint(1, 3)):
            if k in NUMERIC:
                continue  # a str in a numeric tag goes through pydantic's lax coercion: not modelled
            d[k] = rng.choice([[], [rng.choice([0, 5, -3])], [gen_text(rng), 4]])
    return d


# ----------------------------------------------------------------------------

def g_value(v):
    if isinstance(v, str):
        return f"(VStr {g_str(v)})"
    if isinstance(v, bool) or not isinstance(v, int):
        raise TypeError(v)
    return f"(VInt {g_z(v)})"


def typed(d):
    for k, vals in d.items():
        if k not in KEYS:
            continue
        if not vals:
            return False
        for v in vals:
            if isinstance(v, bool) or not isinstance(v, (str, int)):
                return False
            if isinstance(v, int) != (k in NUMERIC):
                return False
    return True


def g_tags(d):
    return g_list([g_pair(KEYS[k], g_list([g_value(v) for v in vals])) for k, vals in d.items() if k in KEYS])


def uuid_table(d):
    from pydantic import TypeAdapter, ValidationError
    from pydantic.types import UUID

    ta = TypeAdapter(UUID | None)
    tab = {}
    for k in MBID:
        for v in d.get(k, []):
            if isinstance(v, str):
                try:
                    tab[v] = str(ta.validate_python(v))
                except ValidationError:
                    tab[v] = None
    return tab


def g_artist(a):
    return f"(mkArtist {g_opt(a.name, g_str)} {g_opt(a.sortname, g_str)} {g_opt(None if a.musicbrainz_id is None else str(a.musicbrainz_id), g_str)})"


def g_artists(s):
    return g_list(sorted(g_artist(a) for a in s))


def g_album(a):
    return (f"(mkAlbum {g_opt(a.name, g_str)} {g_artists(a.artists)} {g_opt(a.num_tracks, g_z)} {g_opt(a.num_discs, g_z)} "
            f"{g_opt(a.date, g_str)} {g_opt(None if a.musicbrainz_id is None else str(a.musicbrainz_id), g_str)})")


def g_track(t):
    return (f"(mkTrack {g_opt(t.name, g_str)} {g_opt(t.genre, g_str)} {g_opt(t.comment, g_str)} {g_artists(t.artists)} "
            f"{g_artists(t.composers)} {g_artists(t.performers)} {g_opt(t.track_no, g_z)} {g_opt(t.disc_no, g_z)} {g_opt(t.bitrate, g_z)} "
            f"{g_opt(None if t.musicbrainz_id is None else str(t.musicbrainz_id), g_str)} {g_opt(t.date, g_str)} {g_opt(t.album, g_album)})")


def g_gvalue(v, gi):
    """A raw taglist value as a Tags.gvalue term (None: a type the model does not cover)."""
    if isinstance(v, bool):
        return None
    if isinstance(v, str):
        return f"(GStr {g_str(v)})"
    if isinstance(v, bytes):
        return f"(GBytes {g_str(v.decode(errors='replace'))})"
    if isinstance(v, int):
        return f"(GUInt {g_z(v)})"
    if isinstance(v, gi.GLib.Date):
        return f"(GDate {g_z(v.get_year())} {g_z(v.get_month())} {g_z(v.get_day())})"
    if isinstance(v, gi.Gst.DateTime):
        return f"(GDateTime {g_str(v.to_iso8601_string())})"
    if isinstance(v, Unknown) or (isinstance(v, gi.Gst.Sample) and not (v.get_buffer() and v.get_buffer().get_all_memory().map(None)[1].data)):
        return "GDropped"
    return None


def g_raw(items, gi):
    out = []
    for k, vals in items:
        if k not in KEYS:
            continue
        terms = [g_gvalue(v, gi) for v in vals]
        if any(t is None for t in terms):
            return None
        out.append(g_pair(KEYS[k], g_list(terms)))
    return g_list(out)


def header():
    return (
        vlib.COQ_HEADER
        + "From Common Require Import Res Str Cases.\nFrom Untrusted Require Import Base Tags.\n"
        + "Definition T := (tags * list (str * option str) * res exn track)%type.\n"
        + "Definition uuid_of (tab : list (str * option str)) (s : str) : option str :=\n"
        + "  match assoc s tab with Some r => r | None => None end.\n"
        + "Definition ok (fx : bool) (c : T) : bool :=\n"
        + "  let '(t, tab, e) := c in res_eqb track_eqb (convert fx (uuid_of tab) t) e.\n"
        + "(* the output constraints evaluated on the IMPLEMENTATION's track *)\n"
        + "Definition mon (c : T) : bool :=\n"
        + "  let '(_, _, e) := c in match e with Ok t => track_ok_b t | _ => true end.\n"
    )


def check_track_fields(t):
    """Python mirror of Tags.track_valid on a real Track (field constraints)."""
    bad = []
    for name in ("track_no", "disc_no", "bitrate"):
        v = getattr(t, name)
        if v is not None and not (isinstance(v, int) and v >= 0):
            bad.append(name)
    if t.date is not None and not DATE_RE.fullmatch(t.date):
        bad.append("date")
    for s in (t.name, t.genre, t.comment):
        if s is not None and not isinstance(s, str):
            bad.append("str-field")
    if t.album is not None:
        for name in ("num_tracks", "num_discs"):
            v = getattr(t.album, name)
            if v is not None and not (isinstance(v, int) and v >= 0):
                bad.append("album." + name)
        if t.album.date is not None and not DATE_RE.fullmatch(t.album.date):
            bad.append("album.date")
    return bad


def classify_exc(exc):
    name = type(exc).__name__
    if name == "ValidationError":
        try:
            errs = exc.errors()
            return "ValidationError", f"{exc.title}.{errs[0]['loc'][0]}:{errs[0]['type']}"
        except Exception:  # noqa: BLE001
            return "ValidationError", "?"
    return c20_parse.exn_name(exc), name


def run(chk, fx=FX):
    vlib.setup_impl()
    import gi.repository as gir
    from mopidy.audio import tags as tags_mod

    n = 2000 if chk.tier == "quick" else 30000
    rng = vlib.Rng(chk.seed, "C20-tags")
    rows = []
    corpus = [
        {"datetime": ["2014-01"], "album": ["x"]}, {"datetime": ["2014-01"]}, {"datetime": ["2014"]}, {"musicbrainz-trackid": ["x"]},
        {"artist": ["a"], "musicbrainz-artistid": ["zz"]}, {"artist": ["a", "b"], "musicbrainz-artistid": ["zz"]},
        {"album-artist": ["a"], "musicbrainz-albumartistid": ["zz"], "album": ["k"]}, {"album": ["k"], "musicbrainz-albumid": ["zz"]},
        {"track-number": [-1]}, {"track-count": [-1], "album": ["x"]}, {"track-count": [-1]}, {"title": ["a", "b"]}, {"title": [""], "organization": ["org"]},
        {"comment": [""], "location": ["loc"], "copyright": ["c"]}, {"comment": [""], "copyright": ["c"]}, {"date": [""], "datetime": ["2001-02-03T04:05Z"]},
        {"date": ["2000-01-01"], "datetime": ["2001-02-03T04:05Z"]}, {"artist": ["x"], "musicbrainz-sortname": ["X, The"], "musicbrainz-artistid": [GOOD_UUID.upper()]},
        {"album": ["A"], "artist": ["x"], "album-artist": ["y", "y"], "track-count": [10], "album-disc-count": [0], "album-disc-number": [1], "bitrate": [2**64]},
        {"title": [5]}, {"album": [5]}, {"artist": [5]}, {"track-number": []}, {"musicbrainz-sortname": [], "artist": ["x"]}, {"datetime": [5]}, {"album": [""], "date": ["x"]},
    ]
    cases = [("direct", d) for d in corpus]
    raw_rows = []  # convert_taglist: (raw taglist term, dict term)
    for _ in range(n):
        if rng.random() < 0.75:
            items, faulty = gen_taglist(rng, gir)
            cases.append(("taglist-signed" if faulty else "taglist", items))
        else:
            cases.append(("direct", gen_direct(rng)))
    for kind, payload in cases:
        if kind.startswith("taglist"):
            try:
                d = dict(tags_mod.convert_taglist(FakeTagList(payload)))
            except Exception as exc:  # noqa: BLE001
                chk.monitor_failure("taglist_total", {"call": "convert_taglist", "exc": type(exc).__name__},
                                    f"convert_taglist raised {type(exc).__name__}", {"items": repr(payload)})
                continue
            raw = g_raw(payload, gir)
            if raw is not None:
                raw_rows.append((raw, g_tags(d), payload, d))
                if any(k in KEYS and k not in d for k, _v in payload):
                    chk.dist("taglist:tag-vanished(only unconvertible values)")
                chk.dist("taglist:dates-dropped" if len(d.get("date", [])) < sum(len(v) for k, v in payload if k == "date") else "taglist:all-kept")
        else:
            d = payload
        # direct dicts: in the domain iff typed; taglists: the generated raw taglists all have
        # GStreamer's registered value types (plus ignored ones), so the composed pipeline
        # convert_taglist -> convert_tags_to_track must not raise whatever the dict looks like
        in_domain = typed(d) or kind.startswith("taglist")
        try:
            track = tags_mod.convert_tags_to_track(d)
            obs = ("ok", track)
        except Exception as exc:  # noqa: BLE001
            obs = ("raise",) + classify_exc(exc)
        if obs[0] == "ok":
            try:
                track.replace(uri="file:///x.mp3", length=rng.choice([None, 0, 1234]))
            except Exception as exc:  # noqa: BLE001
                if in_domain:
                    chk.monitor_failure("tags_total", {"call": "convert_tags_to_track(...).replace", "exc": type(exc).__name__},
                                        f"Track.replace raised {type(exc).__name__} on a converted track", {"tags": repr(d)})
            bad = check_track_fields(track)
            if bad:
                chk.monitor_failure("tags_fields_valid", {"call": "convert_tags_to_track", "fields": bad},
                                    "a field set by convert_tags_to_track violates its model constraint", {"tags": repr(d)})
        elif in_domain:
            if kind.startswith("taglist") and not typed(d):
                chk.monitor_failure("taglist_pipeline_total", {"call": "convert_tags_to_track(convert_taglist(taglist))", "exc": obs[1] if obs[1] != "OtherExn" else obs[2]},
                                    f"the scanner's tag list converted to a dict on which convert_tags_to_track raised {obs[2] if obs[1] == 'ValidationError' else obs[1]}",
                                    {"taglist": repr(payload)[:800], "dict": repr(d)[:600]})
                continue
            shape = obs[2]
            chk.monitor_failure("tags_total", {"call": "convert_tags_to_track", "exc": obs[1] if obs[1] != "OtherExn" else obs[2], "field": shape},
                                f"convert_tags_to_track raised {obs[1]} ({shape})", {"tags": repr(d)})
        try:
            term = g_tags(d)
        except TypeError:
            chk.dist("tags:skipped-unmodelled-value-type")
            continue
        tab = uuid_table(d)
        exp = f"(Ok {g_track(obs[1])})" if obs[0] == "ok" else f"(Raise {obs[1]})"
        rows.append({"kind": kind, "tags": d, "term": f"({term}, {g_list([g_pair(g_str(k), g_opt(v, g_str)) for k, v in tab.items()])}, {exp})",
                     "obs": obs})
        known = {k: v for k, v in d.items() if k in KEYS}
        interesting = obs[0] == "raise" or any(v is None for v in tab.values()) or "datetime" in known or len(known) >= 4
        chk.count(1, nontrivial_key=repr(sorted(known.items(), key=lambda kv: kv[0])) if interesting else None)
        chk.dist(f"tags:kind={kind}")
        chk.dist(f"tags:in-domain={in_domain}")
        chk.dist(f"tags:outcome={'raise:' + obs[1] if obs[0] == 'raise' else 'track'}")
        chk.dist(f"tags:keys={min(len(known), 8)}")
        if obs[0] == "ok" and track.album is not None and tab and sum(1 for s in chk.samples if s.get("stage") == "tags") < 2:
            chk.sample({"stage": "tags", "tags": repr(known), "track": repr(track)})
    shards = [rows[i : i + 400] for i in range(0, len(rows), 400)]
    texts = [header() + "Definition cases : list T :=\n " + g_list([c["term"] for c in s]) + ".\n"
             + f"Eval vm_compute in mismatches (ok {fx}) cases.\nEval vm_compute in mismatches mon cases.\n" for s in shards]
    results = vlib.coq_eval_many(AREA, texts, jobs=12)
    ok = True
    for shard, (rc, out) in zip(shards, results):
        lists = vlib.parse_all_lists(out)
        if rc != 0 or len(lists) != 2:
            ok = False
            chk.corr_failure("tags", {"shard": "coq evaluation failed"}, out[-1500:])
            continue
        for i in lists[0]:
            ok = False
            c = shard[i]
            chk.corr_failure("tags", {"tags": repr(c["tags"]), "impl": repr(c["obs"])[:600], "kind": c["kind"]})
        for i in lists[1]:
            c = shard[i]
            chk.monitor_failure("track_ok_b", {"call": "convert_tags_to_track"}, "Gallina predicate track_ok_b is false on the implementation's track",
                                {"tags": repr(c["tags"])})
    chk.obligation("corr:tags", "correspondence", ok)
    # convert_taglist against Tags.convert_taglist
    hdr = (vlib.COQ_HEADER + "From Common Require Import Res Str Cases.\nFrom Untrusted Require Import Base Tags.\n"
           + "Definition ok (c : list (tagkey * list gvalue) * tags) : bool := tags_eqb (convert_taglist (fst c)) (snd c).\n")
    shards = [raw_rows[i : i + 500] for i in range(0, len(raw_rows), 500)]
    texts = [hdr + "Definition cases : list (list (tagkey * list gvalue) * tags) :=\n " + g_list([g_pair(r, t) for r, t, _p, _d in s])
             + ".\nEval vm_compute in mismatches ok cases.\n" for s in shards]
    ok2 = True
    for shard, (rc, out) in zip(shards, vlib.coq_eval_many(AREA, texts, jobs=12)):
        bad = vlib.parse_nat_list(out)
        if rc != 0 or bad is None:
            ok2 = False
            chk.corr_failure("taglist", {"shard": "coq evaluation failed"}, out[-1500:])
            continue
        for i in bad:
            ok2 = False
            chk.corr_failure("taglist", {"items": repr(shard[i][2])[:600], "impl": repr(shard[i][3])[:600]})
    chk.count(len(raw_rows))
    chk.obligation("corr:taglist", "correspondence", ok2)
    return rows
