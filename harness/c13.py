"""C13 - config formatting round-trips values and never reveals secrets.

Stage A (this file, escape layer): model Config/Escape.v <-> mopidy.config.types.encode/decode.
Further stages (typed round trip, masking, INI round trip) are in c13_types.py and are
run from here when present.
"""

from common import vlib
from common.vlib import g_list, g_str

AREA = "Config"
PROP_FILES = ["Property_C13.v"]

ALPHABET = ["\\", "\\", "\\", "n", "t", "\n", "\t", "a", " ", "\\n", "\\t", "\\\\", "\r", "é", "\U0001F600", ";", "#", "="]


def gen_string(rng):
    kind = rng.weighted([("esc", 6), ("plain", 1), ("long", 1), ("empty", 0.3)])
    if kind == "empty":
        return ""
    if kind == "plain":
        return "".join(rng.choice("abc xyz09") for _ in range(rng.randint(1, 12)))
    n = rng.randint(1, 8) if kind == "esc" else rng.randint(20, 60)
    return "".join(rng.choice(ALPHABET) for _ in range(n))


CORPUS = ["", "\\", "\\n", "\\t", "\\\\", "\\\\n", "\\\\\\n", "a\\nb", "a\nb", "\t", "\\\\t\\n\n", "\\x", "n\\", "\\\\\\"]


def escape_stage(chk):
    vlib.setup_impl()
    from mopidy.config import types

    n = 1500 if chk.tier == "quick" else 20000
    strings = list(CORPUS) + [gen_string(chk.rng) for _ in range(n)]
    rows = []
    for s in strings:
        try:
            e = types.encode(s)
            d = types.decode(s)
            de = types.decode(e)
        except Exception as exc:  # noqa: BLE001
            chk.monitor_failure("escape_total", {"call": "encode/decode"}, f"encode/decode raised {exc!r}", {"s": s})
            continue
        rows.append((s, e, d, de))
        chk.count(1, nontrivial_key=s if ("\\" in s or "\n" in s or "\t" in s) else None)
        chk.dist("has_backslash" if "\\" in s else "no_backslash")
        chk.dist(f"len<={8 if len(s) <= 8 else 64}")
        # implementation monitor: the property's inverse law on the real code
        if de != s:
            chk.monitor_failure("decode_encode_inverse", {"call": "decode(encode(s))"},
                                "decode(encode(s)) != s", {"s": s, "encoded": e, "decoded": de})
        if "\n" in e or "\t" in e:
            chk.monitor_failure("encode_single_line", {"call": "encode"}, "encode output has raw newline/tab",
                                {"s": s, "encoded": e})
    for s, e, d, de in rows[:4]:
        chk.sample({"s": s, "encode": e, "decode": d, "decode_encode": de})
    # correspondence: evaluate the model inside Coq on the same inputs
    shards = [rows[i : i + 500] for i in range(0, len(rows), 500)]
    texts = []
    for shard in shards:
        items = [f"({g_str(s)}, {g_str(e)}, {g_str(d)})" for s, e, d, _ in shard]
        texts.append(
            vlib.COQ_HEADER
            + "From Common Require Import Str Cases.\nFrom Config Require Import Escape.\n"
            + "Definition cases : list (str * str * str) :=\n " + g_list(items) + ".\n"
            + "Definition ok (c : str * str * str) : bool :=\n"
            + "  let '(s, e, d) := c in str_eqb (encode s) e && str_eqb (decode s) d.\n"
            + "Eval vm_compute in mismatches ok cases.\n"
        )
    results = vlib.coq_eval_many(AREA, texts)
    corr_ok = True
    for shard, (rc, out) in zip(shards, results):
        bad = vlib.parse_nat_list(out)
        if rc != 0 or bad is None:
            corr_ok = False
            chk.corr_failure("escape", {"shard": "coq evaluation failed"}, out[-1500:])
            continue
        for i in bad:
            corr_ok = False
            s, e, d, _ = shard[i]
            chk.corr_failure("escape", {"s": s, "impl_encode": e, "impl_decode": d})
    chk.obligation("corr:escape", "correspondence", corr_ok)


def run(chk):
    chk.rule = ("strings over an escape-heavy alphabet (backslash, n, t, newline, tab, unicode); "
                "non-trivial = contains a backslash, newline or tab; distinct by string value")
    chk.trusted_base = [
        "Coq 8.16.1 kernel + vm_compute (no native_compute)",
        "harness/c13.py generator and Gallina emitter (strings as lists of code points)",
        "Python re / str.replace semantics transcribed in Common/Str.v and Config/Escape.v (correspondence-checked)",
    ]
    chk.assumptions = ["bytes inputs are decoded with surrogateescape before the modelled step (not modelled)"]
    chk.proof_stage(PROP_FILES, thorough_coqchk=(chk.tier == "thorough"))
    escape_stage(chk)
    try:
        import c13_types
    except ImportError:
        c13_types = None
    if c13_types is not None:
        c13_types.run(chk)
