"""C09 case generator: backend populations, fault assignments, core requests."""

from __future__ import annotations

import copy
import json

from c09_impl import KINDS, LIB_METHODS, MIXER_METHODS, PL_METHODS, scheme_of

SCHEMES = ["a", "b", "c", "d", "e"]
ODD_SCHEMES = ["A", "", "a+x"]
UNKNOWN = ["zz", "q"]
QUERY_TOKENS = ["good", "good", "good2", "str", "empty", "bad", "blank"]
FIELDS = ["artist", "artist", "track_no", "track", "track_name", "bogus"]
OPS = [("lookup", 10), ("get_images", 9), ("search", 7), ("browse", 5), ("get_distinct", 4), ("refresh", 3),
       ("as_list", 3), ("get_items", 3), ("pl_lookup", 3), ("create", 4), ("save", 4), ("delete", 4),
       ("pl_refresh", 2), ("get_uri_schemes", 1), ("get_volume", 2), ("set_volume", 2), ("get_mute", 2),
       ("set_mute", 2), ("construct", 1), ("core_schemes", 1)]
EXPECTED_CLS = {"lookup_many": "track", "get_images": "image", "search": "search", "browse": "ref",
                "root_directory": "ref", "get_distinct": "str", "as_list": "ref", "get_items": "ref",
                "pl_lookup": "playlist", "create": "playlist", "save": "playlist"}
CLASSES = ["track", "image", "ref", "search", "playlist", "str", "int"]


def spellings(s, n):
    """Normalisation-sensitive spellings of a routable URI: the core must treat each as the
    distinct string it is (keys of lookup/get_images are exactly the requested strings)."""
    return [f"{s}:{n} ", f" {s}:{n}", f"\t{s}:{n}", f"{s}:{n}\n", f"{s}:{n}\u00a0", f"{s}:{n}\t", f"{s}: {n}",
            f"{s}:{n} x", f"{s}:%3{n}", f"{s}:%41", f"{s}:a", f"{s}:{n}/", f"{s}://{n}", f"{s}://{n}/",
            f"{s}:caf\u00e9", f"{s}:cafe\u0301", f"{s.upper()}:{n}", f"{s.capitalize()}:{n}", f"{s}:{n}#f", f"{s}:{n}?q"]


def gen_uri(rng, schemes):
    kind = rng.weighted([("known", 10), ("spelling", 2.5), ("unknown", 2), ("upper", 0.7), ("invalid", 0.5), ("odd", 0.3)])
    n = rng.randint(1, 4)
    if kind == "known" and schemes:
        return f"{rng.choice(schemes)}:{n}"
    if kind == "spelling" and schemes:
        return rng.choice(spellings(rng.choice(schemes), n))
    if kind == "upper" and schemes:
        return f"{rng.choice(schemes).upper()}:{n}"
    if kind == "invalid":
        return rng.choice(["noscheme", "", "/path/x", "1a:x"])
    if kind == "odd":
        return rng.choice(["a+x:1", "a:", "a::b", "a:1?b:2", "a b:1"])
    return f"{rng.choice(UNKNOWN)}:{n}"


def gen_uris(rng, schemes):
    k = rng.weighted([(0, 1), (1, 3), (2, 4), (3, 4), (4, 3), (6, 2), (9, 0.5)])
    out = [gen_uri(rng, schemes) for _ in range(k)]
    if out and schemes and rng.random() < 0.15:  # a URI next to another spelling of itself
        s, n = rng.choice(schemes), rng.randint(1, 4)
        out.insert(rng.randrange(len(out) + 1), f"{s}:{n}")
        out.insert(rng.randrange(len(out) + 1), rng.choice(spellings(s, n)))
    if out and rng.random() < 0.25:
        out.insert(rng.randrange(len(out) + 1), rng.choice(out))  # duplicate
    return out


def gen_entry(rng, cls, base, has_uri_matters=False):
    r = rng.random()
    if r < 0.07:
        return "junk"
    if r < 0.12:
        return [rng.choice([c for c in CLASSES if c != cls]), base + rng.randint(0, 9), True]
    has_uri = not (has_uri_matters and rng.random() < 0.2)
    return [cls, base + rng.randint(0, 9), has_uri]


def gen_entries(rng, cls, base, bad_rate=1.0, has_uri_matters=False):
    k = rng.weighted([(0, 1), (1, 4), (2, 3), (3, 1)])
    out = []
    for _ in range(k):
        e = gen_entry(rng, cls, base, has_uri_matters)
        if (e == "junk" or e[0] != cls) and rng.random() > bad_rate:
            e = [cls, base + rng.randint(0, 9), True]
        out.append(e)
    return out


def gen_map(rng, cls, base, own_uris, all_uris, mode):
    """A dict answer.  mode: good | foreign | extra | badval | junk | mixed."""
    items = []
    keys = list(dict.fromkeys(own_uris))
    rng.shuffle(keys)
    if keys and rng.random() < 0.3:
        keys = keys[: rng.randint(0, len(keys))]
    for u in keys:
        items.append([u, gen_entries(rng, cls, base, bad_rate=0.0, has_uri_matters=(cls == "track"))])
    others = [u for u in dict.fromkeys(all_uris) if u not in own_uris]
    if mode in ("foreign", "mixed") and others:
        items.insert(rng.randrange(len(items) + 1),
                     [rng.choice(others), gen_entries(rng, cls, base, bad_rate=0.0)])
    if mode in ("extra", "mixed"):
        extra = rng.choice(["zz:77", "x", (own_uris[0] + "/sub") if own_uris else "a:99", "b:99", ""])
        if extra not in [k for k, _ in items]:
            items.insert(rng.randrange(len(items) + 1), [extra, gen_entries(rng, cls, base, bad_rate=0.0)])
    if mode == "badval" and items:
        items[rng.randrange(len(items))][1] = "bad"
    if mode == "junk" and items:
        i = rng.randrange(len(items))
        items[i][1] = gen_entries(rng, cls, base, bad_rate=1.0) + [rng.choice(["junk", ["ref", base, True]])]
    return ["map", items]


def gen_resp(rng, method, bidx, own_uris, all_uris):
    """Scripted answer of backend bidx for a provider method."""
    base = 1000 * (bidx + 1) + 10 * rng.randint(0, 9)
    cls = EXPECTED_CLS.get(method)
    fault = rng.weighted([("good", 55), ("raise", 14), ("none", 6), ("wrong", 5), ("shape", 8), ("content", 12)])
    if fault == "raise":
        k = rng.weighted([("exception", 6), ("validation", 2), ("type", 2), ("lookup", 2), ("assertion", 2),
                          ("notimpl", 2), ("base", 0.6)] + ([("lookup", 4)] if method == "search" else [])
                         + ([("assertion", 4)] if method == "save" else []))
        return ["raise", k]
    if fault == "none":
        return ["none"]
    if fault == "wrong":
        return ["wrong"]
    if method in ("lookup_many", "get_images"):
        if fault == "good" and rng.random() < 0.25:  # the dict-valued answers are where most of C09 lives
            fault = "content"
        if fault == "shape":
            return rng.choice([["list", gen_entries(rng, cls, base)], ["val", cls, base], ["bool", True],
                               ["int", 3], ["map", []]])
        if fault == "good" and rng.random() < 0.4:  # a well-behaved backend answers what it is asked
            return ["echo", cls, [base + i for i in range(rng.randint(0, 2))]]
        mode = "good" if fault == "good" else rng.choice(["foreign", "extra", "badval", "junk", "mixed"])
        return gen_map(rng, cls, base, own_uris, all_uris, mode)
    if method in ("browse", "as_list", "get_items", "get_distinct"):
        if method == "get_distinct" and rng.random() < 0.3:
            cls = "int"
        if fault == "shape":
            return rng.choice([["map", []], gen_map(rng, "ref", base, own_uris or ["a:1"], all_uris, "good"),
                               ["val", cls, base], ["bool", False], ["int", 7]])
        return ["list", gen_entries(rng, cls, base, bad_rate=(1.0 if fault == "content" else 0.0))]
    if method in ("search", "root_directory", "pl_lookup", "create", "save"):
        if fault == "shape":
            return rng.choice([["list", [[cls, base, True]]], ["map", []], ["bool", True], ["int", 0]])
        if fault == "content":
            return ["val", rng.choice([c for c in CLASSES if c != cls]), base]
        return ["val", cls, base]
    if method == "delete":
        if fault in ("shape", "content"):
            return rng.choice([["int", 1], ["int", 0], ["list", []], ["val", "playlist", base], ["map", []]])
        return ["bool", rng.random() < 0.7]
    if method in ("refresh", "pl_refresh"):
        return rng.choice([["none"], ["bool", True], ["wrong"], ["int", 1]])
    raise ValueError(method)


def gen_mixer(rng):
    if rng.random() < 0.15:
        return None
    out = {}
    for m in MIXER_METHODS:
        fault = rng.weighted([("good", 5), ("raise", 2), ("none", 1), ("wrong", 1), ("shape", 2)])
        if fault == "raise":
            out[m] = ["raise", rng.choice(KINDS[:-1] + ["exception", "base"])]
        elif fault == "none":
            out[m] = ["none"]
        elif fault == "wrong":
            out[m] = ["wrong"]
        elif fault == "shape":
            out[m] = rng.choice([["int", rng.choice([-1, 101, 1000, 50])], ["bool", True], ["list", []],
                                 ["val", "str", 5], ["map", []], ["int", 0]])
        elif m == "get_volume":
            out[m] = ["int", rng.choice([0, 1, 50, 99, 100])]
        else:
            out[m] = ["bool", rng.random() < 0.6]
    return out


def gen_population(rng):
    n = rng.weighted([(0, 0.3), (1, 2), (2, 5), (3, 4), (4, 3)])
    pool = list(SCHEMES)
    rng.shuffle(pool)
    backends = []
    dup = rng.random() < 0.08
    for i in range(n):
        k = rng.weighted([(1, 6), (2, 3), (3, 1), (0, 0.3)])
        schemes = [pool.pop() for _ in range(min(k, len(pool)))]
        if rng.random() < 0.06:
            schemes.append(rng.choice(ODD_SCHEMES))
        flags = {f: rng.random() < p for f, p in (("lib", 0.85), ("browse", 0.75), ("playback", 0.7),
                                                   ("playlists", 0.8))}
        backends.append({"schemes": schemes, "info_ok": rng.random() < 0.95, **flags, "answers": {}})
    if dup and n >= 1:
        src = rng.choice(backends)
        dst = rng.choice(backends)
        if src["schemes"]:
            dst["schemes"].insert(rng.randrange(len(dst["schemes"]) + 1), rng.choice(src["schemes"]))
    return backends


def all_schemes(backends):
    return [s for b in backends for s in b["schemes"] if s]


def owner_index(backends, flag, scheme):
    """The backend the scheme is routed to for provider `flag`, computed from the spec alone."""
    for i, b in enumerate(backends):
        if b.get("info_ok", True) and scheme in b["schemes"]:
            return i if b[flag] else None
    return None


def gen_op(rng, backends):
    schemes = all_schemes(backends) or ["a"]
    name = rng.weighted(OPS)
    op = {"name": name}
    if name in ("lookup", "get_images"):
        op["uris"] = gen_uris(rng, schemes)
    elif name == "search":
        op["query"] = rng.choice(QUERY_TOKENS)
        op["uris"] = None if rng.random() < 0.4 else gen_uris(rng, schemes)
        op["exact"] = rng.random() < 0.3
    elif name == "browse":
        op["uri"] = rng.weighted([(None, 3), ("", 0.5), ("  ", 0.5), (gen_uri(rng, schemes), 6)])
    elif name == "get_distinct":
        op["field"] = rng.choice(FIELDS)
        op["query"] = rng.choice(["none", "none", "good", "good2", "empty", "str", "bad"])
    elif name == "refresh":
        op["uri"] = None if rng.random() < 0.4 else gen_uri(rng, schemes)
    elif name in ("get_items", "pl_lookup", "delete"):
        op["uri"] = gen_uri(rng, schemes)
    elif name == "create":
        op["pname"] = rng.choice(["p1", "p2"])
        op["scheme"] = rng.weighted([(None, 3), (rng.choice(schemes), 4), ("zz", 1), ("A", 0.3)])
    elif name == "save":
        op["pname"] = rng.choice(["p1", "p2"])
        op["uri"] = rng.weighted([(None, 1), (gen_uri(rng, schemes), 8)])
    elif name == "pl_refresh":
        op["scheme"] = rng.weighted([(None, 3), (rng.choice(schemes), 4), ("zz", 1)])
    elif name == "set_volume":
        op["volume"] = rng.choice([0, 1, 50, 100, 101, -1, 37])
    elif name == "set_mute":
        op["mute"] = rng.random() < 0.5
    return op


RAW_OPS = [("lookup", 5), ("get_images", 4), ("search", 4), ("browse", 3), ("get_distinct", 3), ("refresh", 2),
           ("get_items", 2), ("delete", 2), ("set_volume", 2), ("set_mute", 1.5)]


def gen_raw_op(rng, backends):
    """A request whose arguments are raw Python values (JSON-able specs of c09_validation)."""
    import c09_validation as V

    schemes = all_schemes(backends) or ["a"]
    raw = rng.weighted(RAW_OPS)

    def one_uri():
        k = rng.weighted([("uri", 8), ("none", 1.5), ("odd", 5)])
        if k == "uri":
            return gen_uri(rng, schemes)
        if k == "none":
            return None
        return rng.choice([5, True, 1.5, b"", b" \t", b"a:1", ["a:1"], ("a:1",), {"a:1": 1}, "", "  ", "\t",
                           "noscheme", V.I.render_obj("ref", 3, True), V.I.Junk(), {"a:1"}, V.It(["a:1"])])

    def many_uris():
        k = rng.weighted([("list", 8), ("tuple", 2), ("none", 1), ("odd", 6)])
        us = gen_uris(rng, schemes)
        if k == "list":
            return us
        if k == "tuple":
            return tuple(us)
        if k == "none":
            return None
        return rng.choice([gen_uri(rng, schemes), {u: 1 for u in us}, set(us[:1]), b"", b"ab", V.It(us), us + [5],
                           us + [None], [us], 7, True, V.I.render_obj("track", 3, True), V.I.Junk(), [b"a:1"], (), {}])

    op = {"name": "raw", "raw": raw}
    if raw in ("lookup", "get_images"):
        args = [many_uris()]
    elif raw == "search":
        op["query"] = rng.choice(QUERY_TOKENS)
        args = [many_uris(), rng.weighted([(True, 3), (False, 3), (None, 1), (1, 1), ("yes", 1), (0, 0.5)])]
    elif raw in ("browse", "refresh", "get_items", "delete"):
        args = [one_uri()]
    elif raw == "get_distinct":
        op["query"] = rng.choice(["none", "none", "good", "good2", "empty", "str", "bad", "blank"])
        args = [rng.weighted([("artist", 4), ("track_no", 2), ("track", 1), ("track_name", 1), ("bogus", 1), ("", 0.5),
                              (5, 0.5), (None, 0.5), (["artist"], 0.7), (("artist",), 0.5), ({"artist": 1}, 0.5),
                              (True, 0.3)])]
    elif raw == "set_volume":
        args = [rng.choice([0, 1, 50, 100, 101, -1, True, False, 1.5, "50", None, [5], 10**6])]
    else:
        args = [rng.choice([True, False, 1, 0, None, "true", [True]])]
    op["args"] = [V.spec_of(a) for a in args]
    return op


def fill_answers(rng, case):
    backends, op = case["backends"], case["op"]
    uris = op.get("uris") or ([op["uri"]] if op.get("uri") else [])
    if op["name"] == "raw":
        import c09_validation as V

        uris = [u for u in V.spec_strings(op["args"][0], []) if ":" in u]
    for i, b in enumerate(backends):
        flag = "playlists" if op.get("raw", op["name"]) in ("get_items", "pl_lookup", "delete", "save") else "lib"
        own = [u for u in uris if owner_index(backends, flag, scheme_of(u)) == i]
        b["answers"] = {}
        for m in LIB_METHODS + PL_METHODS:
            if rng.random() < 0.9:
                b["answers"][m] = gen_resp(rng, m, i, own, uris)


def gen_raw_case(rng):
    backends = gen_population(rng)
    case = {"backends": backends, "mixer": gen_mixer(rng), "op": gen_raw_op(rng, backends)}
    fill_answers(rng, case)
    return case


def gen_case(rng):
    backends = gen_population(rng)
    case = {"backends": backends, "mixer": gen_mixer(rng), "op": gen_op(rng, backends)}
    fill_answers(rng, case)
    return case


def mutate_case(rng, case):
    """Neighbouring case for the directed search: new request and/or new fault assignment."""
    r = rng.random()
    if r < 0.4:
        case["op"] = gen_op(rng, case["backends"])
    if r > 0.25:
        fill_answers(rng, case)
    if rng.random() < 0.3:
        case["mixer"] = gen_mixer(rng)
    return case


# ---------------------------------------------------------------------------------------
# systematic sweep: every request kind x every kind of misbehaviour of the answering backend


def sweep_cases(pairs=False):
    """pairs=False: one misbehaving backend; pairs=True (thorough tier): every pair of
    misbehaviours of the two backends for the requests that involve both."""
    T = lambda i, u=True: ["track", i, u]  # noqa: E731
    faults = [["raise", k] for k in KINDS] + [
        ["none"], ["wrong"], ["map", []], ["list", []], ["bool", True], ["bool", False], ["int", 1], ["int", 0],
        ["list", ["junk"]], ["map", [["a:1", "bad"]]], ["map", [["zz:9", []]]],
    ]
    good = {
        "lookup_many": ["map", [["a:1", [T(1001), T(1002, False)]]]],
        "get_images": ["map", [["a:1", [["image", 1001, True]]]]],
        "search": ["val", "search", 1001], "browse": ["list", [["ref", 1001, True]]],
        "root_directory": ["val", "ref", 1001], "get_distinct": ["list", [["str", 1001, True]]],
        "as_list": ["list", [["ref", 1001, True]]], "get_items": ["list", [["ref", 1001, True]]],
        "pl_lookup": ["val", "playlist", 1001], "create": ["val", "playlist", 1001],
        "save": ["val", "playlist", 1001], "delete": ["bool", True], "refresh": ["none"], "pl_refresh": ["none"],
    }
    good_b = {
        "lookup_many": ["map", [["b:1", [T(2001)]]]], "get_images": ["map", [["b:1", [["image", 2001, True]]]]],
        "search": ["val", "search", 2001], "root_directory": ["val", "ref", 2001],
        "get_distinct": ["list", [["str", 2001, True]]], "as_list": ["list", [["ref", 2001, True]]],
        "create": ["val", "playlist", 2001],
    }
    ops = [
        ({"name": "lookup", "uris": ["a:1", "b:1", "zz:1"]}, "lookup_many"),
        ({"name": "get_images", "uris": ["b:1", "a:1", "a:1"]}, "get_images"),
        ({"name": "search", "query": "good", "uris": None, "exact": False}, "search"),
        ({"name": "search", "query": "good2", "uris": ["a:1"], "exact": True}, "search"),
        ({"name": "browse", "uri": None}, "root_directory"),
        ({"name": "browse", "uri": "a:1"}, "browse"),
        ({"name": "get_distinct", "field": "artist", "query": "none"}, "get_distinct"),
        ({"name": "refresh", "uri": None}, "refresh"),
        ({"name": "refresh", "uri": "a:1"}, "refresh"),
        ({"name": "as_list"}, "as_list"),
        ({"name": "get_items", "uri": "a:1"}, "get_items"),
        ({"name": "pl_lookup", "uri": "a:1"}, "pl_lookup"),
        ({"name": "create", "pname": "p1", "scheme": None}, "create"),
        ({"name": "create", "pname": "p1", "scheme": "a"}, "create"),
        ({"name": "save", "pname": "p1", "uri": "a:1"}, "save"),
        ({"name": "delete", "uri": "a:1"}, "delete"),
        ({"name": "pl_refresh", "scheme": None}, "pl_refresh"),
    ]
    flags = {"info_ok": True, "lib": True, "browse": True, "playback": True, "playlists": True}
    out = []
    for op, method in ops:
        for f in [good[method]] + faults:
            a = dict(good)
            a[method] = f
            out.append({"backends": [{"schemes": ["a", "c"], **flags, "answers": a},
                                     {"schemes": ["b"], **flags, "answers": dict(good_b)}],
                        "mixer": None, "op": copy.deepcopy(op)})
    if pairs:
        out = []
        faults_b = faults + [["map", [["a:1", [T(2009)]]]], ["map", [["b:1", [T(2001)]], ["a:1", [T(2009)]]]],
                             ["map", [["b:1", [["image", 2001, True]]], ["a:1", [["image", 2009, True]]]]]]
        for op, method in ops:
            if method not in good_b:
                continue
            for fa in [good[method]] + faults:
                for fb in [good_b[method]] + faults_b:
                    a, b = dict(good), dict(good_b)
                    a[method], b[method] = fa, fb
                    out.append({"backends": [{"schemes": ["a", "c"], **flags, "answers": a},
                                             {"schemes": ["b"], **flags, "answers": b}],
                                "mixer": None, "op": copy.deepcopy(op)})
        return out
    mixer_good = {"get_volume": ["int", 40], "set_volume": ["bool", True], "get_mute": ["bool", False],
                  "set_mute": ["bool", True]}
    for op, method in [({"name": "get_volume"}, "get_volume"), ({"name": "set_volume", "volume": 30}, "set_volume"),
                       ({"name": "get_mute"}, "get_mute"), ({"name": "set_mute", "mute": True}, "set_mute")]:
        for f in [mixer_good[method]] + faults + [["int", 101], ["int", -1], ["int", 100], ["val", "str", 3]]:
            mx = dict(mixer_good)
            mx[method] = f
            out.append({"backends": [], "mixer": mx, "op": dict(op)})
    for v in range(-2, 104):
        out.append({"backends": [], "mixer": dict(mixer_good), "op": {"name": "set_volume", "volume": v}})
        out.append({"backends": [], "mixer": {"get_volume": ["int", v]}, "op": {"name": "get_volume"}})
    return out


# ---------------------------------------------------------------------------------------
# measurement


def is_bad_answer(method, resp):
    """Coarse classification used only for the input-distribution report."""
    tag = resp[0]
    if tag == "echo":
        return None
    if tag in ("raise", "wrong"):
        return tag if tag == "wrong" else "raise-" + resp[1]
    if tag == "none":
        return "none"
    cls = EXPECTED_CLS.get(method)
    if method in ("lookup_many", "get_images"):
        if tag != "map":
            return "wrong-shape"
        for _, mv in resp[1]:
            if mv == "bad":
                return "bad-map-value"
            if any(e == "junk" or e[0] != cls for e in mv):
                return "ill-typed-entry"
        return None
    if tag == "list" and any(e == "junk" or (e[0] != cls and not (method == "get_distinct")) for e in resp[1]):
        return "ill-typed-entry"
    if tag == "val" and cls and resp[1] != cls:
        return "wrong-class"
    return None


def fault_tags(case, obs):
    tags = set()
    for b, key, _ in obs["log"]:
        if b < 0:
            r = (case.get("mixer") or {}).get(key, ["none"])
        else:
            r = case["backends"][b]["answers"].get(key, ["none"])
        t = is_bad_answer(key, r)
        if t:
            tags.add(t)
        if key in ("lookup_many", "get_images") and r[0] == "map":
            asked = set()
            for bb, kk, a in obs["log"]:
                if bb == b and kk == key:
                    asked |= set(a["uris"])
            if any(k not in asked for k, _ in r[1]):
                tags.add("foreign-key")
    return sorted(tags) or ["none-called-misbehaves"]


def nontrivial_key(case, obs):
    live = [b for b in case["backends"] if b.get("info_ok", True) and b["schemes"]]
    if obs.get("stage") != "call" or len(live) < 2 or not obs["log"]:
        return None
    if fault_tags(case, obs) == ["none-called-misbehaves"]:
        return None
    return json.dumps([case["backends"], case["op"]], sort_keys=True)
