"""C05 - unplayable tracks and failing playback backends are skipped and contained."""
import core_check

AREA = "Core"


def run(chk):
    chk.rule = ("runs with per-track failure kinds (refuse, no URI, raise, no backend) and per-attempt "
                "flaky scripts under all mode combinations and schedules; non-trivial = at least one "
                "failed change attempt and one track_playback_started; distinct by op sequence")
    core_check.run_core(chk, "C05", [("faults", 7), ("schedule", 2)], ["Property_C05.v"])
    if not chk.replay:
        # provider methods failing outside the modelled environment (monitor-only, real Core)
        import core_faulty

        core_faulty.run_stage(chk, "C05")
