"""Shared machinery for every /verif check (see DESIGN.md section 1).

A property harness (harness/cXX.py) defines ``run(chk)`` and uses a ``Check`` object to

* build the Coq area and audit the property theorems   (``chk.proof_stage``)
* evaluate generated cases inside Coq                   (``chk.coq_eval``)
* record correspondence disagreements and monitor failures
* finish: known-findings matching, replay files, VIOLATION lines, evidence file.
"""

from __future__ import annotations

import fcntl
import hashlib
import json
import os
import random
import re
import shutil
import subprocess
import sys
import tempfile
import time
from pathlib import Path

VERIF = Path(__file__).resolve().parents[2]
REPO = Path(os.environ.get("VERIF_REPO", "/repo"))
COQ = VERIF / "coq"
FAKEGI = VERIF / "harness" / "fakegi"
PY = "/venv/bin/python"

FORBIDDEN = re.compile(
    r"\b(Admitted|admit|Axiom|Axioms|Parameter|Parameters|Conjecture|Conjectures|"
    r"Hypothesis|Hypotheses|Variable|Variables|bypass_check)\b|Unset\s+Guard|"
    r"Unset\s+Positivity|Unset\s+Universe|type-in-type|impredicative-set|"
    r"Admit\s+Obligations|native_compute"
)
# Variable/Hypothesis are allowed only inside a Section; the scanner checks nesting.
SECTION_ONLY = {"Hypothesis", "Hypotheses", "Variable", "Variables"}

# Axioms of the standard library that a theorem may depend on (each is named in
# DESIGN.md section 6 when it appears).  Anything else fails the audit.
ALLOWED_AXIOMS = {
    "functional_extensionality_dep",
    "FunctionalExtensionality.functional_extensionality_dep",
    "proof_irrelevance",
    "ProofIrrelevance.proof_irrelevance",
    "Eqdep.Eq_rect_eq.eq_rect_eq",
    "Eq_rect_eq.eq_rect_eq",
    "JMeq_eq",
    "JMeq.JMeq_eq",
    "classic",
    "Classical_Prop.classic",
}
# Kernel primitives (not axioms) that Print Assumptions lists for PrimFloat/Uint63 code.
PRIMITIVE_PREFIXES = ("PrimFloat.", "Uint63.", "PrimInt63.", "FloatOps.", "Float")


# ----------------------------------------------------------------------------
# implementation under test


def setup_impl():
    """Make ``import mopidy`` resolve to REPO/src (never site-packages)."""
    os.environ.setdefault("PYTHONHASHSEED", "0")
    os.environ["PYTHONDONTWRITEBYTECODE"] = "1"
    sys.dont_write_bytecode = True
    src = str(REPO / "src")
    for p in (str(FAKEGI), src):
        if p in sys.path:
            sys.path.remove(p)
    sys.path.insert(0, str(FAKEGI))
    sys.path.insert(0, src)
    for name in list(sys.modules):
        if name == "mopidy" or name.startswith("mopidy."):
            del sys.modules[name]
    import mopidy

    assert str(Path(mopidy.__file__).resolve()).startswith(str((REPO / "src").resolve())), (
        f"mopidy imported from {mopidy.__file__}, expected {REPO}/src"
    )
    return mopidy


def impl_env():
    env = dict(os.environ)
    env["PYTHONPATH"] = f"{REPO}/src:{FAKEGI}:{VERIF}/harness"
    env["PYTHONHASHSEED"] = "0"
    env["PYTHONDONTWRITEBYTECODE"] = "1"
    return env


def repo_fingerprint(files):
    h = hashlib.sha256()
    for f in files:
        p = REPO / f
        h.update(f.encode())
        h.update(p.read_bytes() if p.exists() else b"<missing>")
    return h.hexdigest()[:16]


# ----------------------------------------------------------------------------
# deterministic randomness


class Rng(random.Random):
    """One PRNG per check; every random choice derives from (seed, label)."""

    def __init__(self, seed, label=""):
        digest = hashlib.sha256(f"{seed}:{label}".encode()).digest()
        super().__init__(int.from_bytes(digest[:8], "big"))

    def weighted(self, pairs):
        total = sum(w for _, w in pairs)
        x = self.random() * total
        for v, w in pairs:
            x -= w
            if x <= 0:
                return v
        return pairs[-1][0]


# ----------------------------------------------------------------------------
# Gallina term emitter


def g_z(n):
    return f"({int(n)})" if n < 0 else f"{int(n)}"


def g_nat(n):
    assert 0 <= n < 5000, n
    return f"{int(n)}%nat"


def g_bool(b):
    return "true" if b else "false"


def g_list(items):
    return "[" + "; ".join(items) + "]"


def g_str(s):
    """Python str -> list Z of code points (surrogates kept as code points)."""
    return g_list([g_z(ord(c)) for c in s])


def g_bytes(b):
    return g_list([g_z(x) for x in b])


def g_opt(x, emit=lambda v: v):
    return "None" if x is None else f"(Some {emit(x)})"


def g_pair(a, b):
    return f"({a}, {b})"


COQ_HEADER = "From Coq Require Import ZArith List Bool.\nImport ListNotations.\nOpen Scope Z_scope.\n"


# ----------------------------------------------------------------------------
# Coq driver


def _run(cmd, timeout, cwd=None, env=None):
    t0 = time.time()
    try:
        p = subprocess.run(
            cmd, cwd=cwd, env=env, capture_output=True, text=True, timeout=timeout, check=False
        )
        return p.returncode, p.stdout + p.stderr, time.time() - t0
    except subprocess.TimeoutExpired as e:
        out = (e.stdout or b"").decode(errors="replace") if isinstance(e.stdout, bytes) else (e.stdout or "")
        return 124, out + f"\nTIMEOUT after {timeout}s", time.time() - t0


def area_flags(area):
    flags = ["-Q", str(COQ / "Common"), "Common"]
    if area != "Common":
        flags += ["-Q", str(COQ / area), area]
    return flags


def coq_build(area, timeout=1500, jobs=8):
    """Full .vo build (coq_makefile + make) of Common and ``area`` under a lock."""
    logs = []
    for a in (["Common"] if area == "Common" else ["Common", area]):
        d = COQ / a
        lock = open(d / ".build.lock", "w")
        fcntl.flock(lock, fcntl.LOCK_EX)
        try:
            rc, out, _ = _run(
                ["bash", "-c", "coq_makefile -f _CoqProject -o Makefile.coq >/dev/null && "
                 f"timeout {timeout} make -f Makefile.coq -j{jobs} 2>&1"],
                timeout + 30, cwd=d,
            )
        finally:
            fcntl.flock(lock, fcntl.LOCK_UN)
            lock.close()
        logs.append(out)
        if rc != 0:
            return False, "\n".join(logs)
    return True, "\n".join(logs)


def forbidden_scan(area):
    """Return a list of 'file:line: token' for forbidden constructs in Common + area."""
    hits = []
    for a in {"Common", area}:
        for f in sorted((COQ / a).glob("*.v")):
            depth = 0
            text = f.read_text()
            # strip comments (nested) before scanning
            text = _strip_coq_comments(text)
            for i, line in enumerate(text.splitlines(), 1):
                if re.match(r"\s*Section\b", line):
                    depth += 1
                for m in FORBIDDEN.finditer(line):
                    tok = m.group(0)
                    if tok in SECTION_ONLY and depth > 0:
                        continue
                    hits.append(f"{f.name}:{i}: {tok}")
                if re.match(r"\s*End\b", line) and depth > 0:
                    depth -= 1
    return hits


def _strip_coq_comments(text):
    out, depth, i, in_str = [], 0, 0, False
    while i < len(text):
        two = text[i : i + 2]
        c = text[i]
        if depth == 0 and c == '"':
            in_str = not in_str
            out.append(c)
            i += 1
        elif not in_str and two == "(*":
            depth += 1
            i += 2
        elif not in_str and two == "*)" and depth > 0:
            depth -= 1
            i += 2
        else:
            out.append(c if depth == 0 or c == "\n" else " ")
            i += 1
    return "".join(out)


def coq_property_audit(area, prop_file, timeout=600):
    """Recompile Property_Cxx.v and parse 'Print Assumptions' output.

    Returns (ok, theorems) where theorems = [{name, closed, axioms:[...], bad:[...]}].
    The file must consist of Theorem/exact/Qed + Print Assumptions blocks.
    """
    src = COQ / area / prop_file
    text = _strip_coq_comments(src.read_text())
    declared = re.findall(r"^\s*(?:Theorem|Lemma|Corollary|Example)\s+([A-Za-z0-9_']+)", text, re.M)
    printed = re.findall(r"Print\s+Assumptions\s+([A-Za-z0-9_'.]+)\s*\.", text)
    tmp = Path(tempfile.mkdtemp(prefix="verif-audit-"))
    try:
        dst = tmp / prop_file
        shutil.copy(src, dst)
        rc, out, _ = _run(["coqc", *area_flags(area), "-Q", str(tmp), "Audit", str(dst)], timeout)
    finally:
        shutil.rmtree(tmp, ignore_errors=True)
    if rc != 0:
        return False, [{"name": prop_file, "closed": False, "axioms": [], "bad": ["does not compile"],
                        "log": out[-3000:]}]
    blocks = _split_assumption_blocks(out)
    theorems = []
    ok = True
    if len(blocks) != len(printed):
        ok = False
    for name, block in zip(printed, blocks):
        if "Closed under the global context" in block:
            theorems.append({"name": name, "closed": True, "axioms": [], "bad": []})
            continue
        axioms = [a for a in re.findall(r"^([A-Za-z_][A-Za-z0-9_'.]*)\s*:", block, re.M) if a != "Axioms"]
        bad = [a for a in axioms if a not in ALLOWED_AXIOMS and not a.startswith(PRIMITIVE_PREFIXES)]
        theorems.append({"name": name, "closed": False, "axioms": axioms, "bad": bad})
        if bad:
            ok = False
    missing = [t for t in declared if t not in printed]
    if missing:
        ok = False
        theorems.append({"name": "<unaudited>", "closed": False, "axioms": [], "bad": missing})
    return ok, theorems


def _split_assumption_blocks(out):
    blocks, cur = [], None
    for line in out.splitlines():
        if line.startswith("Closed under the global context"):
            if cur is not None:
                blocks.append("\n".join(cur))
                cur = None
            blocks.append(line)
        elif line.startswith("Axioms:"):
            if cur is not None:
                blocks.append("\n".join(cur))
            cur = [line]
        elif cur is not None:
            cur.append(line)
    if cur is not None:
        blocks.append("\n".join(cur))
    return blocks


def coq_eval(area, text, name="cases", timeout=900, extra_flags=()):
    """Compile a generated .v (outside /verif) and return (rc, output)."""
    tmp = Path(tempfile.mkdtemp(prefix="verif-cases-"))
    try:
        f = tmp / f"{name}.v"
        f.write_text(text)
        rc, out, dt = _run(
            ["bash", "-c", 'ulimit -s unlimited 2>/dev/null; exec "$@"', "sh",
             "coqc", *area_flags(area), *extra_flags, "-Q", str(tmp), "Cases", str(f)],
            timeout,
        )
        return rc, out
    finally:
        shutil.rmtree(tmp, ignore_errors=True)


def coq_eval_many(area, texts, timeout=900, jobs=8):
    """Evaluate several generated files in parallel; returns list of (rc, out)."""
    from concurrent.futures import ThreadPoolExecutor

    with ThreadPoolExecutor(max_workers=jobs) as ex:
        return list(ex.map(lambda it: coq_eval(area, it[1], name=f"cases_{it[0]}", timeout=timeout),
                           enumerate(texts)))


def parse_nat_list(out, marker="MISMATCHES"):
    """Parse the value printed by ``Eval vm_compute in (marker_tag, [..])``.

    The generated file ends with  Eval vm_compute in (mismatches ...).  and the output
    looks like ``     = [1; 5]\n     : list nat``.  Returns None if not parseable.
    """
    m = re.search(r"=\s*(\[[^\]]*\]|nil)\s*:\s*list\s+(nat|Z|N)", out, re.S)
    if not m:
        return None
    body = m.group(1)
    if body == "nil":
        return []
    nums = re.findall(r"-?\d+", body)
    return [int(x) for x in nums]


def parse_all_lists(out):
    res = []
    for m in re.finditer(r"=\s*(\[[^\]]*\]|nil)\s*:\s*list\s+(?:nat|Z|N)", out, re.S):
        body = m.group(1)
        res.append([] if body == "nil" else [int(x) for x in re.findall(r"-?\d+", body)])
    return res


# ----------------------------------------------------------------------------
# known findings


def load_findings(prop):
    f = VERIF / "known_findings.json"
    if not f.exists():
        return []
    data = json.loads(f.read_text())
    return [e for e in data.get("findings", []) if e.get("property") == prop]


def finding_matches(entry, monitor, key):
    if entry.get("status") != "open":
        return False
    if entry.get("monitor") != monitor:
        return False
    want = entry.get("match", {})
    return all(key.get(k) == v for k, v in want.items())


# ----------------------------------------------------------------------------
# the Check object


class Check:
    def __init__(self, prop, area, tier="quick", seed=0, replay=None):
        self.prop = prop
        self.area = area
        self.tier = tier
        self.seed = seed
        self.replay = replay
        self.t0 = time.time()
        self.obligations = []  # {name, kind: theorem|correspondence|audit, ok, detail}
        self.monitor_failures = []  # {monitor, key, what, case}
        self.corr_failures = []  # {name, case, detail}
        self.evaluations = 0
        self.nontrivial = set()
        self.samples = []
        self.distribution = {}
        self.axioms = {}
        self.notes = []
        self.trusted_base = []
        self.assumptions = []
        self.rule = ""
        self.exhaustive = False
        self.checker_cmds = []
        self.search_hook = None  # callable(corr_failure) -> optional monitor failure dict
        self.rng = Rng(seed, prop)

    # -- proof stage ---------------------------------------------------------
    def proof_stage(self, prop_files, thorough_coqchk=False):
        """Build area, scan for forbidden tokens, audit assumptions of the theorems."""
        ok, log = coq_build(self.area)
        self.checker_cmds.append(f"make -C coq/Common && make -C coq/{self.area} (coq_makefile, full .vo)")
        self.obligation(f"build:{self.area}", "build", ok, "" if ok else log[-4000:])
        hits = forbidden_scan(self.area)
        self.obligation(f"forbidden-tokens:{self.area}", "audit", not hits, "; ".join(hits))
        if not ok:
            # still try the audit to list which theorems no longer check
            pass
        for pf in prop_files:
            aok, theorems = coq_property_audit(self.area, pf)
            self.checker_cmds.append(f"coqc {pf} (Print Assumptions per theorem)")
            for t in theorems:
                tok = not t["bad"]
                self.axioms[t["name"]] = "closed" if t["closed"] else t["axioms"]
                self.obligation(f"theorem:{t['name']}", "theorem", tok and ok,
                                "" if tok else f"bad assumptions/compile: {t['bad']} {t.get('log', '')}")
            if not aok and all(not t["bad"] for t in theorems):
                self.obligation(f"audit:{pf}", "audit", False, "Print Assumptions blocks do not match theorems")
        if thorough_coqchk and ok:
            self.coqchk(prop_files)
        return ok

    def coqchk(self, prop_files, timeout=1500):
        mods = [f"{self.area}.{Path(p).stem}" for p in prop_files]
        rc, out, dt = _run(["coqchk", "-silent", "-o", *area_flags(self.area), *mods], timeout)
        self.checker_cmds.append("coqchk -silent -o " + " ".join(mods))
        axioms = []
        unsafe = []
        if "Axioms:" in out:
            tail = out.split("Axioms:", 1)[1].split("\n*", 1)[0]
            axioms = [l.strip() for l in tail.splitlines() if l.strip() and l.strip() != "<none>"]
        for label in ("type-in-type:", "unsafe (co)fixpoints:", "positivity is assumed:"):
            if label in out:
                blk = out.split(label, 1)[1].split("\n*", 1)[0]
                unsafe += [f"{label} {l.strip()}" for l in blk.splitlines() if l.strip() and l.strip() != "<none>"]
        bad = [a for a in axioms
               if a.split(".")[-1] not in {x.split(".")[-1] for x in ALLOWED_AXIOMS}
               and not any(p.rstrip(".") in a for p in ("PrimFloat", "Uint63", "PrimInt63", "FloatOps", "Float64"))]
        self.axioms["coqchk"] = axioms
        self.obligation("coqchk", "audit", rc == 0 and not bad and not unsafe,
                        out[-1500:] if (rc or bad or unsafe) else "")

    def obligation(self, name, kind, ok, detail=""):
        self.obligations.append({"name": name, "kind": kind, "ok": bool(ok), "detail": detail})

    # -- cases ---------------------------------------------------------------
    def count(self, n=1, nontrivial_key=None):
        self.evaluations += n
        if nontrivial_key is not None:
            self.nontrivial.add(nontrivial_key)

    def sample(self, s, cap=6):
        if len(self.samples) < cap:
            self.samples.append(s)

    def dist(self, key, n=1):
        self.distribution[key] = self.distribution.get(key, 0) + n

    def monitor_failure(self, monitor, key, what, case):
        self.monitor_failures.append({"monitor": monitor, "key": key, "what": what, "case": case})

    def corr_failure(self, name, case, detail=""):
        self.corr_failures.append({"name": name, "case": case, "detail": detail})

    def coq_eval(self, text, name="cases", timeout=900):
        return coq_eval(self.area, text, name, timeout)

    # -- finish --------------------------------------------------------------
    def finish(self):
        findings = load_findings(self.prop)
        known_hit, unlisted = {}, []
        for mf in self.monitor_failures:
            for e in findings:
                if finding_matches(e, mf["monitor"], mf["key"]):
                    known_hit.setdefault(e["what"], 0)
                    known_hit[e["what"]] += 1
                    break
            else:
                unlisted.append(mf)
        lines = []
        for what in sorted(known_hit):
            lines.append(f"KNOWN-FINDING: property={self.prop} {what}")
        failed_obl = [o for o in self.obligations if not o["ok"]]
        violations = []
        (VERIF / "replays").mkdir(exist_ok=True)
        # group unlisted monitor failures by (monitor,key) and report the smallest case of each
        groups = {}
        for mf in unlisted:
            k = (mf["monitor"], json.dumps(mf["key"], sort_keys=True, default=str))
            cur = groups.get(k)
            size = len(json.dumps(mf["case"], default=str))
            if cur is None or size < cur[0]:
                groups[k] = (size, mf)
        for (_mon, _k), (_size, mf) in sorted(groups.items())[:5]:
            path = self._write_replay({"kind": "monitor", **mf,
                                       "broken_obligations": [o["name"] for o in failed_obl],
                                       "correspondence_failures": self.corr_failures[:3]})
            violations.append(f"VIOLATION property={self.prop} replay={path}")
        if not groups and (failed_obl or self.corr_failures):
            found = None
            if self.search_hook is not None:
                for cf in self.corr_failures[:5]:
                    try:
                        found = self.search_hook(cf)
                    except Exception as e:  # noqa: BLE001
                        self.notes.append(f"search hook failed: {e!r}")
                    if found:
                        break
            if found:
                path = self._write_replay({"kind": "monitor-after-search", **found,
                                           "broken_obligations": [o["name"] for o in failed_obl],
                                           "correspondence_failures": self.corr_failures[:3]})
                violations.append(f"VIOLATION property={self.prop} replay={path}")
            else:
                path = self._write_replay({
                    "kind": "tie-broken",
                    "no_longer_checks": [o["name"] for o in failed_obl]
                    + sorted({f"corr:{c['name']}" for c in self.corr_failures}),
                    "obligation_details": failed_obl[:10],
                    "correspondence_failures": self.corr_failures[:5],
                    "note": "no input on which the property itself fails was found",
                })
                violations.append(f"VIOLATION property={self.prop} replay={path} no-failing-input-found")
        for c in {c["name"] for c in self.corr_failures}:
            if not any(o["name"] == f"corr:{c}" for o in self.obligations):
                self.obligation(f"corr:{c}", "correspondence", False, "model and implementation disagree")
        self._write_evidence(len(violations), sorted(known_hit))
        for l in lines + violations:
            print(l)
        sys.stdout.flush()
        return 1 if violations else 0

    def _write_replay(self, obj):
        obj = {"property": self.prop, "seed": self.seed, "tier": self.tier, **obj}
        blob = json.dumps(obj, indent=1, sort_keys=True, default=str)
        h = hashlib.sha256(blob.encode()).hexdigest()[:10]
        path = VERIF / "replays" / f"{self.prop}-{h}.json"
        path.write_text(blob)
        return str(path)

    def _write_evidence(self, nviol, known):
        n_ob = len(self.obligations)
        n_ok = sum(1 for o in self.obligations if o["ok"])
        ev = {
            "property_id": self.prop,
            "tier": self.tier,
            "seed": int(self.seed),
            "level": "proof",
            "coverage": {
                "obligations": n_ob,
                "discharged": n_ok,
                "checker_cmd": " ; ".join(dict.fromkeys(self.checker_cmds)) or "none",
                "trusted_base": self.trusted_base,
                "obligation_list": [
                    {"name": o["name"], "kind": o["kind"], "ok": o["ok"]} for o in self.obligations
                ],
                "axioms_per_theorem": self.axioms,
                "evaluations": int(self.evaluations),
                "distinct_nontrivial": len(self.nontrivial),
                "rule": self.rule,
                "samples": self.samples or ["(no cases)"],
                "input_distribution": self.distribution,
                "exhaustive": bool(self.exhaustive),
                "known_findings_hit": known,
                "notes": self.notes,
            },
            "assumptions": self.assumptions,
            "wall_s": round(time.time() - self.t0, 2),
            "violations": nviol,
        }
        # evidence of record is only written for runs against /repo itself; runs against another
        # checkout (VERIF_REPO=..., used to try seeded changes) go to a scratch directory
        evdir = VERIF / "evidence" if REPO.resolve() == Path("/repo") else Path(tempfile.gettempdir()) / "verif-evidence-other"
        evdir.mkdir(exist_ok=True)
        (evdir / f"{self.prop}.json").write_text(json.dumps(ev, indent=1, default=str))


def shrink_list(items, fails, max_steps=400):
    """Delta-debug a list: smallest sublist (order kept) for which ``fails`` is true."""
    cur = list(items)
    n = 2
    steps = 0
    while len(cur) >= 2 and steps < max_steps:
        chunk = max(1, len(cur) // n)
        reduced = False
        for i in range(0, len(cur), chunk):
            cand = cur[:i] + cur[i + chunk :]
            steps += 1
            if cand and fails(cand):
                cur = cand
                n = max(n - 1, 2)
                reduced = True
                break
        if not reduced:
            if chunk == 1:
                break
            n = min(len(cur), n * 2)
    return cur
