"""C09: the same scripted backends/mixer as real pykka ThreadingActors behind real proxies.

Used to validate the assumption that the synchronous fake proxies of c09_impl.py behave like
pykka proxies/futures for everything the controllers do with them (attribute traversal of the
providers, exceptions surfacing at future.get(), the root_directory attribute)."""

from __future__ import annotations

import threading

import pykka

import c09_impl as I
from mopidy import backend as mopidy_backend


def _script(owner, key, args, kwargs):
    with owner.lock:
        owner.log.append([owner.idx, key, I.canon_args(key, args, kwargs) if owner.idx >= 0
                          else [I.canon_scalar(x, as_int=(key == "set_volume")) for x in args]])
    owner.ncalls += 1
    resp = owner.answers.get(key, I.DEFAULT)
    if owner.idx >= 0:
        resp = I.concrete(resp, key, args, kwargs)
    if resp[0] == "raise":
        raise I.make_exc(resp[1])
    obj = I.render_resp(resp, owner.salt + owner.ncalls)
    owner.returned.append(obj)
    return obj


@pykka.traversable
class Lib:
    def __init__(self, owner):
        self._o = owner

    def lookup_many(self, *a, **k):
        return _script(self._o, "lookup_many", a, k)

    def get_images(self, *a, **k):
        return _script(self._o, "get_images", a, k)

    def search(self, *a, **k):
        return _script(self._o, "search", a, k)

    def browse(self, *a, **k):
        return _script(self._o, "browse", a, k)

    def get_distinct(self, *a, **k):
        return _script(self._o, "get_distinct", a, k)

    def refresh(self, *a, **k):
        return _script(self._o, "refresh", a, k)

    @property
    def root_directory(self):
        return _script(self._o, "root_directory", (), {})


@pykka.traversable
class Pl:
    def __init__(self, owner):
        self._o = owner

    def as_list(self, *a, **k):
        return _script(self._o, "as_list", a, k)

    def get_items(self, *a, **k):
        return _script(self._o, "get_items", a, k)

    def lookup(self, *a, **k):
        return _script(self._o, "pl_lookup", a, k)

    def create(self, *a, **k):
        return _script(self._o, "create", a, k)

    def save(self, *a, **k):
        return _script(self._o, "save", a, k)

    def delete(self, *a, **k):
        return _script(self._o, "delete", a, k)

    def refresh(self, *a, **k):
        return _script(self._o, "pl_refresh", a, k)


class ScriptedBackend(pykka.ThreadingActor):
    def __init__(self, idx, spec, log, lock, salt, returned):
        super().__init__()
        self.idx, self.spec, self.log, self.lock, self.salt = idx, spec, log, lock, salt
        self.answers = spec["answers"]
        self.returned = returned
        self.ncalls = 0
        self.uri_schemes = list(spec["schemes"])
        self.library = Lib(self)
        self.playlists = Pl(self)

    def _flag(self, k):
        if not self.spec.get("info_ok", True):
            raise RuntimeError("backend info unavailable")
        return bool(self.spec[k])

    def has_library(self):
        return self._flag("lib")

    def has_library_browse(self):
        return self._flag("browse")

    def has_playback(self):
        return self._flag("playback")

    def has_playlists(self):
        return self._flag("playlists")

    def sync(self):
        return True


class ScriptedMixer(pykka.ThreadingActor):
    def __init__(self, answers, log, lock, salt, returned):
        super().__init__()
        self.idx, self.answers, self.log, self.lock, self.salt = -1, answers, log, lock, salt - 1
        self.returned = returned
        self.ncalls = 0

    def get_volume(self, *a):
        self.ncalls = 0
        return _script(self, "get_volume", a, {})

    def set_volume(self, *a):
        self.ncalls = 0
        return _script(self, "set_volume", a, {})

    def get_mute(self, *a):
        self.ncalls = 0
        return _script(self, "get_mute", a, {})

    def set_mute(self, *a):
        self.ncalls = 0
        return _script(self, "set_mute", a, {})

    def sync(self):
        return True


# ---------------------------------------------------------------------------------------
# backends as REAL subclasses of mopidy.backend.Backend: has_library / has_library_browse /
# has_playback / has_playlists are the inherited methods (nothing mocked); the provider subset
# is expressed the way an extension does it, by which provider attributes are set.


class RealLib(Lib, mopidy_backend.LibraryProvider):
    def __init__(self, owner, browsable):
        mopidy_backend.LibraryProvider.__init__(self, backend=owner)
        Lib.__init__(self, owner)
        self._browsable = browsable

    @property
    def root_directory(self):
        o = self._o
        if not self._browsable:
            return None
        if not o.started:  # Backend.has_library_browse() at start-up: not a routed request
            return I.render_resp(o.answers["root_directory"], 0)
        return _script(o, "root_directory", (), {})


class RealPl(Pl, mopidy_backend.PlaylistsProvider):
    def __init__(self, owner):
        mopidy_backend.PlaylistsProvider.__init__(self, backend=owner)
        Pl.__init__(self, owner)


@pykka.traversable
class SomePlayback:
    """Stands for a PlaybackProvider: only its presence matters to routing."""


class InheritedBackend(pykka.ThreadingActor, mopidy_backend.Backend):
    def __init__(self, idx, spec, log, lock, salt, returned):
        super().__init__()
        self.idx, self.spec, self.log, self.lock, self.salt = idx, spec, log, lock, salt
        self.answers = spec["answers"]
        self.returned = returned
        self.ncalls = 0
        self.started = False
        self.uri_schemes = list(spec["schemes"])
        self.library = RealLib(self, spec["browse"]) if spec["lib"] else None
        self.playback = SomePlayback() if spec["playback"] else None
        self.playlists = RealPl(self) if spec["playlists"] else None

    def mark_started(self):
        self.started = True
        return True

    def sync(self):
        return True


def real_class_case_ok(case):
    """The populations expressible by provider presence alone."""
    for b in case["backends"]:
        if not b.get("info_ok", True) or (b["browse"] and not b["lib"]):
            return False
        r = b["answers"].get("root_directory")
        if b["browse"] and not (r and r[0] == "val" and r[1] == "ref"):
            return False
    return True


def run_case_real(case, salt=0):
    """run_case with every backend a real mopidy.backend.Backend subclass actor behind a real proxy."""
    refs = []
    lock = threading.Lock()

    def make(case, log, salt):
        proxies, returned_lists = [], []
        for i, spec in enumerate(case["backends"]):
            ret = []
            ref = InheritedBackend.start(i, spec, log, lock, salt + 7 * i, ret)
            refs.append(ref)
            proxies.append(ref.proxy())
            returned_lists.append(ret)
        mixer = None
        if case.get("mixer") is not None:
            ret = []
            ref = ScriptedMixer.start(case["mixer"], log, lock, salt, ret)
            refs.append(ref)
            mixer = ref.proxy()
            returned_lists.append(ret)
        return proxies, mixer, returned_lists

    def settle():
        for ref in refs:
            ref.proxy().sync().get(timeout=5)

    def after_startup():
        for ref in refs:
            if ref.actor_class is InheritedBackend:
                ref.proxy().mark_started().get(timeout=5)

    make.settle = settle
    make.after_startup = after_startup
    try:
        return I.run_case(case, salt, make=make)
    finally:
        for ref in refs:
            try:
                ref.stop(block=True, timeout=5)
            except Exception:  # noqa: BLE001
                pass


def run_case_pykka(case, salt=0):
    refs = []
    lock = threading.Lock()

    def make(case, log, salt):
        proxies, returned_lists = [], []
        for i, spec in enumerate(case["backends"]):
            ret = []
            ref = ScriptedBackend.start(i, spec, log, lock, salt + 7 * i, ret)
            refs.append(ref)
            proxies.append(ref.proxy())
            returned_lists.append(ret)
        mixer = None
        if case.get("mixer") is not None:
            ret = []
            ref = ScriptedMixer.start(case["mixer"], log, lock, salt, ret)
            refs.append(ref)
            mixer = ref.proxy()
            returned_lists.append(ret)
        return proxies, mixer, returned_lists

    def settle():
        # a request that raised early returns before the other actors have executed the calls
        # already sent to them; the mailbox is FIFO, so one round trip per actor drains it
        for ref in refs:
            ref.proxy().sync().get(timeout=5)

    make.settle = settle
    try:
        return I.run_case(case, salt, make=make)
    finally:
        for ref in refs:
            try:
                ref.stop(block=True, timeout=5)
            except Exception:  # noqa: BLE001
                pass
