"""Run operation sequences on the real Core (thread-free) and produce the flat observations
compared with coq/Core/Step.v; emit cases as Gallina; shared by C01-C05 and C10."""

from __future__ import annotations

import shutil
import tempfile

import core_env
from common import vlib
from common.vlib import g_bool, g_list, g_opt, g_z

SEP = -99999
ESEP = -88888
KINDS = ["playable", "refuse", "nouri", "raises", "nobackend"]
KIND_COQ = {"playable": "Playable", "refuse": "Refuse", "nouri": "NoUri", "raises": "Raises",
            "nobackend": "NoBackend"}
EXN_CODE = {"ValidationError": 0, "AssertionError": 1, "TracklistFull": 2, "ValueError": 3}
EVENT_CODE = {"playback_state_changed": 1, "track_playback_started": 2, "track_playback_ended": 3,
              "track_playback_paused": 4, "track_playback_resumed": 5, "seeked": 6,
              "tracklist_changed": 7, "options_changed": 8, "volume_changed": 9, "mute_changed": 10}
COV_NAMES = ["tracklist", "mode", "play-last", "mixer", "history"]


def flat_event(name, kw):
    code = EVENT_CODE.get(name)
    if code is None:
        return [77]
    if code == 1:
        return [1, core_env.PS_CODE[str(kw["old_state"])], core_env.PS_CODE[str(kw["new_state"])]]
    if code == 2:
        return [2, kw["tl_track"].tlid]
    if code in (3, 4, 5):
        return [code, kw["tl_track"].tlid, int(kw["time_position"])]
    if code == 6:
        return [6, int(kw["time_position"])]
    if code == 9:
        return [9, kw["volume"]]
    if code == 10:
        return [10, int(kw["mute"])]
    return [code]


def flat_acall(env, c):
    if c[0] == "prepare_change":
        return [1]
    if c[0] == "set_uri":
        return [2, env.index_of_uri(c[1])]
    if c[0] == "set_state":
        return [3, core_env.PS_CODE[c[1]]]
    return [4, int(c[1])]


class Runner:
    """Executes one case on the implementation."""

    def __init__(self, case, budget_fn=None):
        self.case = case
        self.env = core_env.Env(case["kinds"], case["lens"], case["script"], case["max_len"],
                                case.get("volume"), case.get("mute"), case.get("styles", ()))
        self.env.data_dir = tempfile.mkdtemp(prefix="verif-core-")
        self.core, self._restore = core_env.make_core(self.env)
        self.budget_fn = budget_fn or (lambda n: 60 * n + 400)
        self.trace = []  # per op: dict with rich info for the monitors

    def close(self):
        self._restore()
        shutil.rmtree(self.env.data_dir, ignore_errors=True)

    # -- helpers ---------------------------------------------------------------
    def _crit(self, tlids, uris, field="uri"):
        # the model's second criterion is a list of tracks; the request names them by URI or,
        # equivalently here (every track has its own name/genre/comment), by another field
        c = {}
        if tlids is not None:
            c["tlid"] = list(tlids)
        if uris is not None:
            c[field] = [self.env.uri_of(k) if field == "uri" else getattr(self.env.track(k), field) for k in uris]
        return c

    def _deliver(self):
        q = self.env.audio.queue
        if not q:
            return
        n = q.pop(0)
        self.last_delivered = n
        core = self.core
        if n[0] == "stream_changed":
            core.stream_changed(uri=n[1])
        elif n[0] == "position_changed":
            core.position_changed(position=n[1])
        elif n[0] == "state_changed":
            core.state_changed(old_state=n[1], new_state=n[2], target_state=None)
        elif n[0] == "reached_end_of_stream":
            core.reached_end_of_stream()
        elif n[0] == "tags_changed":
            core.tags_changed(tags=["audio-codec"])

    def _about_to_finish(self):
        a = self.env.audio
        if a.uri is None or a.state == core_env.STOPPED or a.atf_done:
            return
        old = a.uri
        a.uri = None
        self.core.playback._on_about_to_finish()
        if a.uri is not None and a.state == core_env.PLAYING:
            a.fresh = False
            a.queue.append(("position_changed", 0))
            a.queue.append(("stream_changed", a.uri))
        elif a.uri is not None:
            pass  # paused: the preloaded stream is announced when playback resumes
        elif a.state == core_env.PLAYING:
            a.queue.append(("reached_end_of_stream",))
        else:
            a.uri = old  # paused, nothing preloaded: the old stream is left to play out
            a.atf_done = True

    def _end_of_stream(self):
        a = self.env.audio
        if a.uri is not None and a.state == core_env.PLAYING and a.atf_done:
            a.uri = None
            a.queue.append(("reached_end_of_stream",))

    def _load(self, cov, unlink_fails=False):
        env = self.env
        self._restore()
        env.audio = core_env.AudioEnv(env)
        env.mixer_volume = None
        env.mixer_mute = None
        cfgv = self.case.get("via_setup")
        env.cfg_volume = None
        if cfgv is not None and all(cov) and not unlink_fails:
            # the real start-up path: audio/mixer_volume is configured (the run command has set
            # the mixer to it before the core starts) and Core._setup restores every section - the
            # saved volume wins.  Used only when the state file holds a volume, so that the
            # outcome is the model's (fresh device, then the saved volume).
            try:
                from mopidy.internal import storage

                saved = storage.load(self.core._get_state_file())
                has_volume = saved.state.mixer.volume is not None
            except Exception:  # noqa: BLE001
                has_volume = False
            if has_volume:
                env.cfg_volume = cfgv
                env.mixer_volume = cfgv
                self.core, self._restore = core_env.make_core(env)
                self.core._setup()
                return
        self.core, self._restore = core_env.make_core(env)
        if unlink_fails:
            # the state file can be read but not deleted (read-only directory): the restore has to
            # go on regardless; the file is cleaned up afterwards so that later loads see none
            import pathlib

            real_unlink = pathlib.Path.unlink
            state_file = self.core._get_state_file()

            def failing_unlink(path, *a, **kw):
                if pathlib.Path(path) == state_file:
                    raise PermissionError(13, "Permission denied", str(path))
                return real_unlink(path, *a, **kw)

            pathlib.Path.unlink = failing_unlink
            try:
                self.core._load_state([n for n, b in zip(COV_NAMES, cov) if b])
            finally:
                pathlib.Path.unlink = real_unlink
                try:
                    real_unlink(state_file)
                except OSError:
                    pass
            return
        self.core._load_state([n for n, b in zip(COV_NAMES, cov) if b])

    def _call(self, op):
        core, env = self.core, self.env
        tl, pb = core.tracklist, core.playback
        k = op[0]
        if k == "add":
            if len(op) > 3 and op[3] == "uris":
                # the same request by URI: looked up in the library, one track per requested URI
                return ("tlts", tl.add(uris=[env.uri_of(i) if not isinstance(i, list) else
                                             "dummy:album:" + "-".join(str(x) for x in i) for i in op[1]],
                                       at_position=op[2]))
            # a negative index stands for an argument that is not a Track
            return ("tlts", tl.add(tracks=[env.track(i) if i >= 0 else f"not-a-track{i}" for i in op[1]],
                                   at_position=op[2]))
        if k == "buffering":
            # state reports of the audio layer that the core has to ignore: a buffering pause
            # (target state set), and reports of states other than paused
            from mopidy.types import PlaybackState as PS

            o, n2, tg = [(PS.PLAYING, PS.PAUSED, PS.PLAYING), (PS.PAUSED, PS.PLAYING, None),
                         (PS.PLAYING, PS.PAUSED, PS.PAUSED), (PS.PLAYING, PS.STOPPED, None)][op[1] % 4]
            core.state_changed(old_state=o, new_state=n2, target_state=tg)
            return ("none", None)
        if k == "indexof":
            # index(tl_track=<object>): an entry given as an object; an impostor has the entry's
            # tlid and URI but other metadata (it is not an entry)
            from mopidy.models import TlTrack

            tr = env.track(op[2] % len(env.kinds))
            if op[3]:
                tr = tr.replace(name="impostor")
            return ("optz", tl.index(tl_track=TlTrack(tlid=op[1], track=tr)))
        if k == "clear":
            return ("none", tl.clear())
        if k == "move":
            return ("none", tl.move(op[1], op[2], op[3]))
        if k == "remove":
            return ("tlts", tl.remove(self._crit(op[1], op[2], *(op[3:4]))))
        if k == "shuffle":
            return ("none", tl.shuffle(op[1], op[2]))
        if k == "filter":
            return ("tlts", tl.filter(self._crit(op[1], op[2], *(op[3:4]))))
        if k == "slice":
            return ("tlts", tl.slice(op[1], op[2]))
        if k == "index":
            return ("optz", tl.index(tlid=op[1]) if op[1] is not None else tl.index())
        if k == "setmode":
            getattr(tl, ["set_consume", "set_random", "set_repeat", "set_single"][op[1]])(op[2])
            return ("none", None)
        if k == "getnext":
            return ("optz", tl.get_next_tlid())
        if k == "geteot":
            return ("optz", tl.get_eot_tlid())
        if k == "getprev":
            return ("optz", tl.get_previous_tlid())
        if k == "play":
            return ("none", pb.play(tlid=op[1]))
        if k == "pause":
            return ("none", pb.pause())
        if k == "resume":
            return ("none", pb.resume())
        if k == "stop":
            return ("none", pb.stop())
        if k == "next":
            return ("none", pb.next())
        if k == "previous":
            return ("none", pb.previous())
        if k == "seek":
            return ("bool", pb.seek(op[1]))
        if k == "setvolume":
            return ("bool", core.mixer.set_volume(op[1]))
        if k == "setmute":
            return ("bool", core.mixer.set_mute(op[1]))
        if k == "deliver":
            return ("none", self._deliver())
        if k == "atf":
            return ("none", self._about_to_finish())
        if k == "eos":
            return ("none", self._end_of_stream())
        if k == "tick":
            a = env.audio
            if a.uri is not None and a.state == core_env.PLAYING:
                a.pos = a.pos + op[1]   # Track.length is metadata: the stream may run past it
            return ("none", None)
        if k == "save":
            return ("none", core._save_state())
        if k == "load":
            return ("none", self._load(op[1], len(op) > 2 and bool(op[2])))
        if k == "sethistory":
            from mopidy.models import Ref

            # newest first; sessions with an odd number of entries come from a machine whose clock
            # was ahead (timestamps in the future)
            base = 4_000_000_000_000 if len(op[1]) % 2 else 100_000
            core.history._history = [(base - i, Ref.track(uri=env.uri_of(t), name=f"n{t}"))
                                     for i, t in enumerate(op[1])]
            return ("none", None)
        raise AssertionError(op)

    def step(self, op):
        env = self.env
        v0 = self.core.tracklist.get_version() if op[0] != "load" else None
        n_ev, n_ac, n_at = len(env.events), len(env.audio.calls), len(env.attempts)
        audio0 = env.audio
        b0 = env.backend_calls
        self.last_delivered = None
        env.budget = b0 + self.budget_fn(self.core.tracklist.get_length())
        diverged = False
        exc_name = None
        import signal

        def _alarm(_sig, _frm):
            raise core_env.BudgetExceeded

        old_handler = signal.signal(signal.SIGALRM, _alarm)
        signal.setitimer(signal.ITIMER_REAL, 8.0)
        try:
            kind, val = self._call(op)
            if kind == "none":
                ret = [0]
            elif kind == "bool":
                ret = [1, int(bool(val))]
            elif kind == "optz":
                ret = [3] if val is None else [2, int(val)]
            else:
                ret = [4] + [x for t in val for x in (t.tlid, env.index_of_uri(t.track.uri))]
        except core_env.BudgetExceeded:
            diverged = True
            ret = [99]
        except Exception as e:  # noqa: BLE001
            exc_name = type(e).__name__
            ret = [10 + EXN_CODE.get(exc_name, 9)]
        finally:
            signal.setitimer(signal.ITIMER_REAL, 0)
            signal.signal(signal.SIGALRM, old_handler)
        op_calls = env.backend_calls - b0
        env.budget = None
        core = self.core
        pb = core.playback
        tlts = core.tracklist.get_tl_tracks()
        v1 = core.tracklist.get_version()
        if op[0] == "load":
            v0 = 0
            n_ac = 0 if env.audio is not audio0 else n_ac
        pos = 0 if diverged else int(core.playback.get_time_position())
        pend = getattr(core.playback, "_pending_tl_track", None)
        evs = env.events[n_ev:]
        acs = env.audio.calls[n_ac:]
        ats = env.attempts[n_at:]
        a = env.audio
        obs = (ret + [SEP] + [x for t in tlts for x in (t.tlid, env.index_of_uri(t.track.uri))] + [SEP]
               + [int(v1 > v0), int(v1 < v0)] + [SEP]
               + [int(core.tracklist.get_consume()), int(core.tracklist.get_random()),
                  int(core.tracklist.get_repeat()), int(core.tracklist.get_single())] + [SEP]
               + [core_env.PS_CODE[str(core.playback.get_state())],
                  core.playback.get_current_tlid() or -1, pend.tlid if pend else -1, pos] + [SEP]
               + [x for (n, kw) in evs for x in flat_event(n, kw) + [ESEP]] + [SEP]
               + [x for c in acs for x in flat_acall(env, c) + [ESEP]] + [SEP]
               + [x for (k, ok) in ats for x in (k, int(ok))] + [SEP]
               + [-1 if env.mixer_volume is None else env.mixer_volume,
                  -1 if env.mixer_mute is None else int(env.mixer_mute),
                  core.history.get_length(), len(a.queue),
                  -1 if a.uri is None else env.index_of_uri(a.uri), core_env.PS_CODE[a.state],
                  op_calls] + [SEP]
               + [x.tlid for x in core.tracklist._shuffled] + [SEP]
               + [_oz(pb._pending_position), _oz(pb._last_position), int(bool(pb._previous)),
                  int(bool(pb._start_paused)), _oz(pb._start_at_position)])
        self.trace.append({
            "op": op, "ret": ret, "exc": exc_name, "diverged": diverged, "backend_calls": op_calls,
            "tl": [(t.tlid, env.index_of_uri(t.track.uri)) for t in tlts], "version": v1,
            "version_before": v0,
            "events": [(n, dict(kw)) for n, kw in evs], "state": str(core.playback.get_state()),
            "current": core.playback.get_current_tlid(), "pending": pend.tlid if pend else None,
            "pos": pos, "attempts": list(ats), "queue_len": len(a.queue),
            "a_uri": None if a.uri is None else env.index_of_uri(a.uri), "a_state": a.state, "a_pos": a.pos,
            "history": [(ts, r.uri) for ts, r in core.history.get_history()],
            "modes": (core.tracklist.get_consume(), core.tracklist.get_random(),
                      core.tracklist.get_repeat(), core.tracklist.get_single()),
            "volume": env.mixer_volume, "mute": env.mixer_mute, "tl_len_before": None,
            "protocol_violations": a.protocol_violations, "atf_done": a.atf_done,
            "delivered": self.last_delivered,
            "shuffled": [x.tlid for x in getattr(core.tracklist, "_shuffled", [])],
        })
        return obs, diverged

    def run(self):
        out = []
        for op in self.case["ops"]:
            obs, div = self.step(op)
            out.append(obs)
            if div:
                break
        return out


def run_case(case, budget_fn=None):
    r = Runner(case, budget_fn)
    try:
        obs = r.run()
        return obs, r.trace
    finally:
        r.close()


# ------------------------------------------------------------------ Gallina emission


def g_optz(x):
    return g_opt(x, g_z)


def g_crit(tlids, uris):
    return (f"(mkCrit {g_opt(tlids, lambda l: g_list([g_z(x) for x in l]))} "
            f"{g_opt(uris, lambda l: g_list([g_z(x) for x in l]))})")


def _oz(v):
    return -1 if v is None else int(v)


def flat_tracks(items):
    """add(uris=...): an item that is a list stands for one URI the library resolves to those
    tracks (possibly none); the model's Add gets the tracks that are inserted."""
    return [x for it in items for x in (it if isinstance(it, list) else [it])]


def g_op(op):
    k = op[0]
    if k == "add":
        return f"Add {g_list([g_z(x) for x in flat_tracks(op[1])])} {g_optz(op[2])}"
    if k == "clear":
        return "Clear"
    if k == "move":
        return f"Move {g_z(op[1])} {g_z(op[2])} {g_z(op[3])}"
    if k == "remove":
        return f"Remove {g_crit(op[1], op[2])}"
    if k == "shuffle":
        return f"Shuffle {g_optz(op[1])} {g_optz(op[2])}"
    if k == "filter":
        return f"Filter {g_crit(op[1], op[2])}"
    if k == "slice":
        return f"Slice {g_z(op[1])} {g_z(op[2])}"
    if k == "index":
        return f"Index {g_optz(op[1])}"
    if k == "indexof":
        # the impostor is a different track as far as the model is concerned
        return f"IndexOf (mkTlt {g_z(op[1])} {g_z(op[2] % 1000 + (1000 if op[3] else 0))})"
    if k == "setmode":
        return f"SetMode {op[1]} {g_bool(op[2])}"
    if k in ("getnext", "geteot", "pause", "resume", "stop", "next", "previous", "deliver", "save"):
        return {"getnext": "GetNext", "geteot": "GetEot", "pause": "Pause", "resume": "Resume",
                "stop": "Stop", "next": "Next", "previous": "Previous", "deliver": "Deliver",
                "save": "Save"}[k]
    if k == "getprev":
        return "GetPrevious"
    if k == "play":
        return f"Play {g_optz(op[1])}"
    if k == "seek":
        return f"Seek {g_z(op[1])}"
    if k == "setvolume":
        return f"SetVolume {g_z(op[1])}"
    if k == "setmute":
        return f"SetMute {g_bool(op[1])}"
    if k == "atf":
        return "AboutToFinish"
    if k == "eos":
        return "EndOfStream"
    if k == "tick":
        return f"Tick {g_z(op[1])}"
    if k == "buffering":
        return "Tick 0"      # ignored by the core: nothing changes
    if k == "load":
        return "Load (mkCov " + " ".join(g_bool(b) for b in op[1]) + ")"
    if k == "sethistory":
        return f"SetHistory {g_list([g_z(x) for x in op[1]])}"
    raise AssertionError(op)


def g_world(case):
    kinds = g_list([KIND_COQ[k] for k in case["kinds"]])
    lens = g_list([g_optz(x) for x in case["lens"]])
    script = g_list([g_bool(b) for b in case["script"]])
    return (f"(init_world {g_z(case['max_len'])} {kinds} {lens} {script} "
            f"{g_optz(case.get('volume'))} {g_opt(case.get('mute'), g_bool)})")


def g_case(case, obs):
    ops = g_list([g_op(o) for o in case["ops"]])
    exp = g_list([g_list([g_z(x) for x in o]) for o in obs])
    return f"({g_world(case)}, {ops}, {exp})"


CASES_HEADER = (vlib.COQ_HEADER + "From Common Require Import Cases.\n"
                "From Core Require Import World Model Step.\n")


def cases_file(pairs):
    items = ";\n ".join(g_case(c, o) for c, o in pairs)
    return (CASES_HEADER
            + "Definition cases : list (world * list op * list (list Z)) :=\n [" + items + "].\n"
            + "Definition ok (c : world * list op * list (list Z)) : bool :=\n"
            + "  let '(w, ops, exp) := c in obs_eqb (run_c w ops) exp.\n"
            + "Eval vm_compute in mismatches ok cases.\n")


def model_obs(case):
    """Ask Coq for the model's observations of one case (for diagnosis/search)."""
    ops = g_list([g_op(o) for o in case["ops"]])
    text = (CASES_HEADER + f"Eval vm_compute in run_c {g_world(case)} {ops}.\n")
    rc, out = vlib.coq_eval("Core", text, "probe")
    if rc != 0:
        return None, out
    import re

    m = re.search(r"=\s*(\[.*\])\s*:\s*list \(list Z\)", out, re.S)
    if not m:
        return None, out
    body = m.group(1)
    rows = re.findall(r"\[([^\[\]]*)\]", body[1:-1])
    return [[int(x) for x in re.findall(r"-?\d+", r)] for r in rows], out


def check_cases(chk, pairs, name, shard=250):
    """Correspondence: returns list of indices (into pairs) where model != implementation."""
    shards = [pairs[i : i + shard] for i in range(0, len(pairs), shard)]
    results = vlib.coq_eval_many("Core", [cases_file(s) for s in shards], jobs=8)
    bad = []
    for si, (rc, out) in enumerate(results):
        idx = vlib.parse_nat_list(out)
        if rc != 0 or idx is None:
            chk.corr_failure(name, {"shard": si, "error": "coq evaluation failed"}, out[-2000:])
            bad.append(si * shard)
            continue
        bad.extend(si * shard + i for i in idx)
    return bad
