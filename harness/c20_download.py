"""C20 stage E: the chunk loop of mopidy.internal.http.download  <->  Untrusted/Download.v.

The REAL download() is driven with a requests-like session whose response delivers
scripted chunks through iter_content; every chunk takes a scripted amount of virtual time
(the clock mopidy.internal.http reads is patched with that virtual clock).  Bodies may be
endless (a stream that keeps trickling); a delivery limit acts as watchdog.  Compared with
the model: how the loop ended (complete / gave up on the deadline) and how many chunks
were pulled.  Monitor download_deadline_respected: at most one chunk is pulled after the
deadline has passed, i.e. the configured timeout bounds the download.

The same fake response / virtual clock are used by c20_unwrap.py, so that the
_unwrap_stream correspondence runs the real download over chunked, timed bodies too.
"""

from common import vlib
from common.vlib import g_bool, g_list, g_opt, g_z

import c20_parse

AREA = "Untrusted"
DELIVERY_LIMIT = 400  # watchdog: an endless body is cut here (the code under test should stop long before)


class VirtualClock:
    """time module stand-in for mopidy.internal.http: returns the virtual time."""

    def __init__(self, now=0, ticks_per_second=1):
        self.now = now
        self.reads = 0
        self.tps = ticks_per_second

    def time(self):
        self.reads += 1
        return self.now / self.tps if self.tps != 1 else float(self.now)


class ChunkedResponse:
    """requests.Response stand-in: chunk i arrives after durs[i] units of virtual time.

    endless = d: chunks keep arriving every d units for ever (watchdog after
    DELIVERY_LIMIT).  `on_time(d)` lets a caller account the same time elsewhere."""

    def __init__(self, ok, body, durs, clock, endless=None, on_time=None):
        self.ok = ok
        self.reason = "OK" if ok else "Not Found"
        self.body, self.durs, self.clock, self.endless, self.on_time = body, list(durs), clock, endless, on_time
        self.delivered = 0
        self.sent = b""
        self.times = [clock.now]  # virtual time after chunk i (index 0: when the body started)

    def _tick(self, d):
        self.clock.now += d
        if self.on_time is not None:
            self.on_time(d)
        self.delivered += 1
        self.times.append(self.clock.now)

    def iter_content(self, chunk_size):  # noqa: ARG002 - chunking is scripted
        if self.endless is not None:
            while True:
                if self.delivered >= DELIVERY_LIMIT:
                    raise c20_parse.Diverged
                self._tick(self.endless)
                yield b"\xff\xfb\x90\x00"
        n = len(self.durs)
        size = -(-len(self.body) // n) if n else 0
        for i, d in enumerate(self.durs):
            self._tick(d)
            piece = self.body[i * size : (i + 1) * size]
            self.sent += piece
            yield piece


def deadline_respected(times, timeout, unit=1000):
    """Property predicate on the real execution: every chunk but the last one pulled
    arrived within the timeout (so at most one chunk is pulled after the deadline).
    unit: how many timeout units one clock unit is (ms timeout, clock in s: 1000)."""
    n = len(times) - 1
    return n <= 1 or unit * (times[n - 1] - times[0]) <= timeout


class Session:
    def __init__(self, kind, response):
        self.kind, self.response = kind, response

    def get(self, uri, stream=False, timeout=None):  # noqa: ARG002
        import requests.exceptions as rex

        if self.kind == "timeout":
            raise rex.Timeout("scripted")
        if self.kind == "schema":
            raise rex.InvalidSchema("scripted")
        if self.kind == "error":
            raise rex.ConnectionError("scripted")
        return self.response


def gen_case(rng):
    t0 = rng.choice([0, 1000, 1700000000])
    timeout_ms = rng.choice([0, 1, 250, 1000, 1000, 3000, 5000, 60000])
    kind = rng.weighted([("response", 10), ("timeout", 0.3), ("schema", 0.3), ("error", 0.4)])
    unit = max(1, timeout_ms // 1000)
    endless = None
    durs = []
    if rng.random() < 0.25:
        endless = rng.choice([1, 1, unit, 2 * unit + 1])
    else:
        n = rng.choice([0, 1, 1, 2, 3, 4, 5, 9])
        style = rng.weighted([("fast", 3), ("boundary", 3), ("slow", 2)])
        for _ in range(n):
            if style == "fast":
                durs.append(0)
            elif style == "boundary":
                durs.append(rng.choice([0, 0, 1, unit, unit - 1 if unit > 1 else 0]))
            else:
                durs.append(rng.choice([0, 1, unit, unit + 1, 5 * unit]))
    body = bytes(rng.randrange(256) for _ in range(rng.choice([0, 1, 7, 40])))
    return {"t0": t0, "timeout_ms": timeout_ms, "kind": kind, "ok": rng.random() < 0.85, "durs": durs, "endless": endless, "body": body}


CORPUS = [
    # a radio stream served as a document: 250 ms per chunk, 1 s timeout (the coordinator's r2 scenario)
    {"t0": 1000000, "timeout_ms": 4000, "kind": "response", "ok": True, "durs": [], "endless": 1, "body": b""},
    {"t0": 0, "timeout_ms": 1000, "kind": "response", "ok": True, "durs": [1, 0, 0, 0], "endless": None, "body": b"abcdefgh"},   # exactly on the deadline: not late
    {"t0": 0, "timeout_ms": 1000, "kind": "response", "ok": True, "durs": [1, 1, 0, 0], "endless": None, "body": b"abcdefgh"},   # late at chunk 2
    {"t0": 0, "timeout_ms": 999, "kind": "response", "ok": True, "durs": [1, 0], "endless": None, "body": b"ab"},
    {"t0": 5, "timeout_ms": 0, "kind": "response", "ok": True, "durs": [0, 0, 0], "endless": None, "body": b"abc"},
    {"t0": 5, "timeout_ms": 3000, "kind": "response", "ok": False, "durs": [0, 5, 0], "endless": None, "body": b"abc"},
    {"t0": 5, "timeout_ms": 3000, "kind": "response", "ok": True, "durs": [], "endless": None, "body": b""},
]


def run_impl(http, case):
    clock = VirtualClock(case["t0"])
    resp = ChunkedResponse(case["ok"], case["body"], case["durs"], clock, endless=case["endless"])
    old = http.time
    http.time = clock
    try:
        try:
            r = http.download(Session(case["kind"], resp), "http://radio.example/live", timeout=case["timeout_ms"] / 1000)
            obs = ("ok", r)
        except c20_parse.Diverged:
            obs = ("diverged", None)
        except Exception as exc:  # noqa: BLE001
            obs = ("raise", type(exc).__name__)
    finally:
        http.time = old
    case["obs"], case["delivered"], case["times"], case["sent"] = obs, resp.delivered, resp.times, resp.sent
    return case


HDR = (
    vlib.COQ_HEADER
    + "From Untrusted Require Import Base Download.\nFrom Common Require Import Res Str Cases.\n"
    + "(* get succeeded?, ok, readings, timeout_ms, number of chunks (None: endless), expected (returned a body?, chunks pulled) *)\n"
    + "Definition T := (bool * bool * list Z * Z * option nat * (bool * nat))%type.\n"
    + "Definition ok (c : T) : bool :=\n"
    + "  let '(got, rok, cl, tmo, n, (ebody, ecount)) := c in\n"
    + "  if negb got then negb ebody && Nat.eqb ecount 0 else\n"
    + "  let more := match n with Some k => fun i => Nat.ltb i k | None => fun _ => true end in\n"
    + "  let '(e, cnt) := chunks 1000 (dl_tab_clock cl) tmo more (S (length cl)) O in\n"
    + "  Nat.eqb cnt ecount && Bool.eqb ebody (match e with DlComplete => rok | _ => false end)\n"
    + "  && negb (match e with DlOutOfFuel => true | _ => false end).\n"
)


def case_term(c):
    got = c["kind"] == "response"
    if c["endless"] is not None:
        # readings until well beyond the deadline (the model then stops by itself)
        k = c["timeout_ms"] // (1000 * c["endless"]) + 3
        readings = [c["t0"] + i * c["endless"] for i in range(k + 1)]
        n = "None"
    else:
        readings, t = [c["t0"]], c["t0"]
        for d in c["durs"]:
            t += d
            readings.append(t)
        n = f"(Some {len(c['durs'])}%nat)"
    ebody = c["obs"][0] == "ok" and c["obs"][1] is not None
    return (f"({g_bool(got)}, {g_bool(c['ok'])}, {g_list([g_z(x) for x in readings])}, {g_z(c['timeout_ms'])}, {n}, "
            f"({g_bool(ebody)}, {min(c['delivered'], 4000)}%nat))")


def monitor(chk, c):
    meta = {k: (v if not isinstance(v, bytes) else v.hex()) for k, v in c.items() if k in ("t0", "timeout_ms", "kind", "ok", "durs", "endless", "body")}
    meta["chunks_pulled"] = c["delivered"]
    good = True
    if c["obs"][0] == "raise":
        chk.monitor_failure("download_total", {"call": "http.download", "exc": c["obs"][1]}, f"http.download raised {c['obs'][1]}", meta)
        good = False
    if c["obs"][0] == "diverged" or not deadline_respected(c["times"], c["timeout_ms"]):
        chk.monitor_failure("download_deadline_respected", {"call": "http.download"},
                            "http.download kept pulling chunks after its deadline had passed (the timeout does not bound the download)",
                            {**meta, "times": c["times"][:12]})
        good = False
    if c["obs"][0] == "ok" and c["obs"][1] is not None and c["obs"][1] != c["sent"] and c["endless"] is None:
        chk.monitor_failure("download_total", {"call": "http.download", "exc": "wrong-body"}, "http.download returned other bytes than the response delivered", meta)
        good = False
    return good


def run(chk, _fx=None):
    vlib.setup_impl()
    from mopidy.internal import http

    n = 1200 if chk.tier == "quick" else 20000
    rng = vlib.Rng(chk.seed, "C20-download")
    cases = [dict(c) for c in CORPUS] + [gen_case(rng) for _ in range(n)]
    rows = []
    for c in cases:
        run_impl(http, c)
        good = monitor(chk, c)
        if c["obs"][0] != "ok":
            continue  # raise / watchdog: reported by the monitor, nothing to compare
        rows.append(c)
        slow = c["kind"] == "response" and c["obs"][1] is None and c["ok"] and (c["endless"] is not None or c["delivered"] <= len(c["durs"]))
        chk.count(1, nontrivial_key=(c["timeout_ms"], tuple(c["durs"]), c["endless"], c["delivered"]) if c["delivered"] >= 2 else None)
        chk.dist(f"download:body={'endless' if c['endless'] is not None else 'chunks=' + str(min(len(c['durs']), 5))}")
        chk.dist(f"download:outcome={'body' if c['obs'][1] is not None else ('none-late-or-failed' if slow else 'none')}")
        if good and c["endless"] is not None and sum(1 for s in chk.samples if s.get("stage") == "download") < 1:
            chk.sample({"stage": "download", "timeout_ms": c["timeout_ms"], "endless_chunk_time": c["endless"], "chunks_pulled": c["delivered"], "result": c["obs"][1]})
    shards = [rows[i : i + 500] for i in range(0, len(rows), 500)]
    texts = [HDR + "Definition cases : list T :=\n " + g_list([case_term(c) for c in s]) + ".\nEval vm_compute in mismatches ok cases.\n" for s in shards]
    results = vlib.coq_eval_many(AREA, texts, jobs=12)
    okk = True
    for shard, (rc, out) in zip(shards, results):
        bad = vlib.parse_nat_list(out)
        if rc != 0 or bad is None:
            okk = False
            chk.corr_failure("download", {"shard": "coq evaluation failed"}, out[-1500:])
            continue
        for i in bad:
            okk = False
            c = shard[i]
            chk.corr_failure("download", {k: (v if not isinstance(v, bytes) else v.hex()) for k, v in c.items() if k not in ("times", "sent")} | {"times": c["times"][:12]})
    chk.obligation("corr:download", "correspondence", okk)
