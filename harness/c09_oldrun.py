"""C09 helper (subprocess): run generated cases against the checkout named by VERIF_REPO and
print [[case, observation], ...] as JSON.  Used to correspondence-check the model of the
pre-fix code (run_old) against library.py as it was before commit 402e4a8."""
import json
import sys

from common import vlib


def main():
    n, seed = int(sys.argv[1]), int(sys.argv[2])
    vlib.setup_impl()
    import c09_gen as G
    import c09_impl as I

    rng = vlib.Rng(seed, "C09-old")
    rows = []
    for idx in range(n):
        case = G.gen_case(rng)
        if case["op"]["name"] not in ("lookup", "get_images") and idx % 4:
            case["op"] = {"name": rng.choice(["lookup", "get_images"]), "uris": G.gen_uris(rng, G.all_schemes(case["backends"]) or ["a"])}
            G.fill_answers(rng, case)
        rows.append([case, I.run_case(case, salt=idx)])
    json.dump(rows, sys.stdout)


if __name__ == "__main__":
    main()
