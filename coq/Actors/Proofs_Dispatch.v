(* C18: proofs about the listener dispatch model. *)
From Coq Require Import ZArith List Bool Arith Lia.
From Actors Require Import Dispatch.
Import ListNotations.

Definition no_race (ls : list (listener * lstate)) : Prop :=
  forall p e, In p ls -> l_dies_at_tell (fst p) e = false.

Lemma send_no_race ls e :
  no_race ls ->
  send ls e = (SOk, map (fun p => (fst p, if ls_alive (snd p) then deliver (fst p) (snd p) e else snd p)) ls).
Proof.
  induction ls as [|[l st] rest IH]; intros Hn; [reflexivity|].
  assert (Hr : no_race rest) by (intros p e' Hp; apply Hn; now right).
  cbn [send map fst snd]. destruct (ls_alive st) eqn:Ha; cbn [negb].
  - pose proof (Hn (l, st) e (or_introl eq_refl)) as Hd. cbn in Hd. rewrite Hd, (IH Hr). reflexivity.
  - rewrite (IH Hr). reflexivity.
Qed.

Lemma send_preserves_listeners ls e : map fst (snd (send ls e)) = map fst ls.
Proof.
  induction ls as [|[l st] rest IH]; [reflexivity|]. cbn [send].
  destruct (negb (ls_alive st)).
  - destruct (send rest e) as [r rest'] eqn:E. cbn in *. now f_equal.
  - destruct (l_dies_at_tell l e); [reflexivity|].
    destruct (send rest e) as [r rest'] eqn:E. cbn in *. now f_equal.
Qed.

(* D1: without the stop-during-send race, every send returns normally and the final state of
   every listener is what that listener would do with the event sequence on its own: no
   listener's failures (caught, or fatal for an on_event override) affect any other *)
Theorem dispatch_isolation_lemma :
  forall evs ls, no_race ls ->
    fst (send_all ls evs) = map (fun _ => SOk) evs /\
    snd (send_all ls evs) = map (fun p => (fst p, alone (fst p) (snd p) evs)) ls.
Proof.
  induction evs as [|e more IH]; intros ls Hn.
  - cbn. split; [reflexivity|]. induction ls as [|[l st] r IHl]; [reflexivity|].
    cbn. f_equal. apply IHl. intros p e Hp. apply Hn. now right.
  - cbn [send_all]. rewrite (send_no_race ls e Hn).
    set (ls' := map _ ls).
    assert (Hn' : no_race ls').
    { intros p e' Hp. unfold ls' in Hp. apply in_map_iff in Hp as (q & <- & Hq). cbn. now apply Hn. }
    destruct (IH ls' Hn') as [H1 H2]. destruct (send_all ls' more) as [rs fin]. cbn in *.
    split; [now f_equal|]. rewrite H2. unfold ls'. rewrite map_map. apply map_ext.
    intros [l st]. reflexivity.
Qed.

(* D2: a listener using the default on_event never dies: it handles exactly the events whose
   handler succeeds, in order, and catches the others (raising, wrong arguments, unknown) *)
Theorem default_listener_robust_lemma :
  forall l evs st, l_custom l = false -> ls_alive st = true ->
    let st' := alone l st evs in
    ls_alive st' = true /\
    ls_handled st' = ls_handled st ++ filter (fun e => match l_beh l e with HOk => true | _ => false end) evs /\
    ls_caught st' = ls_caught st ++ filter (fun e => match l_beh l e with HOk => false | _ => true end) evs.
Proof.
  intros l evs. induction evs as [|e more IH]; intros st Hc Ha; cbn.
  - now rewrite !app_nil_r.
  - unfold alone in *. cbn [fold_left]. rewrite Ha.
    assert (Hd : ls_alive (deliver l st e) = true).
    { unfold deliver. destruct (l_beh l e); try reflexivity; rewrite Hc; reflexivity. }
    destruct (IH (deliver l st e) Hc Hd) as (H1 & H2 & H3). cbn zeta in *.
    split; [assumption|]. rewrite H2, H3. unfold deliver.
    destruct (l_beh l e); rewrite ?Hc; cbn; rewrite <- ?app_assoc; auto.
Qed.

(* D3: handled events are a subsequence of the events sent, in sending order, for every
   listener, whatever the others do *)
Lemma alone_cons l st e more :
  alone l st (e :: more) = alone l (if ls_alive st then deliver l st e else st) more.
Proof. reflexivity. Qed.

Lemma alone_dead l evs st : ls_alive st = false -> alone l st evs = st.
Proof.
  induction evs as [|e more IH]; intros H; [reflexivity|].
  unfold alone in *. cbn [fold_left]. rewrite H. now apply IH.
Qed.

Definition ok_ev (l : listener) (e : event) : bool := match l_beh l e with HOk => true | _ => false end.

Theorem handled_in_order_lemma :
  forall l evs st, ls_alive st = true ->
    exists k, k <= length evs /\
      ls_handled (alone l st evs) = ls_handled st ++ filter (ok_ev l) (firstn k evs) /\
      (ls_alive (alone l st evs) = true -> k = length evs) /\
      (ls_alive (alone l st evs) = false -> l_custom l = true /\ k < length evs /\ ok_ev l (nth k evs 0) = false).
Proof.
  intros l evs. induction evs as [|e more IH]; intros st Ha.
  - exists 0. cbn. rewrite app_nil_r. split; [lia|]. split; [reflexivity|]. split; [reflexivity|].
    intros Hf. congruence.
  - rewrite alone_cons, Ha.
    destruct (ls_alive (deliver l st e)) eqn:Hd.
    + destruct (IH (deliver l st e) Hd) as (k & Hk & H1 & H2 & H3).
      exists (S k). cbn [length firstn filter]. split; [lia|]. rewrite H1.
      assert (Hh : ls_handled (deliver l st e) = ls_handled st ++ (if ok_ev l e then [e] else [])).
      { unfold deliver, ok_ev. destruct (l_beh l e); [reflexivity| |];
          destruct (l_custom l); cbn; now rewrite app_nil_r. }
      rewrite Hh, <- app_assoc. split; [destruct (ok_ev l e); reflexivity|].
      split; [intros H; f_equal; auto|].
      intros H. destruct (H3 H) as (Hc & Hlt & Hn). repeat split; [assumption|lia|exact Hn].
    + (* the listener dies on e: an on_event override let the exception escape *)
      rewrite (alone_dead l more _ Hd). exists 0. cbn [firstn filter length nth]. rewrite app_nil_r.
      unfold deliver in Hd |- *. unfold ok_ev.
      destruct (l_beh l e) eqn:Hb; [discriminate| |];
        destruct (l_custom l) eqn:Hc; try discriminate; cbn;
          (split; [lia|]; split; [reflexivity|]; split; [intros H; discriminate|]; intros _; repeat split; lia).
Qed.

(* D4: the race is real in the model: a listener stopping between the registry lookup and its
   tell makes send raise in the sender and the listeners after it never see the event *)
Definition racy_system : list (listener * lstate) :=
  [(mkListener false (fun _ => HOk) (fun e => Nat.eqb e 1), ls0);
   (mkListener false (fun _ => HOk) (fun _ => false), ls0)].

Theorem race_loses_event_lemma :
  fst (send_all racy_system [0; 1; 2]) = [SOk; SActorDead; SOk] /\
  map (fun p => ls_handled (snd p)) (snd (send_all racy_system [0; 1; 2])) = [[0]; [0; 2]].
Proof. vm_compute. split; reflexivity. Qed.
