(* C18: an executable scheduler for the abstract actor system of WaitFor.v, used to compare
   the abstract semantics with real pykka actors running the same scripted programs
   (model file: definitions only). *)
From Coq Require Import ZArith List Bool Arith.
From Actors Require Import WaitFor.
Import ListNotations.

(* a program as a finite table; missing entries are empty handlers *)
Definition table := list (actor * hid * list instr).

Definition code_of_table (t : table) : actor -> hid -> list instr :=
  fun a h =>
    match find (fun e => Nat.eqb (fst (fst e)) a && Nat.eqb (snd (fst e)) h) t with
    | Some e => snd e
    | None => []
    end.

Section Sim.
  Variable code : actor -> hid -> list instr.

  (* what actor a would do next: (label, resulting state, handler started if it is a delivery) *)
  Definition try_actor (s : cfg) (a : actor) : option (label * cfg * option (actor * hid)) :=
    match step code s (LStep a) with
    | Some s' => Some (LStep a, s', None)
    | None =>
        match step code s (LDeliver a) with
        | Some s' => Some (LDeliver a, s', match a_mbox (s a) with m :: _ => Some (a, m_h m) | [] => None end)
        | None => None
        end
    end.

  Fixpoint first_some {A B} (f : A -> option B) (l : list A) : option B :=
    match l with
    | [] => None
    | x :: t => match f x with Some y => Some y | None => first_some f t end
    end.

  (* lowest-numbered runnable actor moves, until nobody can move or the fuel is spent;
     [order] lets the harness pick other schedules (a rotation / permutation of the actors) *)
  Fixpoint sim (order : list actor) (fuel : nat) (s : cfg) (labels : list label)
           (started : list (actor * hid)) : list label * list (actor * hid) * cfg * bool :=
    match fuel with
    | O => (rev labels, rev started, s, false)
    | S f =>
        match first_some (try_actor s) order with
        | None => (rev labels, rev started, s, true)
        | Some (l, s', d) =>
            sim order f s' (l :: labels) (match d with Some x => x :: started | None => started end)
        end
    end.
End Sim.

Definition idle (s : cfg) (a : actor) : bool :=
  match a_frame (s a), a_mbox (s a) with None, [] => true | _, _ => false end.

Definition count_started (l : list (actor * hid)) (a : actor) (h : hid) : Z :=
  Z.of_nat (length (filter (fun p => Nat.eqb (fst p) a && Nat.eqb (snd p) h) l)).

Record sim_case : Type := mkSim {
  sc_n : nat;                              (* actors 0 .. n-1 *)
  sc_table : table;
  sc_inject : list (actor * hid);          (* requests sent by the environment, in order *)
  sc_order : list actor;                   (* scheduling priority *)
  sc_counts : list (actor * hid * Z);      (* observed: handler executions per (actor, handler) *)
  sc_total : Z;                            (* observed: total handler executions *)
  sc_deadlock : bool                       (* observed: a blocking ask never got its reply *)
}.

Definition inject_all (s : cfg) (reqs : list (actor * hid)) : cfg :=
  fold_left (fun s r => push s (fst r) (mkMsg (snd r) None)) reqs s.

(* model and implementation agree on one scripted program *)
Definition sim_ok (c : sim_case) : bool :=
  let code := code_of_table (sc_table c) in
  let s0 := inject_all init (sc_inject c) in
  let '(labels, started, s, stuck) := sim code (sc_order c) 2000 s0 [] [] in
  let all_idle := forallb (idle s) (seq 0 (sc_n c)) in
  (* the schedule the simulator produced is a schedule of the semantics *)
  (match run code s0 labels with Some _ => true | None => false end)
  && stuck
  && (if sc_deadlock c
      then negb all_idle                                   (* nobody can move, somebody is busy *)
      else all_idle
           && (Z.of_nat (length started) =? sc_total c)%Z
           && forallb (fun e => (count_started started (fst (fst e)) (snd (fst e)) =? snd e)%Z)
                      (sc_counts c)).
