(* C18, wait-for part: the finite checks on the generated site list, the instantiation of
   the general theorem to mopidy's edges, and non-vacuity / sanity examples. *)
From Coq Require Import ZArith List Bool String Arith Lia Relations.
From Actors Require Import WaitFor Edges_gen Proofs_WaitFor.
Import ListNotations.

(* T2: a finite check over the generated list (its length is part of the statement via
   Edges_gen.edges); re-run by coqc against freshly generated edges on every check run. *)
Lemma mopidy_edges_ranked_lemma : rank_ok_b edges mopidy_rank = true.
Proof. vm_compute. reflexivity. Qed.

(* T3: every site along which the rank does not strictly decrease is fire-and-forget *)
Lemma mopidy_upward_is_tell_lemma : upward_is_tell_b sites mopidy_rank = true.
Proof. vm_compute. reflexivity. Qed.

(* ... and there is such traffic (listener.send, mixer triggers): the claim is not vacuous *)
Lemma mopidy_upward_exists_lemma :
  existsb (fun s => upward mopidy_rank s && comp_eqb (s_src s) Core && comp_eqb (s_dst s) Frontend) sites = true /\
  existsb (fun s => upward mopidy_rank s && comp_eqb (s_src s) Audio && comp_eqb (s_dst s) Mixer) sites = true /\
  existsb (fun s => upward mopidy_rank s && comp_eqb (s_src s) Mixer && comp_eqb (s_dst s) Core) sites = true.
Proof. vm_compute. repeat split; reflexivity. Qed.

(* the edges the dynamic runs are expected to exhibit are present (non-vacuity of T2) *)
Lemma mopidy_edges_present_lemma :
  edge_in_b edges Frontend Core = true /\ edge_in_b edges Core Backend = true /\
  edge_in_b edges Core Mixer = true /\ edge_in_b edges Backend Audio = true /\
  edge_in_b edges Mixer Audio = true /\ edge_in_b edges GstThread Core = true /\
  edge_in_b edges Main Frontend = true.
Proof. vm_compute. repeat split; reflexivity. Qed.

(* no blocking site waits on the thread of an audio callback or on Main, and the audio
   actor never blocks on anything *)
Lemma mopidy_audio_never_waits_lemma :
  forallb (fun s => negb (comp_eqb (s_src s) Audio)) edges = true /\
  forallb (fun s => negb (comp_eqb (s_dst s) Main || comp_eqb (s_dst s) GstThread)) edges = true.
Proof. vm_compute. split; reflexivity. Qed.

(* the GstThread -> Core callback site waits without a timeout (finite check) *)
Lemma mopidy_callback_unbounded_lemma : callback_unbounded_b sites = true.
Proof. vm_compute. reflexivity. Qed.

(* coverage: every textual candidate for a blocking call (token scan) was translated into a
   blocking site, a Tell, or exempted for one of the three known reasons; none is Missing *)
Lemma mopidy_candidates_accounted_lemma : candidates_accounted_b candidates sites = true.
Proof. vm_compute. reflexivity. Qed.

Theorem mopidy_no_deadlock_lemma :
  forall (comp_of : actor -> comp) (code_of : actor -> hid -> list instr),
    (forall a h t h', In (ICall t h') (code_of a h) ->
                      edge_in_b edges (comp_of a) (comp_of t) = true) ->
    forall sched s, run code_of init sched = Some s ->
      (forall a, ~ clos_trans actor (waits s) a a) /\
      (forall a, busy s a ->
                 exists b, can_move code_of s b /\ clos_refl_trans actor (waits s) a b) /\
      ~ deadlocked code_of s.
Proof.
  intros comp_of code_of. apply (ranked_no_cycle_lemma edges mopidy_rank).
  exact mopidy_edges_ranked_lemma.
Qed.

(* in mopidy no chain of blocked callers is longer than 4 (Main > Frontend > Core > Backend > Audio) *)
Lemma mopidy_awaited_ranked_lemma : forall c d, edge_in_b edges c d = true -> 1 <= rank_total mopidy_rank d.
Proof.
  intros c d H. destruct d; try (cbn; lia).
  exfalso. destruct c; vm_compute in H; discriminate.
Qed.

Theorem mopidy_wait_chain_bounded_lemma :
  forall (comp_of : actor -> comp) (code_of : actor -> hid -> list instr),
    (forall a h t h', In (ICall t h') (code_of a h) ->
                      edge_in_b edges (comp_of a) (comp_of t) = true) ->
    forall sched s, run code_of init sched = Some s ->
    forall a p, wait_chain s a p -> List.length p <= 4.
Proof.
  intros comp_of code_of Hcode sched s Hrun a p Hc.
  assert (H5 : forall c, rank_total mopidy_rank c <= 5) by (clear; intros c; destruct c; cbn; lia).
  destruct (wait_chain_bounded_lemma edges mopidy_rank comp_of code_of
              mopidy_edges_ranked_lemma Hcode sched s Hrun a p Hc) as [Hlen Hlast].
  destruct p as [|b q]; [clear; cbn; lia|].
  destruct Hlast as [c Hc']; [discriminate|].
  pose proof (mopidy_awaited_ranked_lemma _ _ Hc') as H1.
  specialize (H5 (comp_of a)).
  change (List.length (b :: q)) with (S (List.length q)) in *.
  clear - Hlen H1 H5. lia.
Qed.

(* the end-of-track callback: a GStreamer thread calling into the core is blocked until the
   core's own thread has run the handler to completion *)
Theorem mopidy_callback_served_by_core_lemma :
  callback_unbounded_b sites = true /\
  forall (comp_of : actor -> comp) (code_of : actor -> hid -> list instr),
    (forall a h t h', In (ICall t h') (code_of a h) ->
                      edge_in_b edges (comp_of a) (comp_of t) = true) ->
    forall sched s, run code_of init sched = Some s ->
    forall g c, comp_of g = GstThread -> comp_of c = Core -> waits s g c ->
      owes s c g /\ ~ can_move code_of s g /\
      (forall l s', step code_of s l = Some s' -> ~ waits s' g c ->
                    l = LStep c /\
                    exists fr, a_frame (s c) = Some fr /\ f_reply fr = Some g /\ f_code fr = []).
Proof.
  split; [exact mopidy_callback_unbounded_lemma|].
  intros comp_of code_of Hcode sched s Hrun g c _ _ Hw.
  eapply (call_served_by_callee_lemma edges mopidy_rank); try eassumption.
  exact mopidy_edges_ranked_lemma.
Qed.

(* ------------------------------------------------------------------------------------ *)
(* Examples                                                                               *)

(* a small mopidy-shaped system: 0 frontend, 1 core, 2 backend, 3 audio, 4 mixer, 5 gst *)
Definition ex_comp (a : actor) : comp :=
  match a with
  | 0 => Frontend | 1 => Core | 2 => Backend | 3 => Audio | 4 => Mixer | 5 => GstThread
  | _ => Frontend
  end.

Definition ex_code (a : actor) (h : hid) : list instr :=
  match a, h with
  | 0, 0 => [ICall 1 0]                           (* frontend: core.playback.play().get() *)
  | 1, 0 => [ICall 2 0; ICall 4 0; ITell 0 1]     (* core: backend, mixer, then an event upwards *)
  | 1, 2 => [ICall 2 0]                           (* core: _on_about_to_finish *)
  | 2, 0 => [ICall 3 0]                           (* backend: audio.set_uri(..).get() *)
  | 3, 0 => [ITell 1 1]                           (* audio: AudioListener.send *)
  | 4, 0 => [ICall 3 0; ITell 1 1]                (* software mixer: audio mixer, then trigger *)
  | 5, 0 => [ICall 1 2]                           (* gst thread: the about-to-finish callback *)
  | _, _ => []
  end.

Lemma ex_code_ok :
  forall a h t h', In (ICall t h') (ex_code a h) -> edge_in_b edges (ex_comp a) (ex_comp t) = true.
Proof.
  intros a h t h' Hin.
  destruct a as [|[|[|[|[|[|a]]]]]]; destruct h as [|[|[|h]]]; cbn in Hin; try contradiction;
    repeat (destruct Hin as [Heq|Hin];
            [try discriminate; injection Heq as <- <-; vm_compute; reflexivity|]);
    try contradiction.
Qed.

(* non-vacuity of T1: the hypotheses are satisfiable and a blocked chain really arises:
   gst thread -> core -> backend -> audio, where only the audio actor can move *)
Definition ex_sched : list label :=
  [LInject 5 0; LDeliver 5; LStep 5;      (* gst thread calls the core and blocks *)
   LDeliver 1; LStep 1;                   (* core serves it, calls the backend and blocks *)
   LDeliver 2; LStep 2].                  (* backend calls audio and blocks *)

Example ex_blocked_chain :
  exists s, run ex_code init ex_sched = Some s /\
            waits s 5 1 /\ waits s 1 2 /\ waits s 2 3 /\
            ~ can_move ex_code s 5 /\ ~ can_move ex_code s 1 /\ ~ can_move ex_code s 2 /\
            can_move ex_code s 3.
Proof.
  eexists. split; [reflexivity|].
  repeat split.
  - eexists; split; reflexivity.
  - eexists; split; reflexivity.
  - eexists; split; reflexivity.
  - intros [[s' H]|[s' H]]; discriminate.
  - intros [[s' H]|[s' H]]; discriminate.
  - intros [[s' H]|[s' H]]; discriminate.
  - left. eexists. reflexivity.
Qed.

(* sanity of the semantics: with a call cycle (a backend calling the core synchronously)
   the same semantics does deadlock, so T1 is not true for trivial reasons *)
Definition bad_code (a : actor) (h : hid) : list instr :=
  match a, h with
  | 1, 0 => [ICall 2 0]      (* core -> backend *)
  | 2, 0 => [ICall 1 1]      (* backend -> core: upward and blocking *)
  | _, _ => []
  end.

Definition bad_sched : list label :=
  [LInject 1 0; LDeliver 1; LStep 1; LDeliver 2; LStep 2].

Example cyclic_calls_deadlock :
  exists s, run bad_code init bad_sched = Some s /\ deadlocked bad_code s /\
            clos_trans actor (waits s) 1 1.
Proof.
  eexists. split; [reflexivity|]. split; [split|].
  - exists 1. left. cbn. discriminate.
  - intros b [[s' H]|[s' H]];
      destruct b as [|[|[|b]]]; cbn in H; discriminate.
  - apply t_trans with 2; apply t_step; eexists; split; reflexivity.
Qed.
