(* C18, wait-for part: components, call sites, ranks, and an abstract actor system.

   Model file: definitions only (proofs are in Proofs_WaitFor.v).

   Part 1 is the vocabulary of the generated file Edges_gen.v (one [site] per blocking
   construct / fire-and-forget call found in the Python sources by harness/c18_edges.py).
   Part 2 is an abstract semantics of pykka-style actors: one mailbox per actor, one
   handler running at a time per actor, handlers are sequences of [ITell] / [ICall],
   a call blocks the caller until the callee's handler returns. *)
From Coq Require Import ZArith List Bool String Arith.
Import ListNotations.

(* ------------------------------------------------------------------------------------ *)
(* Part 1: components, sites, ranks                                                       *)

Inductive comp : Type :=
| Main        (* the thread running RootCommand.run *)
| Frontend    (* frontend actors and their helper threads (HTTP server, JSON-RPC) *)
| GstThread   (* GStreamer streaming threads / GLib callbacks calling into Python *)
| Core
| Backend
| Mixer
| Audio
| Unknown.    (* fail-closed bucket of the translator: has no rank *)

Definition comp_eqb (a b : comp) : bool :=
  match a, b with
  | Main, Main | Frontend, Frontend | GstThread, GstThread | Core, Core
  | Backend, Backend | Mixer, Mixer | Audio, Audio | Unknown, Unknown => true
  | _, _ => false
  end.

Inductive kind : Type :=
| Blocking          (* waits for the reply with no bound *)
| BlockingTimeout   (* waits, but gives up after a timeout (timeout= argument / except pykka.Timeout) *)
| Tell.

Record site : Type := mkSite {
  s_src : comp;      (* component whose thread executes the construct *)
  s_dst : comp;      (* component that owns the awaited future / receives the message *)
  s_kind : kind;
  s_file : string;
  s_line : Z;
  s_what : string
}.

(* a wait-for edge for the purposes of ranking: bounded waits count too *)
Definition site_blocking (s : site) : bool :=
  match s_kind s with Blocking | BlockingTimeout => true | Tell => false end.

Definition site_unbounded (s : site) : bool :=
  match s_kind s with Blocking => true | _ => false end.

(* the end-of-track callback: every waiting site of a GStreamer thread on the core must wait
   without a bound (the caller may only resume once the core has served it), and there is one *)
Definition is_callback_site (s : site) : bool :=
  match s_src s, s_dst s with GstThread, Core => site_blocking s | _, _ => false end.

Definition callback_unbounded_b (ss : list site) : bool :=
  forallb (fun s => if is_callback_site s then site_unbounded s else true) ss
  && existsb (fun s => is_callback_site s && site_unbounded s) ss.

Definition bounded_callback_sites (ss : list site) : list site :=
  filter (fun s => is_callback_site s && negb (site_unbounded s)) ss.

(* The rank claimed for mopidy.  Main is the only thread that waits on frontends (when it
   stops them); nothing ever waits on Main or on a GStreamer thread. *)
Definition mopidy_rank (c : comp) : option nat :=
  match c with
  | Main => Some 5
  | Frontend => Some 4
  | GstThread => Some 4
  | Core => Some 3
  | Backend => Some 2
  | Mixer => Some 2
  | Audio => Some 1
  | Unknown => None
  end.

(* An edge is fine when both ends are ranked and the rank strictly decreases. *)
Definition edge_ok (rank : comp -> option nat) (s : site) : bool :=
  match rank (s_src s), rank (s_dst s) with
  | Some a, Some b => b <? a
  | _, _ => false
  end.

Definition rank_ok_b (es : list site) (rank : comp -> option nat) : bool :=
  forallb (edge_ok rank) es.

Definition bad_edges (es : list site) (rank : comp -> option nat) : list site :=
  filter (fun s => negb (edge_ok rank s)) es.

(* Upward or sideways traffic (rank does not strictly decrease, or an end is unranked)
   must be fire-and-forget. *)
Definition upward (rank : comp -> option nat) (s : site) : bool := negb (edge_ok rank s).

Definition upward_is_tell_b (ss : list site) (rank : comp -> option nat) : bool :=
  forallb (fun s => if upward rank s then negb (site_blocking s) else true) ss.

Definition upward_sites (ss : list site) (rank : comp -> option nat) : list site :=
  filter (upward rank) ss.

Definition edge_in_b (es : list site) (c d : comp) : bool :=
  existsb (fun s => comp_eqb (s_src s) c && comp_eqb (s_dst s) d) es.

(* coverage of the translator: every textual candidate for a blocking call found by an
   independent token scan of the sources, and what the AST pass made of it *)
Inductive disp : Type :=
| DSite (line : Z)          (* emitted as a blocking site starting at this line *)
| DTell                     (* ask(block=False): emitted as a Tell site *)
| DExpanded                 (* inside listener.send: expanded into every XListener.send site *)
| DExempt (why : string)    (* recognised as not blocking, with the reason *)
| DMissing.                 (* the AST pass never looked at it: fail-closed *)

Record cand : Type := mkCand { c_file : string; c_line : Z; c_what : string; c_disp : disp }.

Definition known_exemptions : list string :=
  ["receiver is not a future: Gst.Registry";
   "method of the enclosing object / same-file non-actor class";
   "ActorRegistry.get_all: registry listing"]%string.

Definition cand_accounted (ss : list site) (c : cand) : bool :=
  match c_disp c with
  | DSite l => existsb (fun s => site_blocking s && String.eqb (s_file s) (c_file c) && (s_line s =? l)%Z) ss
  | DTell => true
  | DExpanded => existsb (fun s => site_blocking s && String.eqb (s_what s) "listener.send") ss
  | DExempt why => existsb (String.eqb why) known_exemptions
  | DMissing => false
  end.

Definition candidates_accounted_b (cs : list cand) (ss : list site) : bool :=
  forallb (cand_accounted ss) cs.

Definition unaccounted (cs : list cand) (ss : list site) : list Z :=
  map c_line (filter (fun c => negb (cand_accounted ss c)) cs).

(* compact view used by the harness: the distinct (src,dst) pairs as numbers *)
Definition comp_code (c : comp) : Z :=
  match c with
  | Main => 0 | Frontend => 1 | GstThread => 2 | Core => 3
  | Backend => 4 | Mixer => 5 | Audio => 6 | Unknown => 7
  end%Z.

Definition comp_of_code (z : Z) : comp :=
  (if z =? 0 then Main else if z =? 1 then Frontend else if z =? 2 then GstThread
   else if z =? 3 then Core else if z =? 4 then Backend else if z =? 5 then Mixer
   else if z =? 6 then Audio else Unknown)%Z.

Definition pair_code (s : site) : Z := (comp_code (s_src s) * 8 + comp_code (s_dst s))%Z.

(* observed (waiter, awaited) pairs that are not among the generated edges *)
Definition unexplained (es : list site) (obs : list (Z * Z)) : list Z :=
  map (fun p => (fst p * 8 + snd p)%Z)
      (filter (fun p => negb (edge_in_b es (comp_of_code (fst p)) (comp_of_code (snd p)))) obs).

(* ------------------------------------------------------------------------------------ *)
(* Part 2: abstract actor system                                                          *)

Definition actor := nat.
Definition hid := nat.       (* handler (method) identifier *)

Inductive instr : Type :=
| ITell (t : actor) (h : hid)    (* enqueue a message, continue *)
| ICall (t : actor) (h : hid).   (* enqueue a message, block until the callee returns *)
(* "Ret" is the empty instruction list: the handler returns when its code is exhausted. *)

Record msg : Type := mkMsg { m_h : hid; m_reply : option actor }.

Record frame : Type := mkFrame {
  f_code : list instr;          (* rest of the running handler *)
  f_reply : option actor;       (* caller blocked on this handler, if it was a call *)
  f_wait : option actor         (* Some t: blocked in a call to t *)
}.

Record astate : Type := mkA { a_mbox : list msg; a_frame : option frame }.

Definition cfg := actor -> astate.

Definition init : cfg := fun _ => mkA [] None.

Definition upd (s : cfg) (a : actor) (v : astate) : cfg :=
  fun b => if Nat.eqb b a then v else s b.

Definition push (s : cfg) (t : actor) (m : msg) : cfg :=
  upd s t (mkA (a_mbox (s t) ++ [m]) (a_frame (s t))).

(* the future of a call is resolved: the caller may continue *)
Definition wake (s : cfg) (c : actor) : cfg :=
  match a_frame (s c) with
  | Some f => upd s c (mkA (a_mbox (s c)) (Some (mkFrame (f_code f) (f_reply f) None)))
  | None => s
  end.

(* A schedule is a list of labels: which actor moves, or an external request arriving
   (a client connection, a GStreamer callback, a signal...). *)
Inductive label : Type :=
| LInject (a : actor) (h : hid)   (* environment: a request appears in a's mailbox *)
| LDeliver (a : actor)            (* idle actor a takes the next message and starts its handler *)
| LStep (a : actor).              (* running, non-blocked actor a executes one instruction or returns *)

Section Semantics.
  Variable code_of : actor -> hid -> list instr.   (* the program: arbitrary *)

  Definition step (s : cfg) (l : label) : option cfg :=
    match l with
    | LInject a h => Some (push s a (mkMsg h None))
    | LDeliver a =>
        match a_frame (s a), a_mbox (s a) with
        | None, m :: q =>
            Some (upd s a (mkA q (Some (mkFrame (code_of a (m_h m)) (m_reply m) None))))
        | _, _ => None
        end
    | LStep a =>
        match a_frame (s a) with
        | Some (mkFrame code r None) =>
            match code with
            | ITell t h :: k =>
                Some (push (upd s a (mkA (a_mbox (s a)) (Some (mkFrame k r None)))) t (mkMsg h None))
            | ICall t h :: k =>
                Some (push (upd s a (mkA (a_mbox (s a)) (Some (mkFrame k r (Some t))))) t
                           (mkMsg h (Some a)))
            | [] =>
                let s1 := upd s a (mkA (a_mbox (s a)) None) in
                match r with
                | None => Some s1
                | Some c => Some (wake s1 c)
                end
            end
        | _ => None
        end
    end.

  Fixpoint run (s : cfg) (sched : list label) : option cfg :=
    match sched with
    | [] => Some s
    | l :: rest => match step s l with Some s' => run s' rest | None => None end
    end.

  Definition reachable (s : cfg) : Prop := exists sched, run init sched = Some s.

  (* a is blocked in a call to t *)
  Definition waits (s : cfg) (a t : actor) : Prop :=
    exists f, a_frame (s a) = Some f /\ f_wait f = Some t.

  Definition blocked (s : cfg) (a : actor) : Prop := exists t, waits s a t.

  (* a has something to do: a handler in progress or a message waiting *)
  Definition busy (s : cfg) (a : actor) : Prop :=
    a_frame (s a) <> None \/ a_mbox (s a) <> [].

  (* a can move (its own thread is runnable) *)
  Definition can_move (s : cfg) (a : actor) : Prop :=
    (exists s', step s (LDeliver a) = Some s') \/ (exists s', step s (LStep a) = Some s').

  (* t owes a reply to a: the request is queued at t or being served by t *)
  Definition owes (s : cfg) (t a : actor) : Prop :=
    (exists m, In m (a_mbox (s t)) /\ m_reply m = Some a) \/
    (exists g, a_frame (s t) = Some g /\ f_reply g = Some a).

  Definition deadlocked (s : cfg) : Prop :=
    (exists a, busy s a) /\ forall b, ~ can_move s b.
End Semantics.

(* a chain a -> p1 -> p2 -> ... of blocked callers *)
Fixpoint wait_chain (s : cfg) (a : actor) (p : list actor) : Prop :=
  match p with
  | [] => True
  | b :: q => waits s a b /\ wait_chain s b q
  end.

(* executable probes used in examples *)
Definition frame_wait (s : cfg) (a : actor) : option actor :=
  match a_frame (s a) with Some f => f_wait f | None => None end.

Definition calls_of (code : list instr) : list actor :=
  flat_map (fun i => match i with ICall t _ => [t] | ITell _ _ => [] end) code.
