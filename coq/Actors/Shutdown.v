(* C18, shutdown part: RootCommand.run (mopidy/commands.py) as a sequential program over a
   registry of running actors.

   Model file: definitions only (proofs are in Proofs_Shutdown.v).

   The oracle gives, for every component, what happens when it is started
   (constructor returns / raises a declared error / raises something else / the actor
   dies in on_start / a KeyboardInterrupt arrives while it is being started) and how the
   GLib main loop ends.  pykka is an oracle: `start()` registers the actor before its
   thread runs, an actor dying in on_start unregisters itself, `stop()` (blocking)
   unregisters, `ask` on a dead actor raises ActorDeadError (an Exception). *)
From Coq Require Import ZArith List Bool Arith.
Import ListNotations.

Inductive outcome : Type :=
| OOk      (* constructor and on_start succeed *)
| ODecl    (* constructor raises BackendError / FrontendError / MixerError *)
| OOther   (* constructor raises another Exception *)
| ODies    (* constructor succeeds, the actor dies in on_start *)
| OIntr    (* KeyboardInterrupt raised while the component is being constructed *)
| OLate.   (* the actor is registered and running; a KeyboardInterrupt reaches run() before the
              start_* helper has returned (e.g. while it waits for ping() / Core._setup) *)

Inductive loop_exit : Type :=
| LQuit    (* loop.quit(): SIGTERM handler or a frontend asked to quit *)
| LKbd     (* KeyboardInterrupt (Ctrl-C / process.exit_process) *)
| LExc.    (* any other exception escaping loop.run() *)

Record oracle : Type := mkOracle {
  o_has_mixer : bool;          (* get_mixer_class did not return None *)
  o_mixer : outcome;
  o_audio : outcome;
  o_audio_early : bool;        (* only for o_audio = ODies: the actor was already dead when
                                  start_audio built its proxy (ActorProxy() then raises
                                  ActorDeadError); a race in the real code, so an oracle bit *)
  o_backends : list outcome;
  o_core : outcome;
  o_frontends : list outcome;
  o_loop : loop_exit;
  o_restore : bool             (* config core/restore_state *)
}.

(* actor classes; every backend / frontend class of the registry is a distinct class *)
Inductive cls : Type :=
| CMixer | CAudio | CBackend (i : nat) | CCore | CFrontend (i : nat).

Definition cls_eqb (a b : cls) : bool :=
  match a, b with
  | CMixer, CMixer | CAudio, CAudio | CCore, CCore => true
  | CBackend i, CBackend j => Nat.eqb i j
  | CFrontend i, CFrontend j => Nat.eqb i j
  | _, _ => false
  end.

Inductive ev : Type :=
| EStart (c : cls)     (* actor registered *)
| EDied (c : cls)      (* actor unregistered itself after failing in on_start *)
| EStop (c : cls)      (* actor stopped by one of the stop_* helpers *)
| ERemain (c : cls)    (* actor stopped by process.stop_remaining_actors *)
| ESave                (* Core._teardown saved the state *)
| ELoop.               (* loop.run() entered *)

Record st : Type := mkSt {
  reg : list cls;        (* pykka.ActorRegistry, in registration order *)
  log : list ev;         (* most recent first *)
  v_core : bool          (* the local variable `core` is not None *)
}.

Definition st0 : st := mkSt [] [] false.

Inductive exn : Type := XDecl | XOther | XKbd.

Inductive res (A : Type) : Type := Val (a : A) | Exc (e : exn).
Arguments Val {A} a.
Arguments Exc {A} e.

Definition M (A : Type) : Type := st -> res A * st.

Definition ret {A} (a : A) : M A := fun s => (Val a, s).
Definition raise {A} (e : exn) : M A := fun s => (Exc e, s).
Definition bind {A B} (m : M A) (f : A -> M B) : M B :=
  fun s => match m s with
           | (Val a, s') => f a s'
           | (Exc e, s') => (Exc e, s')
           end.
Notation "m >> k" := (bind m (fun _ => k)) (at level 61, right associativity).

Definition emit (e : ev) : M unit := fun s => (Val tt, mkSt (reg s) (e :: log s) (v_core s)).
Definition register (c : cls) : M unit :=
  fun s => (Val tt, mkSt (reg s ++ [c]) (EStart c :: log s) (v_core s)).
Definition unregister_died (c : cls) : M unit :=
  fun s => (Val tt, mkSt (filter (fun d => negb (cls_eqb d c)) (reg s)) (EDied c :: log s) (v_core s)).
Definition set_core : M unit := fun s => (Val tt, mkSt (reg s) (log s) true).

(* `with _actor_error_handling(name): body` -- every Exception is logged and swallowed;
   KeyboardInterrupt (a BaseException) passes through *)
Definition actor_error_handling (body : M unit) : M unit :=
  fun s => match body s with
           | (Exc XDecl, s') | (Exc XOther, s') => (Val tt, s')
           | r => r
           end.

(* klass.start(...): the constructor runs on the caller's thread, then the actor is
   registered and its thread started *)
Definition start_actor (c : cls) (o : outcome) : M unit :=
  match o with
  | OOk => register c
  | ODecl => raise XDecl
  | OOther => raise XOther
  | ODies => register c >> unregister_died c
  | OIntr => raise XKbd
  | OLate => register c >> raise XKbd
  end.

(* proxy.ping().get() / actor_ref.ask(...): ActorDeadError when the actor died *)
Definition ask_actor (o : outcome) : M unit :=
  match o with ODies => raise XOther | _ => ret tt end.

(* start_mixer: the ActorDeadError of ping() is caught inside; result: mixer or None *)
Definition start_mixer (o : outcome) : M unit :=
  actor_error_handling (start_actor CMixer o >> actor_error_handling (ask_actor o)).

(* Audio.start(...).proxy(): building a proxy of an actor that is already dead raises *)
Definition start_audio (o : outcome) (early : bool) : M unit :=
  start_actor CAudio o >> (if early then ask_actor o else ret tt).

Fixpoint start_each (mk : nat -> cls) (i : nat) (os : list outcome) : M unit :=
  match os with
  | [] => ret tt
  | o :: rest => actor_error_handling (start_actor (mk i) o) >> start_each mk (S i) rest
  end.

(* start_backends: start all, then ping all (dead ones are dropped from the list handed
   to the core; ActorDeadError is caught) *)
Definition start_backends (os : list outcome) : M unit := start_each CBackend 0 os.

Definition start_core (o : outcome) : M unit :=
  start_actor CCore o >> ask_actor o >> set_core.

Definition start_frontends (os : list outcome) : M unit := start_each CFrontend 0 os.

Definition loop_run (l : loop_exit) : M unit :=
  emit ELoop >>
  match l with LQuit => ret tt | LKbd => raise XKbd | LExc => raise XOther end.

(* process.stop_actors_by_class(klass): blocking stop of every registered instance *)
Definition stop_by_class (c : cls) : M unit :=
  fun s =>
    let hit := filter (cls_eqb c) (reg s) in
    (Val tt, mkSt (filter (fun d => negb (cls_eqb c d)) (reg s))
                  (rev (map EStop hit) ++ log s) (v_core s)).

Fixpoint stop_each (mk : nat -> cls) (i n : nat) : M unit :=
  match n with
  | O => ret tt
  | S n' => stop_by_class (mk i) >> stop_each mk (S i) n'
  end.

Definition stop_frontends (n : nat) : M unit := stop_each CFrontend 0 n.

(* stop_core: Core._teardown (which saves the state when restore_state is on) is asked of the
   core proxy, or, when run() was interrupted before start_core returned, of whichever Core
   actor is registered; then the Core actors are stopped *)
Definition stop_core (restore : bool) : M unit :=
  (fun s => if (v_core s || existsb (cls_eqb CCore) (reg s)) && restore
            then emit ESave s else ret tt s) >> stop_by_class CCore.

(* the code before the fix: teardown only through the local variable `core` *)
Definition stop_core_old (restore : bool) : M unit :=
  (fun s => if v_core s && restore then emit ESave s else ret tt s) >> stop_by_class CCore.

Definition stop_backends (n : nat) : M unit := stop_each CBackend 0 n.
Definition stop_audio : M unit := stop_by_class CAudio.
Definition stop_mixer : M unit := stop_by_class CMixer.

(* process.stop_remaining_actors: ActorRegistry.stop_all() while anything is registered *)
Definition stop_remaining : M unit :=
  fun s => (Val tt, mkSt [] (rev (map ERemain (reg s)) ++ log s) (v_core s)).

(* stop_remaining_actors in the presence of leftovers that are not registered component
   classes and may respawn while they are being stopped (per-connection helper actors):
   [left] actors are registered, at most [budget] respawns can still happen; one pass of
   ActorRegistry.stop_all() stops every registered actor, each of which may respawn one *)
Definition sweep_pass (left budget : nat) : nat * nat :=
  (Nat.min left budget, budget - Nat.min left budget).

(* `while num_actors:` *)
Fixpoint sweep_while (fuel left budget : nat) : nat :=
  match fuel with
  | O => left
  | S f => if Nat.eqb left 0 then 0
           else let '(l, b) := sweep_pass left budget in sweep_while f l b
  end.

(* a single `if num_actors:` pass *)
Definition sweep_once (left budget : nat) : nat :=
  if Nat.eqb left 0 then 0 else fst (sweep_pass left budget).

Definition try_body (o : oracle) : M unit :=
  (if o_has_mixer o then start_mixer (o_mixer o) else ret tt) >>
  start_audio (o_audio o) (o_audio_early o) >>
  start_backends (o_backends o) >>
  start_core (o_core o) >>
  start_frontends (o_frontends o) >>
  loop_run (o_loop o).

Definition finally_block (o : oracle) : M unit :=
  stop_frontends (length (o_frontends o)) >>
  stop_core (o_restore o) >>
  stop_backends (length (o_backends o)) >>
  stop_audio >>
  (if o_has_mixer o then stop_mixer else ret tt) >>
  stop_remaining.

Definition finally_block_old (o : oracle) : M unit :=
  stop_frontends (length (o_frontends o)) >>
  stop_core_old (o_restore o) >>
  stop_backends (length (o_backends o)) >>
  stop_audio >>
  (if o_has_mixer o then stop_mixer else ret tt) >>
  stop_remaining.

(* RootCommand.run: (exit status or escaping exception, final state) *)
Definition run_with (fin : oracle -> M unit) (o : oracle) : res Z * st :=
  let '(r, s1) := try_body o st0 in
  let status : Z := match r with Exc XDecl => 1%Z | _ => 0%Z end in
  match fin o s1 with
  | (Val _, s2) => (Val status, s2)
  | (Exc e, s2) => (Exc e, s2)
  end.

Definition run_command (o : oracle) : res Z * st := run_with finally_block o.
Definition run_command_old (o : oracle) : res Z * st := run_with finally_block_old o.

(* ------------------------------------------------------------------------------------ *)
(* observations                                                                           *)

Definition events (s : st) : list ev := rev (log s).

Definition stops_of (l : list ev) : list cls :=
  flat_map (fun e => match e with EStop c => [c] | ERemain c => [c] | _ => [] end) l.
Definition remains_of (l : list ev) : list cls :=
  flat_map (fun e => match e with ERemain c => [c] | _ => [] end) l.
Definition starts_of (l : list ev) : list cls :=
  flat_map (fun e => match e with EStart c => [c] | _ => [] end) l.
Definition died_of (l : list ev) : list cls :=
  flat_map (fun e => match e with EDied c => [c] | _ => [] end) l.
(* occurrences of class c *)
Definition cntc (c : cls) (l : list cls) : nat := length (filter (cls_eqb c) l).
Definition saves_of (l : list ev) : nat :=
  length (filter (fun e => match e with ESave => true | _ => false end) l).

(* stop phase of a class: frontends, core, backends, audio, mixer *)
Definition phase (c : cls) : nat :=
  match c with
  | CFrontend _ => 0 | CCore => 1 | CBackend _ => 2 | CAudio => 3 | CMixer => 4
  end.

Fixpoint sorted_b (l : list nat) : bool :=
  match l with
  | a :: ((b :: _) as t) => (a <=? b) && sorted_b t
  | _ => true
  end.

Definition stop_order_ok_b (stops : list cls) : bool := sorted_b (map phase stops).

(* numeric codes shared with the harness *)
Definition cls_code (c : cls) : Z :=
  match c with
  | CMixer => 1 | CAudio => 2 | CCore => 3
  | CBackend i => 100 + Z.of_nat i
  | CFrontend i => 200 + Z.of_nat i
  end%Z.

Definition cls_of_code (z : Z) : cls :=
  (if z =? 1 then CMixer else if z =? 2 then CAudio else if z =? 3 then CCore
   else if z <? 200 then CBackend (Z.to_nat (z - 100)) else CFrontend (Z.to_nat (z - 200)))%Z.

Definition outcome_of_code (z : Z) : outcome :=
  (if z =? 0 then OOk else if z =? 1 then ODecl else if z =? 2 then OOther
   else if z =? 3 then ODies else if z =? 4 then OIntr else OLate)%Z.

Definition loop_of_code (z : Z) : loop_exit :=
  (if z =? 0 then LQuit else if z =? 1 then LKbd else LExc)%Z.

(* what the harness observes of one execution of the real RootCommand.run *)
Record obs : Type := mkObs {
  ob_status : Z;             (* returned exit status; -1: an exception escaped run() *)
  ob_stops : list Z;         (* class codes in the order the actors stopped *)
  ob_saves : Z;              (* completed state saves *)
  ob_left : Z;               (* actors still registered after run() returned *)
  ob_starts : list Z;        (* class codes in the order the actors were registered *)
  ob_died : list Z           (* class codes of the actors that died in on_start (any order) *)
}.

Definition model_obs (o : oracle) : obs :=
  let '(r, s) := run_command o in
  mkObs (match r with Val z => z | Exc _ => (-1)%Z end)
        (map cls_code (stops_of (events s)))
        (Z.of_nat (saves_of (events s)))
        (Z.of_nat (length (reg s)))
        (map cls_code (starts_of (events s)))
        (map cls_code (died_of (events s))).

Fixpoint zlist_eqb (a b : list Z) : bool :=
  match a, b with
  | [], [] => true
  | x :: a', y :: b' => (x =? y)%Z && zlist_eqb a' b'
  | _, _ => false
  end.

Definition zcount (x : Z) (l : list Z) : nat := length (filter (Z.eqb x) l).
Definition zlist_perm_b (a b : list Z) : bool :=
  forallb (fun x => Nat.eqb (zcount x a) (zcount x b)) (a ++ b).

Definition obs_eqb (a b : obs) : bool :=
  (ob_status a =? ob_status b)%Z && zlist_eqb (ob_stops a) (ob_stops b)
  && (ob_saves a =? ob_saves b)%Z && (ob_left a =? ob_left b)%Z
  && zlist_eqb (ob_starts a) (ob_starts b) && zlist_perm_b (ob_died a) (ob_died b).

(* monitor: every registration is matched by a death in on_start or a stop, nothing twice *)
Definition balance_ok_b (b : obs) : bool :=
  forallb (fun x => Nat.eqb (zcount x (ob_starts b)) (zcount x (ob_died b) + zcount x (ob_stops b))
                    && (zcount x (ob_stops b) <=? 1))
          (ob_starts b ++ ob_died b ++ ob_stops b).

(* specification-side characterisations used by the theorems (no reference to the run) *)
Definition is_intr (o : outcome) : bool := match o with OIntr | OLate => true | _ => false end.
(* the actor is registered and alive afterwards *)
Definition is_up (o : outcome) : bool := match o with OOk | OLate => true | _ => false end.
Definition is_ok (o : outcome) : bool := match o with OOk => true | _ => false end.
Definition escapes (o : outcome) : bool :=   (* outside _actor_error_handling *)
  match o with ODecl | OOther | OIntr | OLate => true | _ => false end.

Definition audio_escapes (o : oracle) : bool :=
  match o_audio o with ODies => o_audio_early o | x => escapes x end.

(* the start-up reaches start_core *)
Definition reaches_core (o : oracle) : bool :=
  negb (o_has_mixer o && is_intr (o_mixer o)) && negb (audio_escapes o)
  && negb (existsb is_intr (o_backends o)).

(* run() got hold of the core proxy (its local variable `core` is assigned) *)
Definition core_started (o : oracle) : bool := reaches_core o && is_ok (o_core o).
(* the core actor is running when the finally block is entered *)
Definition core_running (o : oracle) : bool := reaches_core o && is_up (o_core o).

(* components of a start loop that end up running: those before the first interrupt
   whose outcome is OOk *)
Fixpoint alive_from (mk : nat -> cls) (i : nat) (os : list outcome) : list cls :=
  match os with
  | [] => []
  | OIntr :: _ => []
  | OLate :: _ => [mk i]
  | OOk :: rest => mk i :: alive_from mk (S i) rest
  | _ :: rest => alive_from mk (S i) rest
  end.

Definition mixer_alive (o : oracle) : list cls :=
  if o_has_mixer o && is_up (o_mixer o) then [CMixer] else [].
Definition audio_alive (o : oracle) : list cls :=
  if negb (o_has_mixer o && is_intr (o_mixer o)) && is_up (o_audio o) then [CAudio] else [].
Definition backends_alive (o : oracle) : list cls :=
  if negb (o_has_mixer o && is_intr (o_mixer o)) && negb (audio_escapes o)
  then alive_from CBackend 0 (o_backends o) else [].
Definition core_alive (o : oracle) : list cls := if core_running o then [CCore] else [].
Definition frontends_alive (o : oracle) : list cls :=
  if core_started o then alive_from CFrontend 0 (o_frontends o) else [].

(* closed form of the stop sequence *)
Definition expected_stops (o : oracle) : list cls :=
  frontends_alive o ++ core_alive o ++ backends_alive o ++ audio_alive o ++ mixer_alive o.

Definition expected_status (o : oracle) : Z :=
  if negb (o_has_mixer o && is_intr (o_mixer o)) &&
     (match o_audio o with ODecl => true | _ => false end
      || (reaches_core o && match o_core o with ODecl => true | _ => false end))
  then 1%Z else 0%Z.

(* monitor: the property predicate on an observation (real or modelled) *)
Definition monitor_core_b (o : oracle) (status : Z) (stops : list cls) (saves left : Z) : bool :=
  stop_order_ok_b stops
  && (saves =? (if o_restore o && core_running o then 1 else 0))%Z
  && (left =? 0)%Z
  && ((status =? 0) || (status =? 1))%Z.

Definition monitor_ok_b (o : oracle) (b : obs) : bool :=
  monitor_core_b o (ob_status b) (map cls_of_code (ob_stops b)) (ob_saves b) (ob_left b)
  && balance_ok_b b.
