(* C18 property theorems.  Nothing but statements, `exact`, and Print Assumptions. *)
From Coq Require Import ZArith List Bool String Arith Relations.
From Actors Require Import WaitFor Edges_gen Proofs_WaitFor Proofs_Edges Shutdown Proofs_Shutdown.
From Actors Require Import Dispatch Proofs_Dispatch.
Import ListNotations.

(* T1: in an actor system whose blocking calls all follow edges along which a rank
   strictly decreases, every configuration reachable under every schedule has an acyclic
   wait-for relation, and whenever any actor has work some actor at the end of its
   wait-for chain can move: no deadlock. *)
Theorem C18_ranked_no_cycle :
  forall (edges : list site) (rank : comp -> option nat)
         (comp_of : actor -> comp) (code_of : actor -> hid -> list instr),
    rank_ok_b edges rank = true ->
    (forall a h t h', In (ICall t h') (code_of a h) ->
                      edge_in_b edges (comp_of a) (comp_of t) = true) ->
    forall sched s, run code_of init sched = Some s ->
      (forall a, ~ clos_trans actor (waits s) a a) /\
      (forall a, busy s a ->
                 exists b, can_move code_of s b /\ clos_refl_trans actor (waits s) a b) /\
      ~ deadlocked code_of s.
Proof. exact ranked_no_cycle_lemma. Qed.
Print Assumptions C18_ranked_no_cycle.

(* T2: the blocking sites generated from the mopidy sources are ranked
   Main > Frontend, GstThread > Core > Backend, Mixer > Audio (finite check over
   Edges_gen.edges; Unknown has no rank). *)
Theorem C18_mopidy_edges_ranked : rank_ok_b Edges_gen.edges mopidy_rank = true.
Proof. exact mopidy_edges_ranked_lemma. Qed.
Print Assumptions C18_mopidy_edges_ranked.

(* coverage of T2: no `.get()` / `.get(timeout=)` / `.ask(` / `get_all(` / `.join()` / `.wait()` /
   `.result()` / `.acquire()` in the sources is outside the translated set *)
Theorem C18_candidates_accounted : candidates_accounted_b Edges_gen.candidates Edges_gen.sites = true.
Proof. exact mopidy_candidates_accounted_lemma. Qed.
Print Assumptions C18_candidates_accounted.

(* T3: all upward / sideways traffic found in the sources is Tell, such traffic exists, and a
   Tell never blocks its sender. *)
Theorem C18_upward_is_tell : upward_is_tell_b Edges_gen.sites mopidy_rank = true.
Proof. exact mopidy_upward_is_tell_lemma. Qed.
Print Assumptions C18_upward_is_tell.

Theorem C18_upward_traffic_exists :
  existsb (fun s => upward mopidy_rank s && comp_eqb (s_src s) Core && comp_eqb (s_dst s) Frontend) sites = true /\
  existsb (fun s => upward mopidy_rank s && comp_eqb (s_src s) Audio && comp_eqb (s_dst s) Mixer) sites = true /\
  existsb (fun s => upward mopidy_rank s && comp_eqb (s_src s) Mixer && comp_eqb (s_dst s) Core) sites = true.
Proof. exact mopidy_upward_exists_lemma. Qed.
Print Assumptions C18_upward_traffic_exists.

Theorem C18_tell_never_blocks :
  forall (code_of : actor -> hid -> list instr) (s : cfg) a t h k r,
    a_frame (s a) = Some (mkFrame (ITell t h :: k) r None) ->
    exists s', step code_of s (LStep a) = Some s' /\ frame_wait s' a = None.
Proof. exact tell_never_blocks_lemma. Qed.
Print Assumptions C18_tell_never_blocks.

Theorem C18_audio_never_waits :
  forallb (fun s => negb (comp_eqb (s_src s) Audio)) edges = true /\
  forallb (fun s => negb (comp_eqb (s_dst s) Main || comp_eqb (s_dst s) GstThread)) edges = true.
Proof. exact mopidy_audio_never_waits_lemma. Qed.
Print Assumptions C18_audio_never_waits.

(* T1 + T2: any program whose calls stay within the generated edges cannot deadlock. *)
Theorem C18_mopidy_no_deadlock :
  forall (comp_of : actor -> comp) (code_of : actor -> hid -> list instr),
    (forall a h t h', In (ICall t h') (code_of a h) ->
                      edge_in_b Edges_gen.edges (comp_of a) (comp_of t) = true) ->
    forall sched s, run code_of init sched = Some s ->
      (forall a, ~ clos_trans actor (waits s) a a) /\
      (forall a, busy s a ->
                 exists b, can_move code_of s b /\ clos_refl_trans actor (waits s) a b) /\
      ~ deadlocked code_of s.
Proof. exact mopidy_no_deadlock_lemma. Qed.
Print Assumptions C18_mopidy_no_deadlock.

(* chains of blocked callers are short: at most 4 links in mopidy *)
Theorem C18_wait_chain_bounded :
  forall (comp_of : actor -> comp) (code_of : actor -> hid -> list instr),
    (forall a h t h', In (ICall t h') (code_of a h) ->
                      edge_in_b Edges_gen.edges (comp_of a) (comp_of t) = true) ->
    forall sched s, run code_of init sched = Some s ->
    forall a p, wait_chain s a p -> List.length p <= 4.
Proof. exact mopidy_wait_chain_bounded_lemma. Qed.
Print Assumptions C18_wait_chain_bounded.

(* the end-of-track callback is served by the core's own thread while the caller blocks:
   the translated GstThread -> Core call site waits without any timeout (finite check on the
   generated sites), and in the model such a call keeps the caller blocked until the core's
   own thread has run the handler to completion *)
Theorem C18_callback_edge_unbounded : callback_unbounded_b Edges_gen.sites = true.
Proof. exact mopidy_callback_unbounded_lemma. Qed.
Print Assumptions C18_callback_edge_unbounded.

Theorem C18_callback_served_by_core :
  callback_unbounded_b Edges_gen.sites = true /\
  forall (comp_of : actor -> comp) (code_of : actor -> hid -> list instr),
    (forall a h t h', In (ICall t h') (code_of a h) ->
                      edge_in_b Edges_gen.edges (comp_of a) (comp_of t) = true) ->
    forall sched s, run code_of init sched = Some s ->
    forall g c, comp_of g = GstThread -> comp_of c = Core -> waits s g c ->
      owes s c g /\ ~ can_move code_of s g /\
      (forall l s', step code_of s l = Some s' -> ~ waits s' g c ->
                    l = LStep c /\
                    exists fr, a_frame (s c) = Some fr /\ f_reply fr = Some g /\ f_code fr = []).
Proof. exact mopidy_callback_served_by_core_lemma. Qed.
Print Assumptions C18_callback_served_by_core.

(* non-vacuity and sanity of the wait-for theorems *)
Theorem C18_example_code_within_edges :
  forall a h t h', In (ICall t h') (ex_code a h) -> edge_in_b edges (ex_comp a) (ex_comp t) = true.
Proof. exact ex_code_ok. Qed.
Print Assumptions C18_example_code_within_edges.

Theorem C18_example_blocked_chain :
  exists s, run ex_code init ex_sched = Some s /\
            waits s 5 1 /\ waits s 1 2 /\ waits s 2 3 /\
            ~ can_move ex_code s 5 /\ ~ can_move ex_code s 1 /\ ~ can_move ex_code s 2 /\
            can_move ex_code s 3.
Proof. exact ex_blocked_chain. Qed.
Print Assumptions C18_example_blocked_chain.

Theorem C18_cyclic_calls_do_deadlock :
  exists s, run bad_code init bad_sched = Some s /\ deadlocked bad_code s /\
            clos_trans actor (waits s) 1 1.
Proof. exact cyclic_calls_deadlock. Qed.
Print Assumptions C18_cyclic_calls_do_deadlock.

(* listener.send dispatch (upward notifications): without the stop-during-send race every send
   returns and each listener ends exactly as it would on its own, whatever the others do *)
Theorem C18_dispatch_isolation :
  forall evs ls, no_race ls ->
    fst (send_all ls evs) = map (fun _ => SOk) evs /\
    snd (send_all ls evs) = map (fun p => (fst p, alone (fst p) (snd p) evs)) ls.
Proof. exact dispatch_isolation_lemma. Qed.
Print Assumptions C18_dispatch_isolation.

(* a listener with the default on_event never dies; it handles exactly the events whose handler
   works, in order, and catches unknown events, wrong arguments and raising handlers *)
Theorem C18_default_listener_robust :
  forall l evs st, l_custom l = false -> ls_alive st = true ->
    let st' := alone l st evs in
    ls_alive st' = true /\
    ls_handled st' = ls_handled st ++ filter (fun e => match l_beh l e with HOk => true | _ => false end) evs /\
    ls_caught st' = ls_caught st ++ filter (fun e => match l_beh l e with HOk => false | _ => true end) evs.
Proof. exact default_listener_robust_lemma. Qed.
Print Assumptions C18_default_listener_robust.

(* any listener handles, in order, the working events of a prefix of what was sent: all of it
   if it is still alive, up to the first failing event if it overrides on_event and died *)
Theorem C18_handled_in_order :
  forall l evs st, ls_alive st = true ->
    exists k, k <= List.length evs /\
      ls_handled (alone l st evs) = ls_handled st ++ filter (ok_ev l) (firstn k evs) /\
      (ls_alive (alone l st evs) = true -> k = List.length evs) /\
      (ls_alive (alone l st evs) = false -> l_custom l = true /\ k < List.length evs /\ ok_ev l (nth k evs 0) = false).
Proof. exact handled_in_order_lemma. Qed.
Print Assumptions C18_handled_in_order.

(* with the race (an actor stopping between the registry lookup and its tell) send raises in the
   sender and the listeners after it miss the event: isolation does not hold unconditionally *)
Theorem C18_dispatch_race_loses_event :
  fst (send_all racy_system [0; 1; 2]) = [SOk; SActorDead; SOk] /\
  map (fun p => ls_handled (snd p)) (snd (send_all racy_system [0; 1; 2])) = [[0]; [0; 2]].
Proof. exact race_loses_event_lemma. Qed.
Print Assumptions C18_dispatch_race_loses_event.

(* T4: for every start-up outcome assignment and main-loop exit, the actors that are running
   are stopped in the order frontends, core, backends, audio, mixer, and
   stop_remaining_actors finds nothing left. *)
Theorem C18_stop_order :
  forall o, exists z s,
      run_command o = (Val z, s) /\
      stops_of (events s) =
        frontends_alive o ++ core_alive o ++ backends_alive o ++ audio_alive o ++ mixer_alive o /\
      stop_order_ok_b (stops_of (events s)) = true /\
      remains_of (events s) = [].
Proof. exact stop_order_lemma. Qed.
Print Assumptions C18_stop_order.

(* every actor that is running when the finally block is entered is stopped exactly once *)
Theorem C18_stopped_exactly_once :
  forall o, exists z s,
      run_command o = (Val z, s) /\ NoDup (stops_of (events s)) /\
      (forall c, In c (stops_of (events s)) <->
                 In c (frontends_alive o ++ core_alive o ++ backends_alive o ++ audio_alive o ++ mixer_alive o)).
Proof. exact stopped_exactly_once_lemma. Qed.
Print Assumptions C18_stopped_exactly_once.

(* start/stop bookkeeping: every registration is matched by exactly one death in on_start or
   one ordered stop; nothing is stopped twice; stop_remaining_actors has nothing to do *)
Theorem C18_started_balance :
  forall o, exists z s,
      run_command o = (Val z, s) /\
      (forall c, cntc c (starts_of (events s)) =
                 cntc c (died_of (events s)) + cntc c (stops_of (events s))) /\
      (forall c, cntc c (stops_of (events s)) <= 1) /\
      remains_of (events s) = [].
Proof. exact started_balance_lemma. Qed.
Print Assumptions C18_started_balance.

(* T5: the state is saved exactly once iff restore_state is enabled and the core started;
   the save happens after all frontends stopped and before core, backends, audio, mixer. *)
Theorem C18_state_saved_once :
  forall o, exists z s before after,
      run_command o = (Val z, s) /\
      saves_of (events s) = (if o_restore o && core_running o then 1 else 0) /\
      (o_restore o && core_running o = true ->
       events s = before ++ ESave :: after /\
       stops_of before = frontends_alive o /\ saves_of before = 0 /\
       after = map EStop ([CCore] ++ backends_alive o ++ audio_alive o ++ mixer_alive o)).
Proof. exact state_saved_once_lemma. Qed.
Print Assumptions C18_state_saved_once.

(* T5 at full strength (the state is saved exactly once iff enabled and a core actor is running
   at shutdown), for the fixed stop_core; the code before the fix violated it when the
   interrupt arrived while run() was still waiting for Core._setup. *)
Theorem C18_state_saved_iff_core_running : saved_iff_core_running run_command.
Proof. exact new_code_saved_iff_core_running_lemma. Qed.
Print Assumptions C18_state_saved_iff_core_running.

Theorem C18_old_stop_core_refuted : ~ saved_iff_core_running run_command_old.
Proof. exact old_code_refuted_lemma. Qed.
Print Assumptions C18_old_stop_core_refuted.

Theorem C18_old_stop_core_loses_state :
  o_restore late_core_oracle = true /\ core_running late_core_oracle = true /\
  In CCore (stops_of (events (snd (run_command_old late_core_oracle)))) /\
  saves_of (events (snd (run_command_old late_core_oracle))) = 0.
Proof. exact old_code_loses_state_lemma. Qed.
Print Assumptions C18_old_stop_core_loses_state.

(* T6: run returns an exit status (0 or 1, given in closed form) with an empty registry. *)
Theorem C18_clean_exit :
  forall o, exists s,
      run_command o = (Val (expected_status o), s) /\
      reg s = [] /\
      remains_of (events s) = [] /\
      (expected_status o = 0 \/ expected_status o = 1)%Z.
Proof. exact clean_exit_lemma. Qed.
Print Assumptions C18_clean_exit.

(* stop_remaining_actors: with leftover actors that respawn while being stopped (finitely often)
   the `while` loop leaves nothing registered; a single pass would *)
Theorem C18_stop_remaining_loop_empties : forall left budget, sweep_while (S budget) left budget = 0.
Proof. exact sweep_while_empties_lemma. Qed.
Print Assumptions C18_stop_remaining_loop_empties.

Theorem C18_stop_remaining_single_pass_refuted :
  forall left budget, 0 < left -> 0 < budget -> 0 < sweep_once left budget.
Proof. exact sweep_once_leaves_lemma. Qed.
Print Assumptions C18_stop_remaining_single_pass_refuted.

(* the monitor evaluated on real executions is a theorem about the model *)
Theorem C18_model_passes_monitor :
  forall o, exists z s,
      run_command o = (Val z, s) /\
      monitor_core_b o z (stops_of (events s)) (Z.of_nat (saves_of (events s)))
                     (Z.of_nat (List.length (reg s))) = true.
Proof. exact model_passes_monitor_lemma. Qed.
Print Assumptions C18_model_passes_monitor.
