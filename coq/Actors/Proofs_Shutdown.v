(* C18, shutdown part: proofs about the model of RootCommand.run in Shutdown.v. *)
From Coq Require Import ZArith List Bool Arith Lia.
From Actors Require Import Shutdown.
Import ListNotations.

(* ------------------------------------------------------------------------------------ *)
(* small list facts                                                                       *)

Lemma filter_none {A} (f : A -> bool) l : (forall d, In d l -> f d = false) -> filter f l = [].
Proof.
  induction l as [|a l IH]; cbn; intros H; [reflexivity|].
  rewrite (H a (or_introl eq_refl)). apply IH. intros d Hd. apply H. now right.
Qed.

Lemma filter_all {A} (f : A -> bool) l : (forall d, In d l -> f d = true) -> filter f l = l.
Proof.
  induction l as [|a l IH]; cbn; intros H; [reflexivity|].
  rewrite (H a (or_introl eq_refl)). f_equal. apply IH. intros d Hd. apply H. now right.
Qed.

Lemma stops_of_app l1 l2 : stops_of (l1 ++ l2) = stops_of l1 ++ stops_of l2.
Proof. unfold stops_of. apply flat_map_app. Qed.

Lemma remains_of_app l1 l2 : remains_of (l1 ++ l2) = remains_of l1 ++ remains_of l2.
Proof. unfold remains_of. apply flat_map_app. Qed.

Lemma saves_of_app l1 l2 : saves_of (l1 ++ l2) = saves_of l1 + saves_of l2.
Proof. unfold saves_of. now rewrite filter_app, app_length. Qed.

Lemma stops_of_map_stop l : stops_of (map EStop l) = l.
Proof. induction l as [|c l IH]; cbn; [reflexivity|]. now f_equal. Qed.

Lemma remains_of_map_stop l : remains_of (map EStop l) = [].
Proof. induction l as [|c l IH]; cbn; [reflexivity|assumption]. Qed.

Lemma saves_of_map_stop l : saves_of (map EStop l) = 0.
Proof. induction l as [|c l IH]; cbn; [reflexivity|assumption]. Qed.

Lemma starts_of_app l1 l2 : starts_of (l1 ++ l2) = starts_of l1 ++ starts_of l2.
Proof. unfold starts_of. apply flat_map_app. Qed.
Lemma died_of_app l1 l2 : died_of (l1 ++ l2) = died_of l1 ++ died_of l2.
Proof. unfold died_of. apply flat_map_app. Qed.
Lemma cntc_app c l1 l2 : cntc c (l1 ++ l2) = cntc c l1 + cntc c l2.
Proof. unfold cntc. now rewrite filter_app, app_length. Qed.
Lemma starts_of_map_stop l : starts_of (map EStop l) = [].
Proof. induction l; cbn; auto. Qed.
Lemma died_of_map_stop l : died_of (map EStop l) = [].
Proof. induction l; cbn; auto. Qed.

Lemma cntc_starts_rev c l : cntc c (starts_of (rev l)) = cntc c (starts_of l).
Proof.
  induction l as [|e l IH]; [reflexivity|]. cbn [rev].
  change (e :: l) with ([e] ++ l). rewrite !starts_of_app, !cntc_app, IH. lia.
Qed.
Lemma cntc_died_rev c l : cntc c (died_of (rev l)) = cntc c (died_of l).
Proof.
  induction l as [|e l IH]; [reflexivity|]. cbn [rev].
  change (e :: l) with ([e] ++ l). rewrite !died_of_app, !cntc_app, IH. lia.
Qed.

(* what a piece of the log contributes to the balance "registered + died = started" *)
Definition log_bal (c : cls) (added : list cls) (l : list ev) : Prop :=
  cntc c added + cntc c (died_of l) = cntc c (starts_of l).

Lemma log_bal_app c a1 a2 l1 l2 : log_bal c a1 l1 -> log_bal c a2 l2 -> log_bal c (a1 ++ a2) (l2 ++ l1).
Proof. unfold log_bal. rewrite died_of_app, starts_of_app, !cntc_app. lia. Qed.

(* log entries written while starting: no stop, no save *)
Definition quiet_ev (e : ev) : bool :=
  match e with EStart _ | EDied _ | ELoop => true | _ => false end.

Lemma quiet_stops l : forallb quiet_ev l = true -> stops_of l = [].
Proof.
  induction l as [|e l IH]; cbn; [reflexivity|]. intros H. apply andb_prop in H as [He Hl].
  destruct e; cbn in *; try discriminate; auto.
Qed.

Lemma quiet_saves l : forallb quiet_ev l = true -> saves_of l = 0.
Proof.
  induction l as [|e l IH]; cbn; [reflexivity|]. intros H. apply andb_prop in H as [He Hl].
  destruct e; cbn in *; try discriminate; auto.
Qed.

Lemma forallb_rev {A} (f : A -> bool) l : forallb f (rev l) = forallb f l.
Proof.
  induction l as [|a l IH]; cbn; [reflexivity|].
  rewrite forallb_app, IH. cbn. rewrite andb_true_r. apply andb_comm.
Qed.

Lemma cls_eqb_refl c : cls_eqb c c = true.
Proof. destruct c; cbn; try reflexivity; apply Nat.eqb_refl. Qed.

Lemma cls_eqb_sym a b : cls_eqb a b = cls_eqb b a.
Proof. destruct a, b; cbn; try reflexivity; apply Nat.eqb_sym. Qed.

(* ------------------------------------------------------------------------------------ *)
(* the two start loops and the two stop loops, for a generic class family [mk]            *)

Section Family.
  Variable mk : nat -> cls.
  Hypothesis mk_eqb : forall i j, cls_eqb (mk i) (mk j) = Nat.eqb i j.

  (* d is not a member of the family *)
  Definition foreign (d : cls) : Prop := forall j, cls_eqb (mk j) d = false.

  Fixpoint start_log (i : nat) (os : list outcome) : list ev :=
    match os with
    | [] => []
    | OIntr :: _ => []
    | OLate :: _ => [EStart (mk i)]
    | OOk :: rest => start_log (S i) rest ++ [EStart (mk i)]
    | ODies :: rest => start_log (S i) rest ++ [EDied (mk i); EStart (mk i)]
    | _ :: rest => start_log (S i) rest
    end.

  Lemma start_log_quiet i os : forallb quiet_ev (start_log i os) = true.
  Proof.
    revert i. induction os as [|o os IH]; intros i; [reflexivity|].
    destruct o; cbn; try apply IH; try reflexivity; rewrite forallb_app, IH; reflexivity.
  Qed.

  Lemma start_log_bal c os : forall i, log_bal c (alive_from mk i os) (start_log i os).
  Proof.
    induction os as [|o os IH]; intros i; [reflexivity|].
    specialize (IH (S i)). unfold log_bal in *.
    destruct o; cbn [alive_from start_log]; rewrite ?died_of_app, ?starts_of_app, ?cntc_app; cbn;
      try exact IH; try (unfold cntc in *; cbn; destruct (cls_eqb c (mk i)); cbn; lia); reflexivity.
  Qed.

  Lemma alive_from_index i os c :
    In c (alive_from mk i os) -> exists j, c = mk j /\ i <= j.
  Proof.
    revert i. induction os as [|o os IH]; intros i; cbn; [tauto|].
    destruct o; cbn; try (intros H; destruct (IH _ H) as (j & -> & Hj); exists j; split; [reflexivity|lia]);
      try tauto.
    - intros [<-|H]; [exists i; split; [reflexivity|lia]|].
      destruct (IH _ H) as (j & -> & Hj). exists j. split; [reflexivity|lia].
    - intros [<-|[]]. exists i. split; [reflexivity|lia].
  Qed.

  Definition fresh_from (i : nat) (l : list cls) : Prop :=
    forall d j, In d l -> i <= j -> cls_eqb d (mk j) = false.

  Lemma start_each_spec os : forall i s,
      fresh_from i (reg s) ->
      start_each mk i os s =
      (if existsb is_intr os then Exc XKbd else Val tt,
       mkSt (reg s ++ alive_from mk i os) (start_log i os ++ log s) (v_core s)).
  Proof.
    induction os as [|o os IH]; intros i [r l v] Hf; cbn.
    - now rewrite app_nil_r.
    - assert (Hf' : forall extra, (forall d, In d extra -> d = mk i) ->
                                  fresh_from (S i) (r ++ extra)).
      { intros extra He d j Hin Hj. apply in_app_or in Hin as [Hin|Hin].
        - apply Hf; [assumption|lia].
        - rewrite (He d Hin), mk_eqb. apply Nat.eqb_neq. lia. }
      destruct o; cbn.
      + (* OOk *)
        unfold bind, actor_error_handling, register. cbn.
        rewrite IH by (apply Hf'; cbn; intros d [<-|[]]; reflexivity). cbn.
        now rewrite <- !app_assoc.
      + unfold bind, actor_error_handling, raise. cbn. rewrite IH by (cbn in *; intros d j Hd Hj; apply Hf; [assumption|lia]).
        reflexivity.
      + unfold bind, actor_error_handling, raise. cbn. rewrite IH by (cbn in *; intros d j Hd Hj; apply Hf; [assumption|lia]).
        reflexivity.
      + (* ODies: registered, then unregisters itself *)
        unfold bind, actor_error_handling, register, unregister_died. cbn.
        assert (Hflt : filter (fun d => negb (cls_eqb d (mk i))) (r ++ [mk i]) = r).
        { rewrite filter_app. cbn. rewrite cls_eqb_refl. cbn. rewrite app_nil_r.
          apply filter_all. intros d Hd. cbn in Hf. rewrite (Hf d i Hd (le_n i)). reflexivity. }
        rewrite Hflt.
        rewrite IH by (cbn in *; intros d j Hd Hj; apply Hf; [assumption|lia]). cbn.
        now rewrite <- !app_assoc.
      + (* OIntr *)
        unfold bind, actor_error_handling, raise. cbn. now rewrite app_nil_r.
      + (* OLate: registered, then the interrupt *)
        unfold bind, actor_error_handling, register, raise. cbn. reflexivity.
  Qed.

  (* stop loop: what it stops and what it leaves *)
  Fixpoint hits (i n : nat) (r : list cls) : list cls :=
    match n with
    | O => []
    | S n' => filter (cls_eqb (mk i)) r
              ++ hits (S i) n' (filter (fun d => negb (cls_eqb (mk i) d)) r)
    end.

  Fixpoint rest (i n : nat) (r : list cls) : list cls :=
    match n with
    | O => r
    | S n' => rest (S i) n' (filter (fun d => negb (cls_eqb (mk i) d)) r)
    end.

  Lemma stop_each_spec n : forall i s,
      stop_each mk i n s =
      (Val tt, mkSt (rest i n (reg s)) (rev (map EStop (hits i n (reg s))) ++ log s) (v_core s)).
  Proof.
    induction n as [|n IH]; intros i [r l v]; cbn; [reflexivity|].
    unfold bind, stop_by_class. cbn. rewrite IH. cbn.
    rewrite map_app, rev_app_distr, <- app_assoc. reflexivity.
  Qed.

  Lemma hits_foreign n : forall i r, (forall d, In d r -> foreign d) ->
                                     hits i n r = [] /\ rest i n r = r.
  Proof.
    induction n as [|n IH]; intros i r Hr; cbn; [auto|].
    assert (H0 : filter (cls_eqb (mk i)) r = []) by (apply filter_none; intros d Hd; apply Hr; assumption).
    assert (H1 : filter (fun d => negb (cls_eqb (mk i) d)) r = r).
    { apply filter_all. intros d Hd. now rewrite (Hr d Hd i). }
    rewrite H0, H1. destruct (IH (S i) r Hr) as [-> ->]. auto.
  Qed.

  Lemma hits_alive os : forall i pre post,
      (forall d, In d pre -> foreign d) -> (forall d, In d post -> foreign d) ->
      hits i (length os) (pre ++ alive_from mk i os ++ post) = alive_from mk i os /\
      rest i (length os) (pre ++ alive_from mk i os ++ post) = pre ++ post.
  Proof.
    induction os as [|o os IH]; intros i pre post Hpre Hpost.
    - cbn. auto.
    - assert (Hpp : forall d, In d (pre ++ post) -> foreign d).
      { intros d Hd. apply in_app_or in Hd as [Hd|Hd]; auto. }
      assert (Hskip : forall os',
                 filter (cls_eqb (mk i)) (pre ++ alive_from mk (S i) os' ++ post) = [] /\
                 filter (fun d => negb (cls_eqb (mk i) d)) (pre ++ alive_from mk (S i) os' ++ post)
                 = pre ++ alive_from mk (S i) os' ++ post).
      { intros os'.
        assert (Hall : forall d, In d (pre ++ alive_from mk (S i) os' ++ post) -> cls_eqb (mk i) d = false).
        { intros d Hd. apply in_app_or in Hd as [Hd|Hd]; [apply Hpre; assumption|].
          apply in_app_or in Hd as [Hd|Hd]; [|apply Hpost; assumption].
          apply alive_from_index in Hd as (j & -> & Hj). rewrite mk_eqb. apply Nat.eqb_neq. lia. }
        split; [apply filter_none; assumption|].
        apply filter_all. intros d Hd. now rewrite (Hall d Hd). }
      destruct o; cbn [alive_from length hits rest].
      + (* OOk *)
        assert (Hf1 : filter (cls_eqb (mk i)) (pre ++ (mk i :: alive_from mk (S i) os) ++ post) = [mk i]).
        { rewrite filter_app. cbn. rewrite cls_eqb_refl.
          rewrite (filter_none _ pre) by (intros d Hd; apply Hpre; assumption). cbn. f_equal.
          destruct (Hskip os) as [Hn _]. rewrite filter_app in Hn.
          rewrite (filter_none _ pre) in Hn by (intros d Hd; apply Hpre; assumption). exact Hn. }
        assert (Hf2 : filter (fun d => negb (cls_eqb (mk i) d)) (pre ++ (mk i :: alive_from mk (S i) os) ++ post)
                      = pre ++ alive_from mk (S i) os ++ post).
        { rewrite filter_app. cbn. rewrite cls_eqb_refl. cbn.
          destruct (Hskip os) as [_ Hn]. rewrite filter_app in Hn. exact Hn. }
        rewrite Hf1, Hf2. destruct (IH (S i) pre post Hpre Hpost) as [-> ->]. auto.
      + destruct (Hskip os) as [-> ->]. apply IH; assumption.
      + destruct (Hskip os) as [-> ->]. apply IH; assumption.
      + destruct (Hskip os) as [-> ->]. apply IH; assumption.
      + (* OIntr: nothing of the family is registered *)
        cbn [app]. destruct (hits_foreign (S (length os)) i (pre ++ post) Hpp) as [H1 H2].
        cbn [hits rest] in H1, H2. rewrite H1, H2. auto.
      + (* OLate: only mk i is registered *)
        assert (Hf1 : filter (cls_eqb (mk i)) (pre ++ [mk i] ++ post) = [mk i]).
        { rewrite !filter_app. cbn. rewrite cls_eqb_refl.
          rewrite (filter_none _ pre) by (intros d Hd; apply Hpre; assumption).
          rewrite (filter_none _ post) by (intros d Hd; apply Hpost; assumption). reflexivity. }
        assert (Hf2 : filter (fun d => negb (cls_eqb (mk i) d)) (pre ++ [mk i] ++ post) = pre ++ post).
        { rewrite !filter_app. cbn. rewrite cls_eqb_refl. cbn.
          rewrite (filter_all _ pre) by (intros d Hd; now rewrite (Hpre d Hd i)).
          rewrite (filter_all _ post) by (intros d Hd; now rewrite (Hpost d Hd i)). reflexivity. }
        rewrite Hf1, Hf2. destruct (hits_foreign (length os) (S i) (pre ++ post) Hpp) as [-> ->]. auto.
  Qed.
End Family.

Lemma backend_eqb i j : cls_eqb (CBackend i) (CBackend j) = Nat.eqb i j.
Proof. reflexivity. Qed.
Lemma frontend_eqb i j : cls_eqb (CFrontend i) (CFrontend j) = Nat.eqb i j.
Proof. reflexivity. Qed.

Definition is_backend (c : cls) : bool := match c with CBackend _ => true | _ => false end.
Definition is_frontend (c : cls) : bool := match c with CFrontend _ => true | _ => false end.

Lemma alive_backend i os d : In d (alive_from CBackend i os) -> is_backend d = true.
Proof. intros H. apply alive_from_index in H as (j & -> & _). reflexivity. Qed.
Lemma alive_frontend i os d : In d (alive_from CFrontend i os) -> is_frontend d = true.
Proof. intros H. apply alive_from_index in H as (j & -> & _). reflexivity. Qed.

(* ------------------------------------------------------------------------------------ *)
(* the try block                                                                           *)

Definition status_of (r : res unit) : Z := match r with Exc XDecl => 1%Z | _ => 0%Z end.

Record try_post (o : oracle) (r : res unit) (s : st) : Prop := {
  tp_reg : reg s = mixer_alive o ++ audio_alive o ++ backends_alive o ++ core_alive o ++ frontends_alive o;
  tp_core : v_core s = core_started o;
  tp_quiet : forallb quiet_ev (log s) = true;
  tp_status : status_of r = expected_status o
}.

Lemma fresh_nil mk i : fresh_from mk i [].
Proof. intros d j []. Qed.

Lemma fresh_small mk i l :
  (forall d, In d l -> forall j, cls_eqb d (mk j) = false) -> fresh_from mk i l.
Proof. intros H d j Hd _. now apply H. Qed.

(* everything after start_audio *)
Definition tail (obs : list outcome) (oc : outcome) (ofs : list outcome) (ol : loop_exit) : M unit :=
  start_backends obs >> start_core oc >> start_frontends ofs >> loop_run ol.

Definition tail_core (obs : list outcome) (oc : outcome) : bool :=
  negb (existsb is_intr obs) && is_ok oc.
Definition tail_run (obs : list outcome) (oc : outcome) : bool :=
  negb (existsb is_intr obs) && is_up oc.

Lemma tail_spec obs oc ofs ol s :
  (forall d, In d (reg s) -> d = CMixer \/ d = CAudio) ->
  exists r l',
    tail obs oc ofs ol s =
    (r, mkSt (reg s ++ alive_from CBackend 0 obs
                    ++ (if tail_run obs oc then [CCore] else [])
                    ++ (if tail_core obs oc then alive_from CFrontend 0 ofs else []))
             (l' ++ log s) (v_core s || tail_core obs oc)) /\
    (forallb quiet_ev l' = true /\
     forall c, log_bal c (alive_from CBackend 0 obs
                          ++ (if tail_run obs oc then [CCore] else [])
                          ++ (if tail_core obs oc then alive_from CFrontend 0 ofs else [])) l') /\
    status_of r = (if negb (existsb is_intr obs) && match oc with ODecl => true | _ => false end
                   then 1 else 0)%Z.
Proof.
  intros Hsm.
  assert (HbB := fun c => start_log_bal CBackend c obs 0).
  assert (HbF := fun c => start_log_bal CFrontend c ofs 0).
  assert (Hcore1 : forall c, log_bal c [CCore] [EStart CCore])
    by (intros c; unfold log_bal, cntc; cbn; destruct (cls_eqb c CCore); reflexivity).
  assert (Hcore0 : forall c, log_bal c [] [EDied CCore; EStart CCore])
    by (intros c; unfold log_bal, cntc; cbn; destruct (cls_eqb c CCore); reflexivity).
  assert (Hfb : fresh_from CBackend 0 (reg s)).
  { apply fresh_small. intros d Hd j. destruct (Hsm d Hd) as [-> | ->]; reflexivity. }
  assert (Hnf : forall d, In d (reg s) -> is_frontend d = false).
  { intros d Hd. destruct (Hsm d Hd) as [-> | ->]; reflexivity. }
  destruct s as [r0 l0 v0]. cbn [reg log v_core] in *.
  unfold tail, start_backends. unfold bind at 1.
  rewrite (start_each_spec CBackend backend_eqb) by exact Hfb. cbn [reg log v_core].
  unfold tail_core, tail_run.
  destruct (existsb is_intr obs) eqn:Hib; cbn [negb andb].
  - exists (Exc XKbd), (start_log CBackend 0 obs). rewrite !app_nil_r, orb_false_r.
    split; [reflexivity|]. split; [|reflexivity]. split; [apply start_log_quiet|apply HbB].
  - assert (Hq := start_log_quiet CBackend 0 obs).
    destruct oc; cbn -[alive_from start_log start_each].
    + (* core starts *)
      unfold start_core, start_frontends, bind. cbn -[alive_from start_log start_each].
      rewrite (start_each_spec CFrontend frontend_eqb).
      2:{ apply fresh_small. cbn [reg]. intros d Hd j.
          assert (Hnfd : is_frontend d = false).
          { apply in_app_or in Hd as [Hd|Hd].
            - apply in_app_or in Hd as [Hd|Hd]; [now apply Hnf|].
              apply alive_backend in Hd. destruct d; cbn in *; congruence.
            - destruct Hd as [<-|[]]. reflexivity. }
          destruct d; cbn in *; congruence. }
      cbn -[alive_from start_log]. rewrite orb_true_r.
      destruct (existsb is_intr ofs) eqn:Hif.
      * exists (Exc XKbd), (start_log CFrontend 0 ofs ++ EStart CCore :: start_log CBackend 0 obs).
        split; [|split; [|reflexivity]].
        -- f_equal. f_equal; [now rewrite <- !app_assoc|now rewrite <- app_assoc].
        -- split; [rewrite forallb_app; cbn; now rewrite (start_log_quiet CFrontend), Hq|].
           intros c. change (EStart CCore :: start_log CBackend 0 obs)
             with ([EStart CCore] ++ start_log CBackend 0 obs).
             rewrite (app_assoc (start_log CFrontend 0 ofs)).
           apply log_bal_app; [apply HbB|].
           apply (log_bal_app c [CCore] (alive_from CFrontend 0 ofs) [EStart CCore]); [apply Hcore1|apply HbF].
      * unfold loop_run, bind, emit. cbn -[alive_from start_log].
        exists (match ol with LQuit => Val tt | LKbd => Exc XKbd | LExc => Exc XOther end),
          (ELoop :: start_log CFrontend 0 ofs ++ EStart CCore :: start_log CBackend 0 obs).
        split; [|split].
        -- destruct ol; cbn -[alive_from start_log]; f_equal; f_equal;
             try (now rewrite <- !app_assoc); cbn; f_equal; now rewrite <- app_assoc.
        -- split; [cbn; rewrite forallb_app; cbn; now rewrite (start_log_quiet CFrontend), Hq|].
           intros c.
           assert (Hl : log_bal c (alive_from CBackend 0 obs ++ [CCore] ++ alive_from CFrontend 0 ofs)
                                (start_log CFrontend 0 ofs ++ EStart CCore :: start_log CBackend 0 obs)).
           { change (EStart CCore :: start_log CBackend 0 obs)
               with ([EStart CCore] ++ start_log CBackend 0 obs).
             rewrite (app_assoc (start_log CFrontend 0 ofs)).
             apply log_bal_app; [apply HbB|].
             apply (log_bal_app c [CCore] (alive_from CFrontend 0 ofs) [EStart CCore]); [apply Hcore1|apply HbF]. }
           exact Hl.
        -- now destruct ol.
    + exists (Exc XDecl), (start_log CBackend 0 obs).
      unfold start_core, bind. cbn. rewrite !app_nil_r, orb_false_r. auto.
    + exists (Exc XOther), (start_log CBackend 0 obs).
      unfold start_core, bind. cbn. rewrite !app_nil_r, orb_false_r. auto.
    + (* the core actor dies in on_start: registered, gone, _setup raises ActorDeadError *)
      exists (Exc XOther), (EDied CCore :: EStart CCore :: start_log CBackend 0 obs).
      unfold start_core, bind. cbn -[alive_from start_log].
      rewrite filter_app. cbn. rewrite app_nil_r, !app_nil_r, orb_false_r.
      rewrite filter_all.
      2:{ intros d Hd. apply in_app_or in Hd as [Hd|Hd].
          - destruct (Hsm d Hd) as [-> | ->]; reflexivity.
          - apply alive_backend in Hd. destruct d; cbn in *; congruence. }
      split; [reflexivity|]. split; [|reflexivity]. split; [cbn; exact Hq|].
      intros c. rewrite <- (app_nil_r (alive_from CBackend 0 obs)).
      change (EDied CCore :: EStart CCore :: start_log CBackend 0 obs)
        with ([EDied CCore; EStart CCore] ++ start_log CBackend 0 obs).
      apply log_bal_app; [apply HbB|apply Hcore0].
    + exists (Exc XKbd), (start_log CBackend 0 obs).
      unfold start_core, bind. cbn. rewrite !app_nil_r, orb_false_r. auto.
    + (* the core is running but run() is interrupted before start_core returns *)
      exists (Exc XKbd), (EStart CCore :: start_log CBackend 0 obs).
      unfold start_core, bind. cbn -[alive_from start_log].
      rewrite orb_false_r, <- app_assoc.
      split; [reflexivity|]. split; [|reflexivity]. split; [cbn; exact Hq|].
      intros c. change (EStart CCore :: start_log CBackend 0 obs)
        with ([EStart CCore] ++ start_log CBackend 0 obs).
      apply log_bal_app; [apply HbB|apply Hcore1].
Qed.

Lemma try_body_tail o :
  try_body o =
  ((if o_has_mixer o then start_mixer (o_mixer o) else ret tt) >>
   start_audio (o_audio o) (o_audio_early o) >>
   tail (o_backends o) (o_core o) (o_frontends o) (o_loop o)).
Proof. reflexivity. Qed.

Lemma try_body_spec o :
  exists r l,
    try_body o st0 =
    (r, mkSt (mixer_alive o ++ audio_alive o ++ backends_alive o ++ core_alive o ++ frontends_alive o)
             l (core_started o)) /\
    forallb quiet_ev l = true /\
    (forall c, log_bal c (mixer_alive o ++ audio_alive o ++ backends_alive o ++ core_alive o ++ frontends_alive o) l) /\
    status_of r = expected_status o.
Proof.
  rewrite try_body_tail. destruct o as [hm om oa early obs oc ofs ol orst].
  cbn [o_has_mixer o_mixer o_audio o_audio_early o_backends o_core o_frontends o_loop o_restore].
  unfold mixer_alive, audio_alive, backends_alive, core_alive, frontends_alive, core_started, core_running,
    reaches_core, expected_status, audio_escapes.
  cbn [o_has_mixer o_mixer o_audio o_audio_early o_backends o_core o_frontends o_loop o_restore].
  destruct hm, om, oa, early;
    cbn -[tail alive_from existsb];
    unfold bind; cbn -[tail alive_from existsb];
    try (eexists; eexists; split; [reflexivity|split; [reflexivity|split; [|reflexivity]]];
         intros c; unfold log_bal, cntc; destruct c; reflexivity);
    match goal with
    | |- context [tail obs oc ofs ol ?s0] =>
        let H := fresh in
        assert (H : forall d, In d (reg s0) -> d = CMixer \/ d = CAudio)
          by (cbn; intros d Hd; repeat destruct Hd as [<-|Hd]; tauto);
        destruct (tail_spec obs oc ofs ol s0 H) as (r & l' & Heq & [Hq Hb] & Hst);
        rewrite Heq; clear Heq H;
        unfold tail_core, tail_run in *; cbn -[alive_from existsb] in *;
        exists r; eexists; split; [|split; [|split; [|exact Hst]]]
    end.
  all: try (rewrite ?andb_true_r; reflexivity).
  all: try (cbn; rewrite forallb_app, Hq; reflexivity).
  all: intros c; specialize (Hb c); clear - Hb; unfold log_bal, cntc in *;
    rewrite ?died_of_app, ?starts_of_app, ?filter_app, ?app_length in *;
    destruct c; cbn -[alive_from existsb] in *; rewrite ?andb_true_r in *;
      rewrite ?filter_app, ?app_length in *; lia.
Qed.

(* ------------------------------------------------------------------------------------ *)
(* the finally block                                                                       *)

Lemma hits_alive_or_nil mk (mk_eqb : forall i j, cls_eqb (mk i) (mk j) = Nat.eqb i j) os X pre post :
  (X = [] \/ X = alive_from mk 0 os) ->
  (forall d, In d pre -> foreign mk d) -> (forall d, In d post -> foreign mk d) ->
  hits mk 0 (length os) (pre ++ X ++ post) = X /\ rest mk 0 (length os) (pre ++ X ++ post) = pre ++ post.
Proof.
  intros [->| ->] Hpre Hpost.
  - cbn [app]. apply hits_foreign. intros d Hd. apply in_app_or in Hd as [Hd|Hd]; auto.
  - now apply hits_alive.
Qed.

Lemma filter_cls_other c l :
  (forall d, In d l -> cls_eqb c d = false) ->
  filter (cls_eqb c) l = [] /\ filter (fun d => negb (cls_eqb c d)) l = l.
Proof.
  intros H. split; [now apply filter_none|].
  apply filter_all. intros d Hd. now rewrite (H d Hd).
Qed.

Lemma finally_generic o Mx A B C F l cs :
  (Mx = [] \/ (o_has_mixer o = true /\ Mx = [CMixer])) ->
  (A = [] \/ A = [CAudio]) ->
  (B = [] \/ B = alive_from CBackend 0 (o_backends o)) ->
  (C = [] \/ C = [CCore]) ->
  (F = [] \/ F = alive_from CFrontend 0 (o_frontends o)) ->
  (cs = true -> C = [CCore]) ->
  finally_block o (mkSt (Mx ++ A ++ B ++ C ++ F) l cs) =
  (Val tt,
   mkSt [] (rev (map EStop (B ++ A ++ Mx)) ++ rev (map EStop C)
                ++ (if existsb (cls_eqb CCore) C && o_restore o then [ESave] else [])
                ++ rev (map EStop F) ++ l) cs).
Proof.
  intros HM HA HB HC HF Hcs.
  assert (HBb : forall d, In d B -> is_backend d = true).
  { intros d Hd. destruct HB as [->| ->]; [destruct Hd|]. eapply alive_backend; eassumption. }
  assert (HFf : forall d, In d F -> is_frontend d = true).
  { intros d Hd. destruct HF as [->| ->]; [destruct Hd|]. eapply alive_frontend; eassumption. }
  assert (HMm : forall d, In d Mx -> d = CMixer).
  { intros d Hd. destruct HM as [->|[_ ->]]; [destruct Hd|]. destruct Hd as [<-|[]]. reflexivity. }
  assert (HAa : forall d, In d A -> d = CAudio).
  { intros d Hd. destruct HA as [->| ->]; [destruct Hd|]. destruct Hd as [<-|[]]. reflexivity. }
  assert (HCc : forall d, In d C -> d = CCore).
  { intros d Hd. destruct HC as [->| ->]; [destruct Hd|]. destruct Hd as [<-|[]]. reflexivity. }
  unfold finally_block, stop_frontends, stop_backends.
  (* 1. frontends *)
  unfold bind at 1. rewrite stop_each_spec. cbn [reg log v_core].
  assert (H1 : hits CFrontend 0 (length (o_frontends o)) (Mx ++ A ++ B ++ C ++ F) = F /\
               rest CFrontend 0 (length (o_frontends o)) (Mx ++ A ++ B ++ C ++ F) = Mx ++ A ++ B ++ C).
  { replace (Mx ++ A ++ B ++ C ++ F) with ((Mx ++ A ++ B ++ C) ++ F ++ []) by (now rewrite app_nil_r, <- !app_assoc).
    rewrite <- (app_nil_r (Mx ++ A ++ B ++ C)) at 3.
    apply (hits_alive_or_nil CFrontend frontend_eqb); [assumption| |intros d []].
    intros d Hd j. repeat (apply in_app_or in Hd as [Hd|Hd]).
    - now rewrite (HMm d Hd).
    - now rewrite (HAa d Hd).
    - specialize (HBb d Hd). destruct d; cbn in *; congruence.
    - now rewrite (HCc d Hd). }
  destruct H1 as [-> ->].
  (* 2. core *)
  unfold bind at 1. unfold stop_core, bind at 1. cbn [v_core].
  assert (H2 : filter (cls_eqb CCore) (Mx ++ A ++ B ++ C) = C /\
               filter (fun d => negb (cls_eqb CCore d)) (Mx ++ A ++ B ++ C) = Mx ++ A ++ B).
  { rewrite !filter_app.
    destruct (filter_cls_other CCore Mx) as [-> ->]; [intros d Hd; now rewrite (HMm d Hd)|].
    destruct (filter_cls_other CCore A) as [-> ->]; [intros d Hd; now rewrite (HAa d Hd)|].
    destruct (filter_cls_other CCore B) as [-> ->];
      [intros d Hd; specialize (HBb d Hd); destruct d; cbn in *; congruence|].
    destruct HC as [->| ->]; cbn; now rewrite ?app_nil_r. }
  assert (Hcore : forall s0, reg s0 = Mx ++ A ++ B ++ C ->
                             stop_by_class CCore s0 =
                             (Val tt, mkSt (Mx ++ A ++ B) (rev (map EStop C) ++ log s0) (v_core s0))).
  { intros s0 Hr. unfold stop_by_class. rewrite Hr. destruct H2 as [-> ->]. reflexivity. }
  assert (Hex : (cs || existsb (cls_eqb CCore) (Mx ++ A ++ B ++ C)) = existsb (cls_eqb CCore) C).
  { rewrite !existsb_app.
    assert (E1 : existsb (cls_eqb CCore) Mx = false).
    { destruct (existsb (cls_eqb CCore) Mx) eqn:E; [|reflexivity].
      apply existsb_exists in E as (d & Hd & He). now rewrite (HMm d Hd) in He. }
    assert (E2 : existsb (cls_eqb CCore) A = false).
    { destruct (existsb (cls_eqb CCore) A) eqn:E; [|reflexivity].
      apply existsb_exists in E as (d & Hd & He). now rewrite (HAa d Hd) in He. }
    assert (E3 : existsb (cls_eqb CCore) B = false).
    { destruct (existsb (cls_eqb CCore) B) eqn:E; [|reflexivity].
      apply existsb_exists in E as (d & Hd & He). specialize (HBb d Hd). destruct d; cbn in *; congruence. }
    rewrite E1, E2, E3. cbn [orb].
    destruct cs; [rewrite (Hcs eq_refl); reflexivity|reflexivity]. }
  cbn [reg]. rewrite Hex.
  destruct (existsb (cls_eqb CCore) C && o_restore o) eqn:Hsave; cbn [emit ret reg log v_core];
    rewrite Hcore by reflexivity; cbn [reg log v_core].
  all: unfold bind at 1; rewrite stop_each_spec; cbn [reg log v_core].
  all: assert (H3 : hits CBackend 0 (length (o_backends o)) (Mx ++ A ++ B) = B /\
                    rest CBackend 0 (length (o_backends o)) (Mx ++ A ++ B) = Mx ++ A)
    by (replace (Mx ++ A ++ B) with ((Mx ++ A) ++ B ++ []) by (now rewrite app_nil_r, <- !app_assoc);
        rewrite <- (app_nil_r (Mx ++ A)) at 3;
        apply (hits_alive_or_nil CBackend backend_eqb); [assumption| |intros d []];
        intros d Hd j; apply in_app_or in Hd as [Hd|Hd];
        [now rewrite (HMm d Hd)|now rewrite (HAa d Hd)]).
  all: destruct H3 as [-> ->].
  (* 4-6: audio, mixer, remaining: small concrete lists *)
  all: unfold bind, stop_audio, stop_mixer, stop_by_class, stop_remaining; cbn [reg log v_core].
  all: destruct HA as [->| ->]; destruct HM as [->|[Hhm ->]]; try rewrite Hhm;
    destruct (o_has_mixer o); cbn; rewrite ?app_nil_r, ?map_app, ?rev_app_distr; cbn;
      rewrite <- ?app_assoc; cbn; reflexivity.
Qed.

(* ------------------------------------------------------------------------------------ *)
(* closed form of the whole command                                                        *)

Definition save_due (o : oracle) : bool := o_restore o && core_running o.

Lemma core_started_running o : core_started o = true -> core_running o = true.
Proof.
  unfold core_started, core_running. intros H. apply andb_prop in H as [-> H2].
  destruct (o_core o); try discriminate; reflexivity.
Qed.

Lemma run_closed_form_lemma o :
  exists s quietlog,
    run_command o = (Val (expected_status o), s) /\
    reg s = [] /\
    forallb quiet_ev quietlog = true /\
    (forall c, cntc c (expected_stops o) + cntc c (died_of quietlog) = cntc c (starts_of quietlog)) /\
    events s = quietlog ++ map EStop (frontends_alive o)
                        ++ (if save_due o then [ESave] else [])
                        ++ map EStop (core_alive o ++ backends_alive o ++ audio_alive o ++ mixer_alive o).
Proof.
  destruct (try_body_spec o) as (r & l & Heq & Hq & Hbal & Hst).
  unfold run_command, run_with. rewrite Heq.
  assert (Hex : existsb (cls_eqb CCore) (core_alive o) = core_running o).
  { unfold core_alive. destruct (core_running o); reflexivity. }
  rewrite finally_generic.
  - exists (mkSt [] (rev (map EStop (backends_alive o ++ audio_alive o ++ mixer_alive o))
                     ++ rev (map EStop (core_alive o))
                     ++ (if existsb (cls_eqb CCore) (core_alive o) && o_restore o then [ESave] else [])
                     ++ rev (map EStop (frontends_alive o)) ++ l) (core_started o)), (rev l).
    split; [|split; [reflexivity|split; [|split]]].
    + f_equal. f_equal. exact Hst.
    + now rewrite forallb_rev.
    + intros c. rewrite cntc_starts_rev, cntc_died_rev. specialize (Hbal c). unfold log_bal in Hbal.
      rewrite <- Hbal. unfold expected_stops. rewrite !cntc_app. lia.
    + unfold events, save_due. cbn [log]. rewrite !rev_app_distr, !rev_involutive, <- !app_assoc.
      rewrite (andb_comm (o_restore o)), Hex.
      f_equal. f_equal.
      destruct (core_running o && o_restore o); cbn; rewrite !map_app, <- ?app_assoc; reflexivity.
  - unfold mixer_alive. destruct (o_has_mixer o); cbn; [|now left].
    destruct (is_up (o_mixer o)); [right; auto|now left].
  - unfold audio_alive. destruct (_ && _); [now right|now left].
  - unfold backends_alive. destruct (_ && _); [now right|now left].
  - unfold core_alive. destruct (core_running o); [now right|now left].
  - unfold frontends_alive. destruct (core_started o); [now right|now left].
  - intros Hc. unfold core_alive. now rewrite (core_started_running o Hc).
Qed.

Lemma stops_of_quiet_prefix q l : forallb quiet_ev q = true -> stops_of (q ++ l) = stops_of l.
Proof. intros H. now rewrite stops_of_app, (quiet_stops q H). Qed.

Lemma run_stops_lemma o :
  exists s, run_command o = (Val (expected_status o), s) /\
            reg s = [] /\
            stops_of (events s) = expected_stops o /\
            remains_of (events s) = [] /\
            saves_of (events s) = (if save_due o then 1 else 0).
Proof.
  destruct (run_closed_form_lemma o) as (s & q & Hrun & Hreg & Hq & Hbalq & Hev).
  exists s. split; [assumption|split; [assumption|]]. rewrite Hev. split; [|split].
  - rewrite stops_of_quiet_prefix by assumption.
    rewrite !stops_of_app, !stops_of_map_stop. unfold expected_stops.
    destruct (save_due o); cbn; reflexivity.
  - rewrite !remains_of_app, !remains_of_map_stop.
    assert (Hrq : remains_of q = []).
    { clear -Hq. induction q as [|e q IH]; [reflexivity|]. cbn in Hq. apply andb_prop in Hq as [He Hq'].
      destruct e; cbn in *; try discriminate; auto. }
    rewrite Hrq. destruct (save_due o); reflexivity.
  - rewrite !saves_of_app, !saves_of_map_stop, (quiet_saves q Hq).
    destruct (save_due o); reflexivity.
Qed.

(* --- T4: the stop order ----------------------------------------------------------------- *)

Lemma sorted_b_app l1 l2 :
  sorted_b l1 = true -> sorted_b l2 = true ->
  (forall x y, In x l1 -> In y l2 -> x <= y) -> sorted_b (l1 ++ l2) = true.
Proof.
  induction l1 as [|a l1 IH]; intros H1 H2 Hle; [assumption|].
  destruct l1 as [|b l1].
  - cbn. destruct l2 as [|y l2]; [reflexivity|].
    cbn in H2 |- *. rewrite H2, andb_true_r. apply Nat.leb_le. apply Hle; now left.
  - cbn [app] in *. cbn in H1. apply andb_prop in H1 as [Hab H1].
    change (sorted_b (a :: b :: l1 ++ l2)) with ((a <=? b) && sorted_b (b :: l1 ++ l2)).
    rewrite Hab. cbn [andb]. apply IH; [assumption|assumption|].
    intros x y Hx Hy. apply Hle; [now right|assumption].
Qed.

Lemma sorted_b_const k l : (forall x, In x l -> x = k) -> sorted_b l = true.
Proof.
  induction l as [|a l IH]; intros H; [reflexivity|].
  destruct l as [|b l]; [reflexivity|].
  change (sorted_b (a :: b :: l)) with ((a <=? b) && sorted_b (b :: l)).
  pose proof (H a (or_introl eq_refl)) as Ha.
  pose proof (H b (or_intror (or_introl eq_refl))) as Hb.
  replace (a <=? b) with true by (symmetry; apply Nat.leb_le; lia). cbn [andb].
  apply IH. intros x Hx. apply H. now right.
Qed.

Lemma phases_of_part o :
  (forall x, In x (map phase (frontends_alive o)) -> x = 0) /\
  (forall x, In x (map phase (core_alive o)) -> x = 1) /\
  (forall x, In x (map phase (backends_alive o)) -> x = 2) /\
  (forall x, In x (map phase (audio_alive o)) -> x = 3) /\
  (forall x, In x (map phase (mixer_alive o)) -> x = 4).
Proof.
  repeat split; intros x Hx; apply in_map_iff in Hx as (c & <- & Hc).
  - unfold frontends_alive in Hc. destruct (core_started o); [|destruct Hc].
    apply alive_frontend in Hc. destruct c; cbn in *; congruence.
  - unfold core_alive in Hc. destruct (core_running o); [|destruct Hc]. destruct Hc as [<-|[]]. reflexivity.
  - unfold backends_alive in Hc. destruct (_ && _); [|destruct Hc].
    apply alive_backend in Hc. destruct c; cbn in *; congruence.
  - unfold audio_alive in Hc. destruct (_ && _); [|destruct Hc]. destruct Hc as [<-|[]]. reflexivity.
  - unfold mixer_alive in Hc. destruct (_ && _); [|destruct Hc]. destruct Hc as [<-|[]]. reflexivity.
Qed.

Lemma expected_stops_ordered o : stop_order_ok_b (expected_stops o) = true.
Proof.
  unfold stop_order_ok_b, expected_stops. rewrite !map_app.
  destruct (phases_of_part o) as (HF & HC & HB & HA & HM).
  repeat (apply sorted_b_app;
          [eapply sorted_b_const; eassumption| |
           intros x y Hx Hy; repeat (apply in_app_or in Hy as [Hy|Hy]);
           repeat match goal with
                  | H : forall x, In x ?l -> x = _, H' : In ?z ?l |- _ => rewrite (H z H'); clear H'
                  end; lia]).
  eapply sorted_b_const; eassumption.
Qed.

Theorem stop_order_lemma :
  forall o, exists z s,
      run_command o = (Val z, s) /\
      stops_of (events s) =
        frontends_alive o ++ core_alive o ++ backends_alive o ++ audio_alive o ++ mixer_alive o /\
      stop_order_ok_b (stops_of (events s)) = true /\
      remains_of (events s) = [].
Proof.
  intros o. destruct (run_stops_lemma o) as (s & Hrun & _ & Hst & Hrem & _).
  exists (expected_status o), s. split; [assumption|]. rewrite Hst. split; [reflexivity|].
  split; [apply expected_stops_ordered|assumption].
Qed.

(* --- T5: the state is saved exactly once iff enabled and the core started, and it is saved
       after every frontend has stopped and before anything below the core stops --------- *)
Theorem state_saved_once_lemma :
  forall o, exists z s before after,
      run_command o = (Val z, s) /\
      saves_of (events s) = (if o_restore o && core_running o then 1 else 0) /\
      (o_restore o && core_running o = true ->
       events s = before ++ ESave :: after /\
       stops_of before = frontends_alive o /\ saves_of before = 0 /\
       after = map EStop ([CCore] ++ backends_alive o ++ audio_alive o ++ mixer_alive o)).
Proof.
  intros o. destruct (run_closed_form_lemma o) as (s & q & Hrun & Hreg & Hq & Hbalq & Hev).
  exists (expected_status o), s, (q ++ map EStop (frontends_alive o)),
    (map EStop (core_alive o ++ backends_alive o ++ audio_alive o ++ mixer_alive o)).
  split; [assumption|]. split.
  - rewrite Hev, !saves_of_app, !saves_of_map_stop, (quiet_saves q Hq).
    fold (save_due o). destruct (save_due o); reflexivity.
  - intros Hs. fold (save_due o) in Hs. rewrite Hev, Hs. split; [now rewrite <- app_assoc|].
    split; [|split].
    + now rewrite stops_of_quiet_prefix, stops_of_map_stop.
    + now rewrite saves_of_app, saves_of_map_stop, (quiet_saves q Hq).
    + unfold save_due in Hs. apply andb_prop in Hs as [_ Hc]. unfold core_alive. now rewrite Hc.
Qed.

(* --- T6: nothing is left running and an exit status is returned ------------------------- *)
Theorem clean_exit_lemma :
  forall o, exists s,
      run_command o = (Val (expected_status o), s) /\
      reg s = [] /\
      remains_of (events s) = [] /\
      (expected_status o = 0 \/ expected_status o = 1)%Z.
Proof.
  intros o. destruct (run_stops_lemma o) as (s & Hrun & Hreg & _ & Hrem & _).
  exists s. repeat split; try assumption.
  unfold expected_status. destruct (_ && _); auto.
Qed.

(* the monitor predicate holds of the model's own run, for every oracle *)
Theorem model_passes_monitor_lemma :
  forall o, exists z s,
      run_command o = (Val z, s) /\
      monitor_core_b o z (stops_of (events s)) (Z.of_nat (saves_of (events s)))
                     (Z.of_nat (length (reg s))) = true.
Proof.
  intros o. destruct (run_stops_lemma o) as (s & Hrun & Hreg & Hst & Hrem & Hsv).
  exists (expected_status o), s. split; [assumption|].
  unfold monitor_core_b. rewrite Hreg, Hst, Hsv, expected_stops_ordered. unfold save_due. cbn [length].
  destruct (o_restore o && core_running o); cbn;
    unfold expected_status; destruct (_ && _); reflexivity.
Qed.

(* ------------------------------------------------------------------------------------ *)
(* the code before the fix (teardown only through the local variable `core`)              *)

(* full-strength statement: the state is saved exactly once iff restore_state is on and a
   core actor is running when the command shuts down *)
Definition saved_iff_core_running (run : oracle -> res Z * st) : Prop :=
  forall o, saves_of (events (snd (run o))) = (if o_restore o && core_running o then 1 else 0).

Definition late_core_oracle : oracle :=
  mkOracle true OOk OOk false [OOk] OLate [OOk] LQuit true.

(* a KeyboardInterrupt reaching run() while it waits for Core._setup: the core actor runs
   (and has consumed the state file), is stopped, but its state is never saved *)
Lemma old_code_loses_state_lemma :
  o_restore late_core_oracle = true /\ core_running late_core_oracle = true /\
  In CCore (stops_of (events (snd (run_command_old late_core_oracle)))) /\
  saves_of (events (snd (run_command_old late_core_oracle))) = 0.
Proof. vm_compute. repeat split; auto. Qed.

Lemma old_code_refuted_lemma : ~ saved_iff_core_running run_command_old.
Proof.
  intros H. specialize (H late_core_oracle). vm_compute in H. discriminate.
Qed.

Lemma new_code_saved_iff_core_running_lemma : saved_iff_core_running run_command.
Proof.
  intros o. destruct (run_stops_lemma o) as (s & Hrun & _ & _ & _ & Hsv).
  rewrite Hrun. exact Hsv.
Qed.

(* ------------------------------------------------------------------------------------ *)
(* every running actor is stopped exactly once: the stop sequence has no duplicates        *)

Lemma alive_from_NoDup mk (mk_inj : forall i j, mk i = mk j -> i = j) os :
  forall i, NoDup (alive_from mk i os).
Proof.
  induction os as [|o os IH]; intros i; cbn; [constructor|].
  destruct o; try apply IH; try constructor; try (constructor; fail).
  - intros Hin. apply alive_from_index in Hin as (j & Heq & Hj). apply mk_inj in Heq. lia.
  - apply IH.
  - intros [].
Qed.

Lemma NoDup_app_disjoint {A} (l1 l2 : list A) :
  NoDup l1 -> NoDup l2 -> (forall x, In x l1 -> ~ In x l2) -> NoDup (l1 ++ l2).
Proof.
  induction l1 as [|a l1 IH]; intros H1 H2 Hd; [assumption|].
  inversion H1; subst. cbn. constructor.
  - intros Hin. apply in_app_or in Hin as [Hin|Hin]; [contradiction|].
    apply (Hd a); [now left|assumption].
  - apply IH; [assumption|assumption|]. intros x Hx. apply Hd. now right.
Qed.

Lemma expected_stops_NoDup o : NoDup (expected_stops o).
Proof.
  unfold expected_stops.
  assert (HF : NoDup (frontends_alive o)).
  { unfold frontends_alive. destruct (core_started o); [|constructor].
    apply alive_from_NoDup. intros i j H. now injection H. }
  assert (HB : NoDup (backends_alive o)).
  { unfold backends_alive. destruct (_ && _); [|constructor].
    apply alive_from_NoDup. intros i j H. now injection H. }
  assert (HC : NoDup (core_alive o)).
  { unfold core_alive. destruct (core_running o); repeat constructor. intros []. }
  assert (HA : NoDup (audio_alive o)).
  { unfold audio_alive. destruct (_ && _); repeat constructor. intros []. }
  assert (HM : NoDup (mixer_alive o)).
  { unfold mixer_alive. destruct (_ && _); repeat constructor. intros []. }
  destruct (phases_of_part o) as (PF & PC & PB & PA & PM).
  assert (Hph : forall (l1 l2 : list cls) p1,
             (forall x, In x (map phase l1) -> x = p1) ->
             (forall x, In x (map phase l2) -> p1 < x) ->
             forall x, In x l1 -> ~ In x l2).
  { intros l1 l2 p1 H1 H2 x Hx1 Hx2.
    pose proof (H1 (phase x) (in_map phase _ _ Hx1)).
    pose proof (H2 (phase x) (in_map phase _ _ Hx2)). lia. }
  repeat (apply NoDup_app_disjoint; [assumption| |
    eapply Hph; [eassumption|];
    intros x Hx; rewrite ?map_app in Hx; repeat (apply in_app_or in Hx as [Hx|Hx]);
    repeat match goal with
           | H : forall x, In x ?l -> x = _, H' : In ?z ?l |- _ => rewrite (H z H'); clear H'
           end; lia]).
  assumption.
Qed.

Theorem stopped_exactly_once_lemma :
  forall o, exists z s,
      run_command o = (Val z, s) /\ NoDup (stops_of (events s)) /\
      (forall c, In c (stops_of (events s)) <->
                 In c (frontends_alive o ++ core_alive o ++ backends_alive o ++ audio_alive o ++ mixer_alive o)).
Proof.
  intros o. destruct (run_stops_lemma o) as (s & Hrun & _ & Hst & _ & _).
  exists (expected_status o), s. split; [assumption|]. rewrite Hst. split; [apply expected_stops_NoDup|].
  intros c. reflexivity.
Qed.

(* ------------------------------------------------------------------------------------ *)
(* bookkeeping over the whole run: every actor that was registered either died in on_start
   or was stopped by one of the ordered stop_* helpers - exactly once                      *)
Theorem started_balance_lemma :
  forall o, exists z s,
      run_command o = (Val z, s) /\
      (forall c, cntc c (starts_of (events s)) =
                 cntc c (died_of (events s)) + cntc c (stops_of (events s))) /\
      (forall c, cntc c (stops_of (events s)) <= 1) /\
      remains_of (events s) = [].
Proof.
  intros o. destruct (run_closed_form_lemma o) as (s & q & Hrun & Hreg & Hq & Hbalq & Hev).
  destruct (run_stops_lemma o) as (s' & Hrun' & _ & Hst & Hrem & _).
  rewrite Hrun in Hrun'. injection Hrun' as <-.
  exists (expected_status o), s. split; [assumption|]. split; [|split; [|assumption]].
  - intros c. rewrite Hst. rewrite Hev.
    rewrite !starts_of_app, !died_of_app, !starts_of_map_stop, !died_of_map_stop.
    assert (Hs : starts_of (if save_due o then [ESave] else []) = []) by (destruct (save_due o); reflexivity).
    assert (Hd : died_of (if save_due o then [ESave] else []) = []) by (destruct (save_due o); reflexivity).
    rewrite Hs, Hd, !app_nil_r. specialize (Hbalq c). lia.
  - intros c. rewrite Hst. pose proof (expected_stops_NoDup o) as Hnd.
    clear - Hnd. unfold cntc. induction (expected_stops o) as [|d l IH]; [cbn; lia|].
    inversion Hnd as [|? ? Hnin Hnd']; subst. cbn [filter].
    destruct (cls_eqb c d) eqn:E.
    + assert (c = d) by (destruct c, d; cbn in E; try discriminate; try reflexivity;
                         apply Nat.eqb_eq in E; now subst). subst d.
      assert (H0 : filter (cls_eqb c) l = []).
      { apply filter_none. intros x Hx. destruct (cls_eqb c x) eqn:Ex; [|reflexivity]. exfalso.
        assert (c = x) by (destruct c, x; cbn in Ex; try discriminate; try reflexivity;
                           apply Nat.eqb_eq in Ex; now subst). subst x. contradiction. }
      rewrite H0. cbn. lia.
    + apply IH. assumption.
Qed.

(* ------------------------------------------------------------------------------------ *)
(* stop_remaining_actors with respawning leftovers                                         *)

Lemma sweep_while_empties_gen : forall fuel left budget, budget < fuel -> sweep_while fuel left budget = 0.
Proof.
  induction fuel as [|f IH]; intros left budget H; [lia|].
  cbn [sweep_while]. destruct (Nat.eqb_spec left 0) as [|Hl]; [reflexivity|].
  unfold sweep_pass. destruct (Nat.eq_dec (Nat.min left budget) 0) as [E|E].
  - rewrite E. destruct f; [reflexivity|]. cbn. reflexivity.
  - apply IH. lia.
Qed.

(* the loop leaves nothing registered, however many (finitely many) respawns happen *)
Theorem sweep_while_empties_lemma : forall left budget, sweep_while (S budget) left budget = 0.
Proof. intros. apply sweep_while_empties_gen. lia. Qed.

(* a single pass does leave an actor running as soon as one leftover respawns *)
Theorem sweep_once_leaves_lemma : forall left budget, 0 < left -> 0 < budget -> 0 < sweep_once left budget.
Proof.
  intros left budget Hl Hb. unfold sweep_once, sweep_pass.
  destruct (Nat.eqb_spec left 0); [lia|]. cbn. lia.
Qed.
