(* C18, wait-for part: proofs about the abstract actor system of WaitFor.v. *)
From Coq Require Import ZArith List Bool String Arith Lia Relations.
From Actors Require Import WaitFor.
Import ListNotations.

(* ------------------------------------------------------------------------------------ *)
(* bookkeeping: how many replies an actor state owes to [a]                               *)

Definition reply_is (a : actor) (r : option actor) : bool :=
  match r with Some b => Nat.eqb b a | None => false end.

Definition mdebt (a : actor) (mb : list msg) : nat :=
  List.length (filter (fun m => reply_is a (m_reply m)) mb).

Definition fdebt (a : actor) (fr : option frame) : nat :=
  match fr with
  | Some g => if reply_is a (f_reply g) then 1 else 0
  | None => 0
  end.

Definition debt (st : astate) (a : actor) : nat := mdebt a (a_mbox st) + fdebt a (a_frame st).

Definition waitsb (s : cfg) (a x : actor) : bool :=
  match frame_wait s a with Some t => Nat.eqb t x | None => false end.

Lemma mdebt_one a m : mdebt a [m] = if reply_is a (m_reply m) then 1 else 0.
Proof. unfold mdebt. cbn. now destruct (reply_is a (m_reply m)). Qed.

Lemma mdebt_nil a : mdebt a [] = 0.
Proof. reflexivity. Qed.

Lemma mdebt_app a l1 l2 : mdebt a (l1 ++ l2) = mdebt a l1 + mdebt a l2.
Proof. unfold mdebt. now rewrite filter_app, app_length. Qed.

Lemma mdebt_cons a m l :
  mdebt a (m :: l) = (if reply_is a (m_reply m) then 1 else 0) + mdebt a l.
Proof. unfold mdebt. cbn. now destruct (reply_is a (m_reply m)). Qed.

Lemma mdebt_pos_in a l : 0 < mdebt a l -> exists m, In m l /\ m_reply m = Some a.
Proof.
  induction l as [|m l IH]; [cbn; lia|].
  rewrite mdebt_cons. destruct (reply_is a (m_reply m)) eqn:R.
  - intros _. exists m. split; [now left|].
    unfold reply_is in R. destruct (m_reply m) as [b|]; [|discriminate].
    apply Nat.eqb_eq in R. now subst.
  - intros H. destruct (IH H) as (m' & Hin & Hr). exists m'. split; [now right|assumption].
Qed.

Lemma in_mdebt_pos a l m : In m l -> m_reply m = Some a -> 0 < mdebt a l.
Proof.
  induction l as [|m' l IH]; [cbn; tauto|].
  intros [->|Hin] Hr; rewrite mdebt_cons.
  - unfold reply_is. rewrite Hr, Nat.eqb_refl. lia.
  - specialize (IH Hin Hr). lia.
Qed.

Arguments mdebt : simpl never.

Lemma waitsb_waits s a x : waitsb s a x = true <-> waits s a x.
Proof.
  unfold waitsb, frame_wait, waits. split.
  - destruct (a_frame (s a)) as [f|]; [|discriminate].
    destruct (f_wait f) as [t|] eqn:W; [|discriminate].
    intros H. apply Nat.eqb_eq in H. subst. now exists f.
  - intros (f & Hf & Hw). rewrite Hf, Hw. apply Nat.eqb_refl.
Qed.

Lemma owes_debt s t a : owes s t a <-> 0 < debt (s t) a.
Proof.
  unfold owes, debt. split.
  - intros [(m & Hin & Hr)|(g & Hg & Hr)].
    + pose proof (in_mdebt_pos a _ m Hin Hr). lia.
    + rewrite Hg. cbn. unfold reply_is. rewrite Hr, Nat.eqb_refl. lia.
  - intros H.
    destruct (Nat.eq_dec (mdebt a (a_mbox (s t))) 0) as [Z|NZ].
    + right. rewrite Z in H. cbn in H. unfold fdebt in H.
      destruct (a_frame (s t)) as [g|]; [|lia].
      exists g. split; [reflexivity|].
      unfold reply_is in H. destruct (f_reply g) as [b|]; [|lia].
      destruct (Nat.eqb_spec b a); [now subst|lia].
    + left. apply mdebt_pos_in. lia.
Qed.

(* ------------------------------------------------------------------------------------ *)

Section Ranked.
  Variable comp_of : actor -> comp.
  Variable code_of : actor -> hid -> list instr.
  Variable E : comp -> comp -> Prop.
  Variable rk : comp -> nat.
  Hypothesis E_rank : forall c d, E c d -> rk d < rk c.
  Hypothesis code_ok :
    forall a h t h', In (ICall t h') (code_of a h) -> E (comp_of a) (comp_of t).

  Record Inv (s : cfg) : Prop := {
    inv_D : forall x a, debt (s x) a = if waitsb s a x then 1 else 0;
    inv_C : forall a f t h,
        a_frame (s a) = Some f -> In (ICall t h) (f_code f) -> E (comp_of a) (comp_of t);
    inv_W : forall a t, waitsb s a t = true -> E (comp_of a) (comp_of t)
  }.

  Lemma inv_init : Inv init.
  Proof. split; intros; cbn in *; try reflexivity; discriminate. Qed.

  Ltac eqb_cases :=
    repeat match goal with
           | |- context [Nat.eqb ?x ?y] => destruct (Nat.eqb_spec x y); subst
           | H : context [Nat.eqb ?x ?y] |- _ => destruct (Nat.eqb_spec x y); subst
           end.

  (* pushing a fire-and-forget message never changes debts, frames or waits *)
  Lemma inv_push_none s b h : Inv s -> Inv (push s b (mkMsg h None)).
  Proof.
    intros [D C W]. split.
    - intros x a. specialize (D x a).
      assert (Hw : waitsb (push s b (mkMsg h None)) a x = waitsb s a x).
      { unfold waitsb, frame_wait, push, upd. destruct (Nat.eqb_spec a b); subst; reflexivity. }
      rewrite Hw, <- D. unfold push, upd. destruct (Nat.eqb_spec x b); subst; [|reflexivity].
      unfold debt. cbn [a_mbox a_frame]. rewrite mdebt_app, mdebt_one. cbn. lia.
    - intros a f t h' Hf Hin. apply (C a f t h'); [|assumption].
      revert Hf. unfold push, upd. destruct (Nat.eqb_spec a b); subst; auto.
    - intros a t Hw. apply W. revert Hw.
      unfold waitsb, frame_wait, push, upd. destruct (Nat.eqb_spec a b); subst; auto.
  Qed.

  Lemma frame_wait_upd s a v x :
    frame_wait (upd s a v) x =
    if Nat.eqb x a then match a_frame v with Some f => f_wait f | None => None end
    else frame_wait s x.
  Proof. unfold frame_wait, upd. now destruct (Nat.eqb x a). Qed.

  Lemma step_preserves s l s' : Inv s -> step code_of s l = Some s' -> Inv s'.
  Proof.
    intros HI Hs. destruct l as [b h|b|b]; cbn in Hs.
    - (* inject *) injection Hs as <-. now apply inv_push_none.
    - (* deliver *)
      destruct (a_frame (s b)) as [fr|] eqn:Hfr; [discriminate|].
      destruct (a_mbox (s b)) as [|m q] eqn:Hmb; [discriminate|].
      injection Hs as <-. destruct HI as [D C W].
      assert (Hw : forall a x,
                 waitsb (upd s b (mkA q (Some (mkFrame (code_of b (m_h m)) (m_reply m) None)))) a x
                 = waitsb s a x).
      { intros a x. unfold waitsb. rewrite frame_wait_upd. cbn.
        destruct (Nat.eqb_spec a b); subst; [|reflexivity].
        unfold frame_wait. now rewrite Hfr. }
      split.
      + intros x a. rewrite Hw, <- D. unfold upd.
        destruct (Nat.eqb_spec x b); subst; [|reflexivity].
        unfold debt. rewrite Hfr, Hmb. cbn. rewrite mdebt_cons. lia.
      + intros a f t h' Hf Hin. revert Hf. unfold upd.
        destruct (Nat.eqb_spec a b); subst.
        * intros [= <-]. cbn in Hin. eapply code_ok; eassumption.
        * intros Hf. eapply C; eassumption.
      + intros a t. rewrite Hw. apply W.
    - (* step *)
      destruct (a_frame (s b)) as [[code r [w|]]|] eqn:Hfr; try discriminate.
      assert (Hnw : forall x, waitsb s b x = false).
      { intros x. unfold waitsb, frame_wait. now rewrite Hfr. }
      destruct code as [|[t h|t h] k].
      + (* return *)
        destruct HI as [D C W].
        set (s1 := upd s b (mkA (a_mbox (s b)) None)) in *.
        assert (Hw1 : forall a x, waitsb s1 a x = waitsb s a x).
        { intros a x. unfold waitsb, s1. rewrite frame_wait_upd. cbn.
          destruct (Nat.eqb_spec a b); subst; [|reflexivity].
          unfold frame_wait. now rewrite Hfr. }
        destruct r as [c|].
        * (* wake the caller c *)
          injection Hs as <-.
          pose proof (D b c) as Dbc. unfold debt in Dbc. rewrite Hfr in Dbc. cbn in Dbc.
          rewrite Nat.eqb_refl in Dbc.
          destruct (waitsb s c b) eqn:Hcb; [|lia].
          assert (Hm0 : mdebt c (a_mbox (s b)) = 0) by lia.
          assert (Hcneb : c <> b).
          { intros ->. rewrite Hnw in Hcb. discriminate. }
          assert (Hc1 : a_frame (s1 c) = a_frame (s c)).
          { unfold s1, upd. destruct (Nat.eqb_spec c b); [contradiction|reflexivity]. }
          destruct (a_frame (s c)) as [fc|] eqn:Hfc.
          2:{ unfold waitsb, frame_wait in Hcb. rewrite Hfc in Hcb. discriminate. }
          assert (Hwc : f_wait fc = Some b).
          { unfold waitsb, frame_wait in Hcb. rewrite Hfc in Hcb.
            destruct (f_wait fc) as [t|]; [|discriminate].
            apply Nat.eqb_eq in Hcb. now subst. }
          unfold wake. rewrite Hc1.
          set (s2 := upd s1 c (mkA (a_mbox (s1 c)) (Some (mkFrame (f_code fc) (f_reply fc) None)))).
          assert (Hw2 : forall a x, waitsb s2 a x = if Nat.eqb a c then false else waitsb s a x).
          { intros a x. unfold waitsb, s2. rewrite frame_wait_upd. cbn.
            destruct (Nat.eqb_spec a c); subst; [reflexivity|]. apply Hw1. }
          split.
          -- intros x a. rewrite Hw2.
             assert (Hs2x : s2 x = if Nat.eqb x c
                                   then mkA (a_mbox (s c)) (Some (mkFrame (f_code fc) (f_reply fc) None))
                                   else if Nat.eqb x b then mkA (a_mbox (s b)) None else s x).
             { unfold s2, s1, upd. destruct (Nat.eqb_spec x c); subst.
               - destruct (Nat.eqb_spec c b); [contradiction|reflexivity].
               - reflexivity. }
             rewrite Hs2x. specialize (D x a).
             destruct (Nat.eqb_spec x c); subst.
             ++ (* x = c: mailbox and reply of c unchanged *)
                assert (debt (mkA (a_mbox (s c)) (Some (mkFrame (f_code fc) (f_reply fc) None))) a
                        = debt (s c) a) as ->.
                { unfold debt. rewrite Hfc. reflexivity. }
                rewrite D. destruct (Nat.eqb_spec a c); subst; [|reflexivity].
                (* c does not wait on itself *)
                destruct (waitsb s c c) eqn:Hcc; [|reflexivity].
                exfalso. unfold waitsb, frame_wait in Hcc. rewrite Hfc, Hwc in Hcc.
                apply Nat.eqb_eq in Hcc. now apply Hcneb.
             ++ destruct (Nat.eqb_spec x b); subst.
                ** unfold debt in *. rewrite Hfr in D. cbn in *.
                   destruct (Nat.eqb_spec a c); subst.
                   --- lia.
                   --- destruct (Nat.eqb_spec c a); [now subst|]. lia.
                ** rewrite D. destruct (Nat.eqb_spec a c); subst; [|reflexivity].
                   destruct (waitsb s c x) eqn:Hcx; [|reflexivity].
                   exfalso. unfold waitsb, frame_wait in Hcx. rewrite Hfc, Hwc in Hcx.
                   apply Nat.eqb_eq in Hcx. now subst.
          -- intros a f t h Hf Hin. revert Hf. unfold s2, s1, upd.
             destruct (Nat.eqb_spec a c); subst.
             ++ intros [= <-]. cbn in Hin. eapply C; eassumption.
             ++ destruct (Nat.eqb_spec a b); subst; [discriminate|].
                intros Hf. eapply C; eassumption.
          -- intros a t. rewrite Hw2. destruct (Nat.eqb a c); [discriminate|apply W].
        * (* plain return *)
          injection Hs as <-. split.
          -- intros x a. rewrite Hw1, <- D. unfold s1, upd.
             destruct (Nat.eqb_spec x b); subst; [|reflexivity].
             unfold debt. rewrite Hfr. cbn. lia.
          -- intros a f t h Hf Hin. revert Hf. unfold s1, upd.
             destruct (Nat.eqb_spec a b); subst; [discriminate|].
             intros Hf. eapply C; eassumption.
          -- intros a t. rewrite Hw1. apply W.
      + (* tell *)
        injection Hs as <-. apply inv_push_none.
        destruct HI as [D C W].
        set (s1 := upd s b (mkA (a_mbox (s b)) (Some (mkFrame k r None)))).
        assert (Hw1 : forall a x, waitsb s1 a x = waitsb s a x).
        { intros a x. unfold waitsb, s1. rewrite frame_wait_upd. cbn.
          destruct (Nat.eqb_spec a b); subst; [|reflexivity].
          unfold frame_wait. now rewrite Hfr. }
        split.
        * intros x a. rewrite Hw1, <- D. unfold s1, upd.
          destruct (Nat.eqb_spec x b); subst; [|reflexivity].
          unfold debt. rewrite Hfr. reflexivity.
        * intros a f t' h' Hf Hin. revert Hf. unfold s1, upd.
          destruct (Nat.eqb_spec a b); subst.
          -- intros [= <-]. cbn in Hin. eapply (C b); [eassumption|]. cbn. right. eassumption.
          -- intros Hf. eapply C; eassumption.
        * intros a t'. rewrite Hw1. apply W.
      + (* call *)
        injection Hs as <-. destruct HI as [D C W].
        set (s1 := upd s b (mkA (a_mbox (s b)) (Some (mkFrame k r (Some t))))).
        assert (HE : E (comp_of b) (comp_of t)).
        { eapply (C b); [eassumption|]. cbn. left. reflexivity. }
        assert (Hw2 : forall a x,
                   waitsb (push s1 t (mkMsg h (Some b))) a x
                   = if Nat.eqb a b then Nat.eqb t x else waitsb s a x).
        { intros a x. unfold waitsb, frame_wait, push, s1, upd.
          destruct (Nat.eqb_spec a t); subst; cbn;
            destruct (Nat.eqb_spec t b); subst; cbn; try reflexivity;
              destruct (Nat.eqb_spec a b); subst; cbn; try reflexivity; try contradiction. }
        split.
        * intros x a. rewrite Hw2. specialize (D x a).
          assert (Hpx : (push s1 t (mkMsg h (Some b))) x =
                        if Nat.eqb x t
                        then mkA (a_mbox (s t) ++ [mkMsg h (Some b)])
                                 (if Nat.eqb t b then Some (mkFrame k r (Some t)) else a_frame (s t))
                        else if Nat.eqb x b then mkA (a_mbox (s b)) (Some (mkFrame k r (Some t)))
                             else s x).
          { unfold push, s1, upd. destruct (Nat.eqb_spec x t); subst.
            - destruct (Nat.eqb_spec t b); subst; reflexivity.
            - reflexivity. }
          rewrite Hpx.
          destruct (Nat.eqb_spec x t); subst.
          -- (* the callee's state: one more message, replying to b *)
             assert (Hd : debt (mkA (a_mbox (s t) ++ [mkMsg h (Some b)])
                                    (if Nat.eqb t b then Some (mkFrame k r (Some t)) else a_frame (s t))) a
                          = debt (s t) a + (if Nat.eqb b a then 1 else 0)).
             { unfold debt. cbn [a_mbox a_frame]. rewrite mdebt_app, mdebt_one. cbn [m_reply reply_is].
               destruct (Nat.eqb_spec t b); subst.
               - rewrite Hfr. cbn. destruct (Nat.eqb b a); cbn; lia.
               - destruct (Nat.eqb b a); cbn; lia. }
             rewrite Hd, D. destruct (Nat.eqb_spec a b); subst.
             ++ rewrite Hnw, !Nat.eqb_refl. reflexivity.
             ++ destruct (Nat.eqb_spec b a); [now subst|]. lia.
          -- destruct (Nat.eqb_spec x b); subst.
             ++ assert (debt (mkA (a_mbox (s b)) (Some (mkFrame k r (Some t)))) a = debt (s b) a) as ->.
                { unfold debt. rewrite Hfr. reflexivity. }
                rewrite D. destruct (Nat.eqb_spec a b); subst; [|reflexivity].
                rewrite Hnw. destruct (Nat.eqb_spec t b); [now subst|reflexivity].
             ++ rewrite D. destruct (Nat.eqb_spec a b); subst; [|reflexivity].
                rewrite Hnw. destruct (Nat.eqb_spec t x); [now subst|reflexivity].
        * intros a f t' h' Hf Hin.
          assert (Hfa : a_frame ((push s1 t (mkMsg h (Some b))) a) =
                        if Nat.eqb a b then Some (mkFrame k r (Some t)) else a_frame (s a)).
          { unfold push, s1, upd. destruct (Nat.eqb_spec a t); subst; cbn.
            - destruct (Nat.eqb_spec t b); subst; reflexivity.
            - destruct (Nat.eqb_spec a b); subst; reflexivity. }
          rewrite Hfa in Hf. destruct (Nat.eqb_spec a b); subst.
          -- injection Hf as <-. cbn in Hin. eapply (C b); [eassumption|]. cbn. right. eassumption.
          -- eapply C; eassumption.
        * intros a x. rewrite Hw2. destruct (Nat.eqb_spec a b); subst.
          -- intros Ht. apply Nat.eqb_eq in Ht. now subst.
          -- apply W.
  Qed.

  Lemma run_preserves sched : forall s s', Inv s -> run code_of s sched = Some s' -> Inv s'.
  Proof.
    induction sched as [|l rest IH]; cbn; intros s s' HI Hr.
    - now injection Hr as <-.
    - destruct (step code_of s l) as [s1|] eqn:Hs; [|discriminate].
      eapply IH; [|eassumption]. eapply step_preserves; eassumption.
  Qed.

  Lemma reachable_inv s : reachable code_of s -> Inv s.
  Proof. intros [sched Hr]. eapply run_preserves; [apply inv_init|eassumption]. Qed.

  (* --- consequences of the invariant ------------------------------------------------- *)

  Lemma waits_rank s a t : Inv s -> waits s a t -> rk (comp_of t) < rk (comp_of a).
  Proof. intros HI Hw. apply E_rank. apply (inv_W s HI). now apply waitsb_waits. Qed.

  Lemma waits_trans_rank s a b :
    Inv s -> clos_trans actor (waits s) a b -> rk (comp_of b) < rk (comp_of a).
  Proof.
    intros HI H. induction H as [a b H|a b c _ IH1 _ IH2].
    - eapply waits_rank; eassumption.
    - lia.
  Qed.

  Lemma inv_acyclic s : Inv s -> forall a, ~ clos_trans actor (waits s) a a.
  Proof. intros HI a H. pose proof (waits_trans_rank s a a HI H). lia. Qed.

  Lemma last_cons_cons {A} (x y d : A) l : last (x :: y :: l) d = last (y :: l) d.
  Proof. reflexivity. Qed.

  Lemma last_cons_default {A} (l : list A) : forall x d, last (x :: l) d = last l x.
  Proof.
    induction l as [|y l IH]; intros x d; [reflexivity|].
    rewrite last_cons_cons, (IH y d), (IH y x). reflexivity.
  Qed.

  Lemma chain_bound s :
    Inv s -> forall p a, wait_chain s a p ->
                         List.length p + rk (comp_of (last p a)) <= rk (comp_of a).
  Proof.
    intros HI. induction p as [|b q IH]; intros a Hc; [cbn; lia|].
    destruct Hc as [Hw Hq]. pose proof (waits_rank s a b HI Hw) as Hlt. specialize (IH b Hq).
    rewrite (last_cons_default q b a). cbn [List.length]. lia.
  Qed.

  Lemma chain_last_awaited s :
    Inv s -> forall p a, p <> [] -> wait_chain s a p -> exists x, E (comp_of x) (comp_of (last p a)).
  Proof.
    intros HI. induction p as [|b q IH]; intros a Hne Hc; [contradiction|].
    destruct Hc as [Hw Hq]. destruct q as [|c q'].
    - exists a. cbn. apply (inv_W s HI). now apply waitsb_waits.
    - destruct (IH b) as [x Hx]; [discriminate|assumption|]. exists x.
      now rewrite (last_cons_default (c :: q') b a).
  Qed.

  Lemma waits_owes s a t : Inv s -> waits s a t -> owes s t a.
  Proof.
    intros HI Hw. apply owes_debt. rewrite (inv_D s HI).
    apply waitsb_waits in Hw. rewrite Hw. lia.
  Qed.

  Lemma owes_waits s a t : Inv s -> owes s t a -> waits s a t.
  Proof.
    intros HI Ho. apply owes_debt in Ho. rewrite (inv_D s HI) in Ho.
    apply waitsb_waits. destruct (waitsb s a t); [reflexivity|lia].
  Qed.

  Lemma framed_progress s :
    Inv s ->
    forall n a, rk (comp_of a) < n -> a_frame (s a) <> None ->
                exists b, can_move code_of s b /\ clos_refl_trans actor (waits s) a b.
  Proof.
    intros HI. induction n as [|n IH]; intros a Hn Hfr; [lia|].
    destruct (a_frame (s a)) as [[code r w]|] eqn:Hf; [clear Hfr|contradiction].
    destruct w as [t|].
    - (* a is blocked on t: t is strictly lower and owes the reply *)
      assert (Hw : waits s a t) by (eexists; split; [eassumption|reflexivity]).
      pose proof (waits_rank s a t HI Hw) as Hlt.
      pose proof (waits_owes s a t HI Hw) as Ho.
      destruct (a_frame (s t)) as [g|] eqn:Hg.
      + destruct (IH t) as (b & Hb & Hab); [lia|now rewrite Hg|].
        exists b. split; [assumption|].
        eapply rt_trans; [apply rt_step; eassumption|assumption].
      + destruct Ho as [(m & Hin & _)|(g & Hg' & _)]; [|congruence].
        exists t. split; [|apply rt_step; assumption].
        left. cbn. rewrite Hg. destruct (a_mbox (s t)) as [|m' q]; [destruct Hin|]. eauto.
    - exists a. split; [|apply rt_refl].
      right. cbn. rewrite Hf. destruct code as [|[t h|t h] k]; [destruct r| |]; eauto.
  Qed.

  Lemma inv_progress s a :
    Inv s -> busy s a ->
    exists b, can_move code_of s b /\ clos_refl_trans actor (waits s) a b.
  Proof.
    intros HI [Hf|Hm].
    - eapply (framed_progress s HI (S (rk (comp_of a)))); [lia|assumption].
    - destruct (a_frame (s a)) as [f|] eqn:Hf.
      + eapply (framed_progress s HI (S (rk (comp_of a)))); [lia|now rewrite Hf].
      + exists a. split; [|apply rt_refl].
        left. cbn. rewrite Hf. destruct (a_mbox (s a)); [contradiction|eauto].
  Qed.

  Lemma inv_not_deadlocked s : Inv s -> ~ deadlocked code_of s.
  Proof.
    intros HI [[a Ha] Hno]. destruct (inv_progress s a HI Ha) as (b & Hb & _).
    exact (Hno b Hb).
  Qed.

  (* A blocked caller is released only by a step of its callee's own thread, and that step
     is the return of the handler serving the call. *)
  Lemma released_only_by_callee s l s' a t :
    Inv s -> waits s a t -> step code_of s l = Some s' -> ~ waits s' a t ->
    l = LStep t /\ exists g, a_frame (s t) = Some g /\ f_reply g = Some a /\ f_code g = [].
  Proof.
    intros HI Hw Hs Hnw. destruct Hw as (f & Hf & Hwt).
    destruct l as [b h|b|b]; cbn in Hs.
    - exfalso. injection Hs as <-. apply Hnw. exists f. split; [|assumption].
      unfold push, upd. destruct (Nat.eqb_spec a b); subst; cbn; assumption.
    - exfalso. destruct (a_frame (s b)) as [fr|] eqn:Hfr; [discriminate|].
      destruct (a_mbox (s b)) as [|m q]; [discriminate|]. injection Hs as <-.
      apply Hnw. exists f. split; [|assumption].
      unfold upd. destruct (Nat.eqb_spec a b); subst; [congruence|assumption].
    - destruct (a_frame (s b)) as [[code r [w|]]|] eqn:Hfr; try discriminate.
      assert (Hab : a <> b) by (intros ->; rewrite Hf in Hfr; injection Hfr as ->; cbn in *; congruence).
      destruct code as [|[t' h|t' h] k].
      + destruct r as [c|].
        * injection Hs as <-.
          destruct (Nat.eq_dec c a) as [->|Hca].
          -- (* b returns to a: then a was waiting on b, so b = t *)
             assert (Hob : owes s b a).
             { right. eexists. split; [eassumption|reflexivity]. }
             apply (owes_waits s a b HI) in Hob. destruct Hob as (f' & Hf' & Hw').
             assert (b = t) by congruence. subst b.
             split; [reflexivity|]. eexists. split; [eassumption|]. cbn. auto.
          -- exfalso. apply Hnw. exists f. split; [|assumption].
             unfold wake, upd.
             destruct (Nat.eqb_spec c b); subst; cbn.
             ++ destruct (Nat.eqb_spec a b); [contradiction|assumption].
             ++ destruct (a_frame (s c)) eqn:Hc; cbn.
                ** destruct (Nat.eqb_spec a c); [now subst|].
                   destruct (Nat.eqb_spec a b); [contradiction|assumption].
                ** destruct (Nat.eqb_spec a b); [contradiction|assumption].
        * exfalso. injection Hs as <-. apply Hnw. exists f. split; [|assumption].
          unfold upd. destruct (Nat.eqb_spec a b); [contradiction|assumption].
      + exfalso. injection Hs as <-. apply Hnw. exists f. split; [|assumption].
        unfold push, upd. destruct (Nat.eqb_spec a t'); subst; cbn;
          destruct (Nat.eqb_spec t' b); subst; cbn; try assumption; try contradiction;
            destruct (Nat.eqb_spec a b); subst; cbn; try assumption; contradiction.
      + exfalso. injection Hs as <-. apply Hnw. exists f. split; [|assumption].
        unfold push, upd. destruct (Nat.eqb_spec a t'); subst; cbn;
          destruct (Nat.eqb_spec t' b); subst; cbn; try assumption; try contradiction;
            destruct (Nat.eqb_spec a b); subst; cbn; try assumption; contradiction.
  Qed.
End Ranked.

(* ------------------------------------------------------------------------------------ *)
(* From a finite, checked edge list to the hypotheses of the section                      *)

Definition rank_total (rank : comp -> option nat) (c : comp) : nat :=
  match rank c with Some n => n | None => 0 end.

Lemma comp_eqb_eq a b : comp_eqb a b = true -> a = b.
Proof. destruct a, b; cbn; congruence. Qed.

Lemma rank_ok_edge edges rank c d :
  rank_ok_b edges rank = true -> edge_in_b edges c d = true ->
  rank_total rank d < rank_total rank c.
Proof.
  unfold rank_ok_b, edge_in_b. intros Hall Hex.
  apply existsb_exists in Hex. destruct Hex as (s & Hin & Hs).
  apply andb_prop in Hs. destruct Hs as [Hc Hd].
  apply comp_eqb_eq in Hc. apply comp_eqb_eq in Hd. subst.
  rewrite forallb_forall in Hall. specialize (Hall s Hin).
  unfold edge_ok in Hall. unfold rank_total.
  destruct (rank (s_src s)) as [x|]; [|discriminate].
  destruct (rank (s_dst s)) as [y|]; [|discriminate].
  now apply Nat.ltb_lt.
Qed.

(* T1 *)
Theorem ranked_no_cycle_lemma :
  forall (edges : list site) (rank : comp -> option nat)
         (comp_of : actor -> comp) (code_of : actor -> hid -> list instr),
    rank_ok_b edges rank = true ->
    (forall a h t h', In (ICall t h') (code_of a h) ->
                      edge_in_b edges (comp_of a) (comp_of t) = true) ->
    forall sched s, run code_of init sched = Some s ->
      (forall a, ~ clos_trans actor (waits s) a a) /\
      (forall a, busy s a ->
                 exists b, can_move code_of s b /\ clos_refl_trans actor (waits s) a b) /\
      ~ deadlocked code_of s.
Proof.
  intros edges rank comp_of code_of Hrank Hcode sched s Hrun.
  set (E := fun c d => edge_in_b edges c d = true).
  assert (HE : forall c d, E c d -> rank_total rank d < rank_total rank c).
  { intros c d. apply rank_ok_edge. assumption. }
  assert (HI : Inv comp_of E s).
  { eapply reachable_inv; [exact Hcode|]. exists sched. exact Hrun. }
  split; [|split].
  - eapply inv_acyclic; eassumption.
  - intros a Ha. eapply inv_progress; eassumption.
  - eapply inv_not_deadlocked; eassumption.
Qed.

(* every chain of blocked callers is at most as long as the rank of its first actor *)
Theorem wait_chain_bounded_lemma :
  forall (edges : list site) (rank : comp -> option nat)
         (comp_of : actor -> comp) (code_of : actor -> hid -> list instr),
    rank_ok_b edges rank = true ->
    (forall a h t h', In (ICall t h') (code_of a h) ->
                      edge_in_b edges (comp_of a) (comp_of t) = true) ->
    forall sched s, run code_of init sched = Some s ->
    forall a p, wait_chain s a p ->
      List.length p + rank_total rank (comp_of (last p a)) <= rank_total rank (comp_of a) /\
      (p <> [] -> exists c, edge_in_b edges c (comp_of (last p a)) = true).
Proof.
  intros edges rank comp_of code_of Hrank Hcode sched s Hrun a p Hc.
  set (E := fun c d => edge_in_b edges c d = true).
  assert (HE : forall c d, E c d -> rank_total rank d < rank_total rank c).
  { intros c d. apply rank_ok_edge. assumption. }
  assert (HI : Inv comp_of E s).
  { eapply reachable_inv; [exact Hcode|]. exists sched. exact Hrun. }
  split; [eapply chain_bound; eassumption|].
  intros Hne. destruct (chain_last_awaited comp_of E s HI p a Hne Hc) as [x Hx]. eauto.
Qed.

(* the callee serves the call on its own thread while the caller stays blocked *)
Theorem call_served_by_callee_lemma :
  forall (edges : list site) (rank : comp -> option nat)
         (comp_of : actor -> comp) (code_of : actor -> hid -> list instr),
    rank_ok_b edges rank = true ->
    (forall a h t h', In (ICall t h') (code_of a h) ->
                      edge_in_b edges (comp_of a) (comp_of t) = true) ->
    forall sched s, run code_of init sched = Some s ->
    forall a t, waits s a t ->
      (* the request is queued at / being served by t ... *)
      owes s t a /\
      (* ... a itself cannot move ... *)
      ~ can_move code_of s a /\
      (* ... and only t's own return step releases it *)
      (forall l s', step code_of s l = Some s' -> ~ waits s' a t ->
                    l = LStep t /\
                    exists g, a_frame (s t) = Some g /\ f_reply g = Some a /\ f_code g = []).
Proof.
  intros edges rank comp_of code_of Hrank Hcode sched s Hrun a t Hw.
  set (E := fun c d => edge_in_b edges c d = true).
  assert (HE : forall c d, E c d -> rank_total rank d < rank_total rank c).
  { intros c d. apply rank_ok_edge. assumption. }
  assert (HI : Inv comp_of E s).
  { eapply reachable_inv; [exact Hcode|]. exists sched. exact Hrun. }
  split; [|split].
  - eapply waits_owes; eassumption.
  - destruct Hw as (f & Hf & Hwt). intros [[s' H]|[s' H]]; cbn in H; rewrite Hf in H.
    + discriminate.
    + destruct f as [code r w]. cbn in Hwt. subst w. discriminate.
  - intros l s' Hs Hn. eapply released_only_by_callee; eassumption.
Qed.

(* Tell never blocks: an actor whose next instruction is a Tell can always move, whatever
   the state of the receiver (this is what makes upward notifications safe). *)
Theorem tell_never_blocks_lemma :
  forall (code_of : actor -> hid -> list instr) (s : cfg) a t h k r,
    a_frame (s a) = Some (mkFrame (ITell t h :: k) r None) ->
    exists s', step code_of s (LStep a) = Some s' /\ frame_wait s' a = None.
Proof.
  intros code_of s a t h k r Hf. cbn. rewrite Hf. eexists. split; [reflexivity|].
  unfold frame_wait, push, upd.
  destruct (Nat.eqb_spec a t); subst; cbn; rewrite Nat.eqb_refl; reflexivity.
Qed.
