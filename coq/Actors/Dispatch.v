(* C18: listener.send / XListener.send / Listener.on_event (mopidy/listener.py) as a small model.

   Model file: definitions only (proofs in Proofs_Dispatch.v).

   send(cls, event, **kwargs): for every actor of class cls in the pykka registry, tell it
   ProxyCall("on_event", event, kwargs).  Listener.on_event looks the handler up by name and
   calls it inside try/except Exception (a missing handler, wrong arguments or a raising
   handler are logged and swallowed).  An actor that overrides on_event and lets an exception
   escape has no reply channel (tell): pykka logs it and stops the actor.  ActorRef.tell on
   an actor that has stopped raises ActorDeadError in the sender. *)
From Coq Require Import ZArith List Bool Arith.
Import ListNotations.

Definition event := nat.

Inductive hres : Type :=
| HOk        (* the handler exists, accepts the arguments and returns *)
| HRaise     (* the handler (or the call: wrong arguments) raises an Exception *)
| HMissing.  (* no attribute of that name: getattr raises AttributeError *)

Record listener : Type := mkListener {
  l_custom : bool;                 (* the actor overrides on_event (no try/except of its own) *)
  l_beh : event -> hres;
  l_dies_at_tell : event -> bool   (* oracle: the actor stops between the registry lookup and
                                      the tell of this event (a race in the real system) *)
}.

Record lstate : Type := mkLS {
  ls_alive : bool;
  ls_handled : list event;         (* events whose handler ran to completion, in order *)
  ls_caught : list event           (* events whose failure was caught and logged by on_event *)
}.

Definition ls0 : lstate := mkLS true [] [].

Inductive sres : Type := SOk | SActorDead.

(* the listener's own thread processes one on_event message *)
Definition deliver (l : listener) (st : lstate) (e : event) : lstate :=
  match l_beh l e with
  | HOk => mkLS true (ls_handled st ++ [e]) (ls_caught st)
  | _ => if l_custom l
         then mkLS false (ls_handled st) (ls_caught st)          (* escapes: pykka stops the actor *)
         else mkLS true (ls_handled st) (ls_caught st ++ [e])    (* caught by Listener.on_event *)
  end.

(* listener.send: the loop over the registry; mailboxes are FIFO and listeners independent,
   so delivering at once gives the same final states as any interleaving *)
Fixpoint send (ls : list (listener * lstate)) (e : event) : sres * list (listener * lstate) :=
  match ls with
  | [] => (SOk, [])
  | (l, st) :: rest =>
      if negb (ls_alive st) then
        let '(r, rest') := send rest e in (r, (l, st) :: rest')            (* not registered *)
      else if l_dies_at_tell l e then
        (SActorDead, (l, mkLS false (ls_handled st) (ls_caught st)) :: rest)  (* tell raises *)
      else
        let '(r, rest') := send rest e in (r, (l, deliver l st e) :: rest')
  end.

Fixpoint send_all (ls : list (listener * lstate)) (evs : list event) : list sres * list (listener * lstate) :=
  match evs with
  | [] => ([], ls)
  | e :: more =>
      let '(r, ls') := send ls e in
      let '(rs, ls'') := send_all ls' more in (r :: rs, ls'')
  end.

(* what one listener does with a sequence of events, on its own *)
Definition alone (l : listener) (st : lstate) (evs : list event) : lstate :=
  fold_left (fun st e => if ls_alive st then deliver l st e else st) evs st.

(* ---- interface with the harness --------------------------------------------------------- *)
Definition hres_of_code (z : Z) : hres := (if z =? 0 then HOk else if z =? 1 then HRaise else HMissing)%Z.

Definition table_fun {A} (d : A) (t : list A) : event -> A := fun e => nth e t d.

Definition mk_listener (custom : bool) (beh : list Z) (dies : list nat) : listener :=
  mkListener custom (table_fun HOk (map hres_of_code beh)) (fun e => existsb (Nat.eqb e) dies).

Record dcase : Type := mkDCase {
  dc_listeners : list (bool * list Z * list nat);
  dc_events : list event;
  dc_sender : list Z;                         (* observed per send: 0 returned, 1 ActorDeadError *)
  dc_final : list (bool * list nat)           (* observed per listener: alive, handled events *)
}.

Fixpoint natlist_eqb (a b : list nat) : bool :=
  match a, b with
  | [], [] => true
  | x :: a', y :: b' => Nat.eqb x y && natlist_eqb a' b'
  | _, _ => false
  end.

Definition dispatch_ok (c : dcase) : bool :=
  let ls := map (fun t => (mk_listener (fst (fst t)) (snd (fst t)) (snd t), ls0)) (dc_listeners c) in
  let '(rs, fin) := send_all ls (dc_events c) in
  (Nat.eqb (length rs) (length (dc_sender c)))
  && forallb (fun p => match fst p with SOk => (snd p =? 0)%Z | SActorDead => (snd p =? 1)%Z end)
             (combine rs (dc_sender c))
  && (Nat.eqb (length fin) (length (dc_final c)))
  && forallb (fun p => Bool.eqb (ls_alive (snd (fst p))) (fst (snd p))
                       && natlist_eqb (ls_handled (snd (fst p))) (snd (snd p)))
             (combine fin (dc_final c)).
