(* Vocabulary of the C06 theorems: functions of the INPUT HISTORY (what was requested, what
   was delivered) and predicates on event/command logs.  None of them mentions the model's
   step function; the theorems in Property_C06.v relate them to it. *)
From Coq Require Import ZArith List Bool.
From Common Require Import Res Str.
From Audio Require Import Model.
Import ListNotations.
Open Scope Z_scope.

(* ---------------------------------------------------------------- requested state *)

(* The Gst.State a control call asks for; on_error calls stop_playback. *)
Definition request_of (i : input) : option gst :=
  match i with
  | PrepareChange _ => Some READY
  | Start _ => Some PLAYING
  | Pause _ => Some PAUSED
  | Stop _ => Some NULL
  | Error => Some NULL
  | _ => None
  end.

(* the state last requested in a history (NULL before any request) *)
Definition last_request (ins : list input) : gst :=
  fold_left (fun acc i => match request_of i with Some s => s | None => acc end) ins NULL.

(* ---------------------------------------------------------------- T1 *)

(* A STATE_CHANGED message (new, pending) reports a COMPLETED transition into playback
   state s: either pending is VOID_PENDING and new is PLAYING/PAUSED/NULL, or it is the
   READY-with-pending-NULL message that stands for the never-posted READY->NULL change. *)
Definition completed_into (n p : gst) (s : pstate) : Prop :=
  (n = READY /\ p = NULL /\ s = Stopped) \/ (p = VOID /\ image n = Some s).

(* the playback state reached by the last completed transition in a history *)
Definition reached_by (i : input) : option pstate :=
  match i with
  | StateChanged true _ n p =>
      match n, p with
      | READY, NULL => Some Stopped
      | _, VOID => image n
      | _, _ => None
      end
  | _ => None
  end.

Definition last_reached (ins : list input) : pstate :=
  fold_left (fun acc i => match reached_by i with Some s => s | None => acc end) ins Stopped.

(* ---------------------------------------------------------------- T2 *)

Fixpoint stopped_followed (evs : list event) : bool :=
  match evs with
  | [] => true
  | EvState _ Stopped _ :: t =>
      match t with
      | EvStream None :: _ => stopped_followed t
      | _ => false
      end
  | _ :: t => stopped_followed t
  end.

(* ---------------------------------------------------------------- T3 *)

(* URIs announced by stream_changed(uri) events with a URI *)
Definition announced (evs : list event) : list Z :=
  flat_map (fun e => match e with EvStream (Some u) => [u] | _ => [] end) evs.

(* which inputs perform a set_uri: the call itself, or an about-to-finish signal delivered
   outside the actor thread while a callback is registered (cb) whose action is set_uri *)
Definition cb_after (cb : bool) (i : input) : bool :=
  match i with SetAtfCallback b => b | _ => cb end.

Definition sets_uri (cb : bool) (i : input) : option Z :=
  match i with
  | SetUri u _ => Some u
  | AboutToFinish false (Some (u, _)) => if cb then Some u else None
  | _ => None
  end.

Definition uri_after (cb : bool) (last : option Z) (i : input) : option Z :=
  match sets_uri cb i with Some u => Some u | None => last end.

(* one announcement per STREAM_START, carrying the URI of the last set_uri before it
   (a STREAM_START before any set_uri has no URI to announce) *)
Fixpoint expected_announcements (cb : bool) (last : option Z) (ins : list input) : list Z :=
  match ins with
  | [] => []
  | i :: t =>
      match i with
      | StreamStart => match last with Some u => [u] | None => [] end
      | _ => []
      end ++ expected_announcements (cb_after cb i) (uri_after cb last i) t
  end.

Definition uri_hist (ins : list input) : bool * option Z :=
  fold_left (fun s i => (cb_after (fst s) i, uri_after (fst s) (snd s) i)) ins (false, None).

Definition last_uri (ins : list input) : option Z := snd (uri_hist ins).

(* ---------------------------------------------------------------- T4 *)

(* Tags delivered for the UPCOMING stream: Some acc between a set_uri and the next
   STREAM_START (acc = the TAG messages since that set_uri, merged), None otherwise. *)
Definition upcoming_after (cb : bool) (acc : option dict) (i : input) : option dict :=
  match sets_uri cb i with
  | Some _ => Some []
  | None =>
      match i with
      | StreamStart => None
      | Tag tl => option_map (fun d => dict_update d (convert_taglist tl)) acc
      | _ => acc
      end
  end.

Definition upcoming_hist (ins : list input) : bool * option dict :=
  fold_left (fun s i => (cb_after (fst s) i, upcoming_after (fst s) (snd s) i)) ins (false, None).

Definition upcoming_tags (ins : list input) : option dict := snd (upcoming_hist ins).

Definition is_tags (e : event) : bool := match e with EvTags _ => true | _ => false end.

Definition tag_keys (evs : list event) : list key :=
  flat_map (fun e => match e with EvTags items => map fst items | _ => [] end) evs.

Definition tag_items (evs : list event) : list (key * val) :=
  flat_map (fun e => match e with EvTags items => items | _ => [] end) evs.

(* the current stream begins at STREAM_START; EOS drops its tags *)
Definition boundary (i : input) : bool :=
  match i with StreamStart | Eos => true | _ => false end.

(* everything tags_changed reported for the current stream, oldest first *)
Definition reported_from (acc : list (key * val)) (tr : list (world * input * out)) : list (key * val) :=
  fold_left
    (fun a x => let '(_, i, o) := x in (if boundary i then [] else a) ++ tag_items (o_evs o))
    tr acc.

(* the latest report for a key *)
Fixpoint assoc_last (k : key) (l : list (key * val)) : option val :=
  match l with
  | [] => None
  | (k', v) :: t =>
      match assoc_last k t with
      | Some x => Some x
      | None => if k =? k' then Some v else None
      end
  end.

(* ---------------------------------------------------------------- T5 *)

(* the last state the pipeline was told to go to *)
Definition update_last (lc : option gst) (cs : list cmd) : option gst :=
  fold_left (fun acc c => match c with CSetState s => Some s | _ => acc end) cs lc.

Definition last_set (cs : list cmd) : option gst := update_last None cs.

Definition is_set_state (c : cmd) : Prop := match c with CSetState _ => True | _ => False end.

(* ---------------------------------------------------------------- the pre-fix payload *)

(* Before repo commit 38eca32 the tags_changed event of on_stream_start carried
   `tags.keys()`, a live view of the dict that had just become Audio._tags.  A consumer
   reading the payload after the further inputs `rest` saw the keys of that dict object as
   mutated in place by on_tag, i.e. up to the first input that REBINDS Audio._tags
   (STREAM_START, EOS). *)
Fixpoint until_rebind (rest : list input) : list input :=
  match rest with
  | [] => []
  | i :: t => if boundary i then [] else i :: until_rebind t
  end.

Definition late_view_keys (pre rest : list input) : list key :=
  dict_keys (tags (final (final init (pre ++ [StreamStart])) (until_rebind rest))).

Definition sent_keys (pre : list input) : list key :=
  tag_keys (o_evs (snd (step (final init pre) StreamStart))).

(* ---------------------------------------------------------------- glue around the core *)

(* the live_stream flag of the last set_uri performed (by a call or by the about-to-finish
   callback) *)
Definition flags_of (cb : bool) (i : input) : option uflags :=
  match i with
  | SetUri _ fl => Some fl
  | AboutToFinish false (Some (_, fl)) => if cb then Some fl else None
  | _ => None
  end.

Definition live_hist (ins : list input) : bool * bool :=
  fold_left (fun s i => (cb_after (fst s) i,
                         match flags_of (fst s) i with Some fl => f_live fl | None => snd s end))
            ins (false, false).

Definition last_live (ins : list input) : bool := snd (live_hist ins).
