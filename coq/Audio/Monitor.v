(* Boolean monitors evaluated by the harness on the IMPLEMENTATION's observed traces, inside
   Coq.  They are built from the very functions the theorems are stated with
   (`stopped_followed`, `announced`, `expected_announcements`, `update_last`, `request_of`);
   Proofs_Monitor.v proves that every run of the model passes them. *)
From Coq Require Import ZArith List Bool.
From Common Require Import Res Str.
From Audio Require Import Model Spec Obs.
Import ListNotations.
Open Scope Z_scope.

(* an observed event as a model event (tags_changed carries keys only) *)
Definition ev_of (o : oevent) : event :=
  match o with
  | OState a b c => EvState a b c
  | OStream u => EvStream u
  | OTags ks => EvTags (map (fun k => (k, [])) ks)
  | OEos => EvEos
  | OPosition m => EvPosition m
  end.

Definition obs_events (bs : list obs) : list event := flat_map (fun b => map ev_of (b_evs b)) bs.

(* T2 on an observed log *)
Definition t2_b (bs : list obs) : bool := stopped_followed (obs_events bs).

(* T3 on an observed log *)
Definition t3_b (ins : list input) (bs : list obs) : bool :=
  list_eqb Z.eqb (announced (obs_events bs)) (expected_announcements false None ins).

(* T5 invariant after every step of an observed run *)
Definition agrees_b (req : gst) (lc : option gst) (latch : bool) : bool :=
  match lc with
  | None => gst_eqb req NULL
  | Some c => gst_eqb c req || (gst_eqb req PLAYING && gst_eqb c PAUSED && latch)
  end.

Fixpoint t5_b (req : gst) (lc : option gst) (ins : list input) (bs : list obs) : bool :=
  match ins, bs with
  | [], [] => true
  | i :: ins', b :: bs' =>
      let req' := match request_of i with Some s => s | None => req end in
      let lc' := update_last lc (b_cmds b) in
      agrees_b req' lc' (b_buf b) && t5_b req' lc' ins' bs'
  | _, _ => false
  end.

(* T1 on an observed run: every state_changed sits on a message that completed a transition
   into the reported state, and its target_state is None iff the requested state maps to it
   (else the image of the requested state).  With READY requested the property leaves
   target_state unconstrained. *)
Definition t1_event_b (req : gst) (i : input) (e : event) : bool :=
  match e with
  | EvState _ new tgt =>
      match reached_by i with
      | Some s =>
          pstate_eqb s new &&
          match image req with
          | Some ts => opstate_eqb tgt (if pstate_eqb ts new then None else Some ts)
          | None => true
          end
      | None => false
      end
  | _ => true
  end.

Fixpoint t1_b (req : gst) (ins : list input) (bs : list obs) : bool :=
  match ins, bs with
  | [], [] => true
  | i :: ins', b :: bs' =>
      forallb (t1_event_b req i) (map ev_of (b_evs b))
      && t1_b (match request_of i with Some s => s | None => req end) ins' bs'
  | _, _ => false
  end.

(* T4 (withholding) on an observed run: between a set_uri and the next STREAM_START only
   that STREAM_START may emit tags_changed *)
Definition has_tags (b : obs) : bool :=
  existsb (fun e => match e with OTags _ => true | _ => false end) (b_evs b).

Fixpoint t4a_b (cb pend : bool) (ins : list input) (bs : list obs) : bool :=
  match ins, bs with
  | [], [] => true
  | i :: ins', b :: bs' =>
      match i with StreamStart => true | _ => negb (pend && has_tags b) end
      && t4a_b (cb_after cb i)
               (match sets_uri cb i with
                | Some _ => true
                | None => match i with StreamStart => false | _ => pend end
                end) ins' bs'
  | _, _ => false
  end.

(* Audio.state and old_state/new_state against the last REACHED state (theorems
   C06_T1_state_is_last_reached, C06_T1_reports_match_last_reached): after every step
   Audio.state is the state reached by the last completed playbin transition - also when the
   report itself is suppressed because a track change is requested - and every state_changed
   carries old_state = the state reached before the message, new_state = the one reached
   with it *)
Definition tst_event_b (before after : pstate) (e : oevent) : bool :=
  match e with
  | OState o n _ => pstate_eqb o before && pstate_eqb n after
  | _ => true
  end.

Fixpoint tst_b (reached : pstate) (ins : list input) (bs : list obs) : bool :=
  match ins, bs with
  | [], [] => true
  | i :: ins', b :: bs' =>
      let r' := match reached_by i with Some s => s | None => reached end in
      pstate_eqb (b_st b) r' && forallb (tst_event_b reached r') (b_evs b) && tst_b r' ins' bs'
  | _, _ => false
  end.

(* bit 1: T2 fails, 2: T3, 4: T5 invariant, 8: T1, 16: T4 withholding, 32: state = last
   reached; 0 = all pass *)
Definition monitor_code (c : list input * list obs) : Z :=
  let '(ins, bs) := c in
  (if t2_b bs then 0 else 1) + (if t3_b ins bs then 0 else 2) + (if t5_b NULL None ins bs then 0 else 4)
  + (if t1_b NULL ins bs then 0 else 8) + (if t4a_b false false ins bs then 0 else 16)
  + (if tst_b Stopped ins bs then 0 else 32).

(* the model's own observation of a run *)
Definition model_obs_step (w : world) (i : input) : obs :=
  let '(w', o) := step w i in
  mkObs (obs_ret (o_ret o)) (map obs_event (o_evs o)) (o_cmds o) (st w') (target w') (buffering w')
        (Some (sort_dict (tags w'))).

Fixpoint model_obs (w : world) (ins : list input) : list obs :=
  match ins with
  | [] => []
  | i :: t => model_obs_step w i :: model_obs (fst (step w i)) t
  end.
