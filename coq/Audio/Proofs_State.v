(* T1 (reports are sound), T2 (stopped is followed by stream_changed(None)), and the
   characterisations of Audio.state / old_state. *)
From Coq Require Import ZArith List Bool Lia.
From Common Require Import Res Str.
From Audio Require Import Model Spec Proofs_Run.
Import ListNotations.
Open Scope Z_scope.

(* ---------------------------------------------------------------- one message *)

Lemma on_state_changed_sound w n p old new tgt :
  In (EvState old new tgt) (o_evs (snd (on_state_changed w n p))) ->
  completed_into n p new /\ old = st w /\ st (fst (on_state_changed w n p)) = new /\
  (tgt = None <-> image (target w) = Some new) /\
  (forall t, tgt = Some t -> image (target w) = Some t).
Proof.
  unfold on_state_changed, completed_into.
  destruct n, p; cbn; try contradiction;
    destruct (target w) eqn:T; cbn; try contradiction;
    intros H; repeat (destruct H as [H|H]; try discriminate; try contradiction);
    inversion H; subst; clear H;
    (split; [first [left; repeat split; reflexivity | right; split; reflexivity]|]);
    (split; [reflexivity|]); (split; [reflexivity|]);
    (split; [split; intros E; first [reflexivity | discriminate E]|]);
    intros t E; inversion E; reflexivity.
Qed.

(* which inputs can emit a state_changed at all *)
Lemma state_event_source w i old new tgt :
  In (EvState old new tgt) (o_evs (snd (step w i))) ->
  exists o n p, i = StateChanged true o n p.
Proof.
  destruct i; cbn [step]; rewrite ?on_about_to_finish_evs, ?on_source_setup_evs;
    try (cbn; intros H; repeat (destruct H as [H|H]; try discriminate); contradiction).
  - destruct from_playbin; [intros _; eauto|cbn; contradiction].
  - unfold on_buffering. destruct (rank (target w) <? rank PAUSED); [cbn; contradiction|].
    destruct mode as [[]|]; cbn; contradiction.
  - unfold on_tag. destruct (pending_tags w); [cbn; contradiction|].
    destruct (tag_diff (tags w) (convert_taglist tl)) as [c ch]. destruct ch; cbn.
    + contradiction.
    + intros [H|H]; [discriminate|contradiction].
  - unfold on_stream_start. cbn. intros [H|H]; [discriminate|].
    destruct (match pending_tags w with Some t => t | None => [] end); cbn in H;
      [contradiction|destruct H as [H|H]; [discriminate|contradiction]].
Qed.

(* T1, stated about the step taken after an arbitrary history *)
Theorem reports_sound : forall pre i old new tgt,
  In (EvState old new tgt) (o_evs (snd (step (final init pre) i))) ->
  exists o n p,
    i = StateChanged true o n p /\
    completed_into n p new /\
    (tgt = None <-> image (last_request pre) = Some new) /\
    (forall t, tgt = Some t -> image (last_request pre) = Some t) /\
    old = st (final init pre) /\
    st (final init (pre ++ [i])) = new.
Proof.
  intros pre i old new tgt H.
  destruct (state_event_source _ _ _ _ _ H) as (o & n & p & ->).
  exists o, n, p. cbn [step] in H.
  apply on_state_changed_sound in H. destruct H as (C & O & S & T1 & T2).
  rewrite target_is_last_request in T1, T2.
  repeat split; try assumption; try apply T1.
  rewrite final_snoc. exact S.
Qed.

(* the same about the whole event log of any run *)
Theorem reports_sound_log : forall ins old new tgt,
  In (EvState old new tgt) (all_events init ins) ->
  exists pre o n p post,
    ins = pre ++ StateChanged true o n p :: post /\
    completed_into n p new /\
    (tgt = None <-> image (last_request pre) = Some new) /\
    (forall t, tgt = Some t -> image (last_request pre) = Some t).
Proof.
  intros ins old new tgt H.
  destruct (event_origin _ _ _ H) as (pre & i & post & -> & Hin).
  destruct (reports_sound _ _ _ _ _ Hin) as (o & n & p & -> & C & T1 & T2 & _).
  exists pre, o, n, p, post. repeat split; try assumption; apply T1.
Qed.

(* Completed transitions are reported unless a track change (READY) is the requested state:
   then the code returns early ("#1430 workaround") after having updated Audio.state. *)
Theorem reports_complete : forall pre o n p new,
  completed_into n p new ->
  image (last_request pre) <> None ->
  exists tgt,
    o_evs (snd (step (final init pre) (StateChanged true o n p))) =
      EvState (st (final init pre)) new tgt ::
      (if pstate_eqb new Stopped then [EvStream None] else []).
Proof.
  intros pre o n p new C T. rewrite <- target_is_last_request in T.
  cbn [step]. unfold on_state_changed.
  destruct C as [(-> & -> & ->)|(-> & I)].
  - cbn. destruct (image (target (final init pre))) eqn:E; [|congruence]. cbn. eauto.
  - destruct n; cbn in I; try discriminate; inversion I; subst; cbn;
      (destruct (image (target (final init pre))) eqn:E; [|congruence]); cbn; eauto.
Qed.

Theorem silent_while_changing_track : forall pre o n p new,
  completed_into n p new ->
  last_request pre = READY ->
  o_evs (snd (step (final init pre) (StateChanged true o n p))) = [] /\
  st (final init (pre ++ [StateChanged true o n p])) = new.
Proof.
  intros pre o n p new C T. rewrite <- target_is_last_request in T.
  rewrite final_snoc. cbn [step]. unfold on_state_changed.
  destruct C as [(-> & -> & ->)|(-> & I)].
  - cbn. rewrite T. cbn. split; reflexivity.
  - destruct n; cbn in I; try discriminate; inversion I; subst; cbn; rewrite T; cbn; split; reflexivity.
Qed.

(* Audio.state (and hence every old_state) is the state reached by the last completed
   transition, whether or not that transition was reported. *)
Lemma on_state_changed_st w n p o :
  st (fst (on_state_changed w n p)) =
  match reached_by (StateChanged true o n p) with Some s => s | None => st w end.
Proof.
  unfold on_state_changed.
  destruct n, p; cbn; try reflexivity; destruct (image (target w)); reflexivity.
Qed.

Lemma step_st w i :
  st (fst (step w i)) = match reached_by i with Some s => s | None => st w end.
Proof.
  destruct i; cbn [step reached_by]; try reflexivity.
  - destruct from_playbin; [apply (on_state_changed_st w n p o)|reflexivity].
  - unfold on_buffering. destruct (rank (target w) <? rank PAUSED); [reflexivity|].
    destruct mode as [[]|]; try reflexivity;
      cbn [fst]; destruct ((pct <? 10) && negb (buffering w)), (pct =? 100); reflexivity.
  - unfold on_tag. destruct (pending_tags w); [reflexivity|].
    destruct (tag_diff (tags w) (convert_taglist tl)). reflexivity.
  - apply on_about_to_finish_st.
  - rewrite on_source_setup_world. reflexivity.
Qed.

Theorem state_is_last_reached : forall ins, st (final init ins) = last_reached ins.
Proof.
  intros ins. unfold last_reached. change Stopped with (st init). generalize init.
  induction ins as [|i t IH]; intros w; [reflexivity|].
  rewrite final_cons, IH, step_st. reflexivity.
Qed.

(* Consequently the state_changed events do NOT form a chain (old_state of one event need
   not be new_state of the previous one): a transition completed while READY was requested
   is absorbed silently. *)
Definition chain_witness : list input :=
  [Start true; StateChanged true PAUSED PLAYING VOID; PrepareChange true;
   StateChanged true PLAYING PAUSED VOID; Start true; StateChanged true PAUSED PLAYING VOID].

Lemma event_chain_refuted :
  all_events init chain_witness = [EvState Stopped Playing None; EvState Paused Playing None].
Proof. vm_compute. reflexivity. Qed.

(* ---------------------------------------------------------------- exceptions *)

Theorem raises_only_on_void : forall w i,
  o_ret (snd (step w i)) = Raise KeyError <->
  exists o, i = StateChanged true o VOID VOID.
Proof.
  intros w i. split.
  - destruct i; cbn [step]; try (cbn; discriminate).
    + destruct from_playbin; [|cbn; discriminate].
      unfold on_state_changed. destruct n, p; cbn; try discriminate;
        try (destruct (image (target w)); cbn; discriminate). eauto.
    + unfold on_buffering. destruct (rank (target w) <? rank PAUSED); [cbn; discriminate|].
      destruct mode as [[]|]; cbn; discriminate.
    + unfold on_tag. destruct (pending_tags w); [cbn; discriminate|].
      destruct (tag_diff (tags w) (convert_taglist tl)). cbn. discriminate.
    + unfold on_about_to_finish. destruct in_actor_thread; [cbn; discriminate|].
      destruct (atf_cb (cfg w)); [|cbn; discriminate].
      destruct next as [[u fl]|]; cbn; discriminate.
    + unfold on_source_setup. destruct (negb has_factory); cbn; discriminate.
  - intros [o ->]. reflexivity.
Qed.

(* every exception the modelled code can raise *)
Theorem raises_characterised : forall w i e,
  o_ret (snd (step w i)) = Raise e ->
  (e = KeyError /\ exists o, i = StateChanged true o VOID VOID) \/
  (e = AudioException /\ exists l p h, i = SourceSetup false l p h).
Proof.
  intros w i e H. destruct e.
  - left. split; [reflexivity|]. apply (raises_only_on_void w i), H.
  - right. split; [reflexivity|].
    destruct i; cbn [step] in H; try (cbn in H; discriminate).
    + destruct from_playbin; [|cbn in H; discriminate].
      unfold on_state_changed in H. destruct n, p; cbn in H; try discriminate;
        destruct (image (target w)); cbn in H; discriminate.
    + unfold on_buffering in H. destruct (rank (target w) <? rank PAUSED); [cbn in H; discriminate|].
      destruct mode as [[]|]; cbn in H; discriminate.
    + unfold on_tag in H. destruct (pending_tags w); [cbn in H; discriminate|].
      destruct (tag_diff (tags w) (convert_taglist tl)). cbn in H. discriminate.
    + unfold on_about_to_finish in H. destruct in_actor_thread; [cbn in H; discriminate|].
      destruct (atf_cb (cfg w)); [|cbn in H; discriminate].
      destruct next as [[u fl]|]; cbn in H; discriminate.
    + unfold on_source_setup in H. destruct has_factory; [cbn in H; discriminate|]. eauto.
Qed.

Theorem source_setup_raise_changes_nothing : forall w l p h,
  step w (SourceSetup false l p h) = (w, mkOut (Raise AudioException) [] []).
Proof. reflexivity. Qed.

Theorem raise_changes_nothing : forall w o,
  step w (StateChanged true o VOID VOID) = (w, mkOut (Raise KeyError) [] []).
Proof. reflexivity. Qed.

(* ---------------------------------------------------------------- T2 *)

Lemma stopped_followed_app a b :
  stopped_followed a = true -> stopped_followed b = true -> stopped_followed (a ++ b) = true.
Proof.
  induction a as [|e a IH]; intros Ha Hb; [exact Hb|].
  destruct e; cbn [app stopped_followed] in *; try (apply IH; assumption).
  destruct new; try (apply IH; assumption).
  destruct a as [|e' a']; [discriminate|].
  destruct e'; try discriminate. destruct u; try discriminate.
  cbn [app]. apply IH; assumption.
Qed.

Lemma step_stopped_followed w i : stopped_followed (o_evs (snd (step w i))) = true.
Proof.
  destruct i; cbn [step]; rewrite ?on_about_to_finish_evs, ?on_source_setup_evs; try reflexivity.
  - destruct from_playbin; [|reflexivity]. unfold on_state_changed.
    destruct n, p; cbn; try reflexivity; destruct (target w); cbn; reflexivity.
  - unfold on_buffering. destruct (rank (target w) <? rank PAUSED); [reflexivity|].
    destruct mode as [[]|]; reflexivity.
  - unfold on_tag. destruct (pending_tags w); [reflexivity|].
    destruct (tag_diff (tags w) (convert_taglist tl)) as [c ch]. destruct ch; reflexivity.
  - unfold on_stream_start. cbn.
    destruct (match pending_tags w with Some t => t | None => [] end); reflexivity.
Qed.

Theorem stopped_then_stream_none : forall ins, stopped_followed (all_events init ins) = true.
Proof.
  intros ins. generalize init. induction ins as [|i t IH]; intros w; [reflexivity|].
  rewrite all_events_cons. apply stopped_followed_app; [apply step_stopped_followed|apply IH].
Qed.

(* non-vacuity: a run whose log really contains a report of stopped *)
Example stopped_report_exists :
  In (EvState Playing Stopped None)
     (all_events init [Start true; StateChanged true PAUSED PLAYING VOID; Stop true;
                       StateChanged true PAUSED READY NULL]).
Proof. vm_compute. auto. Qed.

Example buffering_report_exists :
  In (EvState Playing Paused (Some Playing))
     (all_events init [Start true; StateChanged true PAUSED PLAYING VOID; Buffering 3 None;
                       StateChanged true PLAYING PAUSED VOID]).
Proof. vm_compute. auto. Qed.
