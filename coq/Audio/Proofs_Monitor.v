(* Every run of the model passes the boolean monitors of Monitor.v. *)
From Coq Require Import ZArith List Bool Lia.
From Common Require Import Res Str.
From Audio Require Import Model Spec Obs Monitor Proofs_Run Proofs_State Proofs_Stream Proofs_Tags Proofs_Buffering.
Import ListNotations.
Open Scope Z_scope.

Definition norm (e : event) : event := ev_of (obs_event e).

Lemma model_obs_step_evs w i : b_evs (model_obs_step w i) = map obs_event (o_evs (snd (step w i))).
Proof. unfold model_obs_step. destruct (step w i). reflexivity. Qed.

Lemma model_obs_step_cmds w i : b_cmds (model_obs_step w i) = o_cmds (snd (step w i)).
Proof. unfold model_obs_step. destruct (step w i). reflexivity. Qed.

Lemma model_obs_step_buf w i : b_buf (model_obs_step w i) = buffering (fst (step w i)).
Proof. unfold model_obs_step. destruct (step w i). reflexivity. Qed.

Lemma obs_events_model : forall ins w, obs_events (model_obs w ins) = map norm (all_events w ins).
Proof.
  induction ins as [|i t IH]; intros w; [reflexivity|].
  cbn [model_obs]. unfold obs_events in *. cbn [flat_map].
  rewrite IH, all_events_cons, map_app, model_obs_step_evs, map_map. reflexivity.
Qed.

(* the predicates do not look inside tags_changed payloads *)
Lemma stopped_followed_norm : forall evs, stopped_followed (map norm evs) = stopped_followed evs.
Proof.
  induction evs as [|e t IH]; [reflexivity|].
  destruct e; cbn [map norm obs_event ev_of stopped_followed]; try exact IH.
  destruct new; try exact IH.
  destruct t as [|e' t']; [reflexivity|].
  destruct e'; cbn [map norm obs_event ev_of] in *; try reflexivity.
  destruct u; [reflexivity|exact IH].
Qed.

Lemma announced_norm : forall evs, announced (map norm evs) = announced evs.
Proof.
  induction evs as [|e t IH]; [reflexivity|].
  unfold announced in *. cbn [map flat_map]. rewrite IH. destruct e; reflexivity.
Qed.

Lemma list_eqb_refl : forall l, list_eqb Z.eqb l l = true.
Proof. intros l. apply (list_eqb_spec Z.eqb); [intros; apply Z.eqb_eq|reflexivity]. Qed.

Lemma gst_eqb_refl g : gst_eqb g g = true.
Proof. destruct g; reflexivity. Qed.

Lemma agrees_agrees_b w lc : agrees w lc -> agrees_b (target w) lc (buffering w) = true.
Proof.
  unfold agrees, agrees_b. destruct lc as [c|].
  - intros [->|(-> & -> & ->)]; [rewrite gst_eqb_refl; reflexivity|reflexivity].
  - intros ->. reflexivity.
Qed.

Lemma t5_model : forall ins w lc,
  agrees w lc -> t5_b (target w) lc ins (model_obs w ins) = true.
Proof.
  induction ins as [|i t IH]; intros w lc A; [reflexivity|].
  cbn [model_obs t5_b]. rewrite model_obs_step_cmds, model_obs_step_buf.
  rewrite <- step_target.
  pose proof (step_agrees w lc i A) as A'.
  rewrite (agrees_agrees_b _ _ A'). cbn [andb]. apply IH, A'.
Qed.

(* ---------------------------------------------------------------- T1 *)

Lemma t1_step w i :
  forallb (t1_event_b (target w) i) (map ev_of (b_evs (model_obs_step w i))) = true.
Proof.
  rewrite model_obs_step_evs, map_map.
  destruct i; cbn [step]; rewrite ?on_about_to_finish_evs, ?on_source_setup_evs; try reflexivity.
  - destruct from_playbin; [|reflexivity]. unfold on_state_changed.
    destruct n, p; cbn; try reflexivity; destruct (target w); cbn; reflexivity.
  - unfold on_buffering. destruct (rank (target w) <? rank PAUSED); [reflexivity|].
    destruct mode as [[]|]; reflexivity.
  - unfold on_tag. destruct (pending_tags w); [reflexivity|].
    destruct (tag_diff (tags w) (convert_taglist tl)) as [c ch]. destruct ch; reflexivity.
  - unfold on_stream_start. cbn.
    destruct (match pending_tags w with Some t => t | None => [] end); reflexivity.
Qed.

Lemma t1_model : forall ins w, t1_b (target w) ins (model_obs w ins) = true.
Proof.
  induction ins as [|i t IH]; intros w; [reflexivity|].
  cbn [model_obs t1_b]. rewrite t1_step. cbn [andb]. rewrite <- step_target. apply IH.
Qed.

(* ---------------------------------------------------------------- T4 withholding *)

Definition is_some {A} (o : option A) : bool := match o with Some _ => true | None => false end.

Lemma has_tags_model w i :
  has_tags (model_obs_step w i) = existsb is_tags (o_evs (snd (step w i))).
Proof.
  unfold has_tags. rewrite model_obs_step_evs.
  induction (o_evs (snd (step w i))) as [|e t IH]; [reflexivity|].
  cbn [map existsb]. rewrite IH. destruct e; reflexivity.
Qed.

Lemma withheld_step w i :
  pending_tags w <> None -> i <> StreamStart -> existsb is_tags (o_evs (snd (step w i))) = false.
Proof.
  intros U N. destruct i; try (apply tag_items_source; exact I); [|congruence].
  cbn [step]. unfold on_tag. destruct (pending_tags w); [reflexivity|congruence].
Qed.

Lemma t4a_model : forall ins w,
  t4a_b (atf_cb (cfg w)) (is_some (pending_tags w)) ins (model_obs w ins) = true.
Proof.
  induction ins as [|i t IH]; intros w; [reflexivity|].
  cbn [model_obs t4a_b].
  assert (Nx : is_some (pending_tags (fst (step w i))) =
               match sets_uri (atf_cb (cfg w)) i with
               | Some _ => true
               | None => match i with StreamStart => false | _ => is_some (pending_tags w) end
               end).
  { rewrite step_pending_tags. unfold upcoming_after.
    destruct (sets_uri (atf_cb (cfg w)) i); [reflexivity|].
    destruct i; try reflexivity. destruct (pending_tags w); reflexivity. }
  rewrite <- Nx, <- step_atf_cb, IH, andb_true_r.
  destruct (pending_tags w) as [pt|] eqn:P; cbn [is_some andb].
  - destruct i; try (rewrite has_tags_model, withheld_step; [reflexivity|congruence|discriminate]).
    reflexivity.
  - destruct i; reflexivity.
Qed.

(* ---------------------------------------------------------------- state = last reached *)

Lemma pstate_eqb_refl s : pstate_eqb s s = true.
Proof. destruct s; reflexivity. Qed.

Lemma model_obs_step_st w i : b_st (model_obs_step w i) = st (fst (step w i)).
Proof. unfold model_obs_step. destruct (step w i). reflexivity. Qed.

Lemma tst_step w i :
  forallb (tst_event_b (st w) (match reached_by i with Some s => s | None => st w end))
          (b_evs (model_obs_step w i)) = true.
Proof.
  rewrite model_obs_step_evs.
  destruct i; cbn [step]; rewrite ?on_about_to_finish_evs, ?on_source_setup_evs; try reflexivity.
  - destruct from_playbin; [|reflexivity]. unfold on_state_changed.
    destruct n, p; cbn; try reflexivity; destruct (target w); cbn;
      rewrite ?pstate_eqb_refl; reflexivity.
  - unfold on_buffering. destruct (rank (target w) <? rank PAUSED); [reflexivity|].
    destruct mode as [[]|]; reflexivity.
  - unfold on_tag. destruct (pending_tags w); [reflexivity|].
    destruct (tag_diff (tags w) (convert_taglist tl)) as [c ch]. destruct ch; reflexivity.
  - unfold on_stream_start. cbn.
    destruct (match pending_tags w with Some t => t | None => [] end); reflexivity.
Qed.

Lemma tst_model : forall ins w, tst_b (st w) ins (model_obs w ins) = true.
Proof.
  induction ins as [|i t IH]; intros w; [reflexivity|].
  cbn [model_obs tst_b]. rewrite model_obs_step_st, tst_step, step_st, pstate_eqb_refl.
  cbn [andb]. rewrite <- step_st. apply IH.
Qed.

Theorem model_passes_monitors : forall ins,
  monitor_code (ins, model_obs init ins) = 0.
Proof.
  intros ins. unfold monitor_code, t2_b, t3_b.
  rewrite obs_events_model, stopped_followed_norm, announced_norm.
  rewrite stopped_then_stream_none, stream_announced_once, list_eqb_refl.
  change NULL with (target init). rewrite t5_model by reflexivity.
  rewrite t1_model.
  pose proof (t4a_model ins init) as T4. cbn [init cfg atf_cb pending_tags is_some] in T4.
  rewrite T4. change Stopped with (st init). rewrite tst_model. reflexivity.
Qed.
