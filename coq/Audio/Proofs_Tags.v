(* T4: tags for an upcoming stream are withheld until it starts and then reported in full;
   tags_changed names exactly the keys whose value changed; get_current_tags is the
   accumulation of what was reported for the current stream. *)
From Coq Require Import ZArith List Bool Lia.
From Common Require Import Res Str.
From Audio Require Import Model Spec Proofs_Run.
Import ListNotations.
Open Scope Z_scope.

(* ---------------------------------------------------------------- dict lemmas *)

Lemma val_eqb_eq a b : val_eqb a b = true <-> a = b.
Proof. apply list_eqb_spec. intros x y. apply Z.eqb_eq. Qed.

Lemma get_set_same k v d : dict_get k (dict_set k v d) = Some v.
Proof.
  induction d as [|[k' v'] t IH]; cbn.
  - rewrite Z.eqb_refl. reflexivity.
  - destruct (k =? k') eqn:E; cbn; rewrite E; [reflexivity|exact IH].
Qed.

Lemma get_set_other k k' v d : k <> k' -> dict_get k (dict_set k' v d) = dict_get k d.
Proof.
  intros N. apply Z.eqb_neq in N. induction d as [|[k2 v2] t IH]; cbn.
  - rewrite N. reflexivity.
  - destruct (k' =? k2) eqn:E; cbn.
    + apply Z.eqb_eq in E. subst k2. rewrite N. reflexivity.
    + rewrite IH. reflexivity.
Qed.

Lemma keys_set k v d k' : In k' (dict_keys (dict_set k v d)) <-> k' = k \/ In k' (dict_keys d).
Proof.
  induction d as [|[k2 v2] t IH]; cbn.
  - intuition.
  - destruct (k =? k2) eqn:E; cbn.
    + apply Z.eqb_eq in E. subst k2. intuition.
    + rewrite IH. intuition.
Qed.

Lemma nodup_set k v d : NoDup (dict_keys d) -> NoDup (dict_keys (dict_set k v d)).
Proof.
  induction d as [|[k2 v2] t IH]; cbn; intros H.
  - constructor; [intros []|constructor].
  - destruct (k =? k2) eqn:E; cbn.
    + exact H.
    + inversion H as [|? ? Hn Ht]; subst. constructor; [|apply IH; exact Ht].
      intros Hin. apply keys_set in Hin. destruct Hin as [->|Hin]; [|contradiction].
      rewrite Z.eqb_refl in E. discriminate.
Qed.

Lemma get_none_notin k d : dict_get k d = None <-> ~ In k (dict_keys d).
Proof.
  induction d as [|[k2 v2] t IH]; cbn; [intuition|].
  destruct (k =? k2) eqn:E.
  - apply Z.eqb_eq in E. subst. split; [discriminate|intros H; exfalso; apply H; auto].
  - apply Z.eqb_neq in E. rewrite IH. intuition.
Qed.

Lemma get_in k v d : dict_get k d = Some v -> In (k, v) d.
Proof.
  induction d as [|[k2 v2] t IH]; cbn; [discriminate|].
  destruct (k =? k2) eqn:E.
  - apply Z.eqb_eq in E. subst. intros H. inversion H. auto.
  - auto.
Qed.

Lemma in_get_nodup k v d : NoDup (dict_keys d) -> In (k, v) d -> dict_get k d = Some v.
Proof.
  induction d as [|[k2 v2] t IH]; cbn; intros N H; [contradiction|].
  inversion N as [|? ? Hn Ht]; subst.
  destruct H as [H|H].
  - inversion H; subst. rewrite Z.eqb_refl. reflexivity.
  - destruct (k =? k2) eqn:E.
    + apply Z.eqb_eq in E. subst. exfalso. apply Hn. change k2 with (fst (k2, v)). apply in_map, H.
    + apply IH; assumption.
Qed.

Lemma assoc_last_app k a b :
  assoc_last k (a ++ b) = match assoc_last k b with Some x => Some x | None => assoc_last k a end.
Proof.
  induction a as [|[k' v'] t IH]; cbn.
  - destruct (assoc_last k b); reflexivity.
  - rewrite IH. destruct (assoc_last k b); reflexivity.
Qed.

Lemma assoc_last_none k l : ~ In k (map fst l) -> assoc_last k l = None.
Proof.
  induction l as [|[k' v'] t IH]; cbn; intros H; [reflexivity|].
  rewrite IH by tauto. destruct (k =? k') eqn:E; [|reflexivity].
  apply Z.eqb_eq in E. subst. tauto.
Qed.

(* with unique keys "first binding" and "last binding" coincide *)
Lemma assoc_last_nodup k l : NoDup (map fst l) -> assoc_last k l = dict_get k l.
Proof.
  induction l as [|[k' v'] t IH]; cbn; intros N; [reflexivity|].
  inversion N as [|? ? Hn Ht]; subst.
  destruct (k =? k') eqn:E.
  - apply Z.eqb_eq in E. subst. rewrite assoc_last_none by exact Hn. reflexivity.
  - rewrite IH by exact Ht. destruct (dict_get k t); reflexivity.
Qed.

(* d.update(o): the last binding of o wins, otherwise d *)
Lemma get_update : forall o d k,
  dict_get k (dict_update d o) =
  match assoc_last k o with Some v => Some v | None => dict_get k d end.
Proof.
  unfold dict_update.
  induction o as [|[k' v'] t IH]; intros d k; cbn; [reflexivity|].
  rewrite IH. destruct (assoc_last k t); [reflexivity|].
  destruct (k =? k') eqn:E.
  - apply Z.eqb_eq in E. subst. apply get_set_same.
  - apply Z.eqb_neq in E. apply get_set_other, E.
Qed.

Lemma nodup_update : forall o d, NoDup (dict_keys d) -> NoDup (dict_keys (dict_update d o)).
Proof.
  unfold dict_update. induction o as [|[k v] t IH]; intros d N; cbn; [exact N|].
  apply IH, nodup_set, N.
Qed.

Lemma nodup_append k vs d : NoDup (dict_keys d) -> NoDup (dict_keys (dict_append k vs d)).
Proof.
  intros N. unfold dict_append. destruct vs; [exact N|].
  destruct (dict_get k d); apply nodup_set, N.
Qed.

Lemma nodup_convert tl : NoDup (dict_keys (convert_taglist tl)).
Proof.
  unfold convert_taglist.
  assert (G : forall l acc, NoDup (dict_keys acc) ->
            NoDup (dict_keys (fold_left (fun acc kr => dict_append (fst kr) (kept (snd kr)) acc) l acc))).
  { induction l as [|[k rs] t IH]; intros acc N; cbn [fold_left]; [exact N|].
    apply IH, nodup_append, N. }
  apply G. constructor.
Qed.

Lemma nodup_filter_keys (P : key * val -> bool) l :
  NoDup (map fst l) -> NoDup (map fst (filter P l)).
Proof.
  induction l as [|x t IH]; cbn; intros N; [constructor|].
  inversion N as [|? ? Hn Ht]; subst.
  destruct (P x); cbn; [constructor|]; auto.
  intros H. apply Hn. apply in_map_iff in H. destruct H as (y & E & Hy).
  apply filter_In in Hy. apply in_map_iff. exists y. tauto.
Qed.

Lemma get_filter (P : key * val -> bool) l k :
  NoDup (map fst l) ->
  dict_get k (filter P l) =
  match dict_get k l with Some v => if P (k, v) then Some v else None | None => None end.
Proof.
  induction l as [|[k' v'] t IH]; cbn; intros N; [reflexivity|].
  inversion N as [|? ? Hn Ht]; subst.
  destruct (k =? k') eqn:E.
  - apply Z.eqb_eq in E. subst k'. destruct (P (k, v')) eqn:Pk; cbn.
    + rewrite Z.eqb_refl. reflexivity.
    + rewrite IH by exact Ht.
      assert (dict_get k t = None) as -> by (apply get_none_notin; exact Hn). reflexivity.
  - destruct (P (k', v')); cbn; rewrite ?E; apply IH, Ht.
Qed.

(* ---------------------------------------------------------------- the diff loop of on_tag *)

Definition changed_wrt (c0 : dict) (kv : key * val) : bool :=
  match dict_get (fst kv) c0 with
  | Some v' => negb (val_eqb v' (snd kv))
  | None => true
  end.

Definition diff_step (acc : dict * list (key * val)) (kv : key * val) :=
  let '(c, ch) := acc in
  let '(k, v) := kv in
  match dict_get k c with
  | Some v' => if val_eqb v' v then (c, ch) else (dict_set k v c, ch ++ [(k, v)])
  | None => (dict_set k v c, ch ++ [(k, v)])
  end.

Lemma tag_diff_unfold cur new : tag_diff cur new = fold_left diff_step new (cur, []).
Proof. reflexivity. Qed.

Lemma diff_spec : forall new c0 ch0,
  NoDup (map fst new) ->
  (forall k, dict_get k (fst (fold_left diff_step new (c0, ch0))) =
             match dict_get k new with Some v => Some v | None => dict_get k c0 end) /\
  snd (fold_left diff_step new (c0, ch0)) = ch0 ++ filter (changed_wrt c0) new.
Proof.
  induction new as [|[k v] t IH]; intros c0 ch0 N.
  - cbn. rewrite app_nil_r. auto.
  - inversion N as [|? ? Hn Ht]; subst. cbn [fold_left].
    set (acc1 := diff_step (c0, ch0) (k, v)).
    assert (A : (forall k', k' <> k -> dict_get k' (fst acc1) = dict_get k' c0) /\
                dict_get k (fst acc1) = Some v /\
                snd acc1 = ch0 ++ (if changed_wrt c0 (k, v) then [(k, v)] else [])).
    { unfold acc1, diff_step, changed_wrt. cbn [fst snd].
      destruct (dict_get k c0) as [v'|] eqn:G.
      - destruct (val_eqb v' v) eqn:V; cbn.
        + apply val_eqb_eq in V. subst v'. rewrite app_nil_r. auto.
        + repeat split; [intros k' Hk; apply get_set_other, Hk|apply get_set_same].
      - cbn. repeat split; [intros k' Hk; apply get_set_other, Hk|apply get_set_same]. }
    destruct acc1 as [c1 ch1]. cbn [fst snd] in A. destruct A as (A1 & A2 & A3).
    destruct (IH c1 ch1 Ht) as (I1 & I2). split.
    + intros k'. rewrite I1. cbn [dict_get].
      destruct (k' =? k) eqn:E.
      * apply Z.eqb_eq in E. subst k'.
        assert (dict_get k t = None) as -> by (apply get_none_notin; exact Hn). exact A2.
      * apply Z.eqb_neq in E. rewrite A1 by exact E. reflexivity.
    + rewrite I2, A3. cbn [filter]. rewrite <- app_assoc. f_equal.
      assert (F : filter (changed_wrt c1) t = filter (changed_wrt c0) t).
      { apply filter_ext_in. intros [k' v'] Hin. unfold changed_wrt. cbn [fst snd].
        rewrite A1; [reflexivity|]. intros ->. apply Hn.
        change k with (fst (k, v')). apply in_map, Hin. }
      rewrite F. destruct (changed_wrt c0 (k, v)); reflexivity.
Qed.

Lemma changed_wrt_spec c0 k v : changed_wrt c0 (k, v) = true <-> dict_get k c0 <> Some v.
Proof.
  unfold changed_wrt. cbn [fst snd]. destruct (dict_get k c0) as [v'|].
  - destruct (val_eqb v' v) eqn:V; cbn.
    + apply val_eqb_eq in V. subst. split; [discriminate|congruence].
    + split; [|reflexivity]. intros _ H. inversion H. subst.
      assert (val_eqb v v = true) by (apply val_eqb_eq; reflexivity). congruence.
  - split; [discriminate|reflexivity].
Qed.

(* ---------------------------------------------------------------- T4c: exact diff *)

Lemma changed_wrt_false c0 k v : changed_wrt c0 (k, v) = false -> dict_get k c0 = Some v.
Proof.
  intros H. destruct (dict_get k c0) as [v'|] eqn:G.
  - destruct (list_eq_dec Z.eq_dec v' v) as [->|N]; [reflexivity|].
    assert (changed_wrt c0 (k, v) = true) by (apply changed_wrt_spec; congruence). congruence.
  - assert (changed_wrt c0 (k, v) = true) by (apply changed_wrt_spec; congruence). congruence.
Qed.

(* on_tag outside the withholding phase, in closed form *)
Lemma on_tag_diff w tl :
  pending_tags w = None ->
  let new := convert_taglist tl in
  let ch := filter (changed_wrt (tags w)) new in
  o_evs (snd (on_tag w tl)) = match ch with [] => [] | _ => [EvTags ch] end /\
  (forall k, dict_get k (tags (fst (on_tag w tl))) =
             match dict_get k new with Some v => Some v | None => dict_get k (tags w) end).
Proof.
  intros P. unfold on_tag. rewrite P. rewrite tag_diff_unfold.
  pose proof (diff_spec (convert_taglist tl) (tags w) [] (nodup_convert tl)) as (D1 & D2).
  destruct (fold_left diff_step (convert_taglist tl) (tags w, [])) as [c ch] eqn:F.
  cbn [fst snd] in *. cbn [app] in D2. subst ch. cbn [fst snd o_evs tags with_tags].
  split; [reflexivity|exact D1].
Qed.

(* A TAG message outside the withholding phase. *)
Theorem tags_changed_exact : forall w tl,
  pending_tags w = None ->
  let w' := fst (step w (Tag tl)) in
  let evs := o_evs (snd (step w (Tag tl))) in
  exists ch,
    evs = match ch with [] => [] | _ => [EvTags ch] end /\
    NoDup (map fst ch) /\
    (forall k, In k (map fst ch) <-> dict_get k (tags w') <> dict_get k (tags w)) /\
    (forall k v, In (k, v) ch -> dict_get k (tags w') = Some v) /\
    (forall k, dict_get k (tags w') =
               match dict_get k (convert_taglist tl) with
               | Some v => Some v
               | None => dict_get k (tags w)
               end).
Proof.
  intros w tl P. cbn [step]. destruct (on_tag_diff w tl P) as (E & D1).
  set (new := convert_taglist tl) in *.
  exists (filter (changed_wrt (tags w)) new).
  split; [exact E|].
  split; [apply nodup_filter_keys, nodup_convert|].
  split; [|split; [|exact D1]].
  - intros k. rewrite D1. split.
    + intros H. apply in_map_iff in H. destruct H as ([k' v] & Ek & H). cbn in Ek. subst k'.
      apply filter_In in H. destruct H as (Hin & Hc).
      rewrite (in_get_nodup k v new (nodup_convert tl) Hin).
      apply changed_wrt_spec in Hc. congruence.
    + intros H. destruct (dict_get k new) as [v|] eqn:G; [|congruence].
      apply in_map_iff. exists (k, v). split; [reflexivity|].
      apply filter_In. split; [apply get_in, G|]. apply changed_wrt_spec. congruence.
  - intros k v H. apply filter_In in H. destruct H as (Hin & _).
    rewrite D1, (in_get_nodup k v new (nodup_convert tl) Hin). reflexivity.
Qed.

(* ---------------------------------------------------------------- withholding *)

Lemma on_state_changed_ptags w n p : pending_tags (fst (on_state_changed w n p)) = pending_tags w.
Proof.
  unfold on_state_changed. destruct n, p; cbn; try reflexivity; destruct (image (target w)); reflexivity.
Qed.

Lemma on_buffering_ptags w pct m : pending_tags (fst (on_buffering w pct m)) = pending_tags w.
Proof.
  unfold on_buffering. destruct (rank (target w) <? rank PAUSED); [reflexivity|].
  destruct m as [[]|]; try reflexivity;
    cbn [fst]; destruct ((pct <? 10) && negb (buffering w)), (pct =? 100); reflexivity.
Qed.

Lemma step_pending_tags w i :
  pending_tags (fst (step w i)) = upcoming_after (atf_cb (cfg w)) (pending_tags w) i.
Proof.
  unfold upcoming_after.
  destruct i; cbn [step sets_uri]; try reflexivity.
  - destruct from_playbin; [apply on_state_changed_ptags|reflexivity].
  - apply on_buffering_ptags.
  - unfold on_tag. destruct (pending_tags w) eqn:P; [reflexivity|].
    destruct (tag_diff (tags w) (convert_taglist tl)). cbn. exact P.
  - unfold on_about_to_finish. destruct in_actor_thread; [reflexivity|].
    destruct next as [[u fl]|]; destruct (atf_cb (cfg w)); reflexivity.
  - rewrite on_source_setup_world. reflexivity.
Qed.

Lemma pending_run : forall ins w,
  (atf_cb (cfg (final w ins)), pending_tags (final w ins)) =
  fold_left (fun s i => (cb_after (fst s) i, upcoming_after (fst s) (snd s) i)) ins
            (atf_cb (cfg w), pending_tags w).
Proof.
  induction ins as [|i t IH]; intros w; [reflexivity|].
  rewrite final_cons, IH, step_atf_cb, step_pending_tags. reflexivity.
Qed.

Theorem pending_is_upcoming : forall ins, pending_tags (final init ins) = upcoming_tags ins.
Proof.
  intros ins. pose proof (pending_run ins init) as H. apply (f_equal snd) in H. exact H.
Qed.

(* which inputs can emit tags_changed at all *)
Lemma tag_items_source w i :
  match i with Tag _ | StreamStart => False | _ => True end ->
  existsb is_tags (o_evs (snd (step w i))) = false.
Proof.
  intros H. destruct i; try contradiction; cbn [step];
    rewrite ?on_about_to_finish_evs, ?on_source_setup_evs; try reflexivity.
  - destruct from_playbin; [|reflexivity]. unfold on_state_changed.
    destruct n, p; cbn; try reflexivity; destruct (target w); cbn; reflexivity.
  - unfold on_buffering. destruct (rank (target w) <? rank PAUSED); [reflexivity|].
    destruct mode as [[]|]; reflexivity.
Qed.

(* T4a: between a set_uri and the start of its stream nothing but that start reports tags *)
Theorem tags_withheld : forall pre i,
  upcoming_tags pre <> None -> i <> StreamStart ->
  existsb is_tags (o_evs (snd (step (final init pre) i))) = false.
Proof.
  intros pre i U N. rewrite <- pending_is_upcoming in U.
  destruct i; try (apply tag_items_source; exact I); [|congruence].
  cbn [step]. unfold on_tag.
  destruct (pending_tags (final init pre)); [reflexivity|congruence].
Qed.

(* T4b: the start of the stream reports them in full, and they become the current tags *)
Theorem stream_start_reports_in_full : forall pre,
  let w' := final init (pre ++ [StreamStart]) in
  let evs := o_evs (snd (step (final init pre) StreamStart)) in
  match upcoming_tags pre with
  | Some acc =>
      evs = EvStream (last_uri pre) :: match acc with [] => [] | _ => [EvTags acc] end /\
      tags w' = acc
  | None => evs = [EvStream (last_uri pre)] /\ tags w' = []
  end /\ pending_tags w' = None.
Proof.
  intros pre. cbn zeta. rewrite final_snoc. rewrite <- pending_is_upcoming.
  cbn [step]. unfold on_stream_start. cbn [fst snd o_evs tags pending_tags].
  rewrite pending_uri_is_last_uri.
  destruct (pending_tags (final init pre)) as [acc|]; auto.
Qed.

(* ---------------------------------------------------------------- T4d: accumulation *)

Definition pending_wf (w : world) : Prop :=
  forall t, pending_tags w = Some t -> NoDup (dict_keys t).

Definition reported_ok (w : world) (acc : list (key * val)) : Prop :=
  forall k, dict_get k (tags w) = assoc_last k acc.

Lemma on_state_changed_tags w n p : tags (fst (on_state_changed w n p)) = tags w.
Proof.
  unfold on_state_changed. destruct n, p; cbn; try reflexivity; destruct (image (target w)); reflexivity.
Qed.

Lemma on_buffering_tags w pct m : tags (fst (on_buffering w pct m)) = tags w.
Proof.
  unfold on_buffering. destruct (rank (target w) <? rank PAUSED); [reflexivity|].
  destruct m as [[]|]; try reflexivity;
    cbn [fst]; destruct ((pct <? 10) && negb (buffering w)), (pct =? 100); reflexivity.
Qed.

Lemma tag_items_none evs : existsb is_tags evs = false -> tag_items evs = [].
Proof.
  induction evs as [|e t IH]; cbn; [reflexivity|].
  destruct e; cbn; try discriminate; exact IH.
Qed.

Lemma step_pending_wf w i : pending_wf w -> pending_wf (fst (step w i)).
Proof.
  unfold pending_wf. intros W t. rewrite step_pending_tags. unfold upcoming_after.
  destruct (sets_uri (atf_cb (cfg w)) i); [intros H; inversion H; constructor|].
  destruct i; try apply W.
  - destruct (pending_tags w) as [d|] eqn:P; cbn; [|discriminate].
    intros H. inversion H. apply nodup_update, W. reflexivity.
  - discriminate.
Qed.

Lemma step_reported w acc i :
  pending_wf w -> reported_ok w acc ->
  reported_ok (fst (step w i))
              ((if boundary i then [] else acc) ++ tag_items (o_evs (snd (step w i)))).
Proof.
  intros W R.
  assert (Frame : forall w', tags w' = tags w -> reported_ok w' (acc ++ [])).
  { intros w' E k. rewrite app_nil_r, E. apply R. }
  destruct i; cbn [boundary];
    try (match goal with
         | |- context [step w ?i] => rewrite (tag_items_none _ (tag_items_source w i I))
         end; apply Frame);
    cbn [step]; try reflexivity.
  - destruct from_playbin; [apply on_state_changed_tags|reflexivity].
  - apply on_buffering_tags.
  - (* Tag *)
    destruct (pending_tags w) as [pt|] eqn:P.
    + unfold on_tag. rewrite P. cbn. apply Frame. reflexivity.
    + destruct (on_tag_diff w tl P) as (E & Hg). rewrite E.
      set (new := convert_taglist tl) in *.
      set (ch := filter (changed_wrt (tags w)) new) in *.
      assert (TI : tag_items (match ch with [] => [] | _ => [EvTags ch] end) = ch).
      { destruct ch; cbn; [reflexivity|]. rewrite app_nil_r. reflexivity. }
      rewrite TI. intros k.
      rewrite assoc_last_app, assoc_last_nodup
        by (apply nodup_filter_keys, nodup_convert).
      unfold ch. rewrite get_filter by apply nodup_convert. rewrite Hg, <- R.
      destruct (dict_get k new) as [v|]; [|reflexivity].
      destruct (changed_wrt (tags w) (k, v)) eqn:C; [reflexivity|].
      symmetry. apply changed_wrt_false, C.
  - (* StreamStart *)
    unfold on_stream_start. cbn [fst snd o_evs tags]. cbn [app].
    destruct (pending_tags w) as [t|] eqn:P.
    + assert (TI : tag_items (EvStream (pending_uri w) :: match t with [] => [] | _ => [EvTags t] end) = t).
      { destruct t; cbn; [reflexivity|]. rewrite app_nil_r. reflexivity. }
      rewrite TI. intros k. symmetry. apply assoc_last_nodup, W, P.
    + intros k. reflexivity.
  - (* Eos *)
    intros k. reflexivity.
  - apply on_about_to_finish_tags.
  - rewrite on_source_setup_world. reflexivity.
Qed.

Lemma run_reported : forall ins w acc,
  pending_wf w -> reported_ok w acc ->
  reported_ok (final w ins) (reported_from acc (trace w ins)).
Proof.
  induction ins as [|i t IH]; intros w acc W R; [exact R|].
  rewrite final_cons. cbn [trace]. unfold reported_from. cbn [fold_left].
  apply IH; [apply step_pending_wf, W|apply step_reported; assumption].
Qed.

(* T4d: after every history, for every key, get_current_tags holds exactly the latest value
   reported for that key by the tags_changed events of the current stream (since the last
   STREAM_START / EOS), and nothing else. *)
Theorem current_tags_accumulate_reports : forall ins k,
  dict_get k (tags (final init ins)) = assoc_last k (reported_from [] (trace init ins)).
Proof.
  intros ins k. apply run_reported.
  - intros t H. discriminate.
  - intros k'. reflexivity.
Qed.

Theorem get_current_tags_returns_tags : forall w,
  step w GetCurrentTags = (w, mkOut (Ok (RTags (tags w))) [] []).
Proof. reflexivity. Qed.

(* ---------------------------------------------------------------- examples (non-vacuity) *)

Example withheld_then_reported :
  all_events init [SetUri 1 plain; Tag [(0, [Keep 5])]; Tag [(1, [Keep 6; Drop])]; StreamStart;
                   Tag [(0, [Keep 5]); (1, [Keep 7])]] =
  [EvStream (Some 1); EvTags [(0, [5]); (1, [6])]; EvTags [(1, [7])]].
Proof. vm_compute. reflexivity. Qed.

(* Tags survive a stop (get_current_tags is not emptied by stream_changed(None)); only the
   next STREAM_START or an EOS replaces them. *)
Example tags_survive_stop :
  tags (final init [Tag [(0, [Keep 5])]; Stop true; StateChanged true PAUSED READY NULL]) = [(0, [5])].
Proof. vm_compute. reflexivity. Qed.

(* The defect fixed by repo commit 38eca32, about the pre-fix code: the payload sent at
   stream start and the payload read later differ. *)
Lemma prefix_live_view_refuted :
  exists pre rest, sent_keys pre <> late_view_keys pre rest.
Proof.
  exists [SetUri 1 plain; Tag [(0, [Keep 1])]], [Tag [(1, [Keep 2])]].
  vm_compute. discriminate.
Qed.
