(* Model of the pure helpers of src/mopidy/audio/utils.py that the audio actor relies on:

     class Signals            bookkeeping of GObject signal handler ids (used by Audio for
                              playbin's about-to-finish / source-setup and by the mixer adapter)
     supported_uri_schemes    which of the wanted URI schemes some GStreamer element handles

   (millisecond_to_clocktime / clocktime_to_millisecond / setup_proxy are in Model.v.)
   GObject itself is an oracle: element.connect returns whatever handler id the input says. *)
From Coq Require Import ZArith List Bool.
From Common Require Import Res Str.
Import ListNotations.
Open Scope Z_scope.

(* ---------------------------------------------------------------- Signals *)

Definition skey := (Z * Z)%type.                 (* (element, signal name) *)
Definition skey_eqb (a b : skey) : bool := (fst a =? fst b) && (snd a =? snd b).

Definition table := list (skey * Z).             (* self._ids: insertion-ordered dict *)

Fixpoint t_get (k : skey) (t : table) : option Z :=
  match t with
  | [] => None
  | (k', h) :: r => if skey_eqb k k' then Some h else t_get k r
  end.

Fixpoint t_remove (k : skey) (t : table) : table :=
  match t with
  | [] => []
  | (k', h) :: r => if skey_eqb k k' then r else (k', h) :: t_remove k r
  end.

Inductive sop : Type :=
| SConnect (k : skey) (hid : Z)     (* connect(element, event, func); hid = element.connect's answer *)
| SDisconnect (k : skey)            (* disconnect(element, event) *)
| SClear.                           (* clear() *)

(* calls received by GObject elements *)
Inductive gcall : Type := GConnect (k : skey) (hid : Z) | GDisconnect (k : skey) (hid : Z).

Inductive sexn : Type := AssertionError.

Definition sstep (t : table) (o : sop) : table * (res sexn unit * list gcall) :=
  match o with
  | SConnect k hid =>
      match t_get k t with
      | Some _ => (t, (Raise AssertionError, []))           (* one callback per (element, event) *)
      | None => (t ++ [(k, hid)], (Ok tt, [GConnect k hid]))
      end
  | SDisconnect k =>
      match t_get k t with
      | Some h => (t_remove k t, (Ok tt, [GDisconnect k h]))
      | None => (t, (Ok tt, []))
      end
  | SClear => ([], (Ok tt, map (fun e => GDisconnect (fst e) (snd e)) t))
  end.

Definition sfinal (t : table) (ops : list sop) : table :=
  fold_left (fun t o => fst (sstep t o)) ops t.

Fixpoint scalls (t : table) (ops : list sop) : list gcall :=
  match ops with
  | [] => []
  | o :: r => snd (snd (sstep t o)) ++ scalls (fst (sstep t o)) r
  end.

(* the handlers that are connected according to a log of GObject calls; a disconnect of a
   handler that is not connected makes the log ill-formed (None) *)
Fixpoint balance (acc : table) (log : list gcall) : option table :=
  match log with
  | [] => Some acc
  | GConnect k h :: r =>
      match t_get k acc with
      | Some _ => None                                      (* second handler on one key *)
      | None => balance (acc ++ [(k, h)]) r
      end
  | GDisconnect k h :: r =>
      match t_get k acc with
      | Some h' => if h =? h' then balance (t_remove k acc) r else None
      | None => None
      end
  end.

(* observation for the correspondence *)
Definition gcall_eqb (a b : gcall) : bool :=
  match a, b with
  | GConnect k h, GConnect k' h' => skey_eqb k k' && (h =? h')
  | GDisconnect k h, GDisconnect k' h' => (fst k =? fst k') && (h =? h')   (* the element sees only the id *)
  | _, _ => false
  end.

Fixpoint srun_ok (t : table) (ops : list sop) (obs : list (bool * list gcall)) : bool :=
  match ops, obs with
  | [], [] => true
  | o :: ops', (raised, calls) :: obs' =>
      let '(t', (r, cs)) := sstep t o in
      Bool.eqb (is_raise r) raised && list_eqb gcall_eqb cs calls && srun_ok t' ops' obs'
  | _, _ => false
  end.

Definition scase_ok (c : list sop * list (bool * list gcall)) : bool := srun_ok [] (fst c) (snd c).

(* ---------------------------------------------------------------- supported_uri_schemes *)

(* factories: the URI protocols of every element factory in the registry; wanted: the
   whitelist.  The result is a set; here the list of matches, compared as a sorted set. *)
Definition supported_uri_schemes (factories : list (list Z)) (wanted : list Z) : list Z :=
  flat_map (fun protos => filter (fun p => existsb (Z.eqb p) wanted) protos) factories.

Fixpoint insert_u (x : Z) (l : list Z) : list Z :=
  match l with
  | [] => [x]
  | y :: t => if x <? y then x :: l else if x =? y then l else y :: insert_u x t
  end.
Definition as_set (l : list Z) : list Z := fold_right insert_u [] l.

Definition schemes_ok (c : list (list Z) * list Z * list Z) : bool :=
  let '(f, w, r) := c in list_eqb Z.eqb (as_set (supported_uri_schemes f w)) r.
