(* An ENVIRONMENT SPECIFICATION, not a model of code: a well-behaved playbin as the audio
   layer's comments and GStreamer's documentation describe it.  It exists only to state
   closed-loop consequences of the open-loop theorems ("if the pipeline behaves like this,
   then the audio layer ends up reporting the requested state").  Nothing here is checked
   against GStreamer (absent); every theorem that uses it says so in its name (`wb_`).

   Rules: the pipeline walks one state at a time (NULL-READY-PAUSED-PLAYING) towards the state
   last commanded with set_state, posting STATE_CHANGED(old, new, pending) for each step,
   pending = VOID_PENDING exactly when new is the commanded state; the final READY->NULL
   change is never posted (the bus is flushing by then) - which is why the audio layer
   rewrites READY/pending-NULL. *)
From Coq Require Import ZArith List Bool.
From Common Require Import Res Str.
From Audio Require Import Model Spec.
Import ListNotations.
Open Scope Z_scope.

Record pipe : Type := mkP { cur : gst; want : gst }.

Definition up (g : gst) : gst :=
  match g with VOID => NULL | NULL => READY | READY => PAUSED | PAUSED => PLAYING | PLAYING => PLAYING end.
Definition down (g : gst) : gst :=
  match g with PLAYING => PAUSED | PAUSED => READY | READY => NULL | NULL => NULL | VOID => VOID end.

Definition toward (c w : gst) : gst := if rank c <? rank w then up c else down c.

(* one transition: the message posted (if any) and the new pipeline state *)
Definition post (p : pipe) : option input * pipe :=
  if gst_eqb (cur p) (want p) then (None, p)
  else
    let n := toward (cur p) (want p) in
    if gst_eqb n NULL then (None, mkP NULL (want p))
    else (Some (StateChanged true (cur p) n (if gst_eqb n (want p) then VOID else want p)),
          mkP n (want p)).

(* the pipeline obeys the last set_state of a batch of commands *)
Definition obey (p : pipe) (cs : list cmd) : pipe :=
  match last_set cs with Some s => mkP (cur p) s | None => p end.

(* closed loop: an input to the audio layer, whose commands the pipeline obeys *)
Definition cl_step (s : world * pipe) (i : input) : (world * pipe) * out :=
  let '(w, p) := s in
  let '(w', o) := step w i in ((w', obey p (o_cmds o)), o).

(* closed loop: the pipeline makes one transition and the audio layer handles the message *)
Definition cl_advance (s : world * pipe) : (world * pipe) * list event :=
  let '(w, p) := s in
  match post p with
  | (Some m, p') => let '(w', o) := step w m in ((w', p'), o_evs o)
  | (None, p') => ((w, p'), [])
  end.

Fixpoint drain (n : nat) (s : world * pipe) : (world * pipe) * list event :=
  match n with
  | O => (s, [])
  | S n' => let '(s1, e1) := cl_advance s in let '(s2, e2) := drain n' s1 in (s2, e1 ++ e2)
  end.

Definition real_state (g : gst) : Prop := g <> VOID.

(* closed-loop histories: inputs to the audio layer interleaved with pipeline transitions *)
Inductive cin : Type := CIn (i : input) | CAdv.

Definition cl_do (s : world * pipe) (c : cin) : world * pipe :=
  match c with CIn i => fst (cl_step s i) | CAdv => fst (cl_advance s) end.

Definition cl_final (s : world * pipe) (cs : list cin) : world * pipe := fold_left cl_do cs s.

Definition cl_init : world * pipe := (init, mkP NULL NULL).

(* events of every closed-loop step, for the closed-loop correspondence *)
Definition cl_obs (s : world * pipe) (c : cin) : (world * pipe) * list event :=
  match c with
  | CIn i => let '(s', o) := cl_step s i in (s', o_evs o)
  | CAdv => cl_advance s
  end.

Fixpoint cl_events (s : world * pipe) (cs : list cin) : list (list event) * (world * pipe) :=
  match cs with
  | [] => ([], s)
  | c :: t => let '(s1, e) := cl_obs s c in let '(es, sf) := cl_events s1 t in (e :: es, sf)
  end.
