(* Structural lemmas about runs: logs of a longer history extend the logs of its prefixes,
   every logged event/command has a step of origin, and the simple history characterisations
   of target / pending_uri / state. *)
From Coq Require Import ZArith List Bool Lia.
From Common Require Import Res Str.
From Audio Require Import Model Spec.
Import ListNotations.
Open Scope Z_scope.

Lemma final_app w a b : final w (a ++ b) = final (final w a) b.
Proof. unfold final. apply fold_left_app. Qed.

Lemma final_cons w i t : final w (i :: t) = final (fst (step w i)) t.
Proof. reflexivity. Qed.

Lemma final_snoc w pre i : final w (pre ++ [i]) = fst (step (final w pre) i).
Proof. rewrite final_app. reflexivity. Qed.

Lemma trace_app : forall a w b, trace w (a ++ b) = trace w a ++ trace (final w a) b.
Proof.
  induction a as [|i a IH]; intros w b; [reflexivity|].
  cbn [app trace]. rewrite IH. reflexivity.
Qed.

Lemma outs_app w a b : outs w (a ++ b) = outs w a ++ outs (final w a) b.
Proof. unfold outs. rewrite trace_app, map_app. reflexivity. Qed.

Lemma all_events_app w a b : all_events w (a ++ b) = all_events w a ++ all_events (final w a) b.
Proof. unfold all_events. rewrite outs_app, flat_map_app. reflexivity. Qed.

Lemma all_cmds_app w a b : all_cmds w (a ++ b) = all_cmds w a ++ all_cmds (final w a) b.
Proof. unfold all_cmds. rewrite outs_app, flat_map_app. reflexivity. Qed.

Lemma all_events_cons w i t :
  all_events w (i :: t) = o_evs (snd (step w i)) ++ all_events (fst (step w i)) t.
Proof. reflexivity. Qed.

Lemma all_cmds_cons w i t :
  all_cmds w (i :: t) = o_cmds (snd (step w i)) ++ all_cmds (fst (step w i)) t.
Proof. reflexivity. Qed.

Lemma all_events_snoc w pre i :
  all_events w (pre ++ [i]) = all_events w pre ++ o_evs (snd (step (final w pre) i)).
Proof. rewrite all_events_app, all_events_cons. cbn. rewrite app_nil_r. reflexivity. Qed.

Lemma all_cmds_snoc w pre i :
  all_cmds w (pre ++ [i]) = all_cmds w pre ++ o_cmds (snd (step (final w pre) i)).
Proof. rewrite all_cmds_app, all_cmds_cons. cbn. rewrite app_nil_r. reflexivity. Qed.

(* every logged event was emitted by the step taken after some prefix of the history *)
Lemma event_origin : forall ins w e,
  In e (all_events w ins) ->
  exists pre i post, ins = pre ++ i :: post /\ In e (o_evs (snd (step (final w pre) i))).
Proof.
  induction ins as [|i t IH]; intros w e H; [contradiction|].
  rewrite all_events_cons in H. apply in_app_or in H. destruct H as [H|H].
  - exists [], i, t. split; [reflexivity|exact H].
  - destruct (IH _ _ H) as (pre & j & post & -> & Hin).
    exists (i :: pre), j, post. split; [reflexivity|exact Hin].
Qed.

Lemma cmd_origin : forall ins w c,
  In c (all_cmds w ins) ->
  exists pre i post, ins = pre ++ i :: post /\ In c (o_cmds (snd (step (final w pre) i))).
Proof.
  induction ins as [|i t IH]; intros w c H; [contradiction|].
  rewrite all_cmds_cons in H. apply in_app_or in H. destruct H as [H|H].
  - exists [], i, t. split; [reflexivity|exact H].
  - destruct (IH _ _ H) as (pre & j & post & -> & Hin).
    exists (i :: pre), j, post. split; [reflexivity|exact Hin].
Qed.

(* ---------------------------------------------------------------- field frames *)

Lemma on_state_changed_target w n p : target (fst (on_state_changed w n p)) = target w.
Proof.
  unfold on_state_changed. destruct (rewrite n p) as [n' p'].
  destruct (negb (gst_eqb p' VOID)); [reflexivity|].
  destruct (gst_eqb n' READY); [reflexivity|].
  destruct (image n'); [|reflexivity].
  destruct (image (target w)); reflexivity.
Qed.

Lemma on_buffering_target w pct m : target (fst (on_buffering w pct m)) = target w.
Proof.
  unfold on_buffering. destruct (rank (target w) <? rank PAUSED); [reflexivity|].
  destruct m as [[]|]; try reflexivity;
    cbn [fst]; destruct ((pct <? 10) && negb (buffering w)), (pct =? 100); reflexivity.
Qed.

Lemma on_tag_target w tl : target (fst (on_tag w tl)) = target w.
Proof.
  unfold on_tag. destruct (pending_tags w); [reflexivity|].
  destruct (tag_diff (tags w) (convert_taglist tl)). reflexivity.
Qed.

Lemma on_about_to_finish_target w same next : target (fst (on_about_to_finish w same next)) = target w.
Proof.
  unfold on_about_to_finish. destruct same; [reflexivity|].
  destruct (atf_cb (cfg w)); [|reflexivity]. destruct next as [[u fl]|]; reflexivity.
Qed.

Lemma on_source_setup_world w f l p h : fst (on_source_setup w f l p h) = w.
Proof. unfold on_source_setup. destruct (negb f); reflexivity. Qed.

Lemma step_target w i :
  target (fst (step w i)) = match request_of i with Some s => s | None => target w end.
Proof.
  destruct i; cbn [step request_of]; try reflexivity.
  - destruct from_playbin; [apply on_state_changed_target|reflexivity].
  - apply on_buffering_target.
  - apply on_tag_target.
  - apply on_about_to_finish_target.
  - rewrite on_source_setup_world. reflexivity.
Qed.

Theorem target_is_last_request : forall ins, target (final init ins) = last_request ins.
Proof.
  intros ins. unfold last_request. change NULL with (target init). generalize init.
  induction ins as [|i t IH]; intros w; [reflexivity|].
  rewrite final_cons, IH, step_target. reflexivity.
Qed.

Lemma on_state_changed_uri w n p : pending_uri (fst (on_state_changed w n p)) = pending_uri w.
Proof.
  unfold on_state_changed. destruct (rewrite n p) as [n' p'].
  destruct (negb (gst_eqb p' VOID)); [reflexivity|].
  destruct (gst_eqb n' READY); [reflexivity|].
  destruct (image n'); [|reflexivity].
  destruct (image (target w)); reflexivity.
Qed.

Lemma on_buffering_uri w pct m : pending_uri (fst (on_buffering w pct m)) = pending_uri w.
Proof.
  unfold on_buffering. destruct (rank (target w) <? rank PAUSED); [reflexivity|].
  destruct m as [[]|]; try reflexivity;
    cbn [fst]; destruct ((pct <? 10) && negb (buffering w)), (pct =? 100); reflexivity.
Qed.

Lemma on_tag_uri w tl : pending_uri (fst (on_tag w tl)) = pending_uri w.
Proof.
  unfold on_tag. destruct (pending_tags w); [reflexivity|].
  destruct (tag_diff (tags w) (convert_taglist tl)). reflexivity.
Qed.

Lemma step_pending_uri w i :
  pending_uri (fst (step w i)) = uri_after (atf_cb (cfg w)) (pending_uri w) i.
Proof.
  unfold uri_after.
  destruct i; cbn [step sets_uri]; try reflexivity.
  - destruct from_playbin; [apply on_state_changed_uri|reflexivity].
  - apply on_buffering_uri.
  - apply on_tag_uri.
  - unfold on_about_to_finish. destruct in_actor_thread; [reflexivity|].
    destruct next as [[u fl]|]; destruct (atf_cb (cfg w)); reflexivity.
  - rewrite on_source_setup_world. reflexivity.
Qed.

Lemma on_state_changed_cfg w n p : cfg (fst (on_state_changed w n p)) = cfg w.
Proof.
  unfold on_state_changed. destruct (rewrite n p) as [n' p'].
  destruct (negb (gst_eqb p' VOID)); [reflexivity|].
  destruct (gst_eqb n' READY); [reflexivity|].
  destruct (image n'); [|reflexivity].
  destruct (image (target w)); reflexivity.
Qed.

Lemma on_buffering_cfg w pct m : cfg (fst (on_buffering w pct m)) = cfg w.
Proof.
  unfold on_buffering. destruct (rank (target w) <? rank PAUSED); [reflexivity|].
  destruct m as [[]|]; try reflexivity;
    cbn [fst]; destruct ((pct <? 10) && negb (buffering w)), (pct =? 100); reflexivity.
Qed.

Lemma on_tag_cfg w tl : cfg (fst (on_tag w tl)) = cfg w.
Proof.
  unfold on_tag. destruct (pending_tags w); [reflexivity|].
  destruct (tag_diff (tags w) (convert_taglist tl)). reflexivity.
Qed.

(* the about-to-finish callback registration follows set_about_to_finish_callback only *)
Lemma step_atf_cb w i : atf_cb (cfg (fst (step w i))) = cb_after (atf_cb (cfg w)) i.
Proof.
  destruct i; cbn [step cb_after]; try reflexivity.
  - destruct from_playbin; [rewrite on_state_changed_cfg|]; reflexivity.
  - rewrite on_buffering_cfg. reflexivity.
  - rewrite on_tag_cfg. reflexivity.
  - unfold on_about_to_finish. destruct in_actor_thread; [reflexivity|].
    destruct (atf_cb (cfg w)) eqn:E; [|exact E].
    destruct next as [[u fl]|]; cbn; first [exact E | symmetry; exact E | reflexivity].
  - rewrite on_source_setup_world. reflexivity.
Qed.

Lemma uri_run : forall ins w,
  (atf_cb (cfg (final w ins)), pending_uri (final w ins)) =
  fold_left (fun s i => (cb_after (fst s) i, uri_after (fst s) (snd s) i)) ins
            (atf_cb (cfg w), pending_uri w).
Proof.
  induction ins as [|i t IH]; intros w; [reflexivity|].
  rewrite final_cons, IH, step_atf_cb, step_pending_uri. reflexivity.
Qed.

Theorem pending_uri_is_last_uri : forall ins, pending_uri (final init ins) = last_uri ins.
Proof.
  intros ins. pose proof (uri_run ins init) as H. apply (f_equal snd) in H. exact H.
Qed.

Theorem callback_flag_is_history : forall ins, atf_cb (cfg (final init ins)) = fst (uri_hist ins).
Proof.
  intros ins. pose proof (uri_run ins init) as H. apply (f_equal fst) in H. exact H.
Qed.

(* ---------------------------------------------------------------- the two playbin signals *)

Lemma on_about_to_finish_evs w s n : o_evs (snd (on_about_to_finish w s n)) = [].
Proof.
  unfold on_about_to_finish. destruct s; [reflexivity|].
  destruct (atf_cb (cfg w)); [|reflexivity]. destruct n as [[u fl]|]; reflexivity.
Qed.

Lemma on_source_setup_evs w f l p h : o_evs (snd (on_source_setup w f l p h)) = [].
Proof. unfold on_source_setup. destruct (negb f); reflexivity. Qed.

Lemma on_about_to_finish_st w s n : st (fst (on_about_to_finish w s n)) = st w.
Proof.
  unfold on_about_to_finish. destruct s; [reflexivity|].
  destruct (atf_cb (cfg w)); [|reflexivity]. destruct n as [[u fl]|]; reflexivity.
Qed.

Lemma on_about_to_finish_buffering w s n : buffering (fst (on_about_to_finish w s n)) = buffering w.
Proof.
  unfold on_about_to_finish. destruct s; [reflexivity|].
  destruct (atf_cb (cfg w)); [|reflexivity]. destruct n as [[u fl]|]; reflexivity.
Qed.

Lemma on_about_to_finish_tags w s n : tags (fst (on_about_to_finish w s n)) = tags w.
Proof.
  unfold on_about_to_finish. destruct s; [reflexivity|].
  destruct (atf_cb (cfg w)); [|reflexivity]. destruct n as [[u fl]|]; reflexivity.
Qed.

(* about-to-finish never tells the pipeline to change state *)
Lemma on_about_to_finish_no_set_state w s n c :
  In c (o_cmds (snd (on_about_to_finish w s n))) -> forall g, c <> CSetState g.
Proof.
  unfold on_about_to_finish. destruct s; [intros []|].
  destruct (atf_cb (cfg w)); [|intros []].
  destruct n as [[u fl]|]; cbn; intros H g; repeat (destruct H as [H|H]; [subst c; discriminate|]); contradiction.
Qed.

Lemma on_source_setup_no_set_state w f l p h c :
  In c (o_cmds (snd (on_source_setup w f l p h))) -> forall g, c <> CSetState g.
Proof.
  unfold on_source_setup. destruct (negb f); [intros []|]. cbn.
  destruct (src_cb (cfg w)), (live (cfg w) && l), (p && h); cbn;
    intros H g; repeat (destruct H as [H|H]; [subst c; discriminate|]); contradiction.
Qed.
