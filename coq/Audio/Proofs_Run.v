(* Structural lemmas about runs: logs of a longer history extend the logs of its prefixes,
   every logged event/command has a step of origin, and the simple history characterisations
   of target / pending_uri / state. *)
From Coq Require Import ZArith List Bool Lia.
From Common Require Import Res Str.
From Audio Require Import Model Spec.
Import ListNotations.
Open Scope Z_scope.

Lemma final_app w a b : final w (a ++ b) = final (final w a) b.
Proof. unfold final. apply fold_left_app. Qed.

Lemma final_cons w i t : final w (i :: t) = final (fst (step w i)) t.
Proof. reflexivity. Qed.

Lemma final_snoc w pre i : final w (pre ++ [i]) = fst (step (final w pre) i).
Proof. rewrite final_app. reflexivity. Qed.

Lemma trace_app : forall a w b, trace w (a ++ b) = trace w a ++ trace (final w a) b.
Proof.
  induction a as [|i a IH]; intros w b; [reflexivity|].
  cbn [app trace]. rewrite IH. reflexivity.
Qed.

Lemma outs_app w a b : outs w (a ++ b) = outs w a ++ outs (final w a) b.
Proof. unfold outs. rewrite trace_app, map_app. reflexivity. Qed.

Lemma all_events_app w a b : all_events w (a ++ b) = all_events w a ++ all_events (final w a) b.
Proof. unfold all_events. rewrite outs_app, flat_map_app. reflexivity. Qed.

Lemma all_cmds_app w a b : all_cmds w (a ++ b) = all_cmds w a ++ all_cmds (final w a) b.
Proof. unfold all_cmds. rewrite outs_app, flat_map_app. reflexivity. Qed.

Lemma all_events_cons w i t :
  all_events w (i :: t) = o_evs (snd (step w i)) ++ all_events (fst (step w i)) t.
Proof. reflexivity. Qed.

Lemma all_cmds_cons w i t :
  all_cmds w (i :: t) = o_cmds (snd (step w i)) ++ all_cmds (fst (step w i)) t.
Proof. reflexivity. Qed.

Lemma all_events_snoc w pre i :
  all_events w (pre ++ [i]) = all_events w pre ++ o_evs (snd (step (final w pre) i)).
Proof. rewrite all_events_app, all_events_cons. cbn. rewrite app_nil_r. reflexivity. Qed.

Lemma all_cmds_snoc w pre i :
  all_cmds w (pre ++ [i]) = all_cmds w pre ++ o_cmds (snd (step (final w pre) i)).
Proof. rewrite all_cmds_app, all_cmds_cons. cbn. rewrite app_nil_r. reflexivity. Qed.

(* every logged event was emitted by the step taken after some prefix of the history *)
Lemma event_origin : forall ins w e,
  In e (all_events w ins) ->
  exists pre i post, ins = pre ++ i :: post /\ In e (o_evs (snd (step (final w pre) i))).
Proof.
  induction ins as [|i t IH]; intros w e H; [contradiction|].
  rewrite all_events_cons in H. apply in_app_or in H. destruct H as [H|H].
  - exists [], i, t. split; [reflexivity|exact H].
  - destruct (IH _ _ H) as (pre & j & post & -> & Hin).
    exists (i :: pre), j, post. split; [reflexivity|exact Hin].
Qed.

Lemma cmd_origin : forall ins w c,
  In c (all_cmds w ins) ->
  exists pre i post, ins = pre ++ i :: post /\ In c (o_cmds (snd (step (final w pre) i))).
Proof.
  induction ins as [|i t IH]; intros w c H; [contradiction|].
  rewrite all_cmds_cons in H. apply in_app_or in H. destruct H as [H|H].
  - exists [], i, t. split; [reflexivity|exact H].
  - destruct (IH _ _ H) as (pre & j & post & -> & Hin).
    exists (i :: pre), j, post. split; [reflexivity|exact Hin].
Qed.

(* ---------------------------------------------------------------- field frames *)

Lemma on_state_changed_target w n p : target (fst (on_state_changed w n p)) = target w.
Proof.
  unfold on_state_changed. destruct (rewrite n p) as [n' p'].
  destruct (negb (gst_eqb p' VOID)); [reflexivity|].
  destruct (gst_eqb n' READY); [reflexivity|].
  destruct (image n'); [|reflexivity].
  destruct (image (target w)); reflexivity.
Qed.

Lemma on_buffering_target w pct m : target (fst (on_buffering w pct m)) = target w.
Proof.
  unfold on_buffering. destruct (rank (target w) <? rank PAUSED); [reflexivity|].
  destruct m as [[]|]; try reflexivity;
    cbn [fst]; destruct ((pct <? 10) && negb (buffering w)), (pct =? 100); reflexivity.
Qed.

Lemma on_tag_target w tl : target (fst (on_tag w tl)) = target w.
Proof.
  unfold on_tag. destruct (pending_tags w); [reflexivity|].
  destruct (tag_diff (tags w) (convert_taglist tl)). reflexivity.
Qed.

Lemma step_target w i :
  target (fst (step w i)) = match request_of i with Some s => s | None => target w end.
Proof.
  destruct i; cbn [step request_of]; try reflexivity.
  - destruct from_playbin; [apply on_state_changed_target|reflexivity].
  - apply on_buffering_target.
  - apply on_tag_target.
Qed.

Theorem target_is_last_request : forall ins, target (final init ins) = last_request ins.
Proof.
  intros ins. unfold last_request. change NULL with (target init). generalize init.
  induction ins as [|i t IH]; intros w; [reflexivity|].
  rewrite final_cons, IH, step_target. reflexivity.
Qed.

Lemma on_state_changed_uri w n p : pending_uri (fst (on_state_changed w n p)) = pending_uri w.
Proof.
  unfold on_state_changed. destruct (rewrite n p) as [n' p'].
  destruct (negb (gst_eqb p' VOID)); [reflexivity|].
  destruct (gst_eqb n' READY); [reflexivity|].
  destruct (image n'); [|reflexivity].
  destruct (image (target w)); reflexivity.
Qed.

Lemma on_buffering_uri w pct m : pending_uri (fst (on_buffering w pct m)) = pending_uri w.
Proof.
  unfold on_buffering. destruct (rank (target w) <? rank PAUSED); [reflexivity|].
  destruct m as [[]|]; try reflexivity;
    cbn [fst]; destruct ((pct <? 10) && negb (buffering w)), (pct =? 100); reflexivity.
Qed.

Lemma on_tag_uri w tl : pending_uri (fst (on_tag w tl)) = pending_uri w.
Proof.
  unfold on_tag. destruct (pending_tags w); [reflexivity|].
  destruct (tag_diff (tags w) (convert_taglist tl)). reflexivity.
Qed.

Lemma step_pending_uri w i :
  pending_uri (fst (step w i)) = match i with SetUri u _ => Some u | _ => pending_uri w end.
Proof.
  destruct i; cbn [step]; try reflexivity.
  - destruct from_playbin; [apply on_state_changed_uri|reflexivity].
  - apply on_buffering_uri.
  - apply on_tag_uri.
Qed.

Theorem pending_uri_is_last_uri : forall ins, pending_uri (final init ins) = last_uri ins.
Proof.
  intros ins. unfold last_uri. change (@None Z) with (pending_uri init). generalize init.
  induction ins as [|i t IH]; intros w; [reflexivity|].
  rewrite final_cons, IH, step_pending_uri. destruct i; reflexivity.
Qed.
