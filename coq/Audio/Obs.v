(* Observations compared by the correspondence check (harness/c06.py): what one step of the
   real Audio object showed, in canonical form, and the same projection of the model.

   Compared per step: return value / exception class; AudioListener events with payloads
   (tags_changed as the SORTED key list: the property speaks of the set of keys, not of dict
   order); set_state / uri / seek commands received by the fake playbin/queue; Audio.state, _target_state,
   _buffering (named by the property's anchors); get_current_tags() as a key-sorted list. *)
From Coq Require Import ZArith List Bool.
From Common Require Import Res Str.
From Audio Require Import Model.
Import ListNotations.
Open Scope Z_scope.

(* insertion sort on keys *)
Fixpoint insert_z (x : Z) (l : list Z) : list Z :=
  match l with
  | [] => [x]
  | y :: t => if x <=? y then x :: l else y :: insert_z x t
  end.
Definition sort_z (l : list Z) : list Z := fold_right insert_z [] l.

Fixpoint insert_kv (x : key * val) (l : dict) : dict :=
  match l with
  | [] => [x]
  | y :: t => if fst x <=? fst y then x :: l else y :: insert_kv x t
  end.
Definition sort_dict (d : dict) : dict := fold_right insert_kv [] d.

Inductive oevent : Type :=
| OState (old new : pstate) (tgt : option pstate)
| OStream (u : option Z)
| OTags (keys : list Z)
| OEos
| OPosition (ms : Z).

Inductive oret : Type :=
| ORaise | ORaiseAudio | ONone | OBool (b : bool) | OTagsRet (d : dict) | OPos (ms : Z).

Record obs : Type := mkObs {
  b_ret : oret;
  b_evs : list oevent;
  b_cmds : list cmd;
  b_st : pstate;
  b_target : gst;
  b_buf : bool;
  b_tags : option dict    (* None: get_current_tags() unchanged by this step *)
}.

Definition obs_event (e : event) : oevent :=
  match e with
  | EvState o n t => OState o n t
  | EvStream u => OStream u
  | EvTags items => OTags (sort_z (map fst items))
  | EvEos => OEos
  | EvPosition ms => OPosition ms
  end.

Definition obs_ret (r : res exn retv) : oret :=
  match r with
  | Ok RNone => ONone
  | Ok (RBool b) => OBool b
  | Ok (RTags d) => OTagsRet (sort_dict d)
  | Ok (RPos ms) => OPos ms
  | Raise KeyError => ORaise
  | Raise AudioException => ORaiseAudio
  | Diverge => ORaise
  end.

Definition dict_eqb (a b : dict) : bool :=
  list_eqb (fun x y => (fst x =? fst y) && val_eqb (snd x) (snd y)) a b.

Definition opstate_eqb := opt_eqb pstate_eqb.

Definition oevent_eqb (a b : oevent) : bool :=
  match a, b with
  | OState o n t, OState o' n' t' => pstate_eqb o o' && pstate_eqb n n' && opstate_eqb t t'
  | OStream u, OStream u' => opt_eqb Z.eqb u u'
  | OTags k, OTags k' => list_eqb Z.eqb k k'
  | OEos, OEos => true
  | OPosition m, OPosition m' => m =? m'
  | _, _ => false
  end.

Definition cmd_eqb (a b : cmd) : bool :=
  match a, b with
  | CSetState s, CSetState s' => gst_eqb s s'
  | CFlags f, CFlags f' => f =? f'
  | CUri u, CUri u' => u =? u'
  | CSeek c, CSeek c' => c =? c'
  | CCallAtf, CCallAtf | CCallSource, CCallSource | CSetLive, CSetLive | CProxy, CProxy => true
  | _, _ => false
  end.

Definition oret_eqb (a b : oret) : bool :=
  match a, b with
  | ORaise, ORaise => true
  | ORaiseAudio, ORaiseAudio => true
  | OPos x, OPos y => x =? y
  | ONone, ONone => true
  | OBool x, OBool y => Bool.eqb x y
  | OTagsRet d, OTagsRet d' => dict_eqb d d'
  | _, _ => false
  end.

(* Commands compared: set_state, the uri property and seeks.  The playbin "flags" property
   (download buffering) is modelled but not compared: the property does not speak about it,
   and a reordering of the two set_property calls in set_uri would be harmless. *)
Definition compared_cmd (c : cmd) : bool := match c with CFlags _ => false | _ => true end.

(* one model step against one observed step *)
Definition step_ok (w : world) (i : input) (b : obs) : bool :=
  let '(w', o) := step w i in
  oret_eqb (obs_ret (o_ret o)) (b_ret b)
  && list_eqb oevent_eqb (map obs_event (o_evs o)) (b_evs b)
  && list_eqb cmd_eqb (filter compared_cmd (o_cmds o)) (b_cmds b)
  && pstate_eqb (st w') (b_st b)
  && gst_eqb (target w') (b_target b)
  && Bool.eqb (buffering w') (b_buf b)
  && match b_tags b with
     | None => dict_eqb (sort_dict (tags w')) (sort_dict (tags w))
     | Some d => dict_eqb (sort_dict (tags w')) d
     end.

Fixpoint run_ok (w : world) (ins : list input) (bs : list obs) : bool :=
  match ins, bs with
  | [], [] => true
  | i :: ins', b :: bs' => step_ok w i b && run_ok (fst (step w i)) ins' bs'
  | _, _ => false
  end.

Definition case_ok (c : list input * list obs) : bool := run_ok init (fst c) (snd c).

(* Index of the first step at which model and observation part (for shrinking/diagnosis). *)
Fixpoint first_bad (w : world) (ins : list input) (bs : list obs) (n : Z) : Z :=
  match ins, bs with
  | [], [] => -1
  | i :: ins', b :: bs' => if step_ok w i b then first_bad (fst (step w i)) ins' bs' (n + 1) else n
  | _, _ => n
  end.

(* short names used by the generated case files *)
Definition S_ := StateChanged true.
Definition X_ := StateChanged false.
Definition B_ (r : oret) (e : list oevent) (c : list cmd) (s : pstate) (t : gst) (b : bool)
  (g : option dict) : obs := mkObs r e c s t b g.
