(* Closed-loop consequences under the well-behaved-pipeline specification of Pipeline.v. *)
From Coq Require Import ZArith List Bool Lia.
From Common Require Import Res Str.
From Audio Require Import Model Spec Pipeline Proofs_Run Proofs_Buffering.
Import ListNotations.
Open Scope Z_scope.

(* three transitions always suffice *)
Theorem wb_drain_reaches_commanded : forall w p,
  real_state (cur p) -> real_state (want p) ->
  cur (snd (fst (drain 3 (w, p)))) = want p /\ want (snd (fst (drain 3 (w, p)))) = want p.
Proof.
  intros [s tg b tgs pt pu cf] [c t] Hc Ht. unfold real_state in *. cbn [cur want] in *.
  destruct c, t; try congruence; destruct tg; lazy; auto.
Qed.

(* Going UP to PAUSED or PLAYING (or down from PLAYING to PAUSED): once the pipeline has
   settled, Audio.state is the requested state and the last thing reported is
   state_changed(new = requested, target = None). *)
Theorem wb_settles_on_requested : forall w p s,
  real_state (cur p) -> want p = target w -> cur p <> want p ->
  (want p = PAUSED \/ want p = PLAYING) -> image (want p) = Some s ->
  st (fst (fst (drain 3 (w, p)))) = s /\
  exists old before, snd (drain 3 (w, p)) = before ++ [EvState old s None].
Proof.
  intros [s0 tg b tgs pt pu cf] [c t] s Hc Ht Hne Hw Hs. unfold real_state in *.
  cbn [cur want target] in *. subst t.
  destruct tg; destruct Hw as [Hw|Hw]; try discriminate;
    cbn in Hs; inversion Hs; subst s;
    destruct c; try congruence; lazy;
    (split; [reflexivity|]);
    first [ eexists; exists []; reflexivity
          | eexists; eexists [_]; reflexivity
          | eexists; eexists [_; _]; reflexivity ].
Qed.

(* Going DOWN to NULL from PAUSED or PLAYING: stopped is reported, followed by
   stream_changed(None), thanks to the READY/pending-NULL rewrite. *)
Theorem wb_stop_is_reported : forall w p,
  want p = NULL -> target w = NULL -> (cur p = PAUSED \/ cur p = PLAYING) ->
  st (fst (fst (drain 3 (w, p)))) = Stopped /\
  snd (drain 3 (w, p)) = [EvState (st w) Stopped None; EvStream None].
Proof.
  intros [s0 tg b tgs pt pu cf] [c t] Hw Ht Hc. cbn [cur want target st] in *. subst t tg.
  destruct Hc as [->| ->]; lazy; split; reflexivity.
Qed.

(* ... but from READY (i.e. after prepare_change settled) the only transition left is the
   unposted READY->NULL: nothing is reported and Audio.state keeps its old value.  This is a
   consequence of the ENVIRONMENT rule "READY->NULL is never posted"; whether a real playbin
   behaves so cannot be checked here. *)
Theorem wb_stop_from_ready_is_silent : forall w p,
  want p = NULL -> cur p = READY ->
  drain 3 (w, p) = ((w, mkP NULL NULL), []).
Proof. intros w [c t] Hw Hc. cbn [cur want] in *. subst. reflexivity. Qed.

(* a track change (READY requested) is never reported, from anywhere *)
Theorem wb_prepare_change_is_silent : forall w p,
  real_state (cur p) -> want p = READY -> target w = READY ->
  snd (drain 3 (w, p)) = [].
Proof.
  intros [s0 tg b tgs pt pu cf] [c t] Hc Hw Ht. unfold real_state in *.
  cbn [cur want target] in *. subst t tg.
  destruct c; try congruence; lazy; reflexivity.
Qed.

(* the pipeline's commanded state follows the audio layer's last set_state *)
Theorem obey_last_command : forall w p i,
  want (snd (fst (cl_step (w, p) i))) =
  match last_set (o_cmds (snd (step w i))) with Some s => s | None => want p end.
Proof.
  intros w p i. unfold cl_step. destruct (step w i) as [w' o]. cbn. unfold obey.
  destruct (last_set (o_cmds o)); reflexivity.
Qed.

(* ---------------------------------------------------------------- closed-loop invariant *)

Lemma update_last_from lc cs :
  update_last lc cs = match update_last None cs with Some s => Some s | None => lc end.
Proof.
  induction cs as [|c t IH] using rev_ind; [reflexivity|].
  rewrite !update_last_app. unfold update_last at 1 3. cbn [fold_left].
  destruct c; try exact IH. reflexivity.
Qed.

Lemma obey_update_last p cs :
  want (obey p cs) = match update_last (Some (want p)) cs with Some s => s | None => want p end.
Proof.
  unfold obey, last_set. rewrite (update_last_from (Some (want p))).
  destruct (update_last None cs); reflexivity.
Qed.

Lemma update_last_some a cs : exists s, update_last (Some a) cs = Some s.
Proof.
  rewrite update_last_from. destruct (update_last None cs); eauto.
Qed.

Lemma cl_step_agrees w p i :
  agrees w (Some (want p)) ->
  agrees (fst (fst (cl_step (w, p) i))) (Some (want (snd (fst (cl_step (w, p) i))))).
Proof.
  intros A. pose proof (step_agrees w (Some (want p)) i A) as A'.
  unfold cl_step. destruct (step w i) as [w' o] eqn:E. cbn [fst snd] in *.
  rewrite obey_update_last. destruct (update_last_some (want p) (o_cmds o)) as [s Hs].
  rewrite Hs in *. exact A'.
Qed.

Lemma post_is_state_changed p m p' : post p = (Some m, p') -> exists o n q, m = StateChanged true o n q.
Proof.
  unfold post. destruct (gst_eqb (cur p) (want p)); [discriminate|].
  destruct (gst_eqb (toward (cur p) (want p)) NULL); [discriminate|].
  intros H. inversion H. eauto.
Qed.

Lemma post_want p : want (snd (post p)) = want p.
Proof.
  unfold post. destruct (gst_eqb (cur p) (want p)); [reflexivity|].
  destruct (gst_eqb (toward (cur p) (want p)) NULL); reflexivity.
Qed.

Lemma cl_advance_agrees w p :
  agrees w (Some (want p)) ->
  agrees (fst (fst (cl_advance (w, p)))) (Some (want (snd (fst (cl_advance (w, p)))))).
Proof.
  intros A. unfold cl_advance. pose proof (post_want p) as PW.
  destruct (post p) as [[m|] p'] eqn:E; cbn [snd] in PW.
  - destruct (post_is_state_changed _ _ _ E) as (o & n & q & ->).
    pose proof (step_agrees w (Some (want p)) (StateChanged true o n q) A) as A'.
    rewrite (messages_issue_no_commands w (StateChanged true o n q) I) in A'.
    destruct (step w (StateChanged true o n q)) as [w' o'] eqn:S. cbn [fst snd] in *.
    rewrite PW. exact A'.
  - cbn [fst snd]. rewrite PW. exact A.
Qed.

(* In every closed-loop history the state the pipeline is heading for is the state the
   client requested - except while buffering holds a PLAYING request at PAUSED (latch set). *)
Theorem wb_pipeline_follows_request : forall cs,
  let s := cl_final cl_init cs in
  want (snd s) = target (fst s) \/
  (target (fst s) = PLAYING /\ want (snd s) = PAUSED /\ buffering (fst s) = true).
Proof.
  intros cs. cbn zeta.
  assert (G : forall cs s, agrees (fst s) (Some (want (snd s))) ->
              agrees (fst (cl_final s cs)) (Some (want (snd (cl_final s cs))))).
  { induction cs0 as [|c t IH]; intros [w p] A; [exact A|].
    unfold cl_final. cbn [fold_left]. apply IH. destruct c; cbn [cl_do].
    - apply cl_step_agrees, A.
    - apply cl_advance_agrees, A. }
  apply (G cs cl_init). left. reflexivity.
Qed.

(* non-vacuity: a full closed-loop session *)
Example wb_session :
  let s0 := (init, mkP NULL NULL) in
  let '(s1, _) := cl_step s0 (PrepareChange true) in
  let '(s2, _) := cl_step s1 (SetUri 1 plain) in
  let '(s3, _) := cl_step s2 (Start true) in
  let '(s4, e4) := drain 3 s3 in
  let '(s5, _) := cl_step s4 (Stop true) in
  let '(s6, e6) := drain 3 s5 in
  e4 = [EvState Stopped Playing None] /\ e6 = [EvState Playing Stopped None; EvStream None] /\
  cur (snd s6) = NULL.
Proof. vm_compute. auto. Qed.
