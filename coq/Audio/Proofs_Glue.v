(* The code around the event core: message dispatch for the ignored bus-message classes, the
   about-to-finish thread guard, source-setup (live mode, proxy), position queries, and the
   corollaries that tie reports to the last reached state and rule out a stuck pause. *)
From Coq Require Import ZArith List Bool Lia.
From Common Require Import Res Str.
From Audio Require Import Model Spec Proofs_Run Proofs_State Proofs_Buffering.
Import ListNotations.
Open Scope Z_scope.

(* ---------------------------------------------------------------- dispatch *)

(* WARNING, ASYNC_DONE, ELEMENT (missing plugin or not) and unknown message types only log *)
Theorem ignored_messages : forall w i,
  match i with Warning | AsyncDone | Element _ | Other => True | _ => False end ->
  step w i = (w, quiet).
Proof. intros w i H. destruct i; try contradiction; reflexivity. Qed.

(* a STATE_CHANGED of another element is dropped before any parsing *)
Theorem foreign_state_changed_ignored : forall w o n p,
  step w (StateChanged false o n p) = (w, quiet).
Proof. reflexivity. Qed.

(* ---------------------------------------------------------------- reports vs. last reached *)

(* every state_changed carries old_state = the state reached before the message and
   new_state = the state reached with it (last_reached is a function of the inputs only) *)
Theorem reports_match_last_reached : forall pre i old new tgt,
  In (EvState old new tgt) (o_evs (snd (step (final init pre) i))) ->
  old = last_reached pre /\ new = last_reached (pre ++ [i]).
Proof.
  intros pre i old new tgt H.
  destruct (reports_sound _ _ _ _ _ H) as (o & n & p & _ & _ & _ & _ & Ho & Hn).
  rewrite state_is_last_reached in Ho, Hn. split; [exact Ho|symmetry; exact Hn].
Qed.

(* ---------------------------------------------------------------- no stuck pause *)

(* whenever the latch is clear, the pipeline was last told exactly what the client requested;
   in particular a PLAYING request is not left paused by the buffering logic *)
Theorem no_stuck_pause : forall ins,
  buffering (final init ins) = false ->
  match last_set (all_cmds init ins) with
  | Some c => c = last_request ins
  | None => last_request ins = NULL
  end.
Proof.
  intros ins B. pose proof (buffering_never_overrides ins) as H.
  destruct (last_set (all_cmds init ins)); [|exact H].
  destruct H as [H|(_ & _ & H)]; [exact H|congruence].
Qed.

(* after a 100 % BUFFERING message (not a live source) under a PLAYING request the pipeline
   has been told to play and the latch is clear, whatever happened before *)
Theorem resumed_after_full : forall pre m,
  m <> Some BLive -> last_request pre = PLAYING ->
  last_set (all_cmds init (pre ++ [Buffering 100 m])) = Some PLAYING /\
  buffering (final init (pre ++ [Buffering 100 m])) = false.
Proof.
  intros pre m L R. rewrite <- target_is_last_request in R.
  destruct (buffering_full_resumes (final init pre) m R L) as [C B].
  rewrite all_cmds_snoc, final_snoc. split; [|exact B].
  unfold last_set in *. rewrite update_last_app.
  (* the step's own commands end with PLAYING, whatever came before *)
  cbn [step] in *. unfold on_buffering in *. rewrite R in *. cbn in *.
  destruct m as [[]|]; try congruence; cbn in *;
    destruct (negb (buffering (final init pre))); cbn in *; reflexivity.
Qed.

(* ---------------------------------------------------------------- about-to-finish *)

(* the thread guard: delivered inside the actor thread the signal does nothing at all (the
   callback would block on the actor itself) *)
Theorem about_to_finish_guard : forall w next, step w (AboutToFinish true next) = (w, quiet).
Proof. reflexivity. Qed.

Theorem about_to_finish_without_callback : forall w same next,
  atf_cb (cfg w) = false -> step w (AboutToFinish same next) = (w, quiet).
Proof.
  intros w same next H. cbn [step]. unfold on_about_to_finish. rewrite H. destruct same; reflexivity.
Qed.

(* otherwise the registered callback runs, and its set_uri has exactly the effect of the call *)
Theorem about_to_finish_runs_callback : forall w u fl,
  atf_cb (cfg w) = true ->
  fst (step w (AboutToFinish false (Some (u, fl)))) = fst (step w (SetUri u fl)) /\
  o_cmds (snd (step w (AboutToFinish false (Some (u, fl))))) = CCallAtf :: o_cmds (snd (step w (SetUri u fl))) /\
  o_evs (snd (step w (AboutToFinish false (Some (u, fl))))) = [].
Proof.
  intros w u fl H. cbn [step]. unfold on_about_to_finish. rewrite H. cbn. auto.
Qed.

(* the registration is exactly the last set_about_to_finish_callback *)
Theorem callback_registered_is_history : forall ins,
  atf_cb (cfg (final init ins)) = fst (uri_hist ins).
Proof. exact callback_flag_is_history. Qed.

(* about-to-finish never changes the requested or reported state, the latch or the current
   tags, and never tells the pipeline to change state *)
Theorem about_to_finish_frame : forall w same next,
  let w' := fst (step w (AboutToFinish same next)) in
  st w' = st w /\ target w' = target w /\ buffering w' = buffering w /\ tags w' = tags w /\
  (forall c, In c (o_cmds (snd (step w (AboutToFinish same next)))) -> forall g, c <> CSetState g).
Proof.
  intros w same next. cbn [step]. repeat split.
  - apply on_about_to_finish_st.
  - apply on_about_to_finish_target.
  - apply on_about_to_finish_buffering.
  - apply on_about_to_finish_tags.
  - intros c H. apply (on_about_to_finish_no_set_state _ _ _ _ H).
Qed.

(* ---------------------------------------------------------------- source-setup *)

Lemma step_live w i :
  live (cfg (fst (step w i))) =
  match flags_of (atf_cb (cfg w)) i with Some fl => f_live fl | None => live (cfg w) end.
Proof.
  destruct i; cbn [step flags_of]; try reflexivity.
  - destruct from_playbin; [rewrite on_state_changed_cfg|]; reflexivity.
  - rewrite on_buffering_cfg. reflexivity.
  - rewrite on_tag_cfg. reflexivity.
  - unfold on_about_to_finish. destruct in_actor_thread; [reflexivity|].
    destruct next as [[u fl]|]; destruct (atf_cb (cfg w)); reflexivity.
  - rewrite on_source_setup_world. reflexivity.
Qed.

Lemma live_run : forall ins w,
  (atf_cb (cfg (final w ins)), live (cfg (final w ins))) =
  fold_left (fun s i => (cb_after (fst s) i,
                         match flags_of (fst s) i with Some fl => f_live fl | None => snd s end))
            ins (atf_cb (cfg w), live (cfg w)).
Proof.
  induction ins as [|i t IH]; intros w; [reflexivity|].
  rewrite final_cons, IH, step_atf_cb, step_live. reflexivity.
Qed.

Theorem live_is_last_set_uri : forall ins, live (cfg (final init ins)) = last_live ins.
Proof.
  intros ins. pose proof (live_run ins init) as H. apply (f_equal snd) in H. exact H.
Qed.

(* what source-setup does to the new source element: the callback runs iff registered, live
   mode is enabled iff the last set_uri asked for it and the source supports it, the proxy is
   configured iff the source has a proxy property and a proxy host is configured; a source
   without factory raises AudioException before any of it *)
Theorem source_setup_commands : forall pre l p h,
  let w := final init pre in
  o_cmds (snd (step w (SourceSetup true l p h))) =
    (if src_cb (cfg w) then [CCallSource] else [])
    ++ (if last_live pre && l then [CSetLive] else [])
    ++ (if p && h then [CProxy] else []) /\
  fst (step w (SourceSetup true l p h)) = w.
Proof.
  intros pre l p h. cbn zeta. cbn [step]. unfold on_source_setup. cbn [negb fst snd o_cmds].
  rewrite live_is_last_set_uri. split; reflexivity.
Qed.

(* ---------------------------------------------------------------- positions *)

(* get_position: milliseconds (floor) of the pipeline's answer, 0 when the query fails *)
Theorem get_position_spec : forall w ok pos,
  step w (GetPosition ok pos) = (w, mkOut (Ok (RPos (if ok then pos / 1000000 else 0))) [] []).
Proof. reflexivity. Qed.

(* millisecond_to_clocktime and clocktime_to_millisecond are inverse on milliseconds: a seek
   to ms, answered back by the pipeline, reads as ms *)
Theorem seek_position_roundtrip : forall w ms ok,
  o_cmds (snd (step w (SetPosition ms ok))) = [CSeek (ms * MSECOND)] /\
  o_ret (snd (step w (GetPosition true (ms * MSECOND)))) = Ok (RPos ms).
Proof.
  intros w ms ok. split; [reflexivity|]. cbn [step snd o_ret].
  rewrite Z.div_mul; [reflexivity|]. unfold MSECOND. lia.
Qed.

(* gapless change: the URI set by the about-to-finish callback is the one announced *)
Example gapless_announced :
  announced (all_events init
    [SetAtfCallback true; PrepareChange true; SetUri 1 plain; Start true; StreamStart;
     AboutToFinish true (Some (9, plain));           (* inside the actor thread: refused *)
     AboutToFinish false (Some (2, plain)); Tag [(0, [Keep 4])]; StreamStart]) = [1; 2].
Proof. vm_compute. reflexivity. Qed.
