(* T6: the software mixer reads back exactly the volume (0..100) and mute last set. *)
From Coq Require Import ZArith List Bool Lia.
From Coq Require Import Floats.PrimFloat.
From Audio Require Import Mixer.
Import ListNotations.
Open Scope Z_scope.

Definition in_range (v : Z) : Prop := 0 <= v <= 100.

(* keep the float expressions folded in goals *)
Arguments get_val : simpl never.
Arguments set_val : simpl never.

Lemma volumes_spec v : In v volumes <-> in_range v.
Proof.
  unfold volumes, in_range. rewrite in_map_iff. split.
  - intros (n & <- & H). apply in_seq in H. lia.
  - intros H. exists (Z.to_nat v). split; [lia|]. apply in_seq. lia.
Qed.

(* the finite statement: all 101 volumes, computed with the kernel's binary64 primitives *)
Lemma roundtrip_all : forallb (fun v => get_val (set_val v) =? v) volumes = true.
Proof. vm_compute. reflexivity. Qed.

Theorem volume_roundtrip : forall v, in_range v -> get_val (set_val v) = v.
Proof.
  intros v H. apply volumes_spec in H.
  pose proof (proj1 (forallb_forall _ _) roundtrip_all v H) as E.
  apply Z.eqb_eq, E.
Qed.

(* set(get(x)) leaves the element bit-identical: the save/restore in Audio.set_uri is a no-op *)
Corollary volume_restore_is_identity : forall v, in_range v -> set_val (get_val (set_val v)) = set_val v.
Proof. intros v H. rewrite volume_roundtrip by exact H. reflexivity. Qed.

(* what integer arithmetic would do (the classic slip `volume // 100`): not a round trip *)
Lemma integer_division_refuted : exists v, in_range v /\ get_val (f_of_Z (v / 100)) <> v.
Proof. exists 50. split; [unfold in_range; lia|]. vm_compute. discriminate. Qed.

(* ---------------------------------------------------------------- the machine *)

Definition wf (m : mixer) : Prop :=
  (exists v, in_range v /\ e_vol m = set_val v) /\ (forall v, init_vol m = Some v -> in_range v).

Definition op_wf (o : mop) : Prop := match o with MSetVolume v => in_range v | _ => True end.

Lemma mixer0_wf : wf mixer0.
Proof.
  split; [|discriminate]. exists 100. split; [unfold in_range; lia|]. vm_compute. reflexivity.
Qed.

Lemma wf_restore m : wf m -> set_val (get_val (e_vol m)) = e_vol m.
Proof. intros [(v & R & E) _]. rewrite E. apply volume_restore_is_identity, R. Qed.

Lemma step_wf m o : wf m -> op_wf o -> wf (fst (mstep m o)).
Proof.
  intros W O. pose proof W as [(v0 & R0 & E0) I0].
  destruct o; cbn [mstep op_wf] in *.
  - (* MSetup *)
    destruct (init_vol m) as [v|] eqn:IV; destruct (init_mute m) as [b|]; cbn;
      (split; [|cbn; rewrite ?IV; intros v' H; inversion H; subst; apply I0; reflexivity || discriminate]);
      cbn; eauto.
  - split; cbn; [eauto|exact I0].
  - destruct (attached m); cbn; split; cbn; eauto.
    intros v' H. inversion H. subst. exact O.
  - exact W.
  - destruct (attached m); cbn; split; cbn; eauto.
  - exact W.
  - destruct (has_element m); cbn; [|exact W]. split; cbn; [|exact I0].
    exists v0. split; [exact R0|]. rewrite E0. apply volume_restore_is_identity, R0.
Qed.

Theorem run_wf : forall ops m, wf m -> Forall op_wf ops -> wf (mfinal m ops).
Proof.
  induction ops as [|o t IH]; intros m W F; [exact W|].
  inversion F; subst. apply IH; [apply step_wf; assumption|assumption].
Qed.

Lemma mfinal_cons m o t : mfinal m (o :: t) = mfinal (fst (mstep m o)) t.
Proof. reflexivity. Qed.

(* set_volume on an attached mixer: accepted, and the volume_changed event carries v *)
Theorem set_volume_reports : forall m v,
  attached m = true -> in_range v -> snd (mstep m (MSetVolume v)) = (MRBool true, [MEvVolume v]).
Proof.
  intros m v A R. cbn [mstep]. rewrite A. cbn. rewrite volume_roundtrip by exact R. reflexivity.
Qed.

(* operations that do not write the volume (the track-change save/restore included) *)
Definition keeps_volume (o : mop) : Prop :=
  match o with MGetVolume | MGetMute | MSetMute _ | MTrackChange => True | _ => False end.

Lemma keeps_volume_step m o v :
  keeps_volume o -> in_range v -> attached m = true /\ e_vol m = set_val v ->
  attached (fst (mstep m o)) = true /\ e_vol (fst (mstep m o)) = set_val v.
Proof.
  intros K R [A E]. destruct o; try contradiction; cbn [mstep]; rewrite ?A; cbn; auto.
  destruct (has_element m); cbn; auto. split; [exact A|].
  rewrite E. apply volume_restore_is_identity, R.
Qed.

Theorem volume_reads_back : forall mid m v,
  attached m = true -> in_range v -> Forall keeps_volume mid ->
  fst (snd (mstep (mfinal m (MSetVolume v :: mid)) MGetVolume)) = MRVol (Some v).
Proof.
  intros mid m v A R K.
  assert (J : attached (mfinal m (MSetVolume v :: mid)) = true /\
              e_vol (mfinal m (MSetVolume v :: mid)) = set_val v).
  { rewrite mfinal_cons.
    assert (J0 : attached (fst (mstep m (MSetVolume v))) = true /\
                 e_vol (fst (mstep m (MSetVolume v))) = set_val v).
    { cbn [mstep]. rewrite A. cbn. auto. }
    revert J0. generalize (fst (mstep m (MSetVolume v))). clear A.
    induction mid as [|o t IH]; intros m1 J0; [exact J0|].
    inversion K; subst. rewrite mfinal_cons. apply IH; [assumption|].
    apply keeps_volume_step; assumption. }
  destruct J as [JA JE]. cbn [mstep]. rewrite JA, JE. cbn.
  rewrite volume_roundtrip by exact R. reflexivity.
Qed.

(* a volume set BEFORE the audio actor attached the mixer is applied at setup *)
Definition keeps_initial (o : mop) : Prop :=
  match o with MGetVolume | MGetMute | MSetMute _ => True | _ => False end.

Theorem deferred_volume_applied : forall mid m v,
  attached m = false -> in_range v -> Forall keeps_initial mid ->
  fst (snd (mstep (mfinal m (MSetVolume v :: mid ++ [MSetup])) MGetVolume)) = MRVol (Some v).
Proof.
  intros mid m v A R K.
  assert (J : forall m1, attached m1 = false /\ init_vol m1 = Some v ->
              attached (mfinal m1 (mid ++ [MSetup])) = true /\
              e_vol (mfinal m1 (mid ++ [MSetup])) = set_val v).
  { induction mid as [|o t IH]; intros m1 [A1 I1].
    - cbn. rewrite I1. destruct (init_mute m1); cbn; auto.
    - inversion K; subst. cbn [app]. rewrite mfinal_cons. apply IH; [assumption|].
      destruct o; try contradiction; cbn [mstep]; rewrite ?A1; cbn; auto. }
  destruct (J (fst (mstep m (MSetVolume v)))) as [JA JE].
  { cbn [mstep]. rewrite A. cbn. auto. }
  rewrite mfinal_cons. cbn [mstep] in *.
  rewrite JA, JE. cbn [fst snd]. rewrite volume_roundtrip by exact R. reflexivity.
Qed.

(* mute is stored and read back unchanged *)
Definition keeps_mute (o : mop) : Prop :=
  match o with MGetVolume | MGetMute | MSetVolume _ | MTrackChange => True | _ => False end.

Theorem mute_reads_back : forall mid m b,
  attached m = true -> Forall keeps_mute mid ->
  snd (mstep m (MSetMute b)) = (MRBool true, [MEvMute b]) /\
  fst (snd (mstep (mfinal m (MSetMute b :: mid)) MGetMute)) = MRMute (Some b).
Proof.
  intros mid m b A K. split; [cbn [mstep]; rewrite A; reflexivity|].
  assert (J : forall m1, attached m1 = true /\ e_mute m1 = b ->
              attached (mfinal m1 mid) = true /\ e_mute (mfinal m1 mid) = b).
  { induction mid as [|o t IH]; intros m1 [A1 E1]; [auto|].
    inversion K; subst. rewrite mfinal_cons. apply IH; [assumption|].
    destruct o; try contradiction; cbn [mstep]; rewrite ?A1; cbn; auto.
    destruct (has_element m1); cbn; auto. }
  destruct (J (fst (mstep m (MSetMute b)))) as [JA JE].
  { cbn [mstep]. rewrite A. cbn. auto. }
  rewrite mfinal_cons. cbn [mstep] in *. rewrite JA, JE. reflexivity.
Qed.

(* the save/restore of Audio.set_uri never moves the element's volume *)
Theorem track_change_keeps_volume : forall m,
  wf m -> e_vol (fst (mstep m MTrackChange)) = e_vol m /\ e_mute (fst (mstep m MTrackChange)) = e_mute m.
Proof.
  intros m W. cbn [mstep]. destruct (has_element m); cbn; [|auto].
  split; [apply wf_restore, W|reflexivity].
Qed.
