(* C06 property theorems.  Nothing but statements, `exact`, and Print Assumptions.
   `final init pre` ranges over every state the audio layer can be in (pre = any history of
   bus messages, pad events and control calls); `step (final init pre) i` is its reaction to
   the next input i; `all_events init ins` / `all_cmds init ins` are the complete logs. *)
From Coq Require Import ZArith List Bool.
From Common Require Import Res Str.
From Audio Require Import Model Spec Mixer Obs Monitor Utils Proofs_Utils Pipeline Proofs_Pipeline
  Proofs_Monitor Proofs_Glue Proofs_Run Proofs_State Proofs_Stream Proofs_Tags Proofs_Buffering Proofs_Mixer.
Import ListNotations.
Open Scope Z_scope.

(* ------------------------------------------------------------------ T1 *)

(* A state_changed is emitted only by a playbin STATE_CHANGED message that reports a
   completed transition into PLAYING/PAUSED/NULL (after the READY/pending-NULL rewrite);
   new_state is the state reached; target_state is None iff the requested state maps to it,
   and otherwise is the image of the requested state. *)
Theorem C06_T1_reports_sound : forall pre i old new tgt,
  In (EvState old new tgt) (o_evs (snd (step (final init pre) i))) ->
  exists o n p,
    i = StateChanged true o n p /\
    completed_into n p new /\
    (tgt = None <-> image (last_request pre) = Some new) /\
    (forall t, tgt = Some t -> image (last_request pre) = Some t) /\
    old = st (final init pre) /\
    st (final init (pre ++ [i])) = new.
Proof. exact reports_sound. Qed.
Print Assumptions C06_T1_reports_sound.

Theorem C06_T1_reports_sound_log : forall ins old new tgt,
  In (EvState old new tgt) (all_events init ins) ->
  exists pre o n p post,
    ins = pre ++ StateChanged true o n p :: post /\
    completed_into n p new /\
    (tgt = None <-> image (last_request pre) = Some new) /\
    (forall t, tgt = Some t -> image (last_request pre) = Some t).
Proof. exact reports_sound_log. Qed.
Print Assumptions C06_T1_reports_sound_log.

Theorem C06_T1_target_is_last_request : forall ins, target (final init ins) = last_request ins.
Proof. exact target_is_last_request. Qed.
Print Assumptions C06_T1_target_is_last_request.

(* converse: a completed transition IS reported, unless a track change (READY) is requested *)
Theorem C06_T1_reports_complete : forall pre o n p new,
  completed_into n p new ->
  image (last_request pre) <> None ->
  exists tgt,
    o_evs (snd (step (final init pre) (StateChanged true o n p))) =
      EvState (st (final init pre)) new tgt ::
      (if pstate_eqb new Stopped then [EvStream None] else []).
Proof. exact reports_complete. Qed.
Print Assumptions C06_T1_reports_complete.

(* ... in which case Audio.state is updated silently (scope note in docs/C06.md) *)
Theorem C06_T1_silent_while_changing_track : forall pre o n p new,
  completed_into n p new ->
  last_request pre = READY ->
  o_evs (snd (step (final init pre) (StateChanged true o n p))) = [] /\
  st (final init (pre ++ [StateChanged true o n p])) = new.
Proof. exact silent_while_changing_track. Qed.
Print Assumptions C06_T1_silent_while_changing_track.

Theorem C06_T1_state_is_last_reached : forall ins, st (final init ins) = last_reached ins.
Proof. exact state_is_last_reached. Qed.
Print Assumptions C06_T1_state_is_last_reached.

Theorem C06_T1_event_chain_refuted :
  all_events init chain_witness = [EvState Stopped Playing None; EvState Paused Playing None].
Proof. exact event_chain_refuted. Qed.
Print Assumptions C06_T1_event_chain_refuted.

(* the only exception: a completed transition into VOID_PENDING (malformed) -> KeyError,
   nothing changed *)
Theorem C06_raises_only_on_void : forall w i,
  o_ret (snd (step w i)) = Raise KeyError <-> exists o, i = StateChanged true o VOID VOID.
Proof. exact raises_only_on_void. Qed.
Print Assumptions C06_raises_only_on_void.

Theorem C06_raise_changes_nothing : forall w o,
  step w (StateChanged true o VOID VOID) = (w, mkOut (Raise KeyError) [] []).
Proof. exact raise_changes_nothing. Qed.
Print Assumptions C06_raise_changes_nothing.

(* ------------------------------------------------------------------ T2 *)

Theorem C06_T2_stopped_then_stream_none : forall ins,
  stopped_followed (all_events init ins) = true.
Proof. exact stopped_then_stream_none. Qed.
Print Assumptions C06_T2_stopped_then_stream_none.

(* ------------------------------------------------------------------ T3 *)

Theorem C06_T3_stream_announced_once : forall ins,
  announced (all_events init ins) = expected_announcements false None ins.
Proof. exact stream_announced_once. Qed.
Print Assumptions C06_T3_stream_announced_once.

Theorem C06_T3_stream_start_announces_last_uri : forall pre,
  exists rest,
    o_evs (snd (step (final init pre) StreamStart)) = EvStream (last_uri pre) :: rest /\
    announced rest = [] /\
    (forall e, In e rest -> exists items, e = EvTags items).
Proof. exact stream_start_announces_last_uri. Qed.
Print Assumptions C06_T3_stream_start_announces_last_uri.

Theorem C06_T3_only_stream_start_announces : forall w i u,
  In (EvStream (Some u)) (o_evs (snd (step w i))) -> i = StreamStart.
Proof. exact only_stream_start_announces. Qed.
Print Assumptions C06_T3_only_stream_start_announces.

(* ------------------------------------------------------------------ T4 *)

Theorem C06_T4_tags_withheld : forall pre i,
  upcoming_tags pre <> None -> i <> StreamStart ->
  existsb is_tags (o_evs (snd (step (final init pre) i))) = false.
Proof. exact tags_withheld. Qed.
Print Assumptions C06_T4_tags_withheld.

Theorem C06_T4_stream_start_reports_in_full : forall pre,
  let w' := final init (pre ++ [StreamStart]) in
  let evs := o_evs (snd (step (final init pre) StreamStart)) in
  match upcoming_tags pre with
  | Some acc =>
      evs = EvStream (last_uri pre) :: match acc with [] => [] | _ => [EvTags acc] end /\
      tags w' = acc
  | None => evs = [EvStream (last_uri pre)] /\ tags w' = []
  end /\ pending_tags w' = None.
Proof. exact stream_start_reports_in_full. Qed.
Print Assumptions C06_T4_stream_start_reports_in_full.

Theorem C06_T4_pending_is_upcoming : forall ins, pending_tags (final init ins) = upcoming_tags ins.
Proof. exact pending_is_upcoming. Qed.
Print Assumptions C06_T4_pending_is_upcoming.

Theorem C06_T4_tags_changed_exact : forall w tl,
  pending_tags w = None ->
  let w' := fst (step w (Tag tl)) in
  let evs := o_evs (snd (step w (Tag tl))) in
  exists ch,
    evs = match ch with [] => [] | _ => [EvTags ch] end /\
    NoDup (map fst ch) /\
    (forall k, In k (map fst ch) <-> dict_get k (tags w') <> dict_get k (tags w)) /\
    (forall k v, In (k, v) ch -> dict_get k (tags w') = Some v) /\
    (forall k, dict_get k (tags w') =
               match dict_get k (convert_taglist tl) with
               | Some v => Some v
               | None => dict_get k (tags w)
               end).
Proof. exact tags_changed_exact. Qed.
Print Assumptions C06_T4_tags_changed_exact.

Theorem C06_T4_current_tags_accumulate_reports : forall ins k,
  dict_get k (tags (final init ins)) = assoc_last k (reported_from [] (trace init ins)).
Proof. exact current_tags_accumulate_reports. Qed.
Print Assumptions C06_T4_current_tags_accumulate_reports.

Theorem C06_T4_get_current_tags_returns_tags : forall w,
  step w GetCurrentTags = (w, mkOut (Ok (RTags (tags w))) [] []).
Proof. exact get_current_tags_returns_tags. Qed.
Print Assumptions C06_T4_get_current_tags_returns_tags.

(* about the code BEFORE repo commit 38eca32 (live dict_keys view): what was sent at stream
   start and what a consumer read later could differ *)
Theorem C06_T4_prefix_live_view_refuted :
  exists pre rest, sent_keys pre <> late_view_keys pre rest.
Proof. exact prefix_live_view_refuted. Qed.
Print Assumptions C06_T4_prefix_live_view_refuted.

(* ------------------------------------------------------------------ T5 *)

Theorem C06_T5_buffering_never_overrides : forall ins,
  match last_set (all_cmds init ins) with
  | None => last_request ins = NULL
  | Some c => c = last_request ins \/
              (last_request ins = PLAYING /\ c = PAUSED /\ buffering (final init ins) = true)
  end.
Proof. exact buffering_never_overrides. Qed.
Print Assumptions C06_T5_buffering_never_overrides.

Theorem C06_T5_buffering_skips_below_paused : forall w pct m,
  rank (target w) < rank PAUSED -> step w (Buffering pct m) = (w, quiet).
Proof. exact buffering_skips_below_paused. Qed.
Print Assumptions C06_T5_buffering_skips_below_paused.

Theorem C06_T5_buffering_commands : forall w pct m c,
  In c (o_cmds (snd (step w (Buffering pct m)))) ->
  (c = CSetState PAUSED /\ rank PAUSED <= rank (target w) /\ pct < 10 /\
   buffering w = false /\ buffering (fst (step w (Buffering pct m))) = true)
  \/ (c = CSetState PLAYING /\ target w = PLAYING /\ pct = 100 /\
      buffering (fst (step w (Buffering pct m))) = false).
Proof. exact buffering_commands. Qed.
Print Assumptions C06_T5_buffering_commands.

Theorem C06_T5_buffering_never_overrides_step : forall pre pct m c,
  In c (o_cmds (snd (step (final init pre) (Buffering pct m)))) ->
  c = CSetState (last_request pre) \/ (c = CSetState PAUSED /\ last_request pre = PLAYING).
Proof. exact buffering_never_overrides_step. Qed.
Print Assumptions C06_T5_buffering_never_overrides_step.

Theorem C06_T5_buffering_full_resumes : forall w m,
  target w = PLAYING -> m <> Some BLive ->
  last_set (o_cmds (snd (step w (Buffering 100 m)))) = Some PLAYING /\
  buffering (fst (step w (Buffering 100 m))) = false.
Proof. exact buffering_full_resumes. Qed.
Print Assumptions C06_T5_buffering_full_resumes.

Theorem C06_T5_messages_issue_no_commands : forall w i,
  match i with
  | StateChanged _ _ _ _ | Tag _ | StreamStart | Eos | Warning | AsyncDone | Element _ | Other
  | Segment _ | GetCurrentTags | GetPosition _ _ | SetAtfCallback _ | SetSourceCallback _ => True
  | _ => False
  end ->
  o_cmds (snd (step w i)) = [].
Proof. exact messages_issue_no_commands. Qed.
Print Assumptions C06_T5_messages_issue_no_commands.

(* ------------------------------------------------------------------ T6 *)

(* all 101 volumes: round((v / 100.0) * 100) = v in binary64 *)
Theorem C06_T6_volume_roundtrip : forall v, 0 <= v <= 100 -> get_val (set_val v) = v.
Proof. exact volume_roundtrip. Qed.
Print Assumptions C06_T6_volume_roundtrip.

Theorem C06_T6_volume_reads_back : forall mid m v,
  attached m = true -> 0 <= v <= 100 -> Forall keeps_volume mid ->
  fst (snd (mstep (mfinal m (MSetVolume v :: mid)) MGetVolume)) = MRVol (Some v).
Proof. exact volume_reads_back. Qed.
Print Assumptions C06_T6_volume_reads_back.

Theorem C06_T6_set_volume_reports : forall m v,
  attached m = true -> 0 <= v <= 100 -> snd (mstep m (MSetVolume v)) = (MRBool true, [MEvVolume v]).
Proof. exact set_volume_reports. Qed.
Print Assumptions C06_T6_set_volume_reports.

Theorem C06_T6_deferred_volume_applied : forall mid m v,
  attached m = false -> 0 <= v <= 100 -> Forall keeps_initial mid ->
  fst (snd (mstep (mfinal m (MSetVolume v :: mid ++ [MSetup])) MGetVolume)) = MRVol (Some v).
Proof. exact deferred_volume_applied. Qed.
Print Assumptions C06_T6_deferred_volume_applied.

Theorem C06_T6_track_change_keeps_volume : forall m,
  wf m ->
  e_vol (fst (mstep m MTrackChange)) = e_vol m /\ e_mute (fst (mstep m MTrackChange)) = e_mute m.
Proof. exact track_change_keeps_volume. Qed.
Print Assumptions C06_T6_track_change_keeps_volume.

Theorem C06_T6_mute_reads_back : forall mid m b,
  attached m = true -> Forall keeps_mute mid ->
  snd (mstep m (MSetMute b)) = (MRBool true, [MEvMute b]) /\
  fst (snd (mstep (mfinal m (MSetMute b :: mid)) MGetMute)) = MRMute (Some b).
Proof. exact mute_reads_back. Qed.
Print Assumptions C06_T6_mute_reads_back.

Theorem C06_T6_integer_division_refuted :
  exists v, 0 <= v <= 100 /\ get_val (f_of_Z (v / 100)) <> v.
Proof. exact integer_division_refuted. Qed.
Print Assumptions C06_T6_integer_division_refuted.

(* ------------------------------------------------------------------ glue around the core *)

Theorem C06_T1_reports_match_last_reached : forall pre i old new tgt,
  In (EvState old new tgt) (o_evs (snd (step (final init pre) i))) ->
  old = last_reached pre /\ new = last_reached (pre ++ [i]).
Proof. exact reports_match_last_reached. Qed.
Print Assumptions C06_T1_reports_match_last_reached.

Theorem C06_T5_no_stuck_pause : forall ins,
  buffering (final init ins) = false ->
  match last_set (all_cmds init ins) with
  | Some c => c = last_request ins
  | None => last_request ins = NULL
  end.
Proof. exact no_stuck_pause. Qed.
Print Assumptions C06_T5_no_stuck_pause.

Theorem C06_T5_resumed_after_full : forall pre m,
  m <> Some BLive -> last_request pre = PLAYING ->
  last_set (all_cmds init (pre ++ [Buffering 100 m])) = Some PLAYING /\
  buffering (final init (pre ++ [Buffering 100 m])) = false.
Proof. exact resumed_after_full. Qed.
Print Assumptions C06_T5_resumed_after_full.

Theorem C06_ignored_messages : forall w i,
  match i with Warning | AsyncDone | Element _ | Other => True | _ => False end ->
  step w i = (w, quiet).
Proof. exact ignored_messages. Qed.
Print Assumptions C06_ignored_messages.

Theorem C06_foreign_state_changed_ignored : forall w o n p,
  step w (StateChanged false o n p) = (w, quiet).
Proof. exact foreign_state_changed_ignored. Qed.
Print Assumptions C06_foreign_state_changed_ignored.

Theorem C06_raises_characterised : forall w i e,
  o_ret (snd (step w i)) = Raise e ->
  (e = KeyError /\ exists o, i = StateChanged true o VOID VOID) \/
  (e = AudioException /\ exists l p h, i = SourceSetup false l p h).
Proof. exact raises_characterised. Qed.
Print Assumptions C06_raises_characterised.

Theorem C06_about_to_finish_guard : forall w next, step w (AboutToFinish true next) = (w, quiet).
Proof. exact about_to_finish_guard. Qed.
Print Assumptions C06_about_to_finish_guard.

Theorem C06_about_to_finish_without_callback : forall w same next,
  atf_cb (cfg w) = false -> step w (AboutToFinish same next) = (w, quiet).
Proof. exact about_to_finish_without_callback. Qed.
Print Assumptions C06_about_to_finish_without_callback.

Theorem C06_about_to_finish_runs_callback : forall w u fl,
  atf_cb (cfg w) = true ->
  fst (step w (AboutToFinish false (Some (u, fl)))) = fst (step w (SetUri u fl)) /\
  o_cmds (snd (step w (AboutToFinish false (Some (u, fl))))) = CCallAtf :: o_cmds (snd (step w (SetUri u fl))) /\
  o_evs (snd (step w (AboutToFinish false (Some (u, fl))))) = [].
Proof. exact about_to_finish_runs_callback. Qed.
Print Assumptions C06_about_to_finish_runs_callback.

Theorem C06_callback_registered_is_history : forall ins,
  atf_cb (cfg (final init ins)) = fst (uri_hist ins).
Proof. exact callback_registered_is_history. Qed.
Print Assumptions C06_callback_registered_is_history.

Theorem C06_about_to_finish_frame : forall w same next,
  let w' := fst (step w (AboutToFinish same next)) in
  st w' = st w /\ target w' = target w /\ buffering w' = buffering w /\ tags w' = tags w /\
  (forall c, In c (o_cmds (snd (step w (AboutToFinish same next)))) -> forall g, c <> CSetState g).
Proof. exact about_to_finish_frame. Qed.
Print Assumptions C06_about_to_finish_frame.

Theorem C06_live_is_last_set_uri : forall ins, live (cfg (final init ins)) = last_live ins.
Proof. exact live_is_last_set_uri. Qed.
Print Assumptions C06_live_is_last_set_uri.

Theorem C06_source_setup_commands : forall pre l p h,
  let w := final init pre in
  o_cmds (snd (step w (SourceSetup true l p h))) =
    (if src_cb (cfg w) then [CCallSource] else [])
    ++ (if last_live pre && l then [CSetLive] else [])
    ++ (if p && h then [CProxy] else []) /\
  fst (step w (SourceSetup true l p h)) = w.
Proof. exact source_setup_commands. Qed.
Print Assumptions C06_source_setup_commands.

Theorem C06_get_position_spec : forall w ok pos,
  step w (GetPosition ok pos) = (w, mkOut (Ok (RPos (if ok then pos / 1000000 else 0))) [] []).
Proof. exact get_position_spec. Qed.
Print Assumptions C06_get_position_spec.

Theorem C06_seek_position_roundtrip : forall w ms ok,
  o_cmds (snd (step w (SetPosition ms ok))) = [CSeek (ms * MSECOND)] /\
  o_ret (snd (step w (GetPosition true (ms * MSECOND)))) = Ok (RPos ms).
Proof. exact seek_position_roundtrip. Qed.
Print Assumptions C06_seek_position_roundtrip.

(* ------------------------------------------------------------------ utils.py helpers *)

Theorem C06_signals_balanced : forall ops, balance [] (scalls [] ops) = Some (sfinal [] ops).
Proof. exact signals_balanced. Qed.
Print Assumptions C06_signals_balanced.

Theorem C06_clear_disconnects_everything : forall ops,
  balance [] (scalls [] (ops ++ [SClear])) = Some [].
Proof. exact clear_disconnects_everything. Qed.
Print Assumptions C06_clear_disconnects_everything.

Theorem C06_connect_twice_raises : forall t k h,
  t_get k t <> None -> sstep t (SConnect k h) = (t, (Raise AssertionError, [])).
Proof. exact connect_twice_raises. Qed.
Print Assumptions C06_connect_twice_raises.

Theorem C06_disconnect_idempotent : forall ops k,
  let t := sfinal [] ops in
  let t1 := fst (sstep t (SDisconnect k)) in
  sstep t1 (SDisconnect k) = (t1, (Ok tt, [])).
Proof. exact disconnect_idempotent. Qed.
Print Assumptions C06_disconnect_idempotent.

Theorem C06_supported_uri_schemes_spec : forall factories wanted s,
  In s (supported_uri_schemes factories wanted) <->
  In s wanted /\ exists protos, In protos factories /\ In s protos.
Proof. exact supported_spec. Qed.
Print Assumptions C06_supported_uri_schemes_spec.

(* ------------------------------------------------------------------ closed loop (wb_ = under
   the well-behaved-pipeline ENVIRONMENT SPECIFICATION of Pipeline.v, which is not checked
   against GStreamer) *)

Theorem C06_wb_drain_reaches_commanded : forall w p,
  real_state (cur p) -> real_state (want p) ->
  cur (snd (fst (drain 3 (w, p)))) = want p /\ want (snd (fst (drain 3 (w, p)))) = want p.
Proof. exact wb_drain_reaches_commanded. Qed.
Print Assumptions C06_wb_drain_reaches_commanded.

Theorem C06_wb_settles_on_requested : forall w p s,
  real_state (cur p) -> want p = target w -> cur p <> want p ->
  (want p = PAUSED \/ want p = PLAYING) -> image (want p) = Some s ->
  st (fst (fst (drain 3 (w, p)))) = s /\
  exists old before, snd (drain 3 (w, p)) = before ++ [EvState old s None].
Proof. exact wb_settles_on_requested. Qed.
Print Assumptions C06_wb_settles_on_requested.

Theorem C06_wb_stop_is_reported : forall w p,
  want p = NULL -> target w = NULL -> (cur p = PAUSED \/ cur p = PLAYING) ->
  st (fst (fst (drain 3 (w, p)))) = Stopped /\
  snd (drain 3 (w, p)) = [EvState (st w) Stopped None; EvStream None].
Proof. exact wb_stop_is_reported. Qed.
Print Assumptions C06_wb_stop_is_reported.

Theorem C06_wb_stop_from_ready_is_silent : forall w p,
  want p = NULL -> cur p = READY -> drain 3 (w, p) = ((w, mkP NULL NULL), []).
Proof. exact wb_stop_from_ready_is_silent. Qed.
Print Assumptions C06_wb_stop_from_ready_is_silent.

Theorem C06_wb_prepare_change_is_silent : forall w p,
  real_state (cur p) -> want p = READY -> target w = READY -> snd (drain 3 (w, p)) = [].
Proof. exact wb_prepare_change_is_silent. Qed.
Print Assumptions C06_wb_prepare_change_is_silent.

Theorem C06_wb_pipeline_follows_request : forall cs,
  let s := cl_final cl_init cs in
  want (snd s) = target (fst s) \/
  (target (fst s) = PLAYING /\ want (snd s) = PAUSED /\ buffering (fst s) = true).
Proof. exact wb_pipeline_follows_request. Qed.
Print Assumptions C06_wb_pipeline_follows_request.

(* ------------------------------------------------------------------ monitors *)

(* The boolean monitors the harness evaluates on the implementation's traces inside Coq
   (T2, T3 and the T5 invariant, built from the same functions as the theorems above) are
   passed by every run of the model. *)
Theorem C06_model_passes_monitors : forall ins, monitor_code (ins, model_obs init ins) = 0.
Proof. exact model_passes_monitors. Qed.
Print Assumptions C06_model_passes_monitors.
