(* Model of src/mopidy/audio/actor.py: class _Handler (bus-message and pad-event handlers)
   and the control methods of class Audio, plus audio/tags.py:convert_taglist and
   audio/utils.py:millisecond_to_clocktime, written line by line.

   What is modelled: the reaction of the audio layer to ONE bus message / pad event /
   control call at a time (`step`), over the attributes named by the property's anchors:

     Audio.state            st            (PlaybackState: last *reached* state, see below)
     Audio._target_state    target        (Gst.State last requested by a control call)
     Audio._buffering       buffering     (buffering latch)
     Audio._tags            tags          (dict key -> list of values, insertion ordered)
     Audio._pending_tags    pending_tags  (None | dict)
     Audio._pending_uri     pending_uri   (None | uri)

   What is NOT modelled: GStreamer.  Which messages a pipeline produces, and in which order,
   is an input (`list input`); the theorems quantify over ALL such lists, a superset of what
   GStreamer can produce.  The answers of playbin.set_state / queue.seek_simple are inputs
   as well (the `ok` booleans).

   Python `raise`: `_GST_STATE_MAPPING[new_state]` raises KeyError for a completed
   transition whose new state is VOID_PENDING; this is an explicit `Raise KeyError` result.

   Tag values are opaque identifiers (Z) with decidable equality; a raw GStreamer value is
   either convertible (`Keep id`) or dropped by convert_taglist (`Drop`: unknown type, a
   GLib.Date that datetime.date rejects, a Gst.Sample without data). *)
From Coq Require Import ZArith List Bool.
From Common Require Import Res Str.
Import ListNotations.
Open Scope Z_scope.

(* ---------------------------------------------------------------- states *)

Inductive gst : Type := VOID | NULL | READY | PAUSED | PLAYING.   (* Gst.State, ordered *)

Definition rank (g : gst) : Z :=
  match g with VOID => 0 | NULL => 1 | READY => 2 | PAUSED => 3 | PLAYING => 4 end.

Definition gst_eqb (a b : gst) : bool :=
  match a, b with
  | VOID, VOID | NULL, NULL | READY, READY | PAUSED, PAUSED | PLAYING, PLAYING => true
  | _, _ => false
  end.

Inductive pstate : Type := Stopped | Paused | Playing.            (* PlaybackState *)

Definition pstate_eqb (a b : pstate) : bool :=
  match a, b with
  | Stopped, Stopped | Paused, Paused | Playing, Playing => true
  | _, _ => false
  end.

(* _GST_STATE_MAPPING (a partial map: READY and VOID_PENDING are not keys) *)
Definition image (g : gst) : option pstate :=
  match g with
  | PLAYING => Some Playing
  | PAUSED => Some Paused
  | NULL => Some Stopped
  | READY | VOID => None
  end.

(* ---------------------------------------------------------------- dicts *)

Definition key := Z.
Definition val := list Z.              (* a tag's value list; elements are opaque ids *)
Definition dict := list (key * val).   (* Python dict: insertion ordered, keys unique *)

Definition val_eqb : val -> val -> bool := list_eqb Z.eqb.

Fixpoint dict_get (k : key) (d : dict) : option val :=
  match d with
  | [] => None
  | (k', v) :: t => if k =? k' then Some v else dict_get k t
  end.

(* d[k] = v : replace in place, or append a new key at the end *)
Fixpoint dict_set (k : key) (v : val) (d : dict) : dict :=
  match d with
  | [] => [(k, v)]
  | (k', v') :: t => if k =? k' then (k', v) :: t else (k', v') :: dict_set k v t
  end.

(* d.update(other) *)
Definition dict_update (d other : dict) : dict :=
  fold_left (fun acc kv => dict_set (fst kv) (snd kv) acc) other d.

Definition dict_keys (d : dict) : list key := map fst d.

(* ---------------------------------------------------------------- tags.convert_taglist *)

Inductive raw : Type := Keep (id : Z) | Drop.
Definition taglist := list (key * list raw).   (* tag name -> values, in n_tags order *)

Definition kept (rs : list raw) : val :=
  flat_map (fun r => match r with Keep i => [i] | Drop => [] end) rs.

(* result[tag].append(x) on a defaultdict(list): the key appears with the first append *)
Definition dict_append (k : key) (vs : val) (d : dict) : dict :=
  match vs with
  | [] => d
  | _ => match dict_get k d with
         | Some old => dict_set k (old ++ vs) d
         | None => dict_set k vs d
         end
  end.

Definition convert_taglist (tl : taglist) : dict :=
  fold_left (fun acc kr => dict_append (fst kr) (kept (snd kr)) acc) tl [].

(* ---------------------------------------------------------------- inputs *)

Inductive bmode : Type := BStream | BDownload | BTimeshift | BLive.

(* set_uri(uri, live_stream, download) *)
Record uflags : Type := mkF { f_download : bool; f_live : bool }.
Definition plain : uflags := mkF false false.

Inductive input : Type :=
(* bus messages (through _Handler.on_message) *)
| StateChanged (from_playbin : bool) (o n p : gst)  (* msg.src == playbin?; old, new, pending *)
| Buffering (pct : Z) (mode : option bmode)          (* None: no structure / no buffering-mode *)
| Tag (tl : taglist)
| StreamStart
| Eos
| Error
| Warning                                            (* on_warning: logs only *)
| AsyncDone                                          (* on_async_done: logs only *)
| Element (missing_plugin : bool)                    (* ELEMENT; on_missing_plugin logs only *)
| Other                                              (* any other message type: no branch *)
(* pad event (through _Handler.on_pad_event) *)
| Segment (pos : Z)                                  (* segment.position, nanoseconds *)
(* control calls on Audio; ok = the pipeline did not answer FAILURE / the seek succeeded *)
| PrepareChange (ok : bool)
| SetUri (u : Z) (fl : uflags)
| Start (ok : bool)
| Pause (ok : bool)
| Stop (ok : bool)
| SetPosition (ms : Z) (ok : bool)
| GetCurrentTags
| GetPosition (ok : bool) (pos : Z)                  (* playbin.query_position answers (ok, pos) *)
| SetAtfCallback (present : bool)                    (* set_about_to_finish_callback(cb / None) *)
| SetSourceCallback (present : bool)                 (* set_source_setup_callback(cb / None) *)
(* playbin signals *)
| AboutToFinish (in_actor_thread : bool) (next : option (Z * uflags))
      (* about-to-finish; `next` = the set_uri the registered callback performs, if any *)
| SourceSetup (has_factory has_is_live has_proxy_prop proxy_host : bool).
      (* source-setup; the source element's capabilities and config["proxy"]["hostname"] set? *)

(* ---------------------------------------------------------------- outputs *)

Inductive event : Type :=                       (* AudioListener.send(...) *)
| EvState (old new : pstate) (tgt : option pstate)
| EvStream (u : option Z)
| EvTags (items : list (key * val))   (* the event carries the KEYS; the values are ghost
                                         (what get_current_tags holds for them at that time) *)
| EvEos
| EvPosition (ms : Z).

Inductive cmd : Type :=                         (* what the pipeline is asked to do *)
| CSetState (s : gst)                           (* playbin.set_state *)
| CFlags (f : Z)                                (* playbin.set_property("flags", f) *)
| CUri (u : Z)                                  (* playbin.set_property("uri", u) *)
| CSeek (clock : Z)                             (* queue.seek_simple(TIME, FLUSH, clock) *)
| CCallAtf                                      (* the about-to-finish callback is run *)
| CCallSource                                   (* the source-setup callback is run *)
| CSetLive                                      (* source.set_live(True) *)
| CProxy.                                       (* source proxy / proxy-id / proxy-pw set *)

Inductive exn : Type := KeyError | AudioException.

Inductive retv : Type := RNone | RBool (b : bool) | RTags (d : dict) | RPos (ms : Z).

Record out : Type := mkOut { o_ret : res exn retv; o_evs : list event; o_cmds : list cmd }.

Definition quiet : out := mkOut (Ok RNone) [] [].

(* ---------------------------------------------------------------- world *)

(* attributes outside the property's anchors: _live_stream and the two callbacks *)
Record aux : Type := mkA { live : bool; atf_cb : bool; src_cb : bool }.

Record world : Type := mkW {
  st : pstate;
  target : gst;
  buffering : bool;
  tags : dict;
  pending_tags : option dict;
  pending_uri : option Z;
  cfg : aux
}.

Definition init : world := mkW Stopped NULL false [] None None (mkA false false false).

Definition with_st (w : world) (s : pstate) : world :=
  mkW s (target w) (buffering w) (tags w) (pending_tags w) (pending_uri w) (cfg w).
Definition with_buffering (w : world) (b : bool) : world :=
  mkW (st w) (target w) b (tags w) (pending_tags w) (pending_uri w) (cfg w).
Definition with_tags (w : world) (t : dict) : world :=
  mkW (st w) (target w) (buffering w) t (pending_tags w) (pending_uri w) (cfg w).
Definition with_pending_tags (w : world) (p : option dict) : world :=
  mkW (st w) (target w) (buffering w) (tags w) p (pending_uri w) (cfg w).

(* ---------------------------------------------------------------- handlers *)

(* lines 205-210: the READY/pending-NULL rewrite *)
Definition rewrite (n p : gst) : gst * gst :=
  if gst_eqb n READY && gst_eqb p NULL then (NULL, VOID) else (n, p).

(* _Handler.on_playbin_state_changed *)
Definition on_state_changed (w : world) (n p : gst) : world * out :=
  let '(n', p') := rewrite n p in
  if negb (gst_eqb p' VOID) then (w, quiet)                 (* intermediate *)
  else if gst_eqb n' READY then (w, quiet)                  (* READY is GStreamer specific *)
  else
    match image n' with
    | None => (w, mkOut (Raise KeyError) [] [])             (* _GST_STATE_MAPPING[VOID_PENDING] *)
    | Some ns =>
        let w' := with_st w ns in                           (* state updated BEFORE the target test *)
        match image (target w) with
        | None => (w', quiet)                               (* "#1430 race" return: no event *)
        | Some ts =>
            let tgt := if pstate_eqb ts ns then None else Some ts in
            (w', mkOut (Ok RNone)
                       (EvState (st w) ns tgt ::
                        (if pstate_eqb ns Stopped then [EvStream None] else []))
                       [])
        end
    end.

(* _Handler.on_buffering *)
Definition on_buffering (w : world) (pct : Z) (mode : option bmode) : world * out :=
  if rank (target w) <? rank PAUSED then (w, quiet)
  else
    match mode with
    | Some BLive => (w, quiet)
    | _ =>
        let pause := (pct <? 10) && negb (buffering w) in
        let w1 := if pause then with_buffering w true else w in
        let c1 := if pause then [CSetState PAUSED] else [] in
        let full := pct =? 100 in
        let w2 := if full then with_buffering w1 false else w1 in
        let c2 := if full && gst_eqb (target w) PLAYING then [CSetState PLAYING] else [] in
        (w2, mkOut (Ok RNone) [] (c1 ++ c2))
    end.

(* the loop of _Handler.on_tag over tags.items() *)
Definition tag_diff (cur new : dict) : dict * list (key * val) :=
  fold_left
    (fun acc kv =>
       let '(c, ch) := acc in
       let '(k, v) := kv in
       match dict_get k c with
       | Some v' => if val_eqb v' v then (c, ch) else (dict_set k v c, ch ++ [(k, v)])
       | None => (dict_set k v c, ch ++ [(k, v)])
       end)
    new (cur, []).

(* _Handler.on_tag *)
Definition on_tag (w : world) (tl : taglist) : world * out :=
  let t := convert_taglist tl in
  match pending_tags w with
  | Some pt => (with_pending_tags w (Some (dict_update pt t)), quiet)
  | None =>
      let '(c, ch) := tag_diff (tags w) t in
      (with_tags w c, mkOut (Ok RNone) (match ch with [] => [] | _ => [EvTags ch] end) [])
  end.

(* _Handler.on_stream_start (the _pending_metadata branch is dead code: nothing sets it) *)
Definition on_stream_start (w : world) : world * out :=
  let t := match pending_tags w with Some t => t | None => [] end in   (* tags or {} *)
  (mkW (st w) (target w) (buffering w) t None (pending_uri w) (cfg w),
   mkOut (Ok RNone)
         (EvStream (pending_uri w) :: match t with [] => [] | _ => [EvTags t] end)
         []).

(* Audio._set_state *)
Definition set_state (w : world) (s : gst) (ok : bool) : world * out :=
  (mkW (st w) s (if rank s <? rank PAUSED then false else buffering w)
       (tags w) (pending_tags w) (pending_uri w) (cfg w),
   mkOut (Ok (RBool ok)) [] [CSetState s]).

Definition FLAG_AUDIO : Z := 2.
Definition FLAG_DOWNLOAD : Z := 128.
Definition MSECOND : Z := 1000000.

Definition with_cfg (w : world) (a : aux) : world :=
  mkW (st w) (target w) (buffering w) (tags w) (pending_tags w) (pending_uri w) a.

(* Audio.set_uri (the mixer save/restore around it is in Mixer.v) *)
Definition set_uri (w : world) (u : Z) (fl : uflags) : world * out :=
  (mkW (st w) (target w) (buffering w) (tags w) (Some []) (Some u)
       (mkA (f_live fl) (atf_cb (cfg w)) (src_cb (cfg w))),
   mkOut (Ok RNone) []
         [CFlags (if f_download fl then FLAG_AUDIO + FLAG_DOWNLOAD else FLAG_AUDIO); CUri u]).

(* Audio._on_about_to_finish: refuses to run inside the actor thread (the callback blocks on
   the actor: deadlock), otherwise runs the registered callback, which - by the documented
   contract - calls set_uri for the next track, or does nothing *)
Definition on_about_to_finish (w : world) (same_thread : bool) (next : option (Z * uflags)) : world * out :=
  if same_thread then (w, quiet)
  else if atf_cb (cfg w) then
    match next with
    | Some (u, fl) => let '(w', o) := set_uri w u fl in (w', mkOut (Ok RNone) [] (CCallAtf :: o_cmds o))
    | None => (w, mkOut (Ok RNone) [] [CCallAtf])
    end
  else (w, quiet).

(* Audio._on_source_setup followed by utils.setup_proxy *)
Definition on_source_setup (w : world) (has_factory has_is_live has_proxy_prop proxy_host : bool) : world * out :=
  if negb has_factory then (w, mkOut (Raise AudioException) [] [])
  else
    (w, mkOut (Ok RNone) []
              ((if src_cb (cfg w) then [CCallSource] else [])
               ++ (if live (cfg w) && has_is_live then [CSetLive] else [])
               ++ (if has_proxy_prop && proxy_host then [CProxy] else []))).

Definition step (w : world) (i : input) : world * out :=
  match i with
  | StateChanged fp _ n p => if fp then on_state_changed w n p else (w, quiet)
  | Buffering pct mode => on_buffering w pct mode
  | Tag tl => on_tag w tl
  | StreamStart => on_stream_start w
  | Eos => (with_tags w [], mkOut (Ok RNone) [EvEos] [])
  | Error =>                                       (* on_error: self._audio.stop_playback() *)
      let '(w', o) := set_state w NULL true in (w', mkOut (Ok RNone) [] (o_cmds o))
  | Warning | AsyncDone | Element _ | Other => (w, quiet)
  | Segment pos => (w, mkOut (Ok RNone) [EvPosition (pos / MSECOND)] [])
  | PrepareChange ok => set_state w READY ok
  | SetUri u fl => set_uri w u fl
  | Start ok => set_state w PLAYING ok
  | Pause ok => set_state w PAUSED ok
  | Stop ok => set_state w NULL ok
  | SetPosition ms ok => (w, mkOut (Ok (RBool ok)) [] [CSeek (ms * MSECOND)])
  | GetCurrentTags => (w, mkOut (Ok (RTags (tags w))) [] [])
  | GetPosition ok pos =>                          (* utils.clocktime_to_millisecond; 0 on failure *)
      (w, mkOut (Ok (RPos (if ok then pos / MSECOND else 0))) [] [])
  | SetAtfCallback b => (with_cfg w (mkA (live (cfg w)) b (src_cb (cfg w))), quiet)
  | SetSourceCallback b => (with_cfg w (mkA (live (cfg w)) (atf_cb (cfg w)) b), quiet)
  | AboutToFinish same next => on_about_to_finish w same next
  | SourceSetup f l p h => on_source_setup w f l p h
  end.

(* ---------------------------------------------------------------- runs *)

(* trace: for every input, the world before it, the input, and what the step produced *)
Fixpoint trace (w : world) (ins : list input) : list (world * input * out) :=
  match ins with
  | [] => []
  | i :: t => (w, i, snd (step w i)) :: trace (fst (step w i)) t
  end.

Definition final (w : world) (ins : list input) : world :=
  fold_left (fun w i => fst (step w i)) ins w.

Definition outs (w : world) (ins : list input) : list out :=
  map (fun x => snd x) (trace w ins).

Definition all_events (w : world) (ins : list input) : list event :=
  flat_map o_evs (outs w ins).

Definition all_cmds (w : world) (ins : list input) : list cmd :=
  flat_map o_cmds (outs w ins).
