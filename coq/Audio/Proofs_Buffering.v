(* T5: buffering pauses/resumes only under a PLAYING request and never overrides a stop,
   pause or track change. *)
From Coq Require Import ZArith List Bool Lia.
From Common Require Import Res Str.
From Audio Require Import Model Spec Proofs_Run.
Import ListNotations.
Open Scope Z_scope.

(* ---------------------------------------------------------------- the handler itself *)

Theorem buffering_skips_below_paused : forall w pct m,
  rank (target w) < rank PAUSED -> step w (Buffering pct m) = (w, quiet).
Proof.
  intros w pct m H. cbn [step]. unfold on_buffering.
  apply Z.ltb_lt in H. rewrite H. reflexivity.
Qed.

Theorem buffering_ignores_live : forall w pct, step w (Buffering pct (Some BLive)) = (w, quiet).
Proof.
  intros w pct. cbn [step]. unfold on_buffering.
  destruct (rank (target w) <? rank PAUSED); reflexivity.
Qed.

(* every command the buffering handler issues: a pause (first message below 10 % while the
   latch is clear; sets the latch) or a resume (100 %, only if PLAYING is requested) *)
Theorem buffering_commands : forall w pct m c,
  In c (o_cmds (snd (step w (Buffering pct m)))) ->
  (c = CSetState PAUSED /\ rank PAUSED <= rank (target w) /\ pct < 10 /\
   buffering w = false /\ buffering (fst (step w (Buffering pct m))) = true)
  \/ (c = CSetState PLAYING /\ target w = PLAYING /\ pct = 100 /\
      buffering (fst (step w (Buffering pct m))) = false).
Proof.
  intros w pct m c. cbn [step]. unfold on_buffering.
  destruct (rank (target w) <? rank PAUSED) eqn:R; [cbn; contradiction|].
  apply Z.ltb_ge in R.
  assert (L : forall X : Prop, (pct <? 10) = true -> (pct =? 100) = true -> X).
  { intros X P F. apply Z.ltb_lt in P. apply Z.eqb_eq in F. lia. }
  destruct m as [[]|]; try (cbn; contradiction);
    destruct (pct <? 10) eqn:P, (buffering w) eqn:B, (pct =? 100) eqn:F;
    try (exact (L _ eq_refl eq_refl));
    destruct (target w) eqn:T; cbn in R |- *; try lia;
    intros H; repeat (destruct H as [H|H]; try contradiction); subst c;
    try apply Z.ltb_lt in P; try apply Z.eqb_eq in F;
    first [left; repeat split; (reflexivity || lia) | right; repeat split; (reflexivity || lia)].
Qed.

(* "never overrides": a buffering command equals the requested state, except for the pause
   under a PLAYING request *)
Corollary buffering_never_overrides_step : forall pre pct m c,
  In c (o_cmds (snd (step (final init pre) (Buffering pct m)))) ->
  c = CSetState (last_request pre) \/ (c = CSetState PAUSED /\ last_request pre = PLAYING).
Proof.
  intros pre pct m c H. apply buffering_commands in H.
  rewrite target_is_last_request in H.
  destruct H as [(-> & R & _)|(-> & T & _)].
  - destruct (last_request pre); cbn in R; try lia; auto.
  - left. rewrite T. reflexivity.
Qed.

(* the resume does happen: 100 % under a PLAYING request always ends with the pipeline told
   to play and the latch cleared *)
Theorem buffering_full_resumes : forall w m,
  target w = PLAYING -> m <> Some BLive ->
  last_set (o_cmds (snd (step w (Buffering 100 m)))) = Some PLAYING /\
  buffering (fst (step w (Buffering 100 m))) = false.
Proof.
  intros w m T L. cbn [step]. unfold on_buffering. rewrite T. cbn.
  destruct m as [[]|]; try congruence; cbn; split; reflexivity.
Qed.

(* only control calls, ERROR and BUFFERING make the audio layer command the pipeline *)
Theorem messages_issue_no_commands : forall w i,
  match i with
  | StateChanged _ _ _ _ | Tag _ | StreamStart | Eos | Warning | AsyncDone | Element _ | Other
  | Segment _ | GetCurrentTags | GetPosition _ _ | SetAtfCallback _ | SetSourceCallback _ => True
  | _ => False
  end ->
  o_cmds (snd (step w i)) = [].
Proof.
  intros w i H. destruct i; try contradiction; cbn [step]; try reflexivity.
  - destruct from_playbin; [|reflexivity]. unfold on_state_changed.
    destruct n, p; cbn; try reflexivity; destruct (image (target w)); reflexivity.
  - unfold on_tag. destruct (pending_tags w); [reflexivity|].
    destruct (tag_diff (tags w) (convert_taglist tl)) as [c ch]. reflexivity.
Qed.

(* ---------------------------------------------------------------- the invariant *)

Definition agrees (w : world) (lc : option gst) : Prop :=
  match lc with
  | None => target w = NULL
  | Some c => c = target w \/ (target w = PLAYING /\ c = PAUSED /\ buffering w = true)
  end.

Lemma update_last_app lc a b : update_last lc (a ++ b) = update_last (update_last lc a) b.
Proof. unfold update_last. apply fold_left_app. Qed.

Lemma update_last_no_set lc cs :
  (forall c, In c cs -> forall g, c <> CSetState g) -> update_last lc cs = lc.
Proof.
  revert lc. induction cs as [|c t IH]; intros lc H; [reflexivity|].
  unfold update_last in *. cbn [fold_left].
  destruct c; try (apply IH; intros c' Hc; apply H; right; exact Hc).
  exfalso. apply (H (CSetState s) (or_introl eq_refl) s). reflexivity.
Qed.

Lemma on_state_changed_buffering w n p : buffering (fst (on_state_changed w n p)) = buffering w.
Proof.
  unfold on_state_changed. destruct n, p; cbn; try reflexivity; destruct (image (target w)); reflexivity.
Qed.

Lemma on_tag_buffering w tl : buffering (fst (on_tag w tl)) = buffering w.
Proof.
  unfold on_tag. destruct (pending_tags w); [reflexivity|].
  destruct (tag_diff (tags w) (convert_taglist tl)). reflexivity.
Qed.

Lemma agrees_frame w w' lc :
  target w' = target w -> buffering w' = buffering w -> agrees w lc -> agrees w' lc.
Proof. unfold agrees. intros -> ->. auto. Qed.

Lemma step_agrees w lc i :
  agrees w lc -> agrees (fst (step w i)) (update_last lc (o_cmds (snd (step w i)))).
Proof.
  intros A. destruct i; cbn [step];
    try (cbn; left; reflexivity);
    try (cbn; exact A).
  - (* StateChanged *)
    destruct from_playbin; [|exact A].
    assert (E : o_cmds (snd (on_state_changed w n p)) = [])
      by exact (messages_issue_no_commands w (StateChanged true o n p) I).
    rewrite E.
    apply (agrees_frame w); [apply on_state_changed_target|apply on_state_changed_buffering|exact A].
  - (* Buffering *)
    unfold on_buffering. destruct (rank (target w) <? rank PAUSED) eqn:R; [exact A|].
    apply Z.ltb_ge in R.
    assert (L : forall X : Prop, (pct <? 10) = true -> (pct =? 100) = true -> X).
    { intros X P F. apply Z.ltb_lt in P. apply Z.eqb_eq in F. lia. }
    destruct mode as [[]|]; try exact A;
      destruct (pct <? 10) eqn:P, (buffering w) eqn:B, (pct =? 100) eqn:F;
      try (exact (L _ eq_refl eq_refl));
      destruct (target w) eqn:T; cbn in R; try lia;
      unfold agrees in *; destruct lc as [c|]; cbn; rewrite ?T; cbn;
      try (left; reflexivity); try (right; repeat split; reflexivity);
      try congruence;
      try (destruct A as [A|(A1 & A2 & A3)]; [left; congruence | first [discriminate | congruence | (right; repeat split; congruence)]]).
  - (* Tag *)
    assert (E : o_cmds (snd (on_tag w tl)) = []) by exact (messages_issue_no_commands w (Tag tl) I).
    rewrite E. apply (agrees_frame w); [apply on_tag_target|apply on_tag_buffering|exact A].
  - (* AboutToFinish: may run set_uri, never set_state *)
    rewrite update_last_no_set by apply on_about_to_finish_no_set_state.
    apply (agrees_frame w); [apply on_about_to_finish_target|apply on_about_to_finish_buffering|exact A].
  - (* SourceSetup: commands go to the source element *)
    rewrite update_last_no_set by apply on_source_setup_no_set_state.
    rewrite on_source_setup_world. exact A.
Qed.

Lemma run_agrees : forall ins w lc,
  agrees w lc -> agrees (final w ins) (update_last lc (all_cmds w ins)).
Proof.
  induction ins as [|i t IH]; intros w lc A; [exact A|].
  rewrite final_cons, all_cmds_cons, update_last_app. apply IH, step_agrees, A.
Qed.

(* T5 invariant: whenever the pipeline was last told something other than what the client
   requested, the request is PLAYING, the pipeline was told PAUSED and the buffering latch is
   set (so the 100 % message will resume it). *)
Theorem buffering_never_overrides : forall ins,
  match last_set (all_cmds init ins) with
  | None => last_request ins = NULL
  | Some c => c = last_request ins \/
              (last_request ins = PLAYING /\ c = PAUSED /\ buffering (final init ins) = true)
  end.
Proof.
  intros ins. pose proof (run_agrees ins init None eq_refl) as A.
  unfold agrees in A. rewrite target_is_last_request in A. exact A.
Qed.

(* non-vacuity: the exceptional branch is reachable, and leaves again *)
Example buffering_pause_reachable :
  let ins := [Start true; Buffering 5 None] in
  last_set (all_cmds init ins) = Some PAUSED /\ last_request ins = PLAYING /\
  buffering (final init ins) = true.
Proof. vm_compute. auto. Qed.

Example buffering_resume_reachable :
  last_set (all_cmds init [Start true; Buffering 5 None; Buffering 100 None]) = Some PLAYING.
Proof. vm_compute. reflexivity. Qed.

(* A pause requested while buffering is not undone by the 100 % message. *)
Example pause_survives_buffering :
  all_cmds init [Start true; Buffering 5 None; Pause true; Buffering 100 None] =
  [CSetState PLAYING; CSetState PAUSED; CSetState PAUSED].
Proof. vm_compute. reflexivity. Qed.

(* Literal reading "issues a command only while PLAYING is requested" does not hold: below
   10 % under a PAUSED request the handler sends a (redundant) PAUSED, equal to the request. *)
Example buffering_redundant_pause :
  all_cmds init [Pause true; Buffering 5 None] = [CSetState PAUSED; CSetState PAUSED].
Proof. vm_compute. reflexivity. Qed.
