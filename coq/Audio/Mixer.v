(* Model of the software mixer path:
     src/mopidy/audio/actor.py   class SoftwareMixerAdapter (get/set_volume, get/set_mute),
                                 the volume save/restore in Audio.set_uri
     src/mopidy/softwaremixer/mixer.py   class SoftwareMixer (setup/teardown, deferral of
                                 values set before the audio actor injected its mixer)

   The GStreamer `volume` element is a pair of properties: volume (gdouble = binary64) and
   mute (gboolean).  The float arithmetic the code performs is modelled with Coq's primitive
   binary64 floats (IEEE 754, round to nearest even), exactly:

     set_volume(v):  element.volume = v / 100.0          (int -> float conversion, division)
     get_volume():   round(element.volume * 100)          (multiplication, Python round())

   Python's round(x) on a float rounds half to even and returns an int; `py_round` decodes
   the float into mantissa * 2^exponent and rounds in Z, so no rounding mode is trusted
   beyond those of the two float operations above. *)
From Coq Require Import ZArith List Bool.
From Coq Require Import Floats.PrimFloat Numbers.Cyclic.Int63.Uint63.
Import ListNotations.
Open Scope Z_scope.

Definition f_of_Z (v : Z) : float := PrimFloat.of_uint63 (Uint63.of_Z v).

(* x = mantissa * 2^exponent (frshiftexp biases the exponent by 2101; the normalised
   mantissa in [0.5, 1) is read as a 53-bit integer) *)
Definition decode (x : float) : Z * Z :=
  let '(m, e) := PrimFloat.frshiftexp x in
  (Uint63.to_Z (PrimFloat.normfr_mantissa m), Uint63.to_Z e - 2101 - 53).

(* the inverse, for mantissas below 2^53 (used by the correspondence to pass exact floats) *)
Definition encode (mz ex : Z) : float :=
  PrimFloat.ldshiftexp (f_of_Z mz) (Uint63.of_Z (ex + 2101)).

Definition py_round_abs (x : float) : Z :=
  let '(mz, ex) := decode x in
  if 0 <=? ex then mz * 2 ^ ex
  else
    let d := 2 ^ (- ex) in
    let q := mz / d in
    let r := mz mod d in
    if 2 * r <? d then q else if d <? 2 * r then q + 1 else if Z.even q then q else q + 1.

(* round(x) for finite x (volumes only produce finite non-negative values) *)
Definition py_round (x : float) : Z :=
  if PrimFloat.ltb x PrimFloat.zero then - py_round_abs (PrimFloat.abs x) else py_round_abs x.

Definition set_val (v : Z) : float := PrimFloat.div (f_of_Z v) (f_of_Z 100).   (* v / 100.0 *)
Definition get_val (x : float) : Z := py_round (PrimFloat.mul x (f_of_Z 100)). (* round(x * 100) *)

(* ---------------------------------------------------------------- the mixer machine *)

Record mixer : Type := mkM {
  attached : bool;              (* SoftwareMixer._audio_mixer is not None *)
  has_element : bool;           (* SoftwareMixerAdapter._element is set *)
  init_vol : option Z;          (* SoftwareMixer._initial_volume *)
  init_mute : option bool;      (* SoftwareMixer._initial_mute *)
  e_vol : float;                (* element property "volume" *)
  e_mute : bool                 (* element property "mute" *)
}.

(* a fresh GStreamer volume element: volume 1.0, mute off *)
Definition mixer0 : mixer := mkM false false None None PrimFloat.one false.

Inductive mop : Type :=
| MSetup                        (* Audio._setup_audio_sink -> adapter.setup -> SoftwareMixer.setup *)
| MTeardown                     (* adapter.teardown -> SoftwareMixer.teardown *)
| MSetVolume (v : Z)            (* SoftwareMixer.set_volume *)
| MGetVolume
| MSetMute (b : bool)
| MGetMute
| MTrackChange.                 (* Audio.set_uri: v = mixer.get_volume(); ...; mixer.set_volume(v) *)

Inductive mevent : Type := MEvVolume (v : Z) | MEvMute (b : bool).   (* MixerListener events *)

Inductive mret : Type :=
| MRNone | MRBool (b : bool) | MRVol (v : option Z) | MRMute (b : option bool) | MRAssert.

(* SoftwareMixerAdapter.set_volume / set_mute *)
Definition adapter_set_volume (m : mixer) (v : Z) : mixer * list mevent :=
  let x := set_val v in
  (mkM (attached m) (has_element m) (init_vol m) (init_mute m) x (e_mute m), [MEvVolume (get_val x)]).

Definition adapter_set_mute (m : mixer) (b : bool) : mixer * list mevent :=
  (mkM (attached m) (has_element m) (init_vol m) (init_mute m) (e_vol m) b, [MEvMute b]).

Definition mstep (m : mixer) (o : mop) : mixer * (mret * list mevent) :=
  match o with
  | MSetup =>
      let m0 := mkM true true (init_vol m) (init_mute m) (e_vol m) (e_mute m) in
      let '(m1, ev1) := match init_vol m with Some v => adapter_set_volume m0 v | None => (m0, []) end in
      let '(m2, ev2) := match init_mute m with Some b => adapter_set_mute m1 b | None => (m1, []) end in
      (m2, (MRNone, ev1 ++ ev2))
  | MTeardown =>
      (mkM false (has_element m) (init_vol m) (init_mute m) (e_vol m) (e_mute m), (MRNone, []))
  | MSetVolume v =>
      if attached m then let '(m', ev) := adapter_set_volume m v in (m', (MRBool true, ev))
      else (mkM false (has_element m) (Some v) (init_mute m) (e_vol m) (e_mute m), (MRBool false, []))
  | MGetVolume =>
      (m, (MRVol (if attached m then Some (get_val (e_vol m)) else None), []))
  | MSetMute b =>
      if attached m then let '(m', ev) := adapter_set_mute m b in (m', (MRBool true, ev))
      else (mkM false (has_element m) (init_vol m) (Some b) (e_vol m) (e_mute m), (MRBool false, []))
  | MGetMute =>
      (m, (MRMute (if attached m then Some (e_mute m) else None), []))
  | MTrackChange =>
      if has_element m then
        let '(m', ev) := adapter_set_volume m (get_val (e_vol m)) in (m', (MRNone, ev))
      else (m, (MRAssert, []))          (* `assert self._element` *)
  end.

Definition mfinal (m : mixer) (ops : list mop) : mixer :=
  fold_left (fun m o => fst (mstep m o)) ops m.

Fixpoint mouts (m : mixer) (ops : list mop) : list (mret * list mevent) :=
  match ops with
  | [] => []
  | o :: t => snd (mstep m o) :: mouts (fst (mstep m o)) t
  end.

(* ---------------------------------------------------------------- observation (correspondence) *)

Definition mevent_eqb (a b : mevent) : bool :=
  match a, b with
  | MEvVolume x, MEvVolume y => x =? y
  | MEvMute x, MEvMute y => Bool.eqb x y
  | _, _ => false
  end.

Definition oz_eqb (a b : option Z) : bool :=
  match a, b with Some x, Some y => x =? y | None, None => true | _, _ => false end.
Definition ob_eqb (a b : option bool) : bool :=
  match a, b with Some x, Some y => Bool.eqb x y | None, None => true | _, _ => false end.

Definition mret_eqb (a b : mret) : bool :=
  match a, b with
  | MRNone, MRNone => true
  | MRBool x, MRBool y => Bool.eqb x y
  | MRVol x, MRVol y => oz_eqb x y
  | MRMute x, MRMute y => ob_eqb x y
  | MRAssert, MRAssert => true
  | _, _ => false
  end.

Fixpoint mevents_eqb (a b : list mevent) : bool :=
  match a, b with
  | [], [] => true
  | x :: a', y :: b' => mevent_eqb x y && mevents_eqb a' b'
  | _, _ => false
  end.

(* one observed step: return value, events, and the element's two properties afterwards
   (the volume as exact mantissa/exponent, never as text) *)
Record mobs : Type := mkMO { mo_ret : mret; mo_evs : list mevent; mo_vol : Z * Z; mo_mute : bool }.

Definition mstep_ok (m : mixer) (o : mop) (b : mobs) : bool :=
  let '(m', (r, evs)) := mstep m o in
  mret_eqb r (mo_ret b) && mevents_eqb evs (mo_evs b)
  && (fst (decode (e_vol m')) =? fst (mo_vol b)) && (snd (decode (e_vol m')) =? snd (mo_vol b))
  && Bool.eqb (e_mute m') (mo_mute b).

Fixpoint mrun_ok (m : mixer) (ops : list mop) (bs : list mobs) : bool :=
  match ops, bs with
  | [], [] => true
  | o :: ops', b :: bs' => mstep_ok m o b && mrun_ok (fst (mstep m o)) ops' bs'
  | _, _ => false
  end.

Definition mcase_ok (c : list mop * list mobs) : bool := mrun_ok mixer0 (fst c) (snd c).

(* round() alone: x given exactly as mantissa * 2^exponent *)
Definition round_ok (c : Z * Z * bool * Z) : bool :=
  let '(mz, ex, neg, r) := c in
  let x := encode mz ex in
  py_round (if neg then PrimFloat.opp x else x) =? r.

(* the volumes of the property statement *)
Definition volumes : list Z := map Z.of_nat (seq 0 101).
