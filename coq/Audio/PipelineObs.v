(* Observation for the closed-loop correspondence: the real Audio object driven by a Python
   twin of Pipeline.post, against cl_events. *)
From Coq Require Import ZArith List Bool.
From Common Require Import Res Str.
From Audio Require Import Model Spec Obs Pipeline.
Import ListNotations.
Open Scope Z_scope.

Definition cl_case_ok (c : list cin * list (list oevent) * (pstate * gst * gst)) : bool :=
  let '(cs, evs, (s, pc, pw)) := c in
  let '(es, (w, p)) := cl_events cl_init cs in
  list_eqb (list_eqb oevent_eqb) (map (map obs_event) es) evs
  && pstate_eqb (st w) s && gst_eqb (cur p) pc && gst_eqb (want p) pw.
