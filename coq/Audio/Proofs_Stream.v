(* T3: each stream is announced exactly once, with the URI last requested, when it starts. *)
From Coq Require Import ZArith List Bool Lia.
From Common Require Import Res Str.
From Audio Require Import Model Spec Proofs_Run.
Import ListNotations.
Open Scope Z_scope.

Lemma announced_app a b : announced (a ++ b) = announced a ++ announced b.
Proof. unfold announced. apply flat_map_app. Qed.

(* what one step announces *)
Lemma step_announced w i :
  announced (o_evs (snd (step w i))) =
  match i with
  | StreamStart => match pending_uri w with Some u => [u] | None => [] end
  | _ => []
  end.
Proof.
  destruct i; cbn [step]; rewrite ?on_about_to_finish_evs, ?on_source_setup_evs; try reflexivity.
  - destruct from_playbin; [|reflexivity]. unfold on_state_changed.
    destruct n, p; cbn; try reflexivity; destruct (target w); cbn; reflexivity.
  - unfold on_buffering. destruct (rank (target w) <? rank PAUSED); [reflexivity|].
    destruct mode as [[]|]; reflexivity.
  - unfold on_tag. destruct (pending_tags w); [reflexivity|].
    destruct (tag_diff (tags w) (convert_taglist tl)) as [c ch]. destruct ch; reflexivity.
  - unfold on_stream_start. cbn.
    destruct (match pending_tags w with Some t => t | None => [] end);
      destruct (pending_uri w); reflexivity.
Qed.

Lemma announced_run : forall ins w,
  announced (all_events w ins) = expected_announcements (atf_cb (cfg w)) (pending_uri w) ins.
Proof.
  induction ins as [|i t IH]; intros w; [reflexivity|].
  rewrite all_events_cons, announced_app, step_announced, IH, step_pending_uri, step_atf_cb.
  cbn [expected_announcements]. destruct i; reflexivity.
Qed.

Theorem stream_announced_once : forall ins,
  announced (all_events init ins) = expected_announcements false None ins.
Proof. intros ins. apply (announced_run ins init). Qed.

(* when: the announcement is the first thing the STREAM_START step emits, and it carries
   the URI of the last set_uri of the history *)
Theorem stream_start_announces_last_uri : forall pre,
  exists rest,
    o_evs (snd (step (final init pre) StreamStart)) = EvStream (last_uri pre) :: rest /\
    announced rest = [] /\
    (forall e, In e rest -> exists items, e = EvTags items).
Proof.
  intros pre. cbn [step]. unfold on_stream_start. cbn [snd o_evs].
  rewrite pending_uri_is_last_uri.
  eexists. split; [reflexivity|].
  destruct (match pending_tags (final init pre) with Some t => t | None => [] end) as [|x t].
  - split; [reflexivity|]. intros e [].
  - split; [reflexivity|]. intros e [<-|[]]. eauto.
Qed.

(* no other input announces a stream with a URI *)
Theorem only_stream_start_announces : forall w i u,
  In (EvStream (Some u)) (o_evs (snd (step w i))) -> i = StreamStart.
Proof.
  intros w i u H.
  assert (A : In u (announced (o_evs (snd (step w i))))).
  { unfold announced. apply in_flat_map. exists (EvStream (Some u)). split; [exact H|left; reflexivity]. }
  rewrite step_announced in A. destruct i; try contradiction. reflexivity.
Qed.

Example two_streams_announced :
  announced (all_events init [PrepareChange true; SetUri 7 plain; Start true; StreamStart;
                              SetUri 8 plain; StreamStart; StreamStart]) = [7; 8; 8].
Proof. vm_compute. reflexivity. Qed.
