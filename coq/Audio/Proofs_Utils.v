(* utils.Signals keeps GObject handler ids balanced; supported_uri_schemes is an intersection. *)
From Coq Require Import ZArith List Bool Lia.
From Common Require Import Res Str.
From Audio Require Import Utils.
Import ListNotations.
Open Scope Z_scope.

Lemma skey_eqb_refl k : skey_eqb k k = true.
Proof. unfold skey_eqb. rewrite !Z.eqb_refl. reflexivity. Qed.

Lemma skey_eqb_eq a b : skey_eqb a b = true <-> a = b.
Proof.
  unfold skey_eqb. destruct a, b. cbn. rewrite andb_true_iff, !Z.eqb_eq.
  split; [intros [-> ->]; reflexivity|intros H; inversion H; auto].
Qed.

Definition obind {A B} (o : option A) (f : A -> option B) : option B :=
  match o with Some a => f a | None => None end.

Lemma balance_app : forall a acc b, balance acc (a ++ b) = obind (balance acc a) (fun acc' => balance acc' b).
Proof.
  induction a as [|c a IH]; intros acc b; [reflexivity|].
  destruct c; cbn [app balance].
  - destruct (t_get k acc); [reflexivity|apply IH].
  - destruct (t_get k acc) as [h'|]; [|reflexivity]. destruct (hid =? h'); [apply IH|reflexivity].
Qed.

(* clear(): disconnecting the entries in table order is always well-formed and empties it *)
Lemma balance_clear : forall t, balance t (map (fun e => GDisconnect (fst e) (snd e)) t) = Some [].
Proof.
  induction t as [|[k h] r IH]; [reflexivity|].
  cbn [map fst snd balance t_get t_remove]. rewrite skey_eqb_refl, Z.eqb_refl. exact IH.
Qed.

Lemma step_balanced t o : balance t (snd (snd (sstep t o))) = Some (fst (sstep t o)).
Proof.
  destruct o; cbn [sstep].
  - destruct (t_get k t) eqn:G; cbn; [reflexivity|]. rewrite G. reflexivity.
  - destruct (t_get k t) as [h|] eqn:G; cbn; [|reflexivity]. rewrite G, Z.eqb_refl. reflexivity.
  - cbn. apply balance_clear.
Qed.

Lemma run_balanced : forall ops t, balance t (scalls t ops) = Some (sfinal t ops).
Proof.
  induction ops as [|o r IH]; intros t; [reflexivity|].
  cbn [scalls sfinal fold_left]. rewrite balance_app, step_balanced. cbn [obind]. apply IH.
Qed.

(* S1: over any sequence of connect/disconnect/clear calls (and any handler ids GObject
   hands out) the calls made on the elements are balanced: never a second handler on one
   (element, signal), every disconnect names a handler that is connected, with its own id;
   and Signals._ids is exactly the set of handlers still connected. *)
Theorem signals_balanced : forall ops, balance [] (scalls [] ops) = Some (sfinal [] ops).
Proof. intros ops. apply run_balanced. Qed.

(* S2: after clear() nothing stays connected *)
Theorem clear_disconnects_everything : forall ops,
  balance [] (scalls [] (ops ++ [SClear])) = Some [].
Proof.
  intros ops. rewrite signals_balanced. unfold sfinal. rewrite fold_left_app. reflexivity.
Qed.

(* S3: a second connect on an occupied (element, signal) raises and does nothing *)
Theorem connect_twice_raises : forall t k h,
  t_get k t <> None -> sstep t (SConnect k h) = (t, (Raise AssertionError, [])).
Proof. intros t k h H. cbn [sstep]. destruct (t_get k t); [reflexivity|congruence]. Qed.

(* keys are unique in every reachable table, hence disconnect is idempotent *)
Lemma t_get_app_none k t e : t_get k t = None -> t_get k (t ++ [e]) = (if skey_eqb k (fst e) then Some (snd e) else None).
Proof.
  induction t as [|[k' h'] r IH]; intros H; cbn in *; [destruct e; reflexivity|].
  destruct (skey_eqb k k'); [discriminate|apply IH, H].
Qed.

Fixpoint unique_keys (t : table) : Prop :=
  match t with
  | [] => True
  | (k, _) :: r => t_get k r = None /\ unique_keys r
  end.

Lemma t_get_remove_other k k' t : skey_eqb k k' = false -> t_get k (t_remove k' t) = t_get k t.
Proof.
  intros N. induction t as [|[k2 h2] r IH]; [reflexivity|]. cbn.
  destruct (skey_eqb k' k2) eqn:E.
  - apply skey_eqb_eq in E. subst k2. rewrite N. reflexivity.
  - cbn. rewrite IH. reflexivity.
Qed.

Lemma skey_eqb_sym a b : skey_eqb a b = skey_eqb b a.
Proof. unfold skey_eqb. rewrite (Z.eqb_sym (fst a)), (Z.eqb_sym (snd a)). reflexivity. Qed.

Lemma unique_get_removed k t : unique_keys t -> t_get k (t_remove k t) = None.
Proof.
  induction t as [|[k' h'] r IH]; intros U; [reflexivity|]. destruct U as [N U]. cbn.
  destruct (skey_eqb k k') eqn:E.
  - apply skey_eqb_eq in E. subst k'. exact N.
  - cbn. rewrite E. apply IH, U.
Qed.

Lemma unique_remove k t : unique_keys t -> unique_keys (t_remove k t).
Proof.
  induction t as [|[k' h'] r IH]; intros U; [exact I|]. destruct U as [N U]. cbn.
  destruct (skey_eqb k k') eqn:E; [exact U|]. cbn. split; [|apply IH, U].
  rewrite t_get_remove_other; [exact N|]. rewrite skey_eqb_sym. exact E.
Qed.

Lemma unique_snoc k h t : unique_keys t -> t_get k t = None -> unique_keys (t ++ [(k, h)]).
Proof.
  induction t as [|[k' h'] r IH]; intros U N; [cbn; auto|].
  destruct U as [N' U]. cbn in N. destruct (skey_eqb k k') eqn:E; [discriminate|].
  cbn. split; [|apply IH; assumption].
  rewrite t_get_app_none by exact N'. cbn. rewrite skey_eqb_sym, E. reflexivity.
Qed.

Lemma step_unique t o : unique_keys t -> unique_keys (fst (sstep t o)).
Proof.
  intros U. destruct o; cbn [sstep].
  - destruct (t_get k t) eqn:G; cbn; [exact U|apply unique_snoc; assumption].
  - destruct (t_get k t); cbn; [apply unique_remove, U|exact U].
  - exact I.
Qed.

Theorem reachable_keys_unique : forall ops, unique_keys (sfinal [] ops).
Proof.
  intros ops. unfold sfinal.
  assert (G : forall t, unique_keys t -> unique_keys (fold_left (fun t o => fst (sstep t o)) ops t)).
  { induction ops as [|o r IH]; intros t U; [exact U|]. cbn. apply IH, step_unique, U. }
  apply G. exact I.
Qed.

(* S4: disconnect is idempotent on every reachable table: the second call touches nothing *)
Theorem disconnect_idempotent : forall ops k,
  let t := sfinal [] ops in
  let t1 := fst (sstep t (SDisconnect k)) in
  sstep t1 (SDisconnect k) = (t1, (Ok tt, [])).
Proof.
  intros ops k. cbn zeta. pose proof (unique_get_removed k _ (reachable_keys_unique ops)) as U.
  cbn [sstep]. destruct (t_get k (sfinal [] ops)) eqn:G; cbn [fst].
  - rewrite U. reflexivity.
  - rewrite G. reflexivity.
Qed.

(* ---------------------------------------------------------------- supported_uri_schemes *)

Theorem supported_spec : forall factories wanted s,
  In s (supported_uri_schemes factories wanted) <->
  In s wanted /\ exists protos, In protos factories /\ In s protos.
Proof.
  intros f w s. unfold supported_uri_schemes. rewrite in_flat_map. split.
  - intros (protos & Hf & H). apply filter_In in H. destruct H as [Hs E].
    apply existsb_exists in E. destruct E as (x & Hx & E). apply Z.eqb_eq in E. subst x. eauto.
  - intros (Hw & protos & Hf & Hs). exists protos. split; [exact Hf|].
    apply filter_In. split; [exact Hs|]. apply existsb_exists. exists s. split; [exact Hw|apply Z.eqb_refl].
Qed.
