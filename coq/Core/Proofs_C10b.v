(* C10 (play-last), proved for the model by stepwise symbolic execution: a new process that has
   restored the tracklist (any stopped state with nothing pending, e.g. right after the
   tracklist/mode/mixer/history sections were restored) and then restores "playing at position
   p on tlid i" ends, after the notifications are delivered, on that entry, playing, at p. *)
From Coq Require Import ZArith List Bool Lia ZifyBool.
From RecordUpdate Require Import RecordSet.
From Common Require Import Res.
From Core Require Import World Hoare Model Step Reach Proofs_C03b Proofs_C02b.
Import ListNotations RecordSetNotations.
Open Scope Z_scope.

Section P.
Variable shuf : Z -> list tlt -> list tlt.

Lemma gtp_none_run w : pending_position w = None -> current w = None -> get_time_position w = (Ok 0, w).
Proof. intros Hpp Hc. unfold get_time_position, has_backend, bind, get, ret. rewrite Hpp, Hc. reflexivity. Qed.

(* _change to x from a stopped core without current track *)
Definition fx_change0 (x : tlt) (w : world) : world :=
  let w0 := w <| pending := Some x |> in
  let w2 := w0 <| last_position := Some 0 |> in
  Proofs_C03b.fx_set_state Playing (fx_attempt (trk x) (fx_prepare w2)).

Lemma change0_run x w :
  pending_position w = None -> current w = None -> accepts w x ->
  change shuf (Some x) Playing w = (Ok true, fx_change0 x w).
Proof.
  intros Hpp Hc [Hk Hs]. unfold change, fx_change0. cbv zeta.
  set (w0 := w <| pending := Some x |>).
  assert (E0 : modify (fun w => w <| pending := Some x |>) w = (Ok tt, w0)) by reflexivity. step E0.
  assert (E1 : get w0 = (Ok w0, w0)) by reflexivity. step E1.
  assert (Hb : has_backend w0 (Some x) = true).
  { unfold has_backend. change (kind_of w0 (trk x)) with (kind_of w (trk x)). rewrite Hk. reflexivity. }
  rewrite Hb. cbn [negb].
  step (gtp_none_run w0 Hpp Hc).
  set (w2 := w0 <| last_position := Some 0 |>).
  assert (E3 : modify (fun w => w <| last_position := Some 0 |>) w0 = (Ok tt, w2)) by reflexivity. step E3.
  step (prepare_run w2).
  assert (E4 : attempt_change (trk x) (fx_prepare w2) = (Ok true, fx_attempt (trk x) (fx_prepare w2))).
  { apply attempt_run; [exact Hk|exact Hs|reflexivity]. }
  step E4. cbn [negb].
  apply (Proofs_C03b.set_state_run Playing (fx_attempt (trk x) (fx_prepare w2)) (trk x)); [discriminate|reflexivity|reflexivity].
Qed.

(* play(tlid) in a fresh stopped core *)
Lemma play_tlid_run f i x w :
  pstate w = Stopped -> 1 <= i -> find (fun y => tlid y =? i) (World.tl w) = Some x ->
  pending w = None -> current w = None -> pending_position w = None -> accepts w x ->
  play shuf (S f) (Some i) w = (Ok tt, fx_change0 x w).
Proof.
  intros Hs Hi Hf Hp Hc Hpp Ha. unfold play.
  assert (E0 : get w = (Ok w, w)) by reflexivity. step E0. cbv beta iota.
  replace (i <? 1) with false by lia.
  assert (E1 : ret tt w = (Ok tt, w)) by reflexivity. step E1.
  rewrite Hf, Hp, Hc. cbn [orelse].
  assert (E2 : ret (Some x) w = (Ok (Some x), w)) by reflexivity. step E2.
  step E0. cbn [play_loop].
  step (change0_run x w Hpp Hc Ha). reflexivity.
Qed.

(* seek within the current track while playing/paused, no switch under way *)
Definition fx_seek (p : Z) (w : world) : world :=
  w <| pending_position := Some p |> <| bcalls := bcalls w + 1 |> <| acalls := ASetPosition p :: acalls w |>
    <| a_pos := p |> <| queue := queue w ++ [NPositionChanged p] |>.

Lemma seek_run f p x len w :
  0 <= p -> World.tl w <> [] -> pstate w <> Stopped -> current w = Some x -> pending w = None ->
  len_of w (trk x) = Some len -> p <= len -> tkind_has_backend (kind_of w (trk x)) = true ->
  seek shuf (S f) p w = (Ok true, fx_seek p w).
Proof.
  intros Hp Htl Hs Hc Hpe Hlen Hle Hb. unfold seek.
  replace (p <? 0) with false by lia.
  assert (E0 : get w = (Ok w, w)) by reflexivity. step E0.
  assert (Hz : (zlen (World.tl w) =? 0) = false).
  { destruct (World.tl w); [contradiction|]. unfold zlen. cbn [length]. lia. }
  rewrite Hz. rewrite (ps_neq_stopped _ Hs).
  assert (E1 : ret tt w = (Ok tt, w)) by reflexivity. step E1. step E0.
  rewrite Hc. cbn [orelse]. rewrite Hlen. replace (len <? p) with false by lia.
  set (w1 := w <| pending_position := Some p |>).
  assert (E2 : modify (fun w => w <| pending_position := Some p |>) w = (Ok tt, w1)) by reflexivity. step E2.
  rewrite Hpe. cbn [is_some andb].
  unfold seek_backend. assert (E3 : get w1 = (Ok w1, w1)) by reflexivity. step E3.
  assert (Hh : has_backend w1 (current w1) = true).
  { unfold has_backend. change (current w1) with (current w). rewrite Hc.
    change (kind_of w1 (trk x)) with (kind_of w (trk x)). exact Hb. }
  rewrite Hh. unfold env_set_position, bcall, acall_log, enqueue, bind, modify, ret. cbn.
  match goal with |- (_, ?a) = (_, ?b) => assert (Hw : a = b); [|rewrite Hw; reflexivity] end.
  unfold fx_seek, w1. world_eq.
Qed.

Definition fx_started (x : tlt) (w : world) : world :=
  w <| shuffled := if random w && mem_tlt x (shuffled w) then remove_first x (shuffled w) else shuffled w |>
    <| history := trk x :: history w |> <| events := EvStarted x :: events w |>.

Lemma trigger_started_run x w : current w = Some x -> trigger_started w = (Ok tt, fx_started x w).
Proof.
  intros Hc. unfold trigger_started, mark_playing, history_add, emit, bind, get, modify, ret.
  rewrite Hc. cbn -[mem_tlt remove_first].
  destruct (random w && mem_tlt x (shuffled w)) eqn:Er; cbn -[mem_tlt remove_first];
    (match goal with |- (_, ?a) = (_, ?b) => assert (Hw : a = b); [|rewrite Hw; reflexivity] end);
    unfold fx_started; rewrite Er; world_eq.
Qed.

Lemma trigger_ended_none pos w : current w = None -> trigger_ended shuf pos w = (Ok tt, w).
Proof. intros Hc. unfold trigger_ended, bind, get, ret. rewrite Hc. reflexivity. Qed.

Lemma bind_bind_ok {A B C} (m : M A) (g : A -> M B) (h : B -> M C) w a w1 :
  m w = (Ok a, w1) -> bind (bind m g) h w = bind (g a) h w1.
Proof. intros E. unfold bind. rewrite E. reflexivity. Qed.

Lemma modify_ret {A} (f : world -> world) (a : A) w : (modify f ;; ret a)%M w = (Ok a, f w).
Proof. reflexivity. Qed.

(* stream_changed in the restoring process: promote the restored track, start it, and seek to
   the saved position *)
Definition fx_restore_started (x : tlt) (p : Z) (w : world) : world :=
  let w2 := w <| last_position := None |> <| current := Some x |> <| pending := None |> in
  let w4 := fx_started x (Proofs_C02b.fx_set_state Playing w2) in
  (fx_seek p w4) <| start_at_position := None |>.

Lemma stream_changed_restore_run f x p len w :
  pending w = Some x -> current w = None -> pending_position w = None -> last_position w = Some 0 ->
  start_at_position w = Some p -> 0 < p -> p <= len -> len_of w (trk x) = Some len ->
  World.tl w <> [] -> tkind_has_backend (kind_of w (trk x)) = true ->
  on_stream_changed shuf (S f) w = (Ok tt, fx_restore_started x p w).
Proof.
  intros Hp Hc Hpp Hl Hsa Hp0 Hle Hlen Htl Hb. unfold on_stream_changed, fx_restore_started. cbv zeta.
  assert (E0 : get w = (Ok w, w)) by reflexivity. step E0. rewrite Hl.
  set (w1 := w <| last_position := None |>).
  assert (E1 : (modify (fun w => w <| last_position := None |>) ;; ret 0)%M w = (Ok 0, w1)) by reflexivity.
  step E1.
  assert (E2 : get w1 = (Ok w1, w1)) by reflexivity. step E2.
  change (pending_position w1) with (pending_position w). rewrite Hpp. cbn [is_some negb].
  step (trigger_ended_none 0 w1 Hc). step E2.
  change (pending w1) with (pending w). rewrite Hp.
  set (w2 := w1 <| current := Some x |> <| pending := None |>).
  assert (E3 : modify (fun w0 => w0 <| current := pending w0 |> <| pending := None |>) w1 = (Ok tt, w2)).
  { unfold modify, w2. change (pending w1) with (pending w). rewrite Hp. reflexivity. }
  step E3.
  assert (E4 : get w2 = (Ok w2, w2)) by reflexivity. step E4.
  change (pending_position w2) with (pending_position w). rewrite Hpp.
  step (Proofs_C02b.set_state_run Playing w2).
  set (w3 := Proofs_C02b.fx_set_state Playing w2).
  step (trigger_started_run x w3 eq_refl).
  set (w4 := fx_started x w3).
  assert (E5 : get w4 = (Ok w4, w4)) by reflexivity. step E5.
  change (start_at_position w4) with (start_at_position w). rewrite Hsa.
  replace (p =? 0) with false by lia.
  assert (E6 : seek shuf (S f) p w4 = (Ok true, fx_seek p w4)).
  { apply (seek_run f p x len w4); try reflexivity; try lia; try assumption; discriminate. }
  rewrite (bind_bind_ok _ _ _ _ _ _ E6).
  set (w5 := fx_seek p w4).
  assert (E7 : (modify (fun w => w <| start_at_position := None |>) ;; ret true)%M w5
               = (Ok true, w5 <| start_at_position := None |>)) by reflexivity.
  step E7.
  set (w6 := w5 <| start_at_position := None |>).
  assert (E8 : get w6 = (Ok w6, w6)) by reflexivity. step E8. reflexivity.
Qed.

(* the first position_changed that arrives completes the pending seek *)
Definition fx_seeked (p : Z) (w : world) : world :=
  w <| events := EvSeeked p :: events w |> <| pending_position := None |>.

Lemma position_changed_seek_run p w :
  pending_position w = Some p -> start_paused w = false ->
  on_position_changed w = (Ok tt, fx_seeked p w).
Proof.
  intros Hpp Hsp. unfold on_position_changed, emit, bind, get, modify, ret. rewrite Hpp. cbn.
  rewrite Hsp. reflexivity.
Qed.

Lemma gtp_pp_run p w : pending_position w = Some p -> get_time_position w = (Ok p, w).
Proof. intros H. unfold get_time_position, bind, get, ret. rewrite H. reflexivity. Qed.

(* a new, stopped process with nothing pending (as left by the tracklist / mode / mixer / history
   sections of the restore) *)
Record fresh_stopped (w : world) : Prop := {
  fs_state : pstate w = Stopped; fs_cur : current w = None; fs_pend : pending w = None;
  fs_pp : pending_position w = None; fs_queue : queue w = []; fs_sp : start_paused w = false;
  fs_uri : a_uri w = None; fs_astate : a_state w = Stopped
}.

Definition play_last_cov : coverage := mkCov false false true false false.

Lemma load_play_last_run f s i x p w :
  s_tlid s = Some i -> s_state s = Playing -> s_pos s = p ->
  fresh_stopped w -> 1 <= i -> find (fun y => tlid y =? i) (World.tl w) = Some x -> accepts w x ->
  load_state shuf (S f) play_last_cov s w = (Ok tt, fx_change0 x (w <| start_at_position := Some p |>)).
Proof.
  intros Ht Hs Hpos [Hst Hc Hpe Hpp Hq Hsp Hu Has] Hi Hf Ha. unfold load_state, play_last_cov.
  cbn [cov_history cov_mode cov_tracklist cov_mixer cov_play_last].
  assert (E0 : ret tt w = (Ok tt, w)) by reflexivity. do 4 step E0.
  rewrite Ht, Hs, Hpos. cbn [ps_eqb]. step E0.
  set (w1 := w <| start_at_position := Some p |>).
  assert (E1 : modify (fun w => w <| start_at_position := Some p |>) w = (Ok tt, w1)) by reflexivity. step E1.
  apply (play_tlid_run f i x w1); try assumption.
Qed.

Theorem restore_playing_at_position f s i x p len w :
  s_tlid s = Some i -> s_state s = Playing -> s_pos s = p ->
  fresh_stopped w -> 1 <= i -> find (fun y => tlid y =? i) (World.tl w) = Some x -> accepts w x ->
  len_of w (trk x) = Some len -> 0 < p -> p <= len ->
  let w0 := snd (load_state shuf (S f) play_last_cov s w) in
  let w' := run_world shuf (S f) w0 [Deliver; Deliver; Deliver; Deliver; Deliver] in
  option_map tlid (current w') = Some i /\ pstate w' = Playing /\ pending w' = None /\ queue w' = []
  /\ a_pos w' = p /\ fst (get_time_position w') = Ok p
  /\ a_uri w' = Some (trk x) /\ a_state w' = Playing /\ World.tl w' = World.tl w.
Proof.
  intros Ht Hs Hpos Hfs Hi Hf Ha Hlen Hp0 Hle.
  rewrite (load_play_last_run f s i x p w Ht Hs Hpos Hfs Hi Hf Ha). cbn [snd].
  destruct Hfs as [Hst Hc Hpe Hpp Hq Hsp Hu Has]. destruct Ha as [Hk Hsc].
  assert (Hxi : tlid x = i).
  { apply find_some in Hf. destruct Hf as [_ Hf]. lia. }
  assert (Htl : World.tl w <> []).
  { intro E. rewrite E in Hf. discriminate. }
  assert (Hbx : forall w0, tkinds w0 = tkinds w -> tkind_has_backend (kind_of w0 (trk x)) = true).
  { intros w0 E. unfold kind_of in *. rewrite E, Hk. reflexivity. }
  cbv zeta. unfold run_world. cbn [fold_left].
  set (w1 := fx_change0 x (w <| start_at_position := Some p |>)).
  (* Deliver stream_changed *)
  assert (Q1 : queue w1 = [NStreamChanged (Some (trk x)); NPositionChanged 0; NStateChanged Stopped Playing; NTagsChanged]).
  { unfold w1, fx_change0, Proofs_C03b.fx_set_state. cbn. rewrite Hq, Has. reflexivity. }
  pose proof (deliver_run shuf (S f) _ _ w1 Q1) as D1. cbv beta iota in D1.
  set (w1q := w1 <| queue := [NPositionChanged 0; NStateChanged Stopped Playing; NTagsChanged] |>) in *.
  assert (S1 : on_stream_changed shuf (S f) w1q = (Ok tt, fx_restore_started x p w1q)).
  { apply (stream_changed_restore_run f x p len w1q); try reflexivity; try assumption;
      unfold w1q, w1; cbn; try assumption. apply Hbx. reflexivity. }
  rewrite S1 in D1.
  set (w2 := fx_restore_started x p w1q) in *.
  assert (G2 : get_time_position w2 = (Ok p, w2)) by (apply gtp_pp_run; reflexivity).
  rewrite (stepw_eq shuf (S f) Deliver w1 RNone w2 _ _ (run_op_bind_none _ w1 tt w2 D1) G2).
  (* Deliver position_changed 0: completes the seek *)
  assert (Q2 : queue w2 = [NPositionChanged 0; NStateChanged Stopped Playing; NTagsChanged; NPositionChanged p]) by reflexivity.
  pose proof (deliver_run shuf (S f) _ _ w2 Q2) as D2. cbv beta iota in D2.
  set (w2q := w2 <| queue := [NStateChanged Stopped Playing; NTagsChanged; NPositionChanged p] |>) in *.
  assert (S2 : on_position_changed w2q = (Ok tt, fx_seeked p w2q)).
  { apply position_changed_seek_run; [reflexivity|]. unfold w2q, w2, w1q, w1. cbn. exact Hsp. }
  rewrite S2 in D2.
  set (w3 := fx_seeked p w2q) in *.
  assert (G3 : get_time_position w3 = (Ok (a_pos w3), fx_gtp w3)).
  { apply (gtp_run w3 x); [reflexivity|reflexivity|apply Hbx; reflexivity]. }
  rewrite (stepw_eq shuf (S f) Deliver w2 RNone w3 _ _ (run_op_bind_none _ w2 tt w3 D2) G3).
  (* Deliver state_changed *)
  set (w3' := fx_gtp w3).
  assert (Q3 : queue w3' = [NStateChanged Stopped Playing; NTagsChanged; NPositionChanged p]) by reflexivity.
  pose proof (deliver_run shuf (S f) _ _ w3' Q3) as D3. cbv beta iota in D3.
  rewrite state_changed_not_paused in D3 by discriminate.
  set (w4 := w3' <| queue := [NTagsChanged; NPositionChanged p] |>) in *.
  assert (G4 : get_time_position w4 = (Ok (a_pos w4), fx_gtp w4)).
  { apply (gtp_run w4 x); [reflexivity|reflexivity|apply Hbx; reflexivity]. }
  rewrite (stepw_eq shuf (S f) Deliver w3' RNone w4 _ _ (run_op_bind_none _ w3' tt w4 D3) G4).
  (* Deliver tags_changed *)
  set (w4' := fx_gtp w4).
  assert (Q4 : queue w4' = [NTagsChanged; NPositionChanged p]) by reflexivity.
  pose proof (deliver_run shuf (S f) _ _ w4' Q4) as D4. cbv beta iota in D4.
  set (w5 := w4' <| queue := [NPositionChanged p] |>) in *.
  assert (G5 : get_time_position w5 = (Ok (a_pos w5), fx_gtp w5)).
  { apply (gtp_run w5 x); [reflexivity|reflexivity|apply Hbx; reflexivity]. }
  assert (D4' : (deliver shuf (S f) ;; ret RNone)%M w4' = (Ok RNone, w5)).
  { apply (run_op_bind_none _ w4' tt w5). exact D4. }
  rewrite (stepw_eq shuf (S f) Deliver w4' RNone w5 _ _ D4' G5).
  (* Deliver position_changed p *)
  set (w5' := fx_gtp w5).
  assert (Q5 : queue w5' = [NPositionChanged p]) by reflexivity.
  pose proof (deliver_run shuf (S f) _ _ w5' Q5) as D5. cbv beta iota in D5.
  rewrite position_changed_noop in D5 by reflexivity.
  set (w6 := w5' <| queue := [] |>) in *.
  assert (G6 : get_time_position w6 = (Ok (a_pos w6), fx_gtp w6)).
  { apply (gtp_run w6 x); [reflexivity|reflexivity|apply Hbx; reflexivity]. }
  rewrite (stepw_eq shuf (S f) Deliver w5' RNone w6 _ _ (run_op_bind_none _ w5' tt w6 D5) G6).
  assert (G7 : get_time_position (fx_gtp w6) = (Ok p, fx_gtp (fx_gtp w6))).
  { apply (gtp_run (fx_gtp w6) x); [reflexivity|reflexivity|apply Hbx; reflexivity]. }
  rewrite G7. cbn [fst].
  repeat split; try reflexivity. cbn. rewrite Hxi. reflexivity.
Qed.

(* ---- restored as paused: the first position_changed completes the seek and pauses *)
Definition fx_seeked_pause (x : tlt) (p : Z) (w : world) : world :=
  fx_pause x (fx_seeked p w <| start_paused := false |>).

Lemma position_changed_seek_pause_run x p u w :
  pending_position w = Some p -> start_paused w = true -> current w = Some x ->
  tkind_has_backend (kind_of w (trk x)) = true -> a_uri w = Some u -> a_fresh w = false ->
  on_position_changed w = (Ok tt, fx_seeked_pause x p w).
Proof.
  intros Hpp Hsp Hc Hb Hu Hf. unfold on_position_changed.
  assert (E0 : get w = (Ok w, w)) by reflexivity. step E0. rewrite Hpp.
  set (w1 := fx_seeked p w).
  assert (E1 : emit (EvSeeked p) w = (Ok tt, w <| events := EvSeeked p :: events w |>)) by reflexivity. step E1.
  assert (E2 : modify (fun w => w <| pending_position := None |>) (w <| events := EvSeeked p :: events w |>) = (Ok tt, w1)) by reflexivity.
  step E2.
  assert (E3 : get w1 = (Ok w1, w1)) by reflexivity. step E3.
  change (start_paused w1) with (start_paused w). rewrite Hsp.
  set (w2 := w1 <| start_paused := false |>).
  assert (E4 : modify (fun w => w <| start_paused := false |>) w1 = (Ok tt, w2)) by reflexivity. step E4.
  apply (pause_run w2 x u); try reflexivity; assumption.
Qed.

Lemma state_changed_already_paused o w : pstate w = Paused -> on_state_changed o Paused w = (Ok tt, w).
Proof. intros H. unfold on_state_changed, bind, get. rewrite H. reflexivity. Qed.

Lemma load_play_last_paused_run f s i x p w :
  s_tlid s = Some i -> s_state s = Paused -> s_pos s = p ->
  fresh_stopped w -> 1 <= i -> find (fun y => tlid y =? i) (World.tl w) = Some x -> accepts w x ->
  load_state shuf (S f) play_last_cov s w
  = (Ok tt, fx_change0 x (w <| start_paused := true |> <| start_at_position := Some p |>)).
Proof.
  intros Ht Hs Hpos [Hst Hc Hpe Hpp Hq Hsp Hu Has] Hi Hf Ha. unfold load_state, play_last_cov.
  cbn [cov_history cov_mode cov_tracklist cov_mixer cov_play_last].
  assert (E0 : ret tt w = (Ok tt, w)) by reflexivity. do 4 step E0.
  rewrite Ht, Hs, Hpos. cbn [ps_eqb].
  set (w0 := w <| start_paused := true |>).
  assert (E0' : modify (fun w => w <| start_paused := true |>) w = (Ok tt, w0)) by reflexivity. step E0'.
  set (w1 := w0 <| start_at_position := Some p |>).
  assert (E1 : modify (fun w => w <| start_at_position := Some p |>) w0 = (Ok tt, w1)) by reflexivity. step E1.
  apply (play_tlid_run f i x w1); try assumption.
Qed.

Theorem restore_paused_at_position f s i x p len w :
  s_tlid s = Some i -> s_state s = Paused -> s_pos s = p ->
  fresh_stopped w -> 1 <= i -> find (fun y => tlid y =? i) (World.tl w) = Some x -> accepts w x ->
  len_of w (trk x) = Some len -> 0 < p -> p <= len ->
  let w0 := snd (load_state shuf (S f) play_last_cov s w) in
  let w' := run_world shuf (S f) w0 [Deliver; Deliver; Deliver; Deliver; Deliver; Deliver; Deliver] in
  option_map tlid (current w') = Some i /\ pstate w' = Paused /\ pending w' = None /\ queue w' = []
  /\ a_pos w' = p /\ fst (get_time_position w') = Ok p
  /\ a_uri w' = Some (trk x) /\ a_state w' = Paused /\ World.tl w' = World.tl w.
Proof.
  intros Ht Hs Hpos Hfs Hi Hf Ha Hlen Hp0 Hle.
  rewrite (load_play_last_paused_run f s i x p w Ht Hs Hpos Hfs Hi Hf Ha). cbn [snd].
  destruct Hfs as [Hst Hc Hpe Hpp Hq Hsp Hu Has]. destruct Ha as [Hk Hsc].
  assert (Hxi : tlid x = i).
  { apply find_some in Hf. destruct Hf as [_ Hf]. lia. }
  assert (Htl : World.tl w <> []).
  { intro E. rewrite E in Hf. discriminate. }
  assert (Hbx : forall w0, tkinds w0 = tkinds w -> tkind_has_backend (kind_of w0 (trk x)) = true).
  { intros w0 E. unfold kind_of in *. rewrite E, Hk. reflexivity. }
  cbv zeta. unfold run_world. cbn [fold_left].
  set (w1 := fx_change0 x (w <| start_paused := true |> <| start_at_position := Some p |>)).
  assert (Q1 : queue w1 = [NStreamChanged (Some (trk x)); NPositionChanged 0; NStateChanged Stopped Playing; NTagsChanged]).
  { unfold w1, fx_change0, Proofs_C03b.fx_set_state. cbn. rewrite Hq, Has. reflexivity. }
  pose proof (deliver_run shuf (S f) _ _ w1 Q1) as D1. cbv beta iota in D1.
  set (w1q := w1 <| queue := [NPositionChanged 0; NStateChanged Stopped Playing; NTagsChanged] |>) in *.
  assert (S1 : on_stream_changed shuf (S f) w1q = (Ok tt, fx_restore_started x p w1q)).
  { apply (stream_changed_restore_run f x p len w1q); try reflexivity; try assumption;
      unfold w1q, w1; cbn; try assumption. apply Hbx. reflexivity. }
  rewrite S1 in D1.
  set (w2 := fx_restore_started x p w1q) in *.
  assert (G2 : get_time_position w2 = (Ok p, w2)) by (apply gtp_pp_run; reflexivity).
  rewrite (stepw_eq shuf (S f) Deliver w1 RNone w2 _ _ (run_op_bind_none _ w1 tt w2 D1) G2).
  (* position_changed 0: seek complete, pause *)
  assert (Q2 : queue w2 = [NPositionChanged 0; NStateChanged Stopped Playing; NTagsChanged; NPositionChanged p]) by reflexivity.
  pose proof (deliver_run shuf (S f) _ _ w2 Q2) as D2. cbv beta iota in D2.
  set (w2q := w2 <| queue := [NStateChanged Stopped Playing; NTagsChanged; NPositionChanged p] |>) in *.
  assert (S2 : on_position_changed w2q = (Ok tt, fx_seeked_pause x p w2q)).
  { apply (position_changed_seek_pause_run x p (trk x)); try reflexivity. apply Hbx. reflexivity. }
  rewrite S2 in D2.
  set (w3 := fx_seeked_pause x p w2q) in *.
  assert (G3 : get_time_position w3 = (Ok (a_pos w3), fx_gtp w3)).
  { apply (gtp_run w3 x); [reflexivity|reflexivity|apply Hbx; reflexivity]. }
  rewrite (stepw_eq shuf (S f) Deliver w2 RNone w3 _ _ (run_op_bind_none _ w2 tt w3 D2) G3).
  (* state_changed stopped->playing *)
  set (w3' := fx_gtp w3).
  assert (Q3 : queue w3' = [NStateChanged Stopped Playing; NTagsChanged; NPositionChanged p; NPositionChanged 0; NStateChanged Playing Paused]) by reflexivity.
  pose proof (deliver_run shuf (S f) _ _ w3' Q3) as D3. cbv beta iota in D3.
  rewrite state_changed_not_paused in D3 by discriminate.
  set (w4 := w3' <| queue := [NTagsChanged; NPositionChanged p; NPositionChanged 0; NStateChanged Playing Paused] |>) in *.
  assert (G4 : get_time_position w4 = (Ok (a_pos w4), fx_gtp w4)).
  { apply (gtp_run w4 x); [reflexivity|reflexivity|apply Hbx; reflexivity]. }
  rewrite (stepw_eq shuf (S f) Deliver w3' RNone w4 _ _ (run_op_bind_none _ w3' tt w4 D3) G4).
  (* tags *)
  set (w4' := fx_gtp w4).
  assert (Q4 : queue w4' = [NTagsChanged; NPositionChanged p; NPositionChanged 0; NStateChanged Playing Paused]) by reflexivity.
  pose proof (deliver_run shuf (S f) _ _ w4' Q4) as D4. cbv beta iota in D4.
  set (w5 := w4' <| queue := [NPositionChanged p; NPositionChanged 0; NStateChanged Playing Paused] |>) in *.
  assert (G5 : get_time_position w5 = (Ok (a_pos w5), fx_gtp w5)).
  { apply (gtp_run w5 x); [reflexivity|reflexivity|apply Hbx; reflexivity]. }
  assert (D4' : (deliver shuf (S f) ;; ret RNone)%M w4' = (Ok RNone, w5)).
  { apply (run_op_bind_none _ w4' tt w5). exact D4. }
  rewrite (stepw_eq shuf (S f) Deliver w4' RNone w5 _ _ D4' G5).
  (* position_changed p *)
  set (w5' := fx_gtp w5).
  assert (Q5 : queue w5' = [NPositionChanged p; NPositionChanged 0; NStateChanged Playing Paused]) by reflexivity.
  pose proof (deliver_run shuf (S f) _ _ w5' Q5) as D5. cbv beta iota in D5.
  rewrite position_changed_noop in D5 by reflexivity.
  set (w6 := w5' <| queue := [NPositionChanged 0; NStateChanged Playing Paused] |>) in *.
  assert (G6 : get_time_position w6 = (Ok (a_pos w6), fx_gtp w6)).
  { apply (gtp_run w6 x); [reflexivity|reflexivity|apply Hbx; reflexivity]. }
  rewrite (stepw_eq shuf (S f) Deliver w5' RNone w6 _ _ (run_op_bind_none _ w5' tt w6 D5) G6).
  (* position_changed 0 (from pause) *)
  set (w6' := fx_gtp w6).
  assert (Q6 : queue w6' = [NPositionChanged 0; NStateChanged Playing Paused]) by reflexivity.
  pose proof (deliver_run shuf (S f) _ _ w6' Q6) as D6. cbv beta iota in D6.
  rewrite position_changed_noop in D6 by reflexivity.
  set (w7 := w6' <| queue := [NStateChanged Playing Paused] |>) in *.
  assert (G7 : get_time_position w7 = (Ok (a_pos w7), fx_gtp w7)).
  { apply (gtp_run w7 x); [reflexivity|reflexivity|apply Hbx; reflexivity]. }
  rewrite (stepw_eq shuf (S f) Deliver w6' RNone w7 _ _ (run_op_bind_none _ w6' tt w7 D6) G7).
  (* state_changed playing->paused: the core is already paused *)
  set (w7' := fx_gtp w7).
  assert (Q7 : queue w7' = [NStateChanged Playing Paused]) by reflexivity.
  pose proof (deliver_run shuf (S f) _ _ w7' Q7) as D7. cbv beta iota in D7.
  rewrite state_changed_already_paused in D7 by reflexivity.
  set (w8 := w7' <| queue := [] |>) in *.
  assert (G8 : get_time_position w8 = (Ok (a_pos w8), fx_gtp w8)).
  { apply (gtp_run w8 x); [reflexivity|reflexivity|apply Hbx; reflexivity]. }
  rewrite (stepw_eq shuf (S f) Deliver w7' RNone w8 _ _ (run_op_bind_none _ w7' tt w8 D7) G8).
  assert (G9 : get_time_position (fx_gtp w8) = (Ok p, fx_gtp (fx_gtp w8))).
  { apply (gtp_run (fx_gtp w8) x); [reflexivity|reflexivity|apply Hbx; reflexivity]. }
  rewrite G9. cbn [fst].
  repeat split; try reflexivity. cbn. rewrite Hxi. reflexivity.
Qed.

End P.

(* non-vacuity: the state a new process is in after the tracklist section was restored *)
Definition w_restored : world :=
  Eval vm_compute in
    run_world shuf_concrete 10 (init_world 50 [Playable; Playable; Playable] [Some 900; Some 900; Some 900] [] None None)
      [Add [0; 1; 2] None].

Example c10b_nonvacuous :
  fresh_stopped w_restored /\ find (fun y => tlid y =? 2) (World.tl w_restored) = Some (mkTlt 2 1)
  /\ accepts w_restored (mkTlt 2 1) /\ len_of w_restored 1 = Some 900.
Proof. repeat split; vm_compute; reflexivity. Qed.
