(* C05 / C03 (skipping): next() tries the FOLLOWING candidates: for a tracklist
   pre ++ c :: us ++ x :: post in which every entry of us is unplayable in any of the four ways
   (refused, no URI, raises, no backend) and x is playable, next() from a state settled on c
   ends - after the notifications - on x, in the kept state; every entry of us was asked at most
   once and none of them was announced or left pending.  (sequential order, consume off) *)
From Coq Require Import ZArith List Bool Lia ZifyBool.
From RecordUpdate Require Import RecordSet.
From Common Require Import Res.
From Core Require Import World Hoare Model Step Reach ListLemmas Inv_Accepted Proofs_C03b Proofs_C02b Proofs_C10b Proofs_C02c Proofs_C03c.
Import ListNotations RecordSetNotations.
Open Scope Z_scope.

Section P.
Variable shuf : Z -> list tlt -> list tlt.

(* what a refused switch leaves untouched *)
Record skipped (w w' : world) : Prop := {
  sk_queue : queue w' = queue w; sk_pp : pending_position w' = pending_position w;
  sk_sa : start_at_position w' = start_at_position w; sk_sp : start_paused w' = start_paused w;
  sk_cur : current w' = current w;
  sk_kinds : tkinds w' = tkinds w; sk_lens : tlens w' = tlens w;
  sk_consume : consume w' = consume w; sk_random : random w' = random w;
  sk_repeat : repeat w' = repeat w; sk_single : single w' = single w;
  sk_tl : World.tl w' = World.tl w; sk_events : events w' = events w; sk_pstate : pstate w' = pstate w;
  sk_astate : a_state w' = a_state w; sk_script : script w = [] -> script w' = [];
  sk_prev : previous_flag w' = previous_flag w; sk_hist : history w' = history w
}.

Lemma skipped_refl w : skipped w w.
Proof. constructor; auto. Qed.

Lemma skipped_trans a b c : skipped a b -> skipped b c -> skipped a c.
Proof.
  intros [A1 A2 A3 A4 A5 A7 A8 A9 A10 A11 A12 A13 A14 A15 A16 A17 A18 A19]
         [B1 B2 B3 B4 B5 B7 B8 B9 B10 B11 B12 B13 B14 B15 B16 B17 B18 B19].
  constructor; try congruence. intros H. apply B17, A17, H.
Qed.

Definition fx_attempt_refused (k : track) (w : world) : world :=
  w <| bcalls := bcalls w + 1 |> <| script := List.tl (script w) |> <| attempts := (k, false) :: attempts w |>.

Lemma attempt_refused_run k w :
  tkind_playable (kind_of w k) = false -> attempt_change k w = (Ok false, fx_attempt_refused k w).
Proof.
  intros Hk. unfold attempt_change, bcall, bind, get, modify, ret. cbn.
  change (kind_of (w <| bcalls := bcalls w + 1 |>) k) with (kind_of w k). rewrite Hk. cbn. reflexivity.
Qed.

Lemma change_refused_run u st c w :
  kind_of w (trk u) <> Playable -> pending_position w = None -> current w = Some c ->
  tkind_has_backend (kind_of w (trk c)) = true ->
  exists w', change shuf (Some u) st w = (Ok false, w') /\ skipped w w'.
Proof.
  intros Hk Hpp Hc Hb. unfold change.
  set (w0 := w <| pending := Some u |>).
  assert (E0 : modify (fun w => w <| pending := Some u |>) w = (Ok tt, w0)) by reflexivity.
  rewrite (bind_ok _ _ w tt w0 E0).
  assert (E1 : get w0 = (Ok w0, w0)) by reflexivity. rewrite (bind_ok _ _ w0 w0 w0 E1).
  unfold has_backend. change (kind_of w0 (trk u)) with (kind_of w (trk u)).
  destruct (tkind_has_backend (kind_of w (trk u))) eqn:Ehb; cbn [negb].
  - (* the backend is asked and refuses *)
    assert (E2 : get_time_position w0 = (Ok (a_pos w0), fx_gtp w0)).
    { apply (gtp_run w0 c); [exact Hpp|exact Hc|exact Hb]. }
    rewrite (bind_ok _ _ w0 _ _ E2).
    set (w2 := (fx_gtp w0) <| last_position := Some (a_pos w0) |>).
    assert (E3 : modify (fun w => w <| last_position := Some (a_pos w0) |>) (fx_gtp w0) = (Ok tt, w2)) by reflexivity.
    rewrite (bind_ok _ _ _ tt w2 E3).
    rewrite (bind_ok _ _ w2 tt _ (prepare_run w2)).
    set (w3 := fx_prepare w2).
    set (w4 := fx_attempt_refused (trk u) w3).
    assert (E4 : attempt_change (trk u) w3 = (Ok false, w4)).
    { apply attempt_refused_run. change (kind_of w3 (trk u)) with (kind_of w (trk u)).
      destruct (kind_of w (trk u)); [contradiction|reflexivity..]. }
    rewrite (bind_ok _ _ w3 false w4 E4). cbn [negb].
    eexists. split; [reflexivity|].
    constructor; try reflexivity. intros Hs. cbn. cbn in Hs. rewrite Hs. reflexivity.
  - (* no backend for the URI *)
    eexists. split; [reflexivity|]. constructor; try reflexivity. intros Hs. exact Hs.
Qed.

Lemma mark_unplayable_noop u w :
  consume w = false -> random w = false -> mark_unplayable shuf (Some u) w = (Ok tt, w).
Proof.
  intros Hco Hr. unfold mark_unplayable, bind, get, ret. rewrite Hco. cbn. rewrite Hr. reflexivity.
Qed.

(* the loop walks over the unplayable run and switches to the first playable entry *)
Lemma next_loop_skips : forall us f pre c0 c x post count w,
  World.tl w = pre ++ c :: us ++ x :: post -> NoDup (map tlid (World.tl w)) ->
  consume w = false -> random w = false -> repeat w = false ->
  pending_position w = None -> current w = Some c0 -> tkind_has_backend (kind_of w (trk c0)) = true ->
  (forall u, In u us -> kind_of w (trk u) <> Playable) ->
  kind_of w (trk x) = Playable -> script w = [] ->
  zlen us < count ->
  exists wk, next_loop shuf (S (length us + f)) (Some c) (pstate w) count w = (Ok tt, fx_change x (pstate w) wk)
             /\ skipped w wk.
Proof.
  induction us as [|u us IH]; intros f pre c0 c x post count w Ht Hnd Hco Hr Hrp Hpp Hc Hb Hus Hkx Hscr Hcount.
  - cbn [length Nat.add next_loop app] in *.
    assert (Hn : next_track shuf (Some c) w = (Ok (Some x), w)) by (apply (next_seq shuf pre c x post w); assumption).
    rewrite (bind_ok _ _ w (Some x) w Hn).
    assert (Hacc : accepts w x) by (split; [exact Hkx|rewrite Hscr; reflexivity]).
    rewrite (bind_ok _ _ w true _ (change_run shuf x (pstate w) w c0 Hpp Hc Hb Hacc)).
    exists w. split; [reflexivity|apply skipped_refl].
  - cbn [length Nat.add next_loop app] in *.
    assert (Hn : next_track shuf (Some c) w = (Ok (Some u), w)).
    { apply (next_seq shuf pre c u (us ++ x :: post) w); assumption. }
    rewrite (bind_ok _ _ w (Some u) w Hn).
    destruct (change_refused_run u (pstate w) c0 w (Hus u (or_introl eq_refl)) Hpp Hc Hb) as (w1 & E1 & S1).
    rewrite (bind_ok _ _ w false w1 E1).
    pose proof S1 as S1'. destruct S1 as [A1 A2 A3 A4 A5 A7 A8 A9 A10 A11 A12 A13 A14 A15 A16 A17 A18 A19].
    rewrite (bind_ok _ _ w1 tt w1 (mark_unplayable_noop u w1 (eq_trans A9 Hco) (eq_trans A10 Hr))).
    cbv zeta. pose proof (zlen_nonneg us). rewrite zlen_cons in Hcount.
    assert (Hc1 : (count - 1 =? 0) = false) by (clear - H Hcount; lia). rewrite Hc1.
    assert (Ht1 : World.tl w1 = (pre ++ [c]) ++ u :: us ++ x :: post) by (rewrite A13, Ht, <- app_assoc; reflexivity).
    assert (Hk1 : forall y, kind_of w1 (trk y) = kind_of w (trk y)) by (intros y; unfold kind_of; rewrite A7; reflexivity).
    destruct (IH f (pre ++ [c]) c0 u x post (count - 1) w1) as (wk & Ek & Sk); try assumption.
    + rewrite A13. exact Hnd.
    + congruence.
    + congruence.
    + congruence.
    + congruence.
    + congruence.
    + rewrite Hk1. exact Hb.
    + intros y Hy. rewrite Hk1. apply Hus. right. exact Hy.
    + rewrite Hk1. exact Hkx.
    + apply A17. exact Hscr.
    + clear - H Hcount; lia.
    + rewrite A15 in Ek. exists wk. split; [exact Ek|].
      eapply skipped_trans; [exact S1'|exact Sk].
Qed.


Theorem next_skips_unplayable f us pre c x post w :
  World.tl w = pre ++ c :: us ++ x :: post -> NoDup (map tlid (World.tl w)) ->
  settled_on w c -> pstate w = Playing -> consume w = false -> random w = false -> repeat w = false ->
  script w = [] -> (forall u, In u us -> kind_of w (trk u) <> Playable) -> kind_of w (trk x) = Playable ->
  let w' := run_world shuf (S (length us + f)) w [Next; Deliver; Deliver; Deliver; Deliver] in
  current w' = Some x /\ pstate w' = Playing /\ pending w' = None /\ queue w' = []
  /\ a_uri w' = Some (trk x) /\ a_state w' = Playing /\ World.tl w' = World.tl w.
Proof.
  intros Ht Hnd [Hq Hp Hpp Hsa Hsp Hpf Hc Hb Ha] Hst Hco Hr Hrp Hscr Hus Hkx.
  assert (Hcount : zlen us < zlen (World.tl w) * 2).
  { rewrite Ht, zlen_app, zlen_cons, zlen_app, zlen_cons.
    pose proof (zlen_nonneg pre). pose proof (zlen_nonneg us). pose proof (zlen_nonneg post).
    clear - H H0 H1. lia. }
  destruct (next_loop_skips us f pre c c x post (zlen (World.tl w) * 2) w Ht Hnd Hco Hr Hrp Hpp Hc Hb Hus Hkx Hscr Hcount)
    as (wk & Ek & Sk).
  assert (E1 : next shuf (S (length us + f)) w = (Ok tt, fx_change x Playing wk)).
  { unfold next. assert (E0 : get w = (Ok w, w)) by reflexivity. rewrite (bind_ok _ _ w w w E0).
    rewrite Hp, Hc. cbn [orelse]. rewrite Hst in Ek. rewrite Hst. exact Ek. }
  destruct Sk as [A1 A2 A3 A4 A5 A7 A8 A9 A10 A11 A12 A13 A14 A15 A16 A17 A18 A19].
  assert (Hbk : tkind_has_backend (kind_of wk (trk c)) = true) by (unfold kind_of in *; rewrite A7; exact Hb).
  assert (Hacc : accepts wk x).
  { split; [unfold kind_of in *; rewrite A7; exact Hkx|rewrite (A17 Hscr); reflexivity]. }
  set (w1 := fx_change x Playing wk) in *.
  assert (G1 : get_time_position w1 = (Ok (a_pos w1), fx_gtp w1)).
  { apply (gtp_run w1 c); [change (pending_position wk = None); rewrite A2; exact Hpp|change (current wk = Some c); rewrite A5; exact Hc|exact Hbk]. }
  cbv zeta. rewrite run_world_cons.
  rewrite (stepw_eq shuf _ Next w RNone w1 _ _ (run_op_bind_none _ w tt w1 E1) G1).
  destruct (change_settles shuf (length us + f) x c wk) as (R1 & R2 & R3 & R4 & R5 & R6 & R7); try congruence.
  repeat split; try assumption. rewrite <- A13. exact R7.
Qed.

End P.

(* ---- per attempt: only tracks some attempt for which was accepted are ever selected *)
Section Q.
Variable shuf : Z -> list tlt -> list tlt.
Variable fuel : nat.

Lemma accepted_only_selected_lemma mx kinds lens scr vol mut ops :
  let w := run_world shuf fuel (init_world mx kinds lens scr vol mut) ops in
  (forall t, In (EvStarted t) (events w) -> In (trk t, true) (attempts w))
  /\ (forall c, current w = Some c -> In (trk c, true) (attempts w))
  /\ (forall p, pending w = Some p -> In (trk p, true) (attempts w)).
Proof.
  cbv zeta.
  assert (H : accepted_inv (run_world shuf fuel (init_world mx kinds lens scr vol mut) ops)).
  { apply run_world_preserves.
    - intro o. apply run_op_accepted_inv.
    - apply get_time_position_accepted_inv.
    - unfold accepted_inv. cbn. repeat split; intros; try discriminate; contradiction. }
  destruct H as (Hp & Hc & He). repeat split; auto.
Qed.
End Q.
