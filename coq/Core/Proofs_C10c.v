(* C10, the headline: a session saved while playing (or paused) at a position inside the track
   comes back - in a new process restoring every section - on the same entry, in the same state,
   at the same position, with the same tracklist, once the notifications are delivered.
   Composition of: the snapshot written by Save, the four value sections of the restore
   (which leave the fresh process' environment untouched), and the play-last section
   (Proofs_C10b). *)
From Coq Require Import ZArith List Bool Lia ZifyBool.
From RecordUpdate Require Import RecordSet.
From Common Require Import Res.
From Core Require Import World Hoare Model Step Reach ListLemmas Proofs_C10 Proofs_C03b Proofs_C02b Proofs_C10b Proofs_C02c Proofs_C02d CostN.
Import ListNotations RecordSetNotations.
Open Scope Z_scope.

(* what the value sections of the restore never touch *)
Record env_same (w w' : world) : Prop := {
  es_pstate : pstate w' = pstate w; es_cur : current w' = current w; es_pend : pending w' = pending w;
  es_pp : pending_position w' = pending_position w; es_sa : start_at_position w' = start_at_position w;
  es_sp : start_paused w' = start_paused w; es_queue : queue w' = queue w;
  es_uri : a_uri w' = a_uri w; es_astate : a_state w' = a_state w;
  es_kinds : tkinds w' = tkinds w; es_lens : tlens w' = tlens w; es_script : script w' = script w
}.
Lemma es_refl w : env_same w w.
Proof. constructor; reflexivity. Qed.
Lemma es_trans a b c : env_same a b -> env_same b c -> env_same a c.
Proof. intros [] []. constructor; congruence. Qed.
Ltac es_solver := let w := fresh "w" in intros w; constructor; reflexivity.
Ltac go := relp es_refl es_trans es_solver.

Section P.
Variable shuf : Z -> list tlt -> list tlt.

Lemma set_mode_es which v : rel env_same (set_mode shuf which v).
Proof. unfold set_mode, do_shuffle, emit. go. Qed.

Lemma trigger_tracklist_changed_es : rel env_same (trigger_tracklist_changed shuf).
Proof. unfold trigger_tracklist_changed, do_shuffle, emit. go. Qed.

Lemma increase_version_es w r w' :
  pstate w = Stopped -> current w = None -> increase_version shuf w = (r, w') -> env_same w w'.
Proof.
  intros Hs Hc E. unfold increase_version in E.
  set (w1 := w <| version := version w + 1 |>) in *.
  unfold bind at 1, modify at 1 in E. cbv beta iota in E. fold w1 in E.
  assert (Hstop : stop w1 = (Ok tt, w1)).
  { unfold stop. unfold bind at 1, get at 1. change (pstate w1) with (pstate w). rewrite Hs. reflexivity. }
  assert (E2 : exists w2, on_tracklist_change w1 = (Ok tt, w2) /\ env_same w1 w2).
  { unfold on_tracklist_change. unfold bind at 1, get at 1.
    change (World.tl w1) with (World.tl w). change (current w1) with (current w).
    destruct (World.tl w).
    - unfold bind. rewrite Hstop. eexists. split; [reflexivity|].
      constructor; try reflexivity. cbn. rewrite Hc. reflexivity.
    - rewrite Hc. eexists. split; [reflexivity|apply es_refl]. }
  destruct E2 as (w2 & E2 & S2). unfold bind at 1 in E. rewrite E2 in E.
  apply trigger_tracklist_changed_es in E.
  eapply es_trans; [|exact E]. eapply es_trans; [|exact S2]. constructor; reflexivity.
Qed.

Lemma set_mute_es m : rel env_same (set_mute m).
Proof. unfold set_mute. go. Qed.
Lemma set_volume_es v : rel env_same (set_volume v).
Proof. unfold set_volume. go. Qed.

(* the four value sections, whatever the coverage *)
Lemma value_sections_es fuel cov s w r w' :
  cov_play_last cov = false -> pstate w = Stopped -> current w = None ->
  load_state shuf fuel cov s w = (r, w') -> env_same w w'.
Proof.
  intros Hpl Hs Hc E. unfold load_state in E. rewrite Hpl in E.
  apply bind_cases in E. destruct E as [([] & w1 & E1 & E)|(r1 & E1)].
  2: { revert E1. generalize w r1 w'. change (rel env_same (when cov_history cov do modify (fun w => w <| history := s_history s |>))). go. }
  assert (S1 : env_same w w1).
  { revert E1. generalize w (Ok tt : res exn unit) w1. change (rel env_same (when cov_history cov do modify (fun w => w <| history := s_history s |>))). go. }
  assert (Hm : rel env_same (when cov_mode cov do
              (set_mode shuf 0 (s_consume s) ;; set_mode shuf 1 (s_random s) ;; set_mode shuf 2 (s_repeat s) ;; set_mode shuf 3 (s_single s)))%M).
  { destruct (cov_mode cov); [|go]. repeat (apply rel_bind; [exact es_trans|apply set_mode_es|intros _]). apply set_mode_es. }
  apply bind_cases in E. destruct E as [([] & w2 & E2 & E)|(r2 & E2)].
  2: { eapply es_trans; [exact S1|exact (Hm _ _ _ E2)]. }
  assert (S2 : env_same w w2) by (eapply es_trans; [exact S1|exact (Hm _ _ _ E2)]).
  assert (Ht : forall r3 w3, (when cov_tracklist cov do
              (modify (fun w => w <| next_tlid := Z.max (s_next_tlid s) (next_tlid w) |> <| tl := s_tl s |>) ;;
               increase_version shuf))%M w2 = (r3, w3) -> env_same w2 w3).
  { intros r3 w3 E3. destruct (cov_tracklist cov); [|inversion E3; subst; apply es_refl].
    unfold bind at 1, modify at 1 in E3. cbv beta iota in E3.
    set (wm := w2 <| next_tlid := Z.max (s_next_tlid s) (next_tlid w2) |> <| tl := s_tl s |>) in *.
    assert (A : env_same w2 wm) by (constructor; reflexivity).
    assert (B : env_same wm w3).
    { apply (increase_version_es wm r3 w3); [|change (current w2 = None); rewrite (es_cur _ _ S2); exact Hc|exact E3].
      change (pstate w2 = Stopped). rewrite (es_pstate _ _ S2). exact Hs. }
    eapply es_trans; [exact A|exact B]. }
  apply bind_cases in E. destruct E as [([] & w3 & E3 & E)|(r3 & E3)].
  2: { eapply es_trans; [exact S2|exact (Ht _ _ E3)]. }
  assert (S3 : env_same w w3) by (eapply es_trans; [exact S2|exact (Ht _ _ E3)]).
  assert (Hx : rel env_same (when cov_mixer cov do
              ((match s_mute s with Some m => _ <- set_mute m ;; ret tt | None => ret tt end) ;;
               (match s_volume s with Some v => _ <- set_volume v ;; ret tt | None => ret tt end)))%M).
  { destruct (cov_mixer cov); [|go].
    apply rel_bind; [exact es_trans| |intros _].
    - destruct (s_mute s); [apply rel_bind; [exact es_trans|apply set_mute_es|intro; go]|go].
    - destruct (s_volume s); [apply rel_bind; [exact es_trans|apply set_volume_es|intro; go]|go]. }
  apply bind_cases in E. destruct E as [([] & w4 & E4 & E)|(r4 & E4)].
  2: { eapply es_trans; [exact S3|exact (Hx _ _ _ E4)]. }
  assert (w' = w4) by (destruct (s_tlid s); inversion E; reflexivity). subst w'.
  eapply es_trans; [exact S3|exact (Hx _ _ _ E4)].
Qed.


(* the restore is the value sections followed by the play-last section *)
Definition values_only (cov : coverage) : coverage :=
  mkCov (cov_tracklist cov) (cov_mode cov) false (cov_mixer cov) (cov_history cov).

Lemma load_state_split fuel cov s w :
  cov_play_last cov = true ->
  load_state shuf fuel cov s w = (load_state shuf fuel (values_only cov) s ;; load_state shuf fuel play_last_cov s)%M w.
Proof.
  intros Hpl. unfold load_state, values_only, play_last_cov.
  cbn [cov_history cov_mode cov_tracklist cov_mixer cov_play_last]. rewrite Hpl.
  unfold bind.
  destruct ((when cov_history cov do modify (fun w0 => w0 <| history := s_history s |>)) w) as [[[]|e1|] w1]; try reflexivity.
  match goal with |- context [?m w1] => destruct (m w1) as [[[]|e2|] w2] end; try reflexivity.
  match goal with |- context [?m w2] => destruct (m w2) as [[[]|e3|] w3] end; try reflexivity.
  match goal with |- context [?m w3] => destruct (m w3) as [[[]|e4|] w4] end; try reflexivity.
Qed.


Lemma find_by_tlid (c : tlt) : forall l, NoDup (map tlid l) -> In c l ->
  find (fun y => tlid y =? tlid c) l = Some c.
Proof.
  induction l as [|y l IH]; intros Hnd Hin; [contradiction|]. cbn [find].
  cbn [map] in Hnd. inversion Hnd as [|? ? Hni Hnd']; subst.
  destruct Hin as [->|Hin]; [rewrite Z.eqb_refl; reflexivity|].
  destruct (tlid y =? tlid c) eqn:E; [|apply IH; assumption].
  exfalso. apply Hni. replace (tlid y) with (tlid c) by lia. apply in_map. exact Hin.
Qed.

Definition snapshot_of (w : world) (p : Z) : snapshot :=
  {| s_tl := World.tl w; s_next_tlid := next_tlid w;
     s_consume := consume w; s_random := random w; s_repeat := repeat w; s_single := single w;
     s_history := firstn 500 (history w);
     s_tlid := option_map tlid (current w); s_pos := p; s_state := pstate w;
     s_volume := volume w; s_mute := mute w |}.

Definition fx_save (w : world) : world :=
  (fx_gtp w) <| saved := Some (snapshot_of w (a_pos w)) |>.

Lemma save_run c w :
  pending_position w = None -> current w = Some c -> tkind_has_backend (kind_of w (trk c)) = true ->
  save_state w = (Ok tt, fx_save w).
Proof.
  intros Hpp Hc Hb. unfold save_state.
  rewrite (bind_ok _ _ w _ _ (gtp_run w c Hpp Hc Hb)).
  unfold bind, get, modify. reflexivity.
Qed.

Theorem save_restore_playing f cov c p len w :
  cov_tracklist cov = true -> cov_play_last cov = true ->
  settled_on w c -> pstate w = Playing -> In c (World.tl w) -> NoDup (map tlid (World.tl w)) ->
  1 <= tlid c -> a_pos w = p -> 0 < p -> p <= len -> len_of w (trk c) = Some len -> accepts w c ->
  (match volume w with Some v => 0 <= v <= 100 | None => True end) ->
  let w' := run_world shuf (S f) w [Save; Load cov; Deliver; Deliver; Deliver; Deliver; Deliver] in
  option_map tlid (current w') = Some (tlid c) /\ pstate w' = Playing /\ pending w' = None /\ queue w' = []
  /\ a_pos w' = p /\ fst (get_time_position w') = Ok p
  /\ a_uri w' = Some (trk c) /\ a_state w' = Playing /\ World.tl w' = World.tl w.
Proof.
  intros Hct Hcp [Hq Hp Hpp Hsa Hsp Hpf Hc Hb Ha] Hst Hin Hnd Hi Hpos Hp0 Hle Hlen [Hk Hscr] Hvol.
  (* Save *)
  pose proof (save_run c w Hpp Hc Hb) as E1.
  set (ws := fx_save w) in *.
  assert (G1 : get_time_position ws = (Ok (a_pos ws), fx_gtp ws)).
  { apply (gtp_run ws c); [exact Hpp|exact Hc|exact Hb]. }
  cbv zeta. rewrite (run_world_cons shuf).
  rewrite (stepw_eq shuf (S f) Save w RNone ws _ _ (run_op_bind_none _ w tt ws E1) G1).
  set (w1 := fx_gtp ws).
  set (s := snapshot_of w (a_pos w)).
  assert (Hsaved : saved w1 = Some s) by reflexivity.
  (* Load: the value sections *)
  assert (Hvs : vol_ok s) by exact Hvol.
  destruct (restore_sections_lemma shuf (S f) (values_only cov) s w1 eq_refl Hvs) as (w4 & E4 & S4).
  pose proof (value_sections_es (S f) (values_only cov) s (restart w1) (Ok tt) w4 eq_refl eq_refl eq_refl E4) as Es.
  unfold sess in S4. cbn [values_only cov_tracklist cov_mode cov_mixer cov_history] in S4. rewrite Hct in S4.
  assert (T4 : World.tl w4 = World.tl w) by (unfold s, snapshot_of in S4; cbn in S4; congruence).
  assert (P4 : pstate w4 = Stopped) by congruence.
  assert (C4 : current w4 = None) by congruence.
  assert (Pe4 : pending w4 = None) by congruence.
  clear S4.
  destruct Es as [_ _ _ Epp Esa Esp Eq Eu Eas Ek El Esc].
  assert (Hfs : fresh_stopped w4).
  { constructor; [exact P4|exact C4|exact Pe4|rewrite Epp; reflexivity|rewrite Eq; reflexivity
                  |rewrite Esp; reflexivity|rewrite Eu; reflexivity|rewrite Eas; reflexivity]. }
  assert (Hfind : find (fun y => tlid y =? tlid c) (World.tl w4) = Some c).
  { rewrite T4. apply find_by_tlid; assumption. }
  assert (Hacc4 : accepts w4 c).
  { split; [unfold kind_of in *; rewrite Ek; exact Hk|rewrite Esc; exact Hscr]. }
  assert (Hlen4 : len_of w4 (trk c) = Some len) by (unfold len_of in *; rewrite El; exact Hlen).
  assert (Hst' : s_tlid s = Some (tlid c)) by (unfold s, snapshot_of; cbn; rewrite Hc; reflexivity).
  assert (Hss : s_state s = Playing) by exact Hst.
  assert (Hsp' : s_pos s = p) by exact Hpos.
  pose proof (load_play_last_run shuf f s (tlid c) c p w4 Hst' Hss Hsp' Hfs Hi Hfind Hacc4) as E5.
  set (w5 := fx_change0 c (w4 <| start_at_position := Some p |>)) in *.
  assert (EL : run_op shuf (S f) (Load cov) w1 = (Ok RNone, w5)).
  { assert (ED : do_load shuf (S f) cov w1 = (Ok tt, w5)).
    { unfold do_load.
      assert (Eg : get w1 = (Ok w1, w1)) by reflexivity. rewrite (bind_ok _ _ w1 w1 w1 Eg).
      assert (Em : modify restart w1 = (Ok tt, restart w1)) by reflexivity. rewrite (bind_ok _ _ w1 tt _ Em).
      rewrite Hsaved. rewrite (load_state_split (S f) cov s (restart w1) Hcp).
      rewrite (bind_ok _ _ _ tt w4 E4). exact E5. }
    unfold run_op. rewrite (bind_ok _ _ w1 tt w5 ED). reflexivity. }
  assert (G5 : get_time_position w5 = (Ok 0, w5)).
  { apply gtp_none_run; [change (pending_position w4 = None); rewrite Epp; reflexivity|exact C4]. }
  rewrite (run_world_cons shuf).
  rewrite (stepw_eq shuf (S f) (Load cov) w1 RNone w5 _ _ EL G5).
  (* the notifications *)
  pose proof (restore_playing_at_position shuf f s (tlid c) c p len w4 Hst' Hss Hsp' Hfs Hi Hfind Hacc4 Hlen4 Hp0 Hle) as R.
  cbv zeta in R. rewrite E5 in R. cbn [snd] in R.
  destruct R as (R1 & R2 & R3 & R4 & R5 & R6 & R7 & R8 & R9).
  repeat split; try assumption. rewrite R9. exact T4.
Qed.

Theorem save_restore_paused f cov c p len w :
  cov_tracklist cov = true -> cov_play_last cov = true ->
  settled_on w c -> pstate w = Paused -> In c (World.tl w) -> NoDup (map tlid (World.tl w)) ->
  1 <= tlid c -> a_pos w = p -> 0 < p -> p <= len -> len_of w (trk c) = Some len -> accepts w c ->
  (match volume w with Some v => 0 <= v <= 100 | None => True end) ->
  let w' := run_world shuf (S f) w [Save; Load cov; Deliver; Deliver; Deliver; Deliver; Deliver; Deliver; Deliver] in
  option_map tlid (current w') = Some (tlid c) /\ pstate w' = Paused /\ pending w' = None /\ queue w' = []
  /\ a_pos w' = p /\ fst (get_time_position w') = Ok p
  /\ a_uri w' = Some (trk c) /\ a_state w' = Paused /\ World.tl w' = World.tl w.
Proof.
  intros Hct Hcp [Hq Hp Hpp Hsa Hsp Hpf Hc Hb Ha] Hst Hin Hnd Hi Hpos Hp0 Hle Hlen [Hk Hscr] Hvol.
  (* Save *)
  pose proof (save_run c w Hpp Hc Hb) as E1.
  set (ws := fx_save w) in *.
  assert (G1 : get_time_position ws = (Ok (a_pos ws), fx_gtp ws)).
  { apply (gtp_run ws c); [exact Hpp|exact Hc|exact Hb]. }
  cbv zeta. rewrite (run_world_cons shuf).
  rewrite (stepw_eq shuf (S f) Save w RNone ws _ _ (run_op_bind_none _ w tt ws E1) G1).
  set (w1 := fx_gtp ws).
  set (s := snapshot_of w (a_pos w)).
  assert (Hsaved : saved w1 = Some s) by reflexivity.
  (* Load: the value sections *)
  assert (Hvs : vol_ok s) by exact Hvol.
  destruct (restore_sections_lemma shuf (S f) (values_only cov) s w1 eq_refl Hvs) as (w4 & E4 & S4).
  pose proof (value_sections_es (S f) (values_only cov) s (restart w1) (Ok tt) w4 eq_refl eq_refl eq_refl E4) as Es.
  unfold sess in S4. cbn [values_only cov_tracklist cov_mode cov_mixer cov_history] in S4. rewrite Hct in S4.
  assert (T4 : World.tl w4 = World.tl w) by (unfold s, snapshot_of in S4; cbn in S4; congruence).
  assert (P4 : pstate w4 = Stopped) by congruence.
  assert (C4 : current w4 = None) by congruence.
  assert (Pe4 : pending w4 = None) by congruence.
  clear S4.
  destruct Es as [_ _ _ Epp Esa Esp Eq Eu Eas Ek El Esc].
  assert (Hfs : fresh_stopped w4).
  { constructor; [exact P4|exact C4|exact Pe4|rewrite Epp; reflexivity|rewrite Eq; reflexivity
                  |rewrite Esp; reflexivity|rewrite Eu; reflexivity|rewrite Eas; reflexivity]. }
  assert (Hfind : find (fun y => tlid y =? tlid c) (World.tl w4) = Some c).
  { rewrite T4. apply find_by_tlid; assumption. }
  assert (Hacc4 : accepts w4 c).
  { split; [unfold kind_of in *; rewrite Ek; exact Hk|rewrite Esc; exact Hscr]. }
  assert (Hlen4 : len_of w4 (trk c) = Some len) by (unfold len_of in *; rewrite El; exact Hlen).
  assert (Hst' : s_tlid s = Some (tlid c)) by (unfold s, snapshot_of; cbn; rewrite Hc; reflexivity).
  assert (Hss : s_state s = Paused) by exact Hst.
  assert (Hsp' : s_pos s = p) by exact Hpos.
  pose proof (load_play_last_paused_run shuf f s (tlid c) c p w4 Hst' Hss Hsp' Hfs Hi Hfind Hacc4) as E5.
  set (w5 := fx_change0 c (w4 <| start_paused := true |> <| start_at_position := Some p |>)) in *.
  assert (EL : run_op shuf (S f) (Load cov) w1 = (Ok RNone, w5)).
  { assert (ED : do_load shuf (S f) cov w1 = (Ok tt, w5)).
    { unfold do_load.
      assert (Eg : get w1 = (Ok w1, w1)) by reflexivity. rewrite (bind_ok _ _ w1 w1 w1 Eg).
      assert (Em : modify restart w1 = (Ok tt, restart w1)) by reflexivity. rewrite (bind_ok _ _ w1 tt _ Em).
      rewrite Hsaved. rewrite (load_state_split (S f) cov s (restart w1) Hcp).
      rewrite (bind_ok _ _ _ tt w4 E4). exact E5. }
    unfold run_op. rewrite (bind_ok _ _ w1 tt w5 ED). reflexivity. }
  assert (G5 : get_time_position w5 = (Ok 0, w5)).
  { apply gtp_none_run; [change (pending_position w4 = None); rewrite Epp; reflexivity|exact C4]. }
  rewrite (run_world_cons shuf).
  rewrite (stepw_eq shuf (S f) (Load cov) w1 RNone w5 _ _ EL G5).
  (* the notifications *)
  pose proof (restore_paused_at_position shuf f s (tlid c) c p len w4 Hst' Hss Hsp' Hfs Hi Hfind Hacc4 Hlen4 Hp0 Hle) as R.
  cbv zeta in R. rewrite E5 in R. cbn [snd] in R.
  destruct R as (R1 & R2 & R3 & R4 & R5 & R6 & R7 & R8 & R9).
  repeat split; try assumption. rewrite R9. exact T4.
Qed.


End P.

(* non-vacuity: a reachable state meets the hypotheses of the headline theorems *)
Definition w_playing_at_100 : world :=
  Eval vm_compute in
    run_world shuf_concrete 10 (init_world 50 [Playable; Playable; Playable] [Some 900; Some 900; Some 900] [] None None)
      [Add [0; 1; 2] None; Play None; Deliver; Deliver; Deliver; Deliver; Tick 100].

Example c10c_nonvacuous :
  settled_on w_playing_at_100 (mkTlt 1 0) /\ pstate w_playing_at_100 = Playing
  /\ In (mkTlt 1 0) (World.tl w_playing_at_100) /\ a_pos w_playing_at_100 = 100
  /\ len_of w_playing_at_100 0 = Some 900 /\ accepts w_playing_at_100 (mkTlt 1 0)
  /\ map tlid (World.tl w_playing_at_100) = [1; 2; 3].
Proof. repeat split; vm_compute; auto. Qed.
