(* C03 proofs: the selection functions as functions of the tracklist and the modes, and the
   frame rule for consume-off. *)
From Coq Require Import ZArith List Bool Lia ZifyBool.
From RecordUpdate Require Import RecordSet.
From Common Require Import Res.
From Core Require Import World Hoare Model Step Reach Rel_Frame.
Import ListNotations RecordSetNotations.
Open Scope Z_scope.

Section P.
Variable shuf : Z -> list tlt -> list tlt.
Variable fuel : nat.

(* T6 *)
Lemma no_consume_frame_lemma o w :
  playback_op o = true -> consume w = false ->
  let w' := stepw shuf fuel w o in
  World.tl w' = World.tl w /\ next_tlid w' = next_tlid w /\ consume w' = false.
Proof.
  intros Hp Hc. cbv zeta.
  assert (H : frame_rel w (stepw shuf fuel w o)).
  { apply (stepw_rel shuf fuel frame_rel o frame_trans).
    - apply run_op_frame_rel. exact Hp.
    - apply get_time_position_frame_rel. }
  destruct H as [C T]. destruct (T Hc) as [T1 T2]. repeat split; congruence.
Qed.

(* across a whole playback history *)
Lemma no_consume_frame_history_lemma ops w :
  forallb playback_op ops = true -> consume w = false ->
  World.tl (run_world shuf fuel w ops) = World.tl w /\ consume (run_world shuf fuel w ops) = false.
Proof.
  revert w. induction ops as [|o ops IH]; intros w Hp Hc; cbn; [auto|].
  cbn in Hp. apply andb_true_iff in Hp. destruct Hp as [Ho Hops].
  destruct (no_consume_frame_lemma o w Ho Hc) as (T & _ & C).
  destruct (IH (stepw shuf fuel w o) Hops C) as [T2 C2]. unfold run_world in *. split; congruence.
Qed.

(* ------------------------------------------------------------- the selection functions *)

Ltac open_sel := unfold next_track, eot_track, previous_track, tl_index, bind, get, ret, modify; cbv beta iota zeta.

(* no random: the next track is the following entry, wrapping around under repeat *)
Lemma next_track_sequential x i w :
  random w = false -> py_index x (World.tl w) = Some i ->
  next_track shuf (Some x) w =
    (Ok (let n := zlen (World.tl w) in
         if repeat w then (if consume w && (n =? 1) then None else nth_z (World.tl w) ((i + 1) mod n))
         else if n <=? i + 1 then None else nth_z (World.tl w) (i + 1)), w).
Proof.
  intros Hr Hi. open_sel.
  assert (Hne : World.tl w <> []) by (intro H0; rewrite H0 in Hi; discriminate).
  destruct (World.tl w) as [|t0 l0] eqn:Et; [contradiction|]. rewrite <- Et in *.
  rewrite Hr. cbn [andb]. rewrite Hr, Hi.
  destruct (repeat w); [destruct (consume w && (zlen (World.tl w) =? 1))|destruct (zlen (World.tl w) <=? i + 1)];
    reflexivity.
Qed.

(* random: the next track is the head of the shuffled list (reshuffled from the tracklist only
   when it ran empty and either repeat is on or nothing is playing) *)
Lemma next_track_random t w :
  random w = true -> World.tl w <> [] -> shuffled w <> [] ->
  next_track shuf t w = (Ok (hd_error (shuffled w)), w).
Proof.
  intros Hr Ht Hs. open_sel. destruct (World.tl w); [contradiction|].
  destruct (shuffled w) eqn:Es; [contradiction|]. rewrite Hr. cbn. rewrite Hr, Es. reflexivity.
Qed.

Lemma next_track_random_reshuffle t w :
  random w = true -> World.tl w <> [] -> shuffled w = [] -> (repeat w = true \/ t = None) ->
  next_track shuf t w =
    (Ok (hd_error (shuf (seed w) (World.tl w))),
     w <| seed := seed w + 1 |> <| shuffled := shuf (seed w) (World.tl w) |>).
Proof.
  intros Hr Ht Hs Hor. open_sel. unfold do_shuffle, bind, get, modify, ret.
  destruct (World.tl w) eqn:Et; [contradiction|]. rewrite Hr, Hs. cbn.
  destruct Hor as [Hrp| ->]; [rewrite Hrp|]; cbn; rewrite ?orb_true_r; cbn; rewrite Hr; reflexivity.
Qed.

(* single: the end-of-track successor is nothing, or the track itself under repeat *)
Lemma eot_track_single t w :
  single w = true -> eot_track shuf t w = (Ok (if repeat w then t else None), w).
Proof. intros Hs. open_sel. rewrite Hs. destruct (repeat w); reflexivity. Qed.

Lemma eot_track_not_single t w :
  single w = false -> eot_track shuf t w = next_track shuf t w.
Proof. intros Hs. unfold eot_track, bind, get. rewrite Hs. cbn. reflexivity. Qed.

(* previous: the preceding entry, or the track itself under repeat / consume / random *)
Lemma previous_track_spec x i w :
  py_index x (World.tl w) = Some i ->
  previous_track (Some x) w =
    (Ok (if repeat w || consume w || random w then Some x
         else if i =? 0 then None else nth_z (World.tl w) (i - 1)), w).
Proof.
  intros Hi. open_sel. destruct (repeat w || consume w || random w); [reflexivity|].
  rewrite Hi. destruct (i =? 0); reflexivity.
Qed.

(* the predictors are exactly these functions applied to the current track; GetNext followed by
   Next asks for the same candidate first *)
Lemma predictor_is_selection w :
  run_op shuf fuel GetNext w =
    (let '(r, w') := next_track shuf (current w) w in
     (match r with Ok t => Ok (ROptZ (option_map tlid t)) | Raise e => Raise e | Diverge => Diverge end, w')).
Proof.
  cbn [run_op]. unfold bind at 1. unfold get at 1. cbv beta iota. unfold bind.
  destruct (next_track shuf (current w) w) as [[t|e|] w']; reflexivity.
Qed.

End P.

Example c03_nonvacuous :
  let w := run_world shuf_concrete 10 (init_world 50 [Playable; Playable; Playable] [Some 9; Some 9; Some 9] [] None None)
             [Add [0; 1; 2] None; Play None; Deliver; Next; Deliver; Deliver; Deliver; Deliver; Deliver] in
  option_map tlid (current w) = Some 2 /\ consume w = false /\ random w = false
  /\ py_index (mkTlt 2 1) (World.tl w) = Some 1.
Proof. vm_compute. repeat split. Qed.
