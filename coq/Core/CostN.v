(* C04, quantitative clause, part 2: the retry loops and everything built on them.
   Each iteration of a retry loop costs a constant number of backend interactions and the
   Python's own counter `count` (twice the tracklist length when the loop is entered) bounds
   the number of iterations; with an empty tracklist (count = 0) one iteration is made.
   The bounds hold whatever the fuel is (running out of fuel ends the run early). *)
From Coq Require Import ZArith List Bool Lia ZifyBool Permutation.
From RecordUpdate Require Import RecordSet.
From Common Require Import Res.
From Core Require Import World Hoare Model Step ListLemmas Inv_Empty Nd_Tl Rel_Len Cost.
Import ListNotations RecordSetNotations.
Open Scope Z_scope.

Definition costs {A} (P : world -> Prop) (k : Z) (m : M A) : Prop :=
  forall w r w', P w -> m w = (r, w') -> bcalls w' <= bcalls w + k.

Lemma costs_of_cost {A} P k (m : M A) : cost k m -> costs P k m.
Proof. intros H w r w' _ E. exact (H _ _ _ E). Qed.

Lemma bind_cases {A B} (m : M A) (g : A -> M B) w r w' :
  bind m g w = (r, w') ->
  (exists a w1, m w = (Ok a, w1) /\ g a w1 = (r, w')) \/ (exists r1, m w = (r1, w')).
Proof.
  unfold bind. destruct (m w) as [[a|e|] w1]; intros E.
  - left. eauto.
  - right. inversion E; subst. eauto.
  - right. inversion E; subst. eauto.
Qed.

(* one step of a sequence, with the intermediate world at hand *)
Lemma costs_step {A B} k1 k2 (m : M A) (g : A -> M B) w r w' :
  cost k1 m -> 0 <= k2 ->
  (forall a w1, m w = (Ok a, w1) -> bcalls w1 <= bcalls w + k1 -> g a w1 = (r, w') -> bcalls w' <= bcalls w1 + k2) ->
  bind m g w = (r, w') -> bcalls w' <= bcalls w + (k1 + k2).
Proof.
  intros H1 Hk H2 E. apply bind_cases in E. destruct E as [(a & w1 & Em & Eg)|(r1 & Em)].
  - pose proof (H1 _ _ _ Em). specialize (H2 _ _ Em H Eg). lia.
  - pose proof (H1 _ _ _ Em). lia.
Qed.

Definition lp (c : Z) (w : world) : Prop := 0 < c \/ (c <= 0 /\ World.tl w = []).

Section S.
Variable shuf : Z -> list tlt -> list tlt.
Hypothesis shuf_perm : forall sd l, Permutation (shuf sd l) l.

Lemma empty_after {A} (m : M A) w r w' : preserves tl_empty m -> World.tl w = [] -> m w = (r, w') -> World.tl w' = [].
Proof. intros H Ht E. exact (H _ _ _ Ht E). Qed.

Lemma next_track_empty t w : World.tl w = [] -> next_track shuf t w = (Ok None, w).
Proof. intros H. unfold next_track, bind, get. rewrite H. reflexivity. Qed.

Definition KI : Z := 7.   (* _change 5 + _mark_unplayable 2 + next/previous/eot_track 0 *)

Lemma play_loop_none f c : play_loop shuf f None c = ret tt.
Proof. destruct f; reflexivity. Qed.

Lemma play_loop_costs f : forall p c, costs (lp c) (KI * Z.max c 1) (play_loop shuf f p c).
Proof.
  induction f as [|f IH]; intros p c w r w' HP E.
  - destruct p; cbn in E; inversion E; subst; unfold KI; lia.
  - destruct p as [x|]; cbn [play_loop] in E; [|inversion E; subst; unfold KI; lia].
    assert (Hgoal : bcalls w' <= bcalls w + (5 + (2 + KI * (Z.max c 1 - 1)))); [|unfold KI in *; lia].
    revert E. apply costs_step; [apply change_cost|unfold KI; lia|]. intros ok w1 E1 _.
    destruct ok; [intros E; inversion E; subst; unfold KI; lia|].
    apply costs_step; [apply mark_unplayable_cost|unfold KI; lia|]. intros [] w2 E2 _.
    intros E. apply bind_cases in E. destruct E as [(nxt & w3 & E3 & E)|(r1 & E3)].
    2: { pose proof (next_track_cost shuf _ _ _ _ E3). unfold KI. lia. }
    pose proof (next_track_cost shuf _ _ _ _ E3) as C3. cbv zeta in E.
    destruct (c - 1 =? 0) eqn:Ec; [inversion E; subst; unfold KI; lia|].
    destruct HP as [Hpos|[Hneg Hemp]].
    + assert (HP' : lp (c - 1) w3) by (left; lia).
      pose proof (IH nxt (c - 1) w3 r w' HP' E). unfold KI in *. lia.
    + assert (Ht2 : World.tl w2 = []).
      { eapply (empty_after (mark_unplayable shuf (Some x))); [eauto with pres_empty| |exact E2].
        eapply (empty_after (change shuf (Some x) Playing)); [eauto with pres_empty|exact Hemp|exact E1]. }
      rewrite (next_track_empty _ _ Ht2) in E3. inversion E3; subst.
      rewrite play_loop_none in E. inversion E; subst. unfold KI. lia.
Qed.

Lemma next_loop_none f st c : next_loop shuf f None st c = ret tt.
Proof. destruct f; reflexivity. Qed.

Lemma next_loop_costs f : forall cur st c, costs (lp c) (KI * Z.max c 1) (next_loop shuf f cur st c).
Proof.
  induction f as [|f IH]; intros cur st c w r w' HP E.
  - destruct cur; cbn in E; inversion E; subst; unfold KI; lia.
  - destruct cur as [x|]; cbn [next_loop] in E; [|inversion E; subst; unfold KI; lia].
    assert (Hgoal : bcalls w' <= bcalls w + (0 + (5 + (2 + KI * (Z.max c 1 - 1))))); [|unfold KI in *; lia].
    revert E. apply costs_step; [apply next_track_cost|unfold KI; lia|]. intros p w1 E1 _.
    apply costs_step; [apply change_cost|unfold KI; lia|]. intros ok w2 E2 _.
    destruct ok; [intros E; inversion E; subst; unfold KI; lia|].
    intros E. apply bind_cases in E. destruct E as [([] & w3 & E3 & E)|(r1 & E3)].
    2: { pose proof (mark_unplayable_cost shuf _ _ _ _ E3). unfold KI. lia. }
    pose proof (mark_unplayable_cost shuf _ _ _ _ E3) as C3. cbv zeta in E.
    destruct (c - 1 =? 0) eqn:Ec; [inversion E; subst; unfold KI; lia|].
    destruct HP as [Hpos|[Hneg Hemp]].
    + assert (HP' : lp (c - 1) w3) by (left; lia).
      pose proof (IH p st (c - 1) w3 r w' HP' E). unfold KI in *. lia.
    + rewrite (next_track_empty _ _ Hemp) in E1. inversion E1; subst.
      pose proof (change_none_true shuf st _ _ _ E2). discriminate.
Qed.

Lemma previous_loop_costs f : forall cur st c, cost (KI * Z.max c 1) (previous_loop shuf f cur st c).
Proof.
  induction f as [|f IH]; intros cur st c w r w' E.
  - destruct cur; cbn in E; inversion E; subst; unfold KI; lia.
  - destruct cur as [x|]; cbn [previous_loop] in E; [|inversion E; subst; unfold KI; lia].
    assert (Hgoal : bcalls w' <= bcalls w + (0 + (5 + (2 + KI * (Z.max c 1 - 1))))); [|unfold KI in *; lia].
    revert E. apply costs_step; [apply previous_track_cost|unfold KI; lia|]. intros p w1 E1 _.
    apply costs_step; [apply change_cost|unfold KI; lia|]. intros ok w2 E2 _.
    destruct ok; [intros E; inversion E; subst; unfold KI; lia|].
    intros E. apply bind_cases in E. destruct E as [([] & w3 & E3 & E)|(r1 & E3)].
    2: { pose proof (mark_unplayable_cost shuf _ _ _ _ E3). unfold KI. lia. }
    pose proof (mark_unplayable_cost shuf _ _ _ _ E3) as C3. cbv zeta in E.
    destruct (c - 1 <=? 0) eqn:Ec; [inversion E; subst; unfold KI; lia|].
    pose proof (IH p st (c - 1) w3 r w' E). unfold KI in *. lia.
Qed.

Lemma atf_loop_costs f : forall p c, cost (KI * Z.max c 1) (atf_loop shuf f p c).
Proof.
  induction f as [|f IH]; intros p c w r w' E.
  - destruct p; cbn in E; inversion E; subst; unfold KI; lia.
  - destruct p as [x|]; cbn [atf_loop] in E; [|inversion E; subst; unfold KI; lia].
    assert (Hgoal : bcalls w' <= bcalls w + (0 + (1 + (2 + (0 + KI * (Z.max c 1 - 1)))))); [|unfold KI in *; lia].
    revert E. apply costs_step; [apply cost_get|unfold KI; lia|]. intros w0 w1 E1 _.
    apply costs_step; [eapply cost_weaken; [cost_out|nonneg]|unfold KI; lia|]. intros ok w2 E2 _.
    destruct ok.
    { intros E. inversion E; subst.
      change (bcalls w2 <= bcalls w2 + (2 + (0 + KI * (Z.max c 1 - 1)))). unfold KI. lia. }
    apply costs_step; [apply mark_unplayable_cost|unfold KI; lia|]. intros [] w3 E3 _.
    apply costs_step; [apply eot_track_cost|unfold KI; lia|]. intros nxt w4 E4 _. cbv zeta.
    destruct (c - 1 <=? 0) eqn:Ec; [intros E; inversion E; subst; unfold KI; lia|].
    intros E. pose proof (IH nxt (c - 1) w4 r w' E). unfold KI in *. lia.
Qed.

(* ---- requests: bounds in the tracklist length at the start of the request *)
Definition costn {A} (a b : Z) (m : M A) : Prop :=
  forall w r w', m w = (r, w') -> bcalls w' <= bcalls w + a * zlen (World.tl w) + b.

Lemma costn_of_cost {A} a k (m : M A) : 0 <= a -> cost k m -> costn a k m.
Proof. intros Ha H w r w' E. specialize (H _ _ _ E). pose proof (zlen_nonneg (World.tl w)). nia. Qed.

Lemma costn_weaken {A} a b a' b' (m : M A) : costn a b m -> a <= a' -> b <= b' -> costn a' b' m.
Proof. intros H Ha Hb w r w' E. specialize (H _ _ _ E). pose proof (zlen_nonneg (World.tl w)). nia. Qed.

Lemma costn_bind {A B} a1 b1 a2 b2 (m : M A) (g : A -> M B) :
  costn a1 b1 m -> rel len_rel m -> 0 <= a2 -> 0 <= b2 -> (forall x, costn a2 b2 (g x)) ->
  costn (a1 + a2) (b1 + b2) (bind m g).
Proof.
  intros H1 Hl Ha Hb H2 w r w' E. pose proof (zlen_nonneg (World.tl w)).
  apply bind_cases in E. destruct E as [(x & w1 & Em & Eg)|(r1 & Em)].
  - pose proof (H1 _ _ _ Em). pose proof (H2 x _ _ _ Eg). pose proof (Hl _ _ _ Em) as L. unfold len_rel in L.
    pose proof (zlen_nonneg (World.tl w1)). nia.
  - pose proof (H1 _ _ _ Em). nia.
Qed.

Lemma costn_bind_in {A B} a b a1 b1 (m : M A) (g : A -> M B) :
  costn a1 b1 m -> rel len_rel m -> 0 <= a - a1 -> 0 <= b - b1 -> (forall x, costn (a - a1) (b - b1) (g x)) ->
  costn a b (bind m g).
Proof.
  intros. replace a with (a1 + (a - a1)) by lia. replace b with (b1 + (b - b1)) by lia.
  apply costn_bind; assumption.
Qed.

(* the site of a retry loop: the budget is computed from the tracklist as it is now *)
Lemma costn_loop_site {A} a b (f : world -> M A) :
  (forall w r w', f w w = (r, w') -> bcalls w' <= bcalls w + a * zlen (World.tl w) + b) ->
  costn a b (bind get f).
Proof. intros H w r w' E. unfold bind, get in E. exact (H _ _ _ E). Qed.

Lemma lp_double w : lp (zlen (World.tl w) * 2) w.
Proof.
  unfold lp. destruct (World.tl w) eqn:Et; [right; split; [cbn; lia|reflexivity]|left].
  rewrite zlen_cons. pose proof (zlen_nonneg l). lia.
Qed.

Lemma loop_budget w : KI * Z.max (zlen (World.tl w) * 2) 1 <= 2 * KI * zlen (World.tl w) + KI.
Proof. pose proof (zlen_nonneg (World.tl w)). unfold KI. lia. Qed.

Ltac lenp := solve [eauto 3 with rel_len] || relp len_refl len_trans len_solver.

(* costn_in A1 B1: goal [costn a b m] with closed a b; A1 B1 is the budget tried for a first
   component of a sequence that is neither constant nor a registered function *)
Ltac costn_in A1 B1 :=
  lazymatch goal with
  | |- costn _ _ (bind _ _) =>
      first [ eapply costn_bind_in; [ apply (costn_of_cost 0); [lia|cost_out] | lenp | nonneg | nonneg | intro; costn_in A1 B1 ]
            | eapply costn_bind_in; [ solve [eauto 2 with costndb] | lenp | nonneg | nonneg | intro; costn_in A1 B1 ]
            | eapply (costn_bind_in _ _ A1 B1); [ costn_in A1 B1 | lenp | nonneg | nonneg | intro; costn_in A1 B1 ] ]
  | |- costn _ _ (match ?x with _ => _ end) => destruct x; costn_in A1 B1
  | |- costn _ _ (let '(_, _) := ?x in _) => destruct x; costn_in A1 B1
  | |- costn _ _ _ =>
      first [ eapply costn_weaken; [ apply (costn_of_cost 0); [lia|cost_out] | nonneg | nonneg ]
            | eapply costn_weaken; [ solve [eauto 2 with costndb] | nonneg | nonneg ] ]
  end.
Create HintDb costndb discriminated.

Lemma play_costn fuel tid : costn (2 * KI) KI (play shuf fuel tid).
Proof.
  unfold play. apply costn_loop_site. intros w0 r w' E.
  assert (Hbody : forall (pre : M unit) (fst_ : M (option tlt)) w r w', cost 0 pre -> rel len_rel pre ->
            cost 0 fst_ -> rel len_rel fst_ ->
            (pre ;; first <- fst_ ;; w <- get ;; play_loop shuf fuel first (zlen (World.tl w) * 2))%M w = (r, w') ->
            bcalls w' <= bcalls w + 2 * KI * zlen (World.tl w) + KI).
  { clear. intros pre fst_ w r w' Hp Hlp Hf Hlf E. pose proof (zlen_nonneg (World.tl w)).
    apply bind_cases in E. destruct E as [([] & w1 & E1 & E)|(r1 & E1)]; [|pose proof (Hp _ _ _ E1); unfold KI; lia].
    pose proof (Hp _ _ _ E1) as C1. pose proof (Hlp _ _ _ E1) as L1.
    apply bind_cases in E. destruct E as [(first & w2 & E2 & E)|(r1 & E2)]; [|pose proof (Hf _ _ _ E2); unfold KI; lia].
    pose proof (Hf _ _ _ E2) as C2. pose proof (Hlf _ _ _ E2) as L2. unfold bind at 1, get in E.
    pose proof (play_loop_costs fuel first _ w2 r w' (lp_double w2) E) as C3.
    pose proof (loop_budget w2). unfold len_rel in *. unfold KI in *. lia. }
  destruct tid as [i|].
  - eapply Hbody; [| | | |exact E]; try solve [eapply cost_weaken; [cost_out|nonneg]]; lenp.
  - destruct (pstate w0);
      try (eapply Hbody; [| | | |exact E]; try solve [eapply cost_weaken; [cost_out|nonneg]]; lenp).
    pose proof (resume_cost _ _ _ E). pose proof (zlen_nonneg (World.tl w0)). unfold KI. lia.
Qed.

Lemma next_costn fuel : costn (2 * KI) KI (next shuf fuel).
Proof.
  unfold next. apply costn_loop_site. intros w r w' E.
  pose proof (next_loop_costs fuel _ _ _ w r w' (lp_double w) E). pose proof (loop_budget w). lia.
Qed.

Lemma previous_costn fuel : costn (2 * KI) KI (previous shuf fuel).
Proof.
  unfold previous. intros w r w' E. unfold bind at 1, modify in E. cbv beta iota in E.
  unfold bind at 1, get in E.
  pose proof (previous_loop_costs fuel _ _ _ _ r w' E) as C. pose proof (loop_budget w).
  change (bcalls (w <| previous_flag := true |>)) with (bcalls w) in C.
  change (World.tl (w <| previous_flag := true |>)) with (World.tl w) in C. lia.
Qed.

Lemma on_about_to_finish_costn fuel : costn (2 * KI) KI (on_about_to_finish shuf fuel).
Proof.
  unfold on_about_to_finish. apply costn_loop_site. intros w0 r w' E. pose proof (zlen_nonneg (World.tl w0)).
  destruct (ps_eqb (pstate w0) Stopped); [inversion E; subst; unfold KI; lia|].
  set (pre := match current w0 with
              | Some c => modify (fun w => w <| last_position := len_of w (trk c) |>)
              | None => ret tt end) in E.
  assert (Hp : cost 0 pre) by (unfold pre; eapply cost_weaken; [cost_out|nonneg]).
  assert (Hlp : rel len_rel pre) by (unfold pre; lenp).
  apply bind_cases in E. destruct E as [([] & w1 & E1 & E)|(r1 & E1)]; [|pose proof (Hp _ _ _ E1); unfold KI; lia].
  pose proof (Hp _ _ _ E1) as C1. pose proof (Hlp _ _ _ E1) as L1.
  unfold bind at 1, get in E.
  apply bind_cases in E. destruct E as [(p & w2 & E2 & E)|(r1 & E2)];
    [|pose proof (eot_track_cost shuf _ _ _ _ E2); unfold KI; lia].
  pose proof (eot_track_cost shuf _ _ _ _ E2) as C2.
  pose proof (eot_track_len_rel shuf _ _ _ _ E2) as L2. unfold bind at 1, get in E.
  pose proof (atf_loop_costs fuel _ _ _ _ _ E) as C3. pose proof (loop_budget w2).
  unfold len_rel in *. unfold KI in *. lia.
Qed.
Hint Resolve play_costn next_costn previous_costn on_about_to_finish_costn : costndb.

Lemma costn_when a b (c : bool) (m : M unit) : costn a b m -> 0 <= a -> 0 <= b -> costn a b (when c do m).
Proof.
  intros H Ha Hb. destruct c; [exact H|]. intros w r w' E. inversion E; subst.
  pose proof (zlen_nonneg (World.tl w')). nia.
Qed.
Hint Extern 1 (costn _ _ (if _ then _ else ret tt)) =>
  (eapply costn_when; [ solve [eauto 2 with costndb] | nonneg | nonneg ]) : costndb.

Lemma seek_costn fuel t : costn (4 * KI) (2 * KI) (seek shuf fuel t).
Proof. unfold seek. cbv zeta. costn_in 0 0. Qed.
Hint Resolve seek_costn : costndb.

Lemma on_stream_changed_costn fuel : costn (4 * KI) (2 * KI + 5) (on_stream_changed shuf fuel).
Proof. unfold on_stream_changed. costn_in (4 * KI) (2 * KI). Qed.
Hint Resolve on_stream_changed_costn : costndb.

Lemma deliver_costn fuel : costn (4 * KI) (2 * KI + 5) (deliver shuf fuel).
Proof. unfold deliver. costn_in 0 0. Qed.

Lemma about_to_finish_costn fuel : costn (2 * KI) KI (about_to_finish shuf fuel).
Proof. unfold about_to_finish. costn_in 0 0. Qed.
Hint Resolve deliver_costn about_to_finish_costn : costndb.

(* ---- restore: the play-last section runs play() on the restored tracklist *)
Lemma load_state_costs fuel cov s w r w' :
  load_state shuf fuel cov s w = (r, w') ->
  bcalls w' <= bcalls w + 2 * KI * Z.max (zlen (World.tl w)) (zlen (s_tl s)) + (KI + 2).
Proof.
  unfold load_state. intros E.
  pose proof (zlen_nonneg (World.tl w)) as N0. pose proof (zlen_nonneg (s_tl s)) as N1.
  set (n := Z.max (zlen (World.tl w)) (zlen (s_tl s))) in *.
  (* history, mode *)
  apply bind_cases in E. destruct E as [([] & w1 & E1 & E)|(r1 & E1)].
  2: { assert (C : cost 0 (when cov_history cov do modify (fun w => w <| history := s_history s |>)))
         by (eapply cost_weaken; [cost_out|nonneg]). pose proof (C _ _ _ E1). unfold KI. lia. }
  assert (C1 : bcalls w1 <= bcalls w + 0 /\ len_rel w w1).
  { split; [|revert E1; generalize w (Ok tt : res exn unit) w1; change (rel len_rel (when cov_history cov do modify (fun w => w <| history := s_history s |>))); lenp].
    assert (C : cost 0 (when cov_history cov do modify (fun w => w <| history := s_history s |>)))
      by (eapply cost_weaken; [cost_out|nonneg]). exact (C _ _ _ E1). }
  destruct C1 as [C1 L1].
  apply bind_cases in E. destruct E as [([] & w2 & E2 & E)|(r1 & E2)].
  2: { match type of E2 with ?m _ = _ => assert (C : cost 0 m) by (eapply cost_weaken; [cost_out|nonneg]) end.
       pose proof (C _ _ _ E2). unfold KI. lia. }
  assert (C2 : bcalls w2 <= bcalls w1 + 0 /\ len_rel w1 w2).
  { match type of E2 with ?m _ = _ => assert (C : cost 0 m) by (eapply cost_weaken; [cost_out|nonneg]);
      assert (L : rel len_rel m) by lenp end. split; [exact (C _ _ _ E2)|exact (L _ _ _ E2)]. }
  destruct C2 as [C2 L2].
  (* tracklist *)
  apply bind_cases in E. destruct E as [([] & w3 & E3 & E)|(r1 & E3)].
  2: { match type of E3 with ?m _ = _ => assert (C : cost 2 m) by (eapply cost_weaken; [cost_out|nonneg]) end.
       pose proof (C _ _ _ E3). unfold KI. lia. }
  assert (C3 : bcalls w3 <= bcalls w2 + 2 /\ zlen (World.tl w3) <= Z.max (zlen (World.tl w2)) (zlen (s_tl s))).
  { match type of E3 with ?m _ = _ => assert (C : cost 2 m) by (eapply cost_weaken; [cost_out|nonneg]) end.
    split; [exact (C _ _ _ E3)|]. destruct (cov_tracklist cov); [|inversion E3; subst; lia].
    unfold bind at 1, modify in E3. cbv beta iota in E3.
    pose proof (increase_version_len_rel shuf _ _ _ E3) as L. unfold len_rel in L. cbn in L. lia. }
  destruct C3 as [C3 L3]. unfold len_rel in L1, L2.
  (* mixer *)
  apply bind_cases in E. destruct E as [([] & w4 & E4 & E)|(r1 & E4)].
  2: { match type of E4 with ?m _ = _ => assert (C : cost 0 m) by (eapply cost_weaken; [cost_out|nonneg]) end.
       pose proof (C _ _ _ E4). unfold KI. lia. }
  assert (C4 : bcalls w4 <= bcalls w3 + 0 /\ len_rel w3 w4).
  { match type of E4 with ?m _ = _ => assert (C : cost 0 m) by (eapply cost_weaken; [cost_out|nonneg]);
      assert (L : rel len_rel m) by lenp end. split; [exact (C _ _ _ E4)|exact (L _ _ _ E4)]. }
  destruct C4 as [C4 L4]. unfold len_rel in L4.
  (* play-last *)
  assert (Hlast : costn (2 * KI) KI
            (match cov_play_last cov, s_tlid s with
             | true, Some i =>
                 (when ps_eqb (s_state s) Paused do modify (fun w => w <| start_paused := true |>)) ;;
                 if ps_eqb (s_state s) Stopped then ret tt else
                   modify (fun w => w <| start_at_position := Some (s_pos s) |>) ;; play shuf fuel (Some i)
             | _, _ => ret tt end)%M).
  { costn_in 0 0. }
  pose proof (Hlast _ _ _ E) as C5. pose proof (zlen_nonneg (World.tl w4)). unfold KI in *. nia.
Qed.

Lemma do_load_costs fuel cov w r w' :
  do_load shuf fuel cov w = (r, w') ->
  bcalls w' <= bcalls w + 2 * KI * (match saved w with Some s => zlen (s_tl s) | None => 0 end) + (KI + 2).
Proof.
  unfold do_load. intros E. unfold bind at 1, get in E. unfold bind at 1, modify in E. cbv beta iota in E.
  destruct (saved w) as [s|].
  - pose proof (load_state_costs _ _ _ _ _ _ E) as C. pose proof (zlen_nonneg (s_tl s)).
    change (bcalls (restart w)) with (bcalls w) in C. change (World.tl (restart w)) with (@nil tlt) in C.
    change (zlen []) with 0 in C. rewrite Z.max_r in C by lia. exact C.
  - inversion E; subst. change (bcalls (restart w)) with (bcalls w). unfold KI. lia.
Qed.

(* ---- every operation *)
Definition op_size (o : op) (w : world) : Z :=
  match o with
  | Load _ => match saved w with Some s => zlen (s_tl s) | None => 0 end
  | _ => zlen (World.tl w)
  end.

Definition KA : Z := 4 * KI.       (* 28 *)
Definition KB : Z := 2 * KI + 5.   (* 19 *)

Lemma run_op_linear fuel o w r w' :
  run_op shuf fuel o w = (r, w') -> bcalls w' <= bcalls w + KA * op_size o w + KB.
Proof.
  intros E. pose proof (zlen_nonneg (World.tl w)) as N.
  assert (Hc : forall k, cost k (run_op shuf fuel o) -> k <= KB -> op_size o w = zlen (World.tl w) ->
               bcalls w' <= bcalls w + KA * op_size o w + KB).
  { intros k C Hk Hs. pose proof (C _ _ _ E). rewrite Hs. unfold KA, KB, KI in *. lia. }
  assert (Hn : forall a b, costn a b (run_op shuf fuel o) -> a <= KA -> b <= KB -> op_size o w = zlen (World.tl w) ->
               bcalls w' <= bcalls w + KA * op_size o w + KB).
  { intros a b C Ha Hb Hs. pose proof (C _ _ _ E). rewrite Hs. unfold KA, KB, KI in *. nia. }
  destruct o;
    try (apply (Hc 3); [unfold run_op; cost_in|unfold KB, KI; lia|reflexivity]).
  - apply (Hn (2 * KI) KI); [unfold run_op; costn_in 0 0|unfold KA, KI; lia|unfold KB, KI; lia|reflexivity].
  - apply (Hn (2 * KI) KI); [unfold run_op; costn_in 0 0|unfold KA, KI; lia|unfold KB, KI; lia|reflexivity].
  - apply (Hn (2 * KI) KI); [unfold run_op; costn_in 0 0|unfold KA, KI; lia|unfold KB, KI; lia|reflexivity].
  - apply (Hn (4 * KI) (2 * KI)); [unfold run_op; costn_in 0 0|unfold KA, KI; lia|unfold KB, KI; lia|reflexivity].
  - apply (Hn (4 * KI) (2 * KI + 5)); [unfold run_op; costn_in 0 0|unfold KA, KI; lia|unfold KB, KI; lia|reflexivity].
  - apply (Hn (2 * KI) KI); [unfold run_op; costn_in 0 0|unfold KA, KI; lia|unfold KB, KI; lia|reflexivity].
  - (* Load *)
    unfold run_op in E. apply bind_cases in E. destruct E as [([] & w1 & E1 & E)|(r1 & E1)].
    + inversion E; subst. pose proof (do_load_costs _ _ _ _ _ E1). unfold op_size.
      destruct (saved w) as [s|]; [pose proof (zlen_nonneg (s_tl s))|]; unfold KA, KB, KI in *; lia.
    + pose proof (do_load_costs _ _ _ _ _ E1). unfold op_size.
      destruct (saved w) as [s|]; [pose proof (zlen_nonneg (s_tl s))|]; unfold KA, KB, KI in *; lia.
Qed.
End S.
