(* C03 (prediction clause), proved for the model by symbolic execution: from a settled state on
   a track, with consume off, if the selection function announces a playable candidate x that
   the backend accepts, then next() followed by the delivery of the pending notifications
   ends with x as the current track, in the same playing / paused / stopped state, and the
   audio layer holds x's URI.  The same for the natural end of the track (about-to-finish)
   while playing. *)
From Coq Require Import ZArith List Bool Lia ZifyBool.
From RecordUpdate Require Import RecordSet.
From Common Require Import Res.
From Core Require Import World Hoare Model Step Reach.
Import ListNotations RecordSetNotations.
Open Scope Z_scope.

(* what "the player has settled on track c in state st" means in the model *)
Record settled_on (w : world) (c : tlt) : Prop := {
  so_queue : queue w = [];
  so_pending : pending w = None;
  so_pp : pending_position w = None;
  so_sap : start_at_position w = None;
  so_sp : start_paused w = false;
  so_prev : previous_flag w = false;
  so_cur : current w = Some c;
  so_back : tkind_has_backend (kind_of w (trk c)) = true;
  so_audio : match pstate w with
             | Playing => a_uri w = Some (trk c) /\ a_state w = Playing
             | Paused => a_uri w = Some (trk c) /\ a_state w = Paused
             | Stopped => a_state w = Stopped
             end
}.

Definition accepts (w : world) (x : tlt) : Prop :=
  kind_of w (trk x) = Playable /\ (match script w with b :: _ => b | [] => false end) = false.

(* what a client command on a running player leaves as it was *)
Definition stable (w w' : world) : Prop :=
  World.tl w' = World.tl w /\ tkinds w' = tkinds w /\ tlens w' = tlens w
  /\ consume w' = consume w /\ random w' = random w /\ repeat w' = repeat w /\ single w' = single w
  /\ (script w = [] -> script w' = []) /\ (a_fresh w = false -> a_fresh w' = false)
  /\ (a_atf_done w = false -> a_atf_done w' = false).

(* record extensionality for worlds *)
Lemma world_ext (a b : world) :
  World.tl a = World.tl b ->
  next_tlid a = next_tlid b ->
  version a = version b ->
  consume a = consume b ->
  random a = random b ->
  repeat a = repeat b ->
  single a = single b ->
  shuffled a = shuffled b ->
  pstate a = pstate b ->
  current a = current b ->
  pending a = pending b ->
  pending_position a = pending_position b ->
  last_position a = last_position b ->
  previous_flag a = previous_flag b ->
  start_at_position a = start_at_position b ->
  start_paused a = start_paused b ->
  history a = history b ->
  volume a = volume b ->
  mute a = mute b ->
  max_len a = max_len b ->
  tkinds a = tkinds b ->
  tlens a = tlens b ->
  a_uri a = a_uri b ->
  a_state a = a_state b ->
  a_fresh a = a_fresh b ->
  a_pos a = a_pos b ->
  a_atf_done a = a_atf_done b ->
  queue a = queue b ->
  script a = script b ->
  seed a = seed b ->
  saved a = saved b ->
  events a = events b ->
  acalls a = acalls b ->
  attempts a = attempts b ->
  bcalls a = bcalls b ->
  issued a = issued b ->
  protocol_violations a = protocol_violations b ->
  a = b.
Proof. destruct a, b; cbn; intros; subst; reflexivity. Qed.

Ltac world_eq := apply world_ext; cbn; try reflexivity.

Ltac step H := rewrite (bind_ok _ _ _ _ _ H).

Section P.
Variable shuf : Z -> list tlt -> list tlt.

(* ---- one-step run equations with explicit effect functions (small terms: cheap to check) *)

Definition fx_gtp (w : world) : world := w <| bcalls := bcalls w + 1 |>.
Lemma gtp_run w c :
  pending_position w = None -> current w = Some c -> tkind_has_backend (kind_of w (trk c)) = true ->
  get_time_position w = (Ok (a_pos w), fx_gtp w).
Proof.
  intros Hpp Ec Hb. unfold get_time_position, env_get_position, bcall, has_backend, bind, get, modify, ret.
  rewrite Hpp, Ec, Hb. reflexivity.
Qed.

Definition fx_prepare (w : world) : world :=
  w <| bcalls := bcalls w + 1 |> <| acalls := APrepareChange :: acalls w |> <| a_uri := None |>.
Lemma prepare_run w : env_prepare_change w = (Ok tt, fx_prepare w).
Proof. reflexivity. Qed.

Definition fx_attempt (k : track) (w : world) : world :=
  w <| bcalls := bcalls w + 1 |> <| script := List.tl (script w) |> <| attempts := (k, true) :: attempts w |>
    <| acalls := ASetUri k :: acalls w |> <| a_uri := Some k |> <| a_pos := 0 |> <| a_fresh := true |>
    <| a_atf_done := false |>.
Lemma attempt_run k w :
  kind_of w k = Playable -> (match script w with b :: _ => b | [] => false end) = false ->
  a_uri w = None ->
  attempt_change k w = (Ok true, fx_attempt k w).
Proof.
  intros Hk Hs Hu. unfold attempt_change, env_set_uri, bcall, acall_log, bind, get, modify, ret.
  cbn. change (kind_of (w <| bcalls := bcalls w + 1 |>) k) with (kind_of w k). rewrite Hk, Hs. cbn.
  rewrite Hu. reflexivity.
Qed.

Definition fx_set_state (st : ps) (w : world) : world :=
  w <| bcalls := bcalls w + 1 |> <| acalls := ASetState st :: acalls w |> <| a_fresh := false |>
    <| queue := queue w ++ [NStreamChanged (a_uri w); NPositionChanged 0; NStateChanged (a_state w) st]
                        ++ (if ps_eqb st Playing then [NTagsChanged] else []) |>
    <| a_state := st |>.
Lemma set_state_run st w u :
  st <> Stopped -> a_uri w = Some u -> a_fresh w = true ->
  env_set_state st w = (Ok true, fx_set_state st w).
Proof.
  intros Hst Hu Hf. unfold env_set_state, bcall, acall_log, enqueue, bind, get, modify, ret.
  cbn. rewrite Hu. destruct st; [contradiction| |]; cbn; rewrite Hf; cbn; rewrite Hu; cbn;
    (f_equal; unfold fx_set_state; world_eq; rewrite Hu; cbn; repeat rewrite <- app_assoc; reflexivity).
Qed.

(* the world after a successful _change to x in state st *)
Definition fx_change (x : tlt) (st : ps) (w : world) : world :=
  let w0 := w <| pending := Some x |> in
  let w2 := (fx_gtp w0) <| last_position := Some (a_pos w0) |> in
  let w4 := fx_attempt (trk x) (fx_prepare w2) in
  match st with
  | Stopped => w4 <| current := pending w4 |> <| pending := None |>
  | _ => fx_set_state st w4
  end.

Lemma change_run x st w c :
  pending_position w = None -> current w = Some c ->
  tkind_has_backend (kind_of w (trk c)) = true -> accepts w x ->
  change shuf (Some x) st w = (Ok true, fx_change x st w).
Proof.
  intros Hpp Ec Hback [Hk Hs]. unfold change, fx_change. cbv zeta.
  set (w0 := w <| pending := Some x |>).
  assert (E0 : modify (fun w => w <| pending := Some x |>) w = (Ok tt, w0)) by reflexivity.
  step E0.
  assert (E1 : get w0 = (Ok w0, w0)) by reflexivity.
  step E1.
  assert (Hb : has_backend w0 (Some x) = true).
  { unfold has_backend. change (kind_of w0 (trk x)) with (kind_of w (trk x)). rewrite Hk. reflexivity. }
  rewrite Hb. cbn [negb].
  assert (E2 : get_time_position w0 = (Ok (a_pos w0), fx_gtp w0)).
  { apply (gtp_run w0 c); [exact Hpp|exact Ec|exact Hback]. }
  step E2.
  set (w2 := (fx_gtp w0) <| last_position := Some (a_pos w0) |>).
  assert (E3 : modify (fun w => w <| last_position := Some (a_pos w0) |>) (fx_gtp w0) = (Ok tt, w2)) by reflexivity.
  step E3.
  step (prepare_run w2).
  assert (E4 : attempt_change (trk x) (fx_prepare w2) = (Ok true, fx_attempt (trk x) (fx_prepare w2))).
  { apply attempt_run; [exact Hk|exact Hs|reflexivity]. }
  step E4. cbn [negb].
  set (w4 := fx_attempt (trk x) (fx_prepare w2)).
  destruct st.
  - reflexivity.
  - apply (set_state_run Playing w4 (trk x)); [discriminate|reflexivity|reflexivity].
  - apply (set_state_run Paused w4 (trk x)); [discriminate|reflexivity|reflexivity].
Qed.

(* the world after stream_changed promoted the pending track x (consume off) *)
Definition fx_promote (x c : tlt) (p : Z) (w : world) : world :=
  w <| last_position := None |> <| previous_flag := false |>
    <| current := Some x |> <| pending := None |> <| pstate := Playing |>
    <| shuffled := if random w && mem_tlt x (shuffled w) then remove_first x (shuffled w) else shuffled w |>
    <| history := trk x :: history w |>
    <| events := EvStarted x :: EvStateChanged (pstate w) Playing :: EvEnded c p :: events w |>.

Lemma stream_changed_run fuel x c p w :
  pending w = Some x -> current w = Some c -> pending_position w = None ->
  last_position w = Some p -> consume w = false ->
  start_at_position w = None -> start_paused w = false ->
  on_stream_changed shuf fuel w = (Ok tt, fx_promote x c p w).
Proof.
  intros Hp Hc Hpp Hl Hco Hsa Hsp.
  unfold on_stream_changed, trigger_ended, mark_played, set_state, trigger_started, mark_playing,
    history_add, emit, bind, get, modify, ret.
  destruct (previous_flag w) eqn:Hpf.
  all: repeat (progress (cbn -[seek pause fx_promote mem_tlt remove_first]; rewrite ?Hl, ?Hpp, ?Hc, ?Hpf, ?Hco, ?Hp, ?Hsa, ?Hsp)).
  all: destruct (random w && mem_tlt x (shuffled w)) eqn:Er;
    repeat (progress (cbn -[seek pause fx_promote mem_tlt remove_first]; rewrite ?Hl, ?Hpp, ?Hc, ?Hpf, ?Hco, ?Hp, ?Hsa, ?Hsp));
    f_equal; unfold fx_promote; rewrite Er; world_eq.
Qed.

(* notifications that do nothing in a state without pending seek *)
Lemma position_changed_noop w : pending_position w = None -> on_position_changed w = (Ok tt, w).
Proof. intros H. unfold on_position_changed, bind, get. rewrite H. reflexivity. Qed.

Lemma state_changed_not_paused o n w : n <> Paused -> on_state_changed o n w = (Ok tt, w).
Proof. intros H. unfold on_state_changed, bind, get. destruct n; try contradiction; reflexivity. Qed.

Lemma next_run f x c w :
  pending w = None -> current w = Some c -> pending_position w = None ->
  tkind_has_backend (kind_of w (trk c)) = true -> accepts w x ->
  next_track shuf (Some c) w = (Ok (Some x), w) ->
  next shuf (S f) w = (Ok tt, fx_change x (pstate w) w).
Proof.
  intros Hp Hc Hpp Hb Ha Hn. unfold next.
  assert (E0 : get w = (Ok w, w)) by reflexivity. step E0.
  rewrite Hp, Hc. cbn [orelse next_loop].
  step Hn. step (change_run x (pstate w) w c Hpp Hc Hb Ha). reflexivity.
Qed.

Lemma deliver_run fuel n q w :
  queue w = n :: q ->
  deliver shuf fuel w =
    (match n with
     | NStreamChanged _ => on_stream_changed shuf fuel
     | NPositionChanged _ => on_position_changed
     | NStateChanged o n' => on_state_changed o n'
     | NReachedEos => on_end_of_stream shuf
     | NTagsChanged => ret tt
     end) (w <| queue := q |>).
Proof.
  intros Hq. unfold deliver. assert (E0 : get w = (Ok w, w)) by reflexivity. step E0. rewrite Hq.
  assert (E1 : modify (fun w => w <| queue := q |>) w = (Ok tt, w <| queue := q |>)) by reflexivity.
  step E1. reflexivity.
Qed.

Lemma stepw_eq fuel o w r w1 p w2 :
  run_op shuf fuel o w = (Ok r, w1) -> get_time_position w1 = (Ok p, w2) -> stepw shuf fuel w o = w2.
Proof. intros E1 E2. unfold stepw, step. rewrite E1, E2. reflexivity. Qed.

Lemma run_op_bind_none {A} (m : M A) w a w1 :
  m w = (Ok a, w1) -> (m ;; ret RNone)%M w = (Ok RNone, w1).
Proof. intros E. step E. reflexivity. Qed.

(* ------------------------------------------------------------------ the prediction theorem *)

(* Playing: next(), then the four pending notifications *)
Theorem next_prediction_playing_full f x c w :
  settled_on w c -> pstate w = Playing -> consume w = false -> accepts w x ->
  next_track shuf (Some c) w = (Ok (Some x), w) ->
  let w' := run_world shuf (S f) w [Next; Deliver; Deliver; Deliver; Deliver] in
  settled_on w' x /\ stable w w' /\
  current w' = Some x /\ pstate w' = Playing /\ pending w' = None /\ queue w' = []
  /\ a_uri w' = Some (trk x) /\ a_state w' = Playing /\ World.tl w' = World.tl w.
Proof.
  intros [Hq Hp Hpp Hsa Hsp Hpf Hc Hb Ha] Hst Hco Hacc Hn. rewrite Hst in Ha. destruct Ha as [Hu Has].
  cbv zeta. unfold run_world. cbn [fold_left].
  destruct Hacc as [Hk Hs].
  assert (Hbx : forall w0, tkinds w0 = tkinds w -> tkind_has_backend (kind_of w0 (trk x)) = true).
  { intros w0 E. unfold kind_of in *. rewrite E, Hk. reflexivity. }
  (* Next *)
  pose proof (next_run f x c w Hp Hc Hpp Hb (conj Hk Hs) Hn) as E1. rewrite Hst in E1.
  set (w1 := fx_change x Playing w) in *.
  assert (G1 : get_time_position w1 = (Ok (a_pos w1), fx_gtp w1)).
  { apply (gtp_run w1 c); [exact Hpp|exact Hc|exact Hb]. }
  rewrite (stepw_eq (S f) Next w RNone w1 _ _ (run_op_bind_none _ w tt w1 E1) G1).
  (* Deliver stream_changed *)
  set (w1' := fx_gtp w1).
  assert (Q1 : queue w1' = [NStreamChanged (Some (trk x)); NPositionChanged 0;
                            NStateChanged Playing Playing; NTagsChanged]).
  { unfold w1', w1, fx_gtp, fx_change, fx_set_state. cbn. rewrite Hq, Has. reflexivity. }
  pose proof (deliver_run (S f) _ _ w1' Q1) as D1. cbv beta iota in D1.
  set (w1q := w1' <| queue := [NPositionChanged 0; NStateChanged Playing Playing; NTagsChanged] |>) in *.
  assert (S1 : on_stream_changed shuf (S f) w1q = (Ok tt, fx_promote x c (a_pos w) w1q)).
  { apply stream_changed_run; try reflexivity; unfold w1q, w1', w1; cbn; assumption. }
  rewrite S1 in D1.
  set (w2 := fx_promote x c (a_pos w) w1q) in *.
  assert (G2 : get_time_position w2 = (Ok (a_pos w2), fx_gtp w2)).
  { apply (gtp_run w2 x); [exact Hpp|reflexivity|apply Hbx; reflexivity]. }
  rewrite (stepw_eq (S f) Deliver w1' RNone w2 _ _ (run_op_bind_none _ w1' tt w2 D1) G2).
  (* Deliver position_changed *)
  set (w2' := fx_gtp w2).
  assert (Q2 : queue w2' = [NPositionChanged 0; NStateChanged Playing Playing; NTagsChanged]) by reflexivity.
  pose proof (deliver_run (S f) _ _ w2' Q2) as D2. cbv beta iota in D2.
  rewrite position_changed_noop in D2 by exact Hpp.
  set (w3 := w2' <| queue := [NStateChanged Playing Playing; NTagsChanged] |>) in *.
  assert (G3 : get_time_position w3 = (Ok (a_pos w3), fx_gtp w3)).
  { apply (gtp_run w3 x); [exact Hpp|reflexivity|apply Hbx; reflexivity]. }
  rewrite (stepw_eq (S f) Deliver w2' RNone w3 _ _ (run_op_bind_none _ w2' tt w3 D2) G3).
  (* Deliver state_changed *)
  set (w3' := fx_gtp w3).
  assert (Q3 : queue w3' = [NStateChanged Playing Playing; NTagsChanged]) by reflexivity.
  pose proof (deliver_run (S f) _ _ w3' Q3) as D3. cbv beta iota in D3.
  rewrite state_changed_not_paused in D3 by discriminate.
  set (w4 := w3' <| queue := [NTagsChanged] |>) in *.
  assert (G4 : get_time_position w4 = (Ok (a_pos w4), fx_gtp w4)).
  { apply (gtp_run w4 x); [exact Hpp|reflexivity|apply Hbx; reflexivity]. }
  rewrite (stepw_eq (S f) Deliver w3' RNone w4 _ _ (run_op_bind_none _ w3' tt w4 D3) G4).
  (* Deliver tags_changed *)
  set (w4' := fx_gtp w4).
  assert (Q4 : queue w4' = [NTagsChanged]) by reflexivity.
  pose proof (deliver_run (S f) _ _ w4' Q4) as D4. cbv beta iota in D4.
  set (w5 := w4' <| queue := [] |>) in *.
  assert (G5 : get_time_position w5 = (Ok (a_pos w5), fx_gtp w5)).
  { apply (gtp_run w5 x); [exact Hpp|reflexivity|apply Hbx; reflexivity]. }
  assert (D4' : (deliver shuf (S f) ;; ret RNone)%M w4' = (Ok RNone, w5)).
  { apply (run_op_bind_none _ w4' tt w5). exact D4. }
  rewrite (stepw_eq (S f) Deliver w4' RNone w5 _ _ D4' G5).
  split; [constructor; try reflexivity; try assumption; try (apply Hbx; reflexivity);
           try (cbn; split; first [reflexivity|assumption]); try (cbn; assumption)|].
  split; [unfold stable; repeat split; try reflexivity; try assumption;
           try (intros Hs0; cbn; rewrite ?Hs0; cbn; rewrite ?Hs0; first [reflexivity|assumption])|].
  repeat split; reflexivity.
Qed.

Theorem next_prediction_playing f x c w :
  settled_on w c -> pstate w = Playing -> consume w = false -> accepts w x ->
  next_track shuf (Some c) w = (Ok (Some x), w) ->
  let w' := run_world shuf (S f) w [Next; Deliver; Deliver; Deliver; Deliver] in
  current w' = Some x /\ pstate w' = Playing /\ pending w' = None /\ queue w' = []
  /\ a_uri w' = Some (trk x) /\ a_state w' = Playing /\ World.tl w' = World.tl w.
Proof. intros. cbv zeta. eapply proj2. eapply proj2. eapply next_prediction_playing_full; eassumption. Qed.

(* the audio layer reports paused while the core believes playing: the core follows *)
Definition fx_paused (x : tlt) (w : world) : world :=
  w <| pstate := Paused |> <| bcalls := bcalls w + 1 |>
    <| events := EvPaused x (a_pos w) :: EvStateChanged (pstate w) Paused :: events w |>.

Lemma state_changed_paused_run o x w :
  pstate w = Playing -> current w = Some x -> pending_position w = None ->
  tkind_has_backend (kind_of w (trk x)) = true ->
  on_state_changed o Paused w = (Ok tt, fx_paused x w).
Proof.
  intros Hs Hc Hpp Hb.
  unfold on_state_changed, set_state, trigger_paused, get_time_position, env_get_position, bcall,
    has_backend, emit, bind, get, modify, ret.
  repeat (progress (cbn -[fx_paused]; rewrite ?Hs, ?Hc, ?Hpp)).
  change (kind_of (w <| pstate := Paused |> <| events := EvStateChanged Playing Paused :: events w |>) (trk x))
    with (kind_of w (trk x)). rewrite Hb. cbn -[fx_paused].
  f_equal. unfold fx_paused. rewrite Hs. world_eq.
Qed.

Ltac gtp_of wv cv Hpp Hbk :=
  let G := fresh "G" in
  assert (G : get_time_position wv = (Ok (a_pos wv), fx_gtp wv))
    by (apply (gtp_run wv cv); [exact Hpp|reflexivity|apply Hbk; reflexivity]);
  G.

(* Paused: next(), then the three pending notifications; the core passes through playing
   (stream_changed) and returns to paused when the audio layer's state report arrives *)
Theorem next_prediction_paused_full f x c w :
  settled_on w c -> pstate w = Paused -> consume w = false -> accepts w x ->
  next_track shuf (Some c) w = (Ok (Some x), w) ->
  let w' := run_world shuf (S f) w [Next; Deliver; Deliver; Deliver] in
  settled_on w' x /\ stable w w' /\
  current w' = Some x /\ pstate w' = Paused /\ pending w' = None /\ queue w' = []
  /\ a_uri w' = Some (trk x) /\ a_state w' = Paused /\ World.tl w' = World.tl w.
Proof.
  intros [Hq Hp Hpp Hsa Hsp Hpf Hc Hb Ha] Hst Hco Hacc Hn. rewrite Hst in Ha. destruct Ha as [Hu Has].
  cbv zeta. unfold run_world. cbn [fold_left].
  destruct Hacc as [Hk Hs].
  assert (Hbx : forall w0, tkinds w0 = tkinds w -> tkind_has_backend (kind_of w0 (trk x)) = true).
  { intros w0 E. unfold kind_of in *. rewrite E, Hk. reflexivity. }
  pose proof (next_run f x c w Hp Hc Hpp Hb (conj Hk Hs) Hn) as E1. rewrite Hst in E1.
  set (w1 := fx_change x Paused w) in *.
  assert (G1 : get_time_position w1 = (Ok (a_pos w1), fx_gtp w1)).
  { apply (gtp_run w1 c); [exact Hpp|exact Hc|exact Hb]. }
  rewrite (stepw_eq (S f) Next w RNone w1 _ _ (run_op_bind_none _ w tt w1 E1) G1).
  set (w1' := fx_gtp w1).
  assert (Q1 : queue w1' = [NStreamChanged (Some (trk x)); NPositionChanged 0; NStateChanged Paused Paused]).
  { unfold w1', w1, fx_gtp, fx_change, fx_set_state. cbn. rewrite Hq, Has. reflexivity. }
  pose proof (deliver_run (S f) _ _ w1' Q1) as D1. cbv beta iota in D1.
  set (w1q := w1' <| queue := [NPositionChanged 0; NStateChanged Paused Paused] |>) in *.
  assert (S1 : on_stream_changed shuf (S f) w1q = (Ok tt, fx_promote x c (a_pos w) w1q)).
  { apply stream_changed_run; try reflexivity; unfold w1q, w1', w1; cbn; assumption. }
  rewrite S1 in D1.
  set (w2 := fx_promote x c (a_pos w) w1q) in *.
  assert (G2 : get_time_position w2 = (Ok (a_pos w2), fx_gtp w2)).
  { apply (gtp_run w2 x); [exact Hpp|reflexivity|apply Hbx; reflexivity]. }
  rewrite (stepw_eq (S f) Deliver w1' RNone w2 _ _ (run_op_bind_none _ w1' tt w2 D1) G2).
  set (w2' := fx_gtp w2).
  assert (Q2 : queue w2' = [NPositionChanged 0; NStateChanged Paused Paused]) by reflexivity.
  pose proof (deliver_run (S f) _ _ w2' Q2) as D2. cbv beta iota in D2.
  rewrite position_changed_noop in D2 by exact Hpp.
  set (w3 := w2' <| queue := [NStateChanged Paused Paused] |>) in *.
  assert (G3 : get_time_position w3 = (Ok (a_pos w3), fx_gtp w3)).
  { apply (gtp_run w3 x); [exact Hpp|reflexivity|apply Hbx; reflexivity]. }
  rewrite (stepw_eq (S f) Deliver w2' RNone w3 _ _ (run_op_bind_none _ w2' tt w3 D2) G3).
  set (w3' := fx_gtp w3).
  assert (Q3 : queue w3' = [NStateChanged Paused Paused]) by reflexivity.
  pose proof (deliver_run (S f) _ _ w3' Q3) as D3. cbv beta iota in D3.
  set (w3q := w3' <| queue := [] |>) in *.
  assert (S3 : on_state_changed Paused Paused w3q = (Ok tt, fx_paused x w3q)).
  { apply state_changed_paused_run; [reflexivity|reflexivity|exact Hpp|apply Hbx; reflexivity]. }
  rewrite S3 in D3.
  set (w4 := fx_paused x w3q) in *.
  assert (G4 : get_time_position w4 = (Ok (a_pos w4), fx_gtp w4)).
  { apply (gtp_run w4 x); [exact Hpp|reflexivity|apply Hbx; reflexivity]. }
  rewrite (stepw_eq (S f) Deliver w3' RNone w4 _ _ (run_op_bind_none _ w3' tt w4 D3) G4).
  split; [constructor; try reflexivity; try assumption; try (apply Hbx; reflexivity);
           try (cbn; split; first [reflexivity|assumption]); try (cbn; assumption)|].
  split; [unfold stable; repeat split; try reflexivity; try assumption;
           try (intros Hs0; cbn; rewrite ?Hs0; cbn; rewrite ?Hs0; first [reflexivity|assumption])|].
  repeat split; reflexivity.
Qed.

Theorem next_prediction_paused f x c w :
  settled_on w c -> pstate w = Paused -> consume w = false -> accepts w x ->
  next_track shuf (Some c) w = (Ok (Some x), w) ->
  let w' := run_world shuf (S f) w [Next; Deliver; Deliver; Deliver] in
  current w' = Some x /\ pstate w' = Paused /\ pending w' = None /\ queue w' = []
  /\ a_uri w' = Some (trk x) /\ a_state w' = Paused /\ World.tl w' = World.tl w.
Proof. intros. cbv zeta. eapply proj2. eapply proj2. eapply next_prediction_paused_full; eassumption. Qed.

(* Stopped: next() selects the announced track at once and stays stopped *)
Theorem next_prediction_stopped f x c w :
  settled_on w c -> pstate w = Stopped -> accepts w x ->
  next_track shuf (Some c) w = (Ok (Some x), w) ->
  let w' := run_world shuf (S f) w [Next] in
  current w' = Some x /\ pstate w' = Stopped /\ pending w' = None /\ queue w' = []
  /\ World.tl w' = World.tl w.
Proof.
  intros [Hq Hp Hpp Hsa Hsp Hpf Hc Hb Ha] Hst [Hk Hs] Hn.
  cbv zeta. unfold run_world. cbn [fold_left].
  assert (Hbx : forall w0, tkinds w0 = tkinds w -> tkind_has_backend (kind_of w0 (trk x)) = true).
  { intros w0 E. unfold kind_of in *. rewrite E, Hk. reflexivity. }
  pose proof (next_run f x c w Hp Hc Hpp Hb (conj Hk Hs) Hn) as E1. rewrite Hst in E1.
  set (w1 := fx_change x Stopped w) in *.
  assert (G1 : get_time_position w1 = (Ok (a_pos w1), fx_gtp w1)).
  { apply (gtp_run w1 x); [exact Hpp|reflexivity|apply Hbx; reflexivity]. }
  rewrite (stepw_eq (S f) Next w RNone w1 _ _ (run_op_bind_none _ w tt w1 E1) G1).
  repeat split; try reflexivity; [exact Hst|exact Hq].
Qed.

(* ------------------------------------------------------------------ previous() *)

Lemma previous_track_flag t b w :
  previous_track t (w <| previous_flag := b |>) =
    let '(r, w') := previous_track t w in (r, w' <| previous_flag := b |>).
Proof.
  unfold previous_track, tl_index, bind, get, ret. cbn -[py_index].
  destruct (repeat w || consume w || random w); [reflexivity|].
  destruct t as [x|]; cbn -[py_index]; [destruct (py_index x (World.tl w)) as [i|]; [destruct (i =? 0)|]|
                            destruct (current w) as [y|]; [destruct (py_index y (World.tl w)) as [i|]; [destruct (i =? 0)|]|]];
    reflexivity.
Qed.

Lemma previous_run f x c w :
  pending w = None -> current w = Some c -> pending_position w = None ->
  tkind_has_backend (kind_of w (trk c)) = true -> accepts w x ->
  previous_track (Some c) w = (Ok (Some x), w) ->
  previous shuf (S f) w = (Ok tt, fx_change x (pstate w) (w <| previous_flag := true |>)).
Proof.
  intros Hp Hc Hpp Hb Ha Hn. unfold previous.
  set (wf := w <| previous_flag := true |>).
  assert (E0 : modify (fun w => w <| previous_flag := true |>) w = (Ok tt, wf)) by reflexivity. step E0.
  assert (E1 : get wf = (Ok wf, wf)) by reflexivity. step E1.
  change (pending wf) with (pending w). change (current wf) with (current w). rewrite Hp, Hc.
  cbn [orelse previous_loop].
  assert (Hn' : previous_track (Some c) wf = (Ok (Some x), wf)).
  { unfold wf. rewrite previous_track_flag, Hn. reflexivity. }
  step Hn'.
  assert (Hc' : change shuf (Some x) (pstate wf) wf = (Ok true, fx_change x (pstate wf) wf)).
  { apply (change_run x (pstate wf) wf c); [exact Hpp|exact Hc|exact Hb|exact Ha]. }
  step Hc'. reflexivity.
Qed.

Theorem previous_prediction_playing_full f x c w :
  settled_on w c -> pstate w = Playing -> consume w = false -> accepts w x ->
  previous_track (Some c) w = (Ok (Some x), w) ->
  let w' := run_world shuf (S f) w [Previous; Deliver; Deliver; Deliver; Deliver] in
  settled_on w' x /\ stable w w' /\
  current w' = Some x /\ pstate w' = Playing /\ pending w' = None /\ queue w' = []
  /\ a_uri w' = Some (trk x) /\ a_state w' = Playing /\ World.tl w' = World.tl w.
Proof.
  intros [Hq Hp Hpp Hsa Hsp Hpf Hc Hb Ha] Hst Hco Hacc Hn. rewrite Hst in Ha. destruct Ha as [Hu Has].
  cbv zeta. unfold run_world. cbn [fold_left].
  destruct Hacc as [Hk Hs].
  assert (Hbx : forall w0, tkinds w0 = tkinds w -> tkind_has_backend (kind_of w0 (trk x)) = true).
  { intros w0 E. unfold kind_of in *. rewrite E, Hk. reflexivity. }
  pose proof (previous_run f x c w Hp Hc Hpp Hb (conj Hk Hs) Hn) as E1. rewrite Hst in E1.
  set (w1 := fx_change x Playing (w <| previous_flag := true |>)) in *.
  assert (G1 : get_time_position w1 = (Ok (a_pos w1), fx_gtp w1)).
  { apply (gtp_run w1 c); [exact Hpp|exact Hc|exact Hb]. }
  rewrite (stepw_eq (S f) Previous w RNone w1 _ _ (run_op_bind_none _ w tt w1 E1) G1).
  set (w1' := fx_gtp w1).
  assert (Q1 : queue w1' = [NStreamChanged (Some (trk x)); NPositionChanged 0;
                            NStateChanged Playing Playing; NTagsChanged]).
  { unfold w1', w1, fx_gtp, fx_change, fx_set_state. cbn. rewrite Hq, Has. reflexivity. }
  pose proof (deliver_run (S f) _ _ w1' Q1) as D1. cbv beta iota in D1.
  set (w1q := w1' <| queue := [NPositionChanged 0; NStateChanged Playing Playing; NTagsChanged] |>) in *.
  assert (S1 : on_stream_changed shuf (S f) w1q = (Ok tt, fx_promote x c (a_pos w) w1q)).
  { apply stream_changed_run; try reflexivity; unfold w1q, w1', w1; cbn; assumption. }
  rewrite S1 in D1.
  set (w2 := fx_promote x c (a_pos w) w1q) in *.
  assert (G2 : get_time_position w2 = (Ok (a_pos w2), fx_gtp w2)).
  { apply (gtp_run w2 x); [exact Hpp|reflexivity|apply Hbx; reflexivity]. }
  rewrite (stepw_eq (S f) Deliver w1' RNone w2 _ _ (run_op_bind_none _ w1' tt w2 D1) G2).
  set (w2' := fx_gtp w2).
  assert (Q2 : queue w2' = [NPositionChanged 0; NStateChanged Playing Playing; NTagsChanged]) by reflexivity.
  pose proof (deliver_run (S f) _ _ w2' Q2) as D2. cbv beta iota in D2.
  rewrite position_changed_noop in D2 by exact Hpp.
  set (w3 := w2' <| queue := [NStateChanged Playing Playing; NTagsChanged] |>) in *.
  assert (G3 : get_time_position w3 = (Ok (a_pos w3), fx_gtp w3)).
  { apply (gtp_run w3 x); [exact Hpp|reflexivity|apply Hbx; reflexivity]. }
  rewrite (stepw_eq (S f) Deliver w2' RNone w3 _ _ (run_op_bind_none _ w2' tt w3 D2) G3).
  set (w3' := fx_gtp w3).
  assert (Q3 : queue w3' = [NStateChanged Playing Playing; NTagsChanged]) by reflexivity.
  pose proof (deliver_run (S f) _ _ w3' Q3) as D3. cbv beta iota in D3.
  rewrite state_changed_not_paused in D3 by discriminate.
  set (w4 := w3' <| queue := [NTagsChanged] |>) in *.
  assert (G4 : get_time_position w4 = (Ok (a_pos w4), fx_gtp w4)).
  { apply (gtp_run w4 x); [exact Hpp|reflexivity|apply Hbx; reflexivity]. }
  rewrite (stepw_eq (S f) Deliver w3' RNone w4 _ _ (run_op_bind_none _ w3' tt w4 D3) G4).
  set (w4' := fx_gtp w4).
  assert (Q4 : queue w4' = [NTagsChanged]) by reflexivity.
  pose proof (deliver_run (S f) _ _ w4' Q4) as D4. cbv beta iota in D4.
  set (w5 := w4' <| queue := [] |>) in *.
  assert (G5 : get_time_position w5 = (Ok (a_pos w5), fx_gtp w5)).
  { apply (gtp_run w5 x); [exact Hpp|reflexivity|apply Hbx; reflexivity]. }
  assert (D4' : (deliver shuf (S f) ;; ret RNone)%M w4' = (Ok RNone, w5)).
  { apply (run_op_bind_none _ w4' tt w5). exact D4. }
  rewrite (stepw_eq (S f) Deliver w4' RNone w5 _ _ D4' G5).
  split; [constructor; try reflexivity; try assumption; try (apply Hbx; reflexivity);
           try (cbn; split; first [reflexivity|assumption]); try (cbn; assumption)|].
  split; [unfold stable; repeat split; try reflexivity; try assumption;
           try (intros Hs0; cbn; rewrite ?Hs0; cbn; rewrite ?Hs0; first [reflexivity|assumption])|].
  repeat split; reflexivity.
Qed.

Theorem previous_prediction_playing f x c w :
  settled_on w c -> pstate w = Playing -> consume w = false -> accepts w x ->
  previous_track (Some c) w = (Ok (Some x), w) ->
  let w' := run_world shuf (S f) w [Previous; Deliver; Deliver; Deliver; Deliver] in
  current w' = Some x /\ pstate w' = Playing /\ pending w' = None /\ queue w' = []
  /\ a_uri w' = Some (trk x) /\ a_state w' = Playing /\ World.tl w' = World.tl w.
Proof. intros. cbv zeta. eapply proj2. eapply proj2. eapply previous_prediction_playing_full; eassumption. Qed.

(* ------------------------------------------------------------------ natural end of track *)

(* the end-of-track handler preloads the announced candidate (track length known) *)
Definition fx_atf (x : tlt) (len : Z) (w : world) : world :=
  fx_attempt (trk x) (w <| a_uri := None |> <| last_position := Some len |>) <| pending := Some x |>.

Lemma atf_handler_run f x c len w :
  pstate w <> Stopped -> current w = Some c -> len_of w (trk c) = Some len ->
  a_uri w = None -> accepts w x ->
  eot_track shuf (Some c) (w <| last_position := Some len |>) = (Ok (Some x), w <| last_position := Some len |>) ->
  on_about_to_finish shuf (S f) w =
    (Ok tt, fx_attempt (trk x) (w <| last_position := Some len |>) <| pending := Some x |>).
Proof.
  intros Hst Hc Hlen Hu [Hk Hs] He. unfold on_about_to_finish.
  assert (E0 : get w = (Ok w, w)) by reflexivity. step E0.
  destruct (pstate w) eqn:Ep; [contradiction| |]; cbn [ps_eqb]; rewrite Hc.
  all: set (wl := w <| last_position := Some len |>).
  all: assert (E1 : modify (fun w0 => w0 <| last_position := len_of w0 (trk c) |>) w = (Ok tt, wl))
         by (unfold wl, modify; rewrite Hlen; reflexivity).
  all: step E1.
  all: assert (E2 : get wl = (Ok wl, wl)) by reflexivity; step E2.
  all: change (current wl) with (current w); rewrite Hc; fold wl in He; step He.
  all: step E2; cbn [atf_loop].
  all: step E2.
  all: assert (Hb : has_backend wl (Some x) = true)
         by (unfold has_backend; change (kind_of wl (trk x)) with (kind_of w (trk x)); rewrite Hk; reflexivity).
  all: rewrite Hb.
  all: assert (E3 : attempt_change (trk x) wl = (Ok true, fx_attempt (trk x) wl))
         by (apply attempt_run; [exact Hk|exact Hs|exact Hu]).
  all: step E3; reflexivity.
Qed.

(* the end-of-track selection announces x for c; it neither reads nor writes the audio URI and
   the last position, which the handler updates before asking *)
Definition announces_eot (w : world) (c x : tlt) : Prop :=
  forall u l, eot_track shuf (Some c) (w <| a_uri := u |> <| last_position := l |>)
              = (Ok (Some x), w <| a_uri := u |> <| last_position := l |>).

(* what the audio environment does after the handler returned *)
Definition atf_tail (old : track) : M unit :=
  (w1 <- get ;;
   match a_uri w1, ps_eqb (a_state w1) Playing with
   | Some u, true => modify (fun w => w <| a_fresh := false |>) ;;
                     enqueue (NPositionChanged 0) ;; enqueue (NStreamChanged (Some u))
   | Some u, false => ret tt
   | None, true => enqueue NReachedEos
   | None, false => modify (fun w => w <| a_uri := Some old |> <| a_atf_done := true |>)
   end)%M.

Strategy expand [atf_tail].

Definition fx_tail (u : track) (w : world) : world :=
  w <| a_fresh := false |> <| queue := queue w ++ [NPositionChanged 0; NStreamChanged (Some u)] |>.

Lemma atf_tail_run old u wh :
  a_uri wh = Some u -> a_state wh = Playing -> atf_tail old wh = (Ok tt, fx_tail u wh).
Proof.
  intros Hu Hs. unfold atf_tail, enqueue, bind, get, modify, ret. rewrite Hu, Hs. cbn.
  match goal with |- (_, ?a) = (_, ?b) => assert (Hw : a = b); [|rewrite Hw; reflexivity] end.
  unfold fx_tail. world_eq. rewrite <- app_assoc. reflexivity.
Qed.

Definition fx_handler (x : tlt) (len : Z) (w : world) : world :=
  fx_attempt (trk x) (w <| a_uri := None |> <| last_position := Some len |>) <| pending := Some x |>.

Definition fx_about_to_finish (x : tlt) (len : Z) (w : world) : world := fx_tail (trk x) (fx_handler x len w).

Lemma about_to_finish_front f x c len w :
  pstate w <> Stopped -> current w = Some c -> len_of w (trk c) = Some len ->
  a_uri w = Some (trk c) -> a_state w = Playing -> a_atf_done w = false ->
  accepts w x -> announces_eot w c x ->
  about_to_finish shuf (S f) w = atf_tail (trk c) (fx_handler x len w).
Proof.
  intros Hst Hc Hlen Hu Has Hd Hacc Hann. unfold about_to_finish.
  assert (E0 : get w = (Ok w, w)) by reflexivity. step E0.
  rewrite Hu, Has, Hd. cbn [ps_eqb negb andb].
  assert (E1 : modify (fun w => w <| a_uri := None |>) w = (Ok tt, w <| a_uri := None |>)) by reflexivity. step E1.
  assert (E2 : on_about_to_finish shuf (S f) (w <| a_uri := None |>) = (Ok tt, fx_handler x len w)).
  { apply (atf_handler_run f x c len (w <| a_uri := None |>)); [exact Hst|exact Hc|exact Hlen|reflexivity|exact Hacc|].
    apply (Hann None (Some len)). }
  step E2. reflexivity.
Qed.

Lemma handler_audio x len w : a_state w = Playing ->
  a_uri (fx_handler x len w) = Some (trk x) /\ a_state (fx_handler x len w) = Playing.
Proof. intros Has. split; [reflexivity|exact Has]. Qed.

Lemma about_to_finish_run f x c len w :
  pstate w <> Stopped -> current w = Some c -> len_of w (trk c) = Some len ->
  a_uri w = Some (trk c) -> a_state w = Playing -> a_atf_done w = false ->
  accepts w x -> announces_eot w c x ->
  about_to_finish shuf (S f) w = (Ok tt, fx_about_to_finish x len w).
Proof.
  intros Hst Hc Hlen Hu Has Hd Hacc Hann.
  rewrite (about_to_finish_front f x c len w Hst Hc Hlen Hu Has Hd Hacc Hann).
  destruct (handler_audio x len w Has) as [H1 H2].
  exact (atf_tail_run (trk c) (trk x) (fx_handler x len w) H1 H2).
Qed.

Theorem eot_prediction_playing f x c len w :
  settled_on w c -> pstate w = Playing -> consume w = false -> a_atf_done w = false ->
  len_of w (trk c) = Some len -> accepts w x -> announces_eot w c x ->
  let w' := run_world shuf (S f) w [AboutToFinish; Deliver; Deliver] in
  current w' = Some x /\ pstate w' = Playing /\ pending w' = None /\ queue w' = []
  /\ a_uri w' = Some (trk x) /\ a_state w' = Playing /\ World.tl w' = World.tl w.
Proof.
  intros [Hq Hp Hpp Hsa Hsp Hpf Hc Hb Ha] Hst Hco Hd Hlen Hacc Hann. rewrite Hst in Ha. destruct Ha as [Hu Has].
  cbv zeta. unfold run_world. cbn [fold_left].
  assert (Hk := proj1 Hacc).
  assert (Hbx : forall w0, tkinds w0 = tkinds w -> tkind_has_backend (kind_of w0 (trk x)) = true).
  { intros w0 E. unfold kind_of in *. rewrite E, Hk. reflexivity. }
  assert (Hns : pstate w <> Stopped) by (rewrite Hst; discriminate).
  pose proof (about_to_finish_run f x c len w Hns Hc Hlen Hu Has Hd Hacc Hann) as E1.
  set (w1 := fx_about_to_finish x len w) in *.
  assert (G1 : get_time_position w1 = (Ok (a_pos w1), fx_gtp w1)).
  { apply (gtp_run w1 c); [exact Hpp|exact Hc|exact Hb]. }
  rewrite (stepw_eq (S f) AboutToFinish w RNone w1 _ _ (run_op_bind_none _ w tt w1 E1) G1).
  set (w1' := fx_gtp w1).
  assert (Q1 : queue w1' = [NPositionChanged 0; NStreamChanged (Some (trk x))]).
  { unfold w1', w1, fx_gtp, fx_about_to_finish, fx_attempt. cbn. rewrite Hq. reflexivity. }
  pose proof (deliver_run (S f) _ _ w1' Q1) as D1. cbv beta iota in D1.
  rewrite position_changed_noop in D1 by exact Hpp.
  set (w2 := w1' <| queue := [NStreamChanged (Some (trk x))] |>) in *.
  assert (G2 : get_time_position w2 = (Ok (a_pos w2), fx_gtp w2)).
  { apply (gtp_run w2 c); [exact Hpp|exact Hc|exact Hb]. }
  rewrite (stepw_eq (S f) Deliver w1' RNone w2 _ _ (run_op_bind_none _ w1' tt w2 D1) G2).
  set (w2' := fx_gtp w2).
  assert (Q2 : queue w2' = [NStreamChanged (Some (trk x))]) by reflexivity.
  pose proof (deliver_run (S f) _ _ w2' Q2) as D2. cbv beta iota in D2.
  set (w2q := w2' <| queue := [] |>) in *.
  assert (S2 : on_stream_changed shuf (S f) w2q = (Ok tt, fx_promote x c len w2q)).
  { apply stream_changed_run; try reflexivity; unfold w2q, w2', w2, w1', w1; cbn; assumption. }
  rewrite S2 in D2.
  set (w3 := fx_promote x c len w2q) in *.
  assert (G3 : get_time_position w3 = (Ok (a_pos w3), fx_gtp w3)).
  { apply (gtp_run w3 x); [exact Hpp|reflexivity|apply Hbx; reflexivity]. }
  rewrite (stepw_eq (S f) Deliver w2' RNone w3 _ _ (run_op_bind_none _ w2' tt w3 D2) G3).
  repeat split; try reflexivity. cbn. exact Has.
Qed.

End P.

(* non-vacuity: a reachable state meets the hypotheses of the prediction theorems *)
Definition w_example : world :=
  Eval vm_compute in
    run_world shuf_concrete 10 (init_world 50 [Playable; Playable; Playable] [Some 900; Some 900; Some 900] [] None None)
      [Add [0; 1; 2] None; Play None; Deliver; Deliver; Deliver; Deliver].

Example c03b_example_is_reachable :
  w_example = run_world shuf_concrete 10 (init_world 50 [Playable; Playable; Playable] [Some 900; Some 900; Some 900] [] None None)
                [Add [0; 1; 2] None; Play None; Deliver; Deliver; Deliver; Deliver].
Proof. vm_compute. reflexivity. Qed.

Example c03b_nonvacuous :
  settled_on w_example (mkTlt 1 0) /\ pstate w_example = Playing /\ consume w_example = false
  /\ accepts w_example (mkTlt 2 1)
  /\ next_track shuf_concrete (Some (mkTlt 1 0)) w_example = (Ok (Some (mkTlt 2 1)), w_example)
  /\ a_atf_done w_example = false /\ len_of w_example 0 = Some 900.
Proof. repeat split; vm_compute; reflexivity. Qed.

Example c03b_nonvacuous_eot : announces_eot shuf_concrete w_example (mkTlt 1 0) (mkTlt 2 1).
Proof. intros u l. reflexivity. Qed.
