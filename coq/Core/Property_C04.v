(* C04 — Every core request terminates.
   The retry loops are modelled with the Python's own counter plus explicit fuel; Diverge is
   the result when the fuel runs out.  The theorem: with fuel 2*max_tracklist_length+2 no
   operation (client call or audio notification handler) ever runs out of fuel, from every
   state reachable by any history, any failure kinds and flaky script, any modes. *)
From Coq Require Import ZArith List Bool Permutation.
From Common Require Import Res.
From Core Require Import World Model Step Reach Inv_Tl Proofs_C04 CostN.
Import ListNotations.
Open Scope Z_scope.

Theorem C04_no_divergence :
  forall shuf, (forall sd l, Permutation (shuf sd l) l) ->
  forall fuel mx kinds lens scr vol mut ops o,
  0 <= mx -> 2 * mx + 2 <= Z.of_nat fuel ->
  let w := run_world shuf fuel (init_world mx kinds lens scr vol mut) ops in
  fst (run_op shuf fuel o w) <> Diverge.
Proof. exact no_divergence_lemma. Qed.
Print Assumptions C04_no_divergence.

(* from ANY state satisfying the tracklist invariant (e.g. one left behind by failed changes) *)
Theorem C04_op_terminates :
  forall shuf, (forall sd l, Permutation (shuf sd l) l) ->
  forall fuel mx w o, 2 * mx + 2 <= Z.of_nat fuel -> tl_inv_mx mx w ->
  fst (run_op shuf fuel o w) <> Diverge.
Proof. exact op_terminates_lemma. Qed.
Print Assumptions C04_op_terminates.

(* The quantitative clause.  `bcalls` counts every interaction with backend.playback / the audio
   proxy (prepare_change, change_track, play/pause/resume/stop, seek, get_time_position: the
   counter the harness' scripted backend keeps; the correspondence compares it after every
   operation).  From ANY state whatsoever (no invariant assumed: states left behind by failed
   changes included), for any fuel, any failure kinds and script, any modes, one operation -
   client call or audio notification handler, with any shuffle oracle - makes at most 28 * n + 19 backend interactions,
   n = the tracklist length when the request starts (for Load: the length of the restored
   tracklist). *)
Theorem C04_linear_bound :
  forall shuf fuel o w r w', run_op shuf fuel o w = (r, w') ->
  bcalls w' <= bcalls w + 28 * op_size o w + 19.
Proof. exact run_op_linear. Qed.
Print Assumptions C04_linear_bound.

(* the bound is not vacuous and the growth is really linear: with n refusing tracks and repeat on play()
   runs its 2 n iterations, two interactions each *)
Definition refusing (n : nat) : world :=
  run_world shuf_concrete 400 (init_world 50 (List.repeat Refuse n) (List.repeat (Some 1000) n) [] None None)
    [Add (map Z.of_nat (seq 0 n)) None; SetMode 2 true].
Example C04_linear_growth :
  map (fun n => bcalls (snd (run_op shuf_concrete 400 (Play None) (refusing n))) - bcalls (refusing n)) [1; 2; 5; 10]%nat
  = [4; 8; 20; 40].
Proof. vm_compute. reflexivity. Qed.
Print Assumptions C04_linear_growth.
