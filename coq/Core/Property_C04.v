(* C04 — Every core request terminates.
   The retry loops are modelled with the Python's own counter plus explicit fuel; Diverge is
   the result when the fuel runs out.  The theorem: with fuel 2*max_tracklist_length+2 no
   operation (client call or audio notification handler) ever runs out of fuel, from every
   state reachable by any history, any failure kinds and flaky script, any modes. *)
From Coq Require Import ZArith List Bool Permutation.
From Common Require Import Res.
From Core Require Import World Model Step Reach Inv_Tl Proofs_C04.
Import ListNotations.
Open Scope Z_scope.

Theorem C04_no_divergence :
  forall shuf, (forall sd l, Permutation (shuf sd l) l) ->
  forall fuel mx kinds lens scr vol mut ops o,
  0 <= mx -> 2 * mx + 2 <= Z.of_nat fuel ->
  let w := run_world shuf fuel (init_world mx kinds lens scr vol mut) ops in
  fst (run_op shuf fuel o w) <> Diverge.
Proof. exact no_divergence_lemma. Qed.
Print Assumptions C04_no_divergence.

(* from ANY state satisfying the tracklist invariant (e.g. one left behind by failed changes) *)
Theorem C04_op_terminates :
  forall shuf, (forall sd l, Permutation (shuf sd l) l) ->
  forall fuel mx w o, 2 * mx + 2 <= Z.of_nat fuel -> tl_inv_mx mx w ->
  fst (run_op shuf fuel o w) <> Diverge.
Proof. exact op_terminates_lemma. Qed.
Print Assumptions C04_op_terminates.
