(* Executable model of src/mopidy/core/{tracklist,playback,history}.py, the notification
   routing and save/load part of core/actor.py, core/mixer.py's state, and the AudioEnv
   environment specification.  Written function by function after the Python; Python
   truthiness, `raise` sites and retry loops (count + explicit fuel) are explicit. *)
From Coq Require Import ZArith List Bool.
From RecordUpdate Require Import RecordSet.
From Common Require Import Res.
From Core Require Import World.
Import ListNotations RecordSetNotations.
Open Scope Z_scope.
Open Scope m_scope.

(* ---------------------------------------------------------------- Python lists *)

Definition zlen {A} (l : list A) : Z := Z.of_nat (length l).

Definition clamp_index (n i : Z) : Z :=     (* normalisation used by slicing / insert *)
  let i := if i <? 0 then i + n else i in
  if i <? 0 then 0 else if n <? i then n else i.

Definition py_slice {A} (l : list A) (s e : option Z) : list A :=
  let n := zlen l in
  let s' := match s with None => 0 | Some s => clamp_index n s end in
  let e' := match e with None => n | Some e => clamp_index n e end in
  if s' <? e' then firstn (Z.to_nat (e' - s')) (skipn (Z.to_nat s') l) else [].

Definition py_insert {A} (l : list A) (i : Z) (x : A) : list A :=
  let i := clamp_index (zlen l) i in
  firstn (Z.to_nat i) l ++ x :: skipn (Z.to_nat i) l.

Fixpoint index_from (eqb : tlt -> tlt -> bool) (x : tlt) (l : list tlt) (i : Z) : option Z :=
  match l with
  | [] => None
  | y :: t => if eqb x y then Some i else index_from eqb x t (i + 1)
  end.
Definition py_index (x : tlt) (l : list tlt) : option Z := index_from tlt_eqb x l 0.

Fixpoint remove_first (x : tlt) (l : list tlt) : list tlt :=    (* list.remove / del l[l.index(x)] *)
  match l with
  | [] => []
  | y :: t => if tlt_eqb x y then t else y :: remove_first x t
  end.

Definition mem_tlt (x : tlt) (l : list tlt) : bool := existsb (tlt_eqb x) l.
Definition memz (x : Z) (l : list Z) : bool := existsb (Z.eqb x) l.

Definition nth_z {A} (l : list A) (i : Z) : option A :=
  if i <? 0 then None else nth_error l (Z.to_nat i).

Definition opt_tlt_eqb (a b : option tlt) : bool :=
  match a, b with
  | None, None => true
  | Some x, Some y => tlt_eqb x y
  | _, _ => false
  end.

Definition is_some {A} (o : option A) : bool := match o with Some _ => true | None => false end.
Definition orelse {A} (a b : option A) : option A := match a with Some _ => a | None => b end.

(* ---------------------------------------------------------------- static tables *)

Definition kind_of (w : world) (k : track) : tkind :=
  match nth_z (tkinds w) k with Some x => x | None => NoBackend end.
Definition len_of (w : world) (k : track) : option Z :=
  match nth_z (tlens w) k with Some x => x | None => None end.

(* ---------------------------------------------------------------- shuffle oracle *)

Section WithShuffle.
(* Every theorem quantifies over an arbitrary oracle; the correspondence instantiates it
   with shuf_concrete below (the same function patched over random.shuffle). *)
Variable shuf : Z -> list tlt -> list tlt.

Definition do_shuffle (l : list tlt) : M (list tlt) :=
  w <- get ;; modify (fun w => w <| seed := seed w + 1 |>) ;; ret (shuf (seed w) l).

(* ---------------------------------------------------------------- primitives *)

Definition emit (e : event) : M unit := modify (fun w => w <| events := e :: events w |>).
Definition bcall : M unit := modify (fun w => w <| bcalls := bcalls w + 1 |>).
Definition acall_log (c : acall) : M unit := modify (fun w => w <| acalls := c :: acalls w |>).
Definition enqueue (n : notif) : M unit := modify (fun w => w <| queue := queue w ++ [n] |>).

(* ---------------------------------------------------------------- AudioEnv *)

Definition env_prepare_change : M unit :=
  bcall ;; acall_log APrepareChange ;; modify (fun w => w <| a_uri := None |>).

Definition env_set_uri (u : track) : M unit :=
  acall_log (ASetUri u) ;;
  w <- get ;;
  (when is_some (a_uri w) do modify (fun w => w <| protocol_violations := protocol_violations w + 1 |>)) ;;
  modify (fun w => w <| a_uri := Some u |> <| a_pos := 0 |> <| a_fresh := true |> <| a_atf_done := false |>).

Definition env_set_state (new : ps) : M bool :=
  bcall ;; acall_log (ASetState new) ;;
  w <- get ;;
  match a_uri w with
  | None =>
      match new with
      | Stopped =>
          (when negb (ps_eqb (a_state w) Stopped) do
             (enqueue (NStateChanged (a_state w) Stopped) ;;
              modify (fun w => w <| a_state := Stopped |>))) ;;
          ret true
      | _ => ret false
      end
  | Some _ =>
      (when ps_eqb new Stopped do modify (fun w => w <| a_uri := None |> <| a_fresh := true |>)) ;;
      w <- get ;;
      (when a_fresh w do (modify (fun w => w <| a_fresh := false |>) ;; enqueue (NStreamChanged (a_uri w)))) ;;
      (when is_some (a_uri w) do enqueue (NPositionChanged 0)) ;;
      enqueue (NStateChanged (a_state w) new) ;;
      modify (fun w => w <| a_state := new |>) ;;
      (when ps_eqb new Playing do enqueue NTagsChanged) ;;
      ret true
  end.

Definition env_set_position (p : Z) : M bool :=
  bcall ;; acall_log (ASetPosition p) ;;
  modify (fun w => w <| a_pos := p |>) ;; enqueue (NPositionChanged p) ;; ret true.

Definition env_get_position : M Z := bcall ;; w <- get ;; ret (a_pos w).

(* backend.playback.change_track(track): one attempt, consuming one script entry *)
Definition attempt_change (k : track) : M bool :=
  bcall ;;
  w <- get ;;
  let flaky := match script w with b :: _ => b | [] => false end in
  modify (fun w => w <| script := List.tl (script w) |>) ;;
  let ok := tkind_playable (kind_of w k) && negb flaky in
  modify (fun w => w <| attempts := (k, ok) :: attempts w |>) ;;
  if ok then env_set_uri k ;; ret true else ret false.

(* _get_backend(tl_track) is not None *)
Definition has_backend (w : world) (t : option tlt) : bool :=
  match t with None => false | Some x => tkind_has_backend (kind_of w (trk x)) end.

(* ---------------------------------------------------------------- playback: leaves *)

Definition set_state (new : ps) : M unit :=
  w <- get ;;
  modify (fun w => w <| pstate := new |>) ;;
  emit (EvStateChanged (pstate w) new).

Definition get_time_position : M Z :=
  w <- get ;;
  match pending_position w with
  | Some p => ret p
  | None => if has_backend w (current w) then env_get_position else ret 0
  end.

Definition stop : M unit :=
  w <- get ;;
  if ps_eqb (pstate w) Stopped then ret tt else
    p <- get_time_position ;;
    modify (fun w => w <| last_position := Some p |>) ;;
    w <- get ;;
    ok <- (if has_backend w (current w) then env_set_state Stopped else ret true) ;;
    when ok do set_state Stopped.

Definition on_tracklist_change : M unit :=
  w <- get ;;
  match World.tl w with
  | [] => stop ;; modify (fun w => w <| current := None |>)
  | _ => match current w with
         | Some c => when negb (mem_tlt c (World.tl w)) do modify (fun w => w <| current := None |>)
         | None => ret tt
         end
  end.

(* ---------------------------------------------------------------- tracklist *)

Definition trigger_tracklist_changed : M unit :=
  w <- get ;;
  (if random w
   then l <- do_shuffle (World.tl w) ;; modify (fun w => w <| shuffled := l |>)
   else modify (fun w => w <| shuffled := [] |>)) ;;
  emit EvTracklistChanged.

Definition increase_version : M unit :=
  modify (fun w => w <| version := version w + 1 |>) ;;
  on_tracklist_change ;;
  trigger_tracklist_changed.

Definition set_mode (which : Z) (v : bool) : M unit :=
  w <- get ;;
  let cur := if which =? 0 then consume w else if which =? 1 then random w
             else if which =? 2 then repeat w else single w in
  (when negb (Bool.eqb cur v) do emit EvOptionsChanged) ;;
  if which =? 0 then modify (fun w => w <| consume := v |>)
  else if which =? 1 then
    (when v do (w <- get ;; l <- do_shuffle (World.tl w) ;; modify (fun w => w <| shuffled := l |>))) ;;
    modify (fun w => w <| random := v |>)
  else if which =? 2 then modify (fun w => w <| repeat := v |>)
  else modify (fun w => w <| single := v |>).

(* criteria: optional list of tlids, optional list of tracks (the 'uri' rule) *)
Record criteria := mkCrit { c_tlids : option (list Z); c_uris : option (list track) }.

Definition tl_filter (c : criteria) (l : list tlt) : list tlt :=
  let l1 := match c_uris c with Some us => filter (fun t => memz (trk t) us) l | None => l end in
  match c_tlids c with Some ids => filter (fun t => memz (tlid t) ids) l1 | None => l1 end.

Definition remove_all (ms l : list tlt) : list tlt := fold_left (fun l x => remove_first x l) ms l.

Definition tl_remove (c : criteria) : M (list tlt) :=
  w <- get ;;
  let ms := tl_filter c (World.tl w) in
  modify (fun w => w <| tl := remove_all (tl_filter c (World.tl w)) (World.tl w) |>) ;;
  increase_version ;;
  ret ms.

Definition crit_tlid (i : Z) : criteria := mkCrit (Some [i]) None.

Definition tl_index (t : option tlt) : M (option Z) :=     (* index(tl_track) with the current-track default *)
  w <- get ;;
  let t := match t with Some _ => t | None => current w end in
  match t with Some x => ret (py_index x (World.tl w)) | None => ret None end.

Definition next_track (t : option tlt) : M (option tlt) :=
  w <- get ;;
  match World.tl w with
  | [] => ret None
  | _ =>
    (when random w && negb (is_some (hd_error (shuffled w))) && (repeat w || negb (is_some t)) do
       (l <- do_shuffle (World.tl w) ;; modify (fun w => w <| shuffled := l |>))) ;;
    w <- get ;;
    if random w then ret (hd_error (shuffled w)) else
      i <- tl_index t ;;
      let ni := match i with None => 0 | Some i => i + 1 end in
      let n := zlen (World.tl w) in
      if repeat w then
        if consume w && (n =? 1) then ret None else ret (nth_z (World.tl w) (ni mod n))
      else if n <=? ni then ret None else ret (nth_z (World.tl w) ni)
  end.

Definition eot_track (t : option tlt) : M (option tlt) :=
  w <- get ;;
  if single w && repeat w then ret t
  else if single w then ret None
  else next_track t.

Definition previous_track (t : option tlt) : M (option tlt) :=
  w <- get ;;
  if repeat w || consume w || random w then ret t else
    i <- tl_index t ;;
    match i with
    | None => ret None
    | Some i => if i =? 0 then ret None else ret (nth_z (World.tl w) (i - 1))
    end.

Definition mark_playing (t : tlt) : M unit :=
  w <- get ;;
  when random w && mem_tlt t (shuffled w) do modify (fun w => w <| shuffled := remove_first t (shuffled w) |>).

Definition mark_unplayable (t : option tlt) : M unit :=
  w <- get ;;
  (match t with
   | Some x => when consume w do (_ <- tl_remove (crit_tlid (tlid x)) ;; ret tt)
   | None => ret tt
   end) ;;
  w <- get ;;
  match t with
  | Some x => when random w && mem_tlt x (shuffled w) do
                modify (fun w => w <| shuffled := remove_first x (shuffled w) |>)
  | None => ret tt
  end.

Definition mark_played (t : option tlt) : M unit :=
  w <- get ;;
  match t with
  | Some x => when consume w do (_ <- tl_remove (crit_tlid (tlid x)) ;; ret tt)
  | None => ret tt
  end.

(* add(tracks=…, at_position=…): one iteration appends/inserts TlTrack(next_tlid, track) and
   increments next_tlid; written as a single state update so that it is self-contained. *)
Definition add_one (k : track) (pos : option Z) (w : world) : world :=
  let x := mkTlt (next_tlid w) k in
  w <| next_tlid := next_tlid w + 1 |> <| issued := tlid x :: issued w |>
    <| tl := match pos with Some p => py_insert (World.tl w) p x | None => World.tl w ++ [x] end |>.

Fixpoint add_loop (ts : list track) (pos : option Z) (added : list tlt) : M (list tlt * option exn) :=
  match ts with
  | [] => ret (added, None)
  | k :: rest =>
      w <- get ;;
      if max_len w <=? zlen (World.tl w) then ret (added, Some TracklistFull) else
        modify (add_one k pos) ;;
        add_loop rest (option_map (fun p => p + 1) pos) (added ++ [mkTlt (next_tlid w) k])
  end.

Definition tl_add (ts : list track) (pos : option Z) : M (list tlt) :=
  match pos with
  | Some p => if p <? 0 then raise ValidationError else ret tt
  | None => ret tt
  end ;;
  r <- add_loop ts pos [] ;;
  let '(added, err) := r in
  (match added with [] => ret tt | _ => increase_version end) ;;
  match err with Some e => raise e | None => ret added end.

Definition tl_clear : M unit := modify (fun w => w <| tl := [] |>) ;; increase_version.

Fixpoint insert_block (l : list tlt) (p : Z) (b : list tlt) : list tlt :=
  match b with
  | [] => l
  | x :: b' => insert_block (py_insert l p x) (p + 1) b'
  end.

Definition move_list (s e p : Z) (l : list tlt) : list tlt :=
  insert_block (py_slice l None (Some s) ++ py_slice l (Some e) None) p (py_slice l (Some s) (Some e)).

Definition tl_move (s e p : Z) : M unit :=
  w <- get ;;
  let e := if s =? e then e + 1 else e in
  let n := zlen (World.tl w) in
  if e <=? s then raise AssertionError
  else if s <? 0 then raise AssertionError
  else if n <? e then raise AssertionError
  else if p <? 0 then raise AssertionError
  else if n <? p then raise AssertionError
  else
    modify (fun w => w <| tl := move_list s e p (World.tl w) |>) ;;
    increase_version.

Definition shuffle_list (sd : Z) (s e : option Z) (l : list tlt) : list tlt :=
  let before := py_slice l None (Some (match s with Some s => s | None => 0 end)) in
  let mid := py_slice l s e in
  let after := match e with Some e => py_slice l (Some e) None | None => [] end in
  before ++ shuf sd mid ++ after.

Definition tl_shuffle (s e : option Z) : M unit :=
  w <- get ;;
  let n := zlen (World.tl w) in
  let bad1 := match s, e with Some s, Some e => e <=? s | _, _ => false end in
  let bad2 := match s with Some s => s <? 0 | None => false end in
  let bad3 := match e with Some e => n <? e | None => false end in
  if bad1 || bad2 || bad3 then raise AssertionError else
    modify (fun w => w <| tl := shuffle_list (seed w) s e (World.tl w) |> <| seed := seed w + 1 |>) ;;
    increase_version.

(* ---------------------------------------------------------------- history *)

Definition history_add (k : track) : M unit := modify (fun w => w <| history := k :: history w |>).

(* ---------------------------------------------------------------- playback: events *)

Definition trigger_paused : M unit :=
  w <- get ;;
  match current w with
  | None => ret tt
  | Some c => p <- get_time_position ;; emit (EvPaused c p)
  end.

Definition trigger_resumed : M unit :=
  w <- get ;;
  match current w with
  | None => ret tt
  | Some c => p <- get_time_position ;; emit (EvResumed c p)
  end.

Definition trigger_started : M unit :=
  w <- get ;;
  match current w with
  | None => ret tt
  | Some c => mark_playing c ;; history_add (trk c) ;; emit (EvStarted c)
  end.

Definition trigger_ended (pos : Z) : M unit :=
  w <- get ;;
  match current w with
  | None => ret tt
  | Some c =>
      (when negb (previous_flag w) do mark_played (current w)) ;;
      modify (fun w => w <| previous_flag := false |>) ;;
      emit (EvEnded c pos)
  end.

Definition on_end_of_stream : M unit :=
  set_state Stopped ;;
  w <- get ;;
  (when is_some (current w) do (p <- get_time_position ;; trigger_ended p)) ;;
  modify (fun w => w <| current := None |>).

Definition pause : M unit :=
  w <- get ;;
  ok <- (if has_backend w (current w) then env_set_state Paused else ret true) ;;
  when ok do (set_state Paused ;; trigger_paused).

Definition resume : M unit :=
  w <- get ;;
  if negb (ps_eqb (pstate w) Paused) then ret tt else
    if has_backend w (current w) then
      ok <- env_set_state Playing ;;
      when ok do (set_state Playing ;; trigger_resumed)
    else ret tt.

(* _change(pending_tl_track, state) *)
Definition change (p : option tlt) (st : ps) : M bool :=
  modify (fun w => w <| pending := p |>) ;;
  match p with
  | None => stop ;; on_end_of_stream ;; ret true
  | Some x =>
      w <- get ;;
      if negb (has_backend w p) then modify (fun w => w <| pending := None |>) ;; ret false else
        pos <- get_time_position ;;
        modify (fun w => w <| last_position := Some pos |>) ;;
        env_prepare_change ;;
        ok <- attempt_change (trk x) ;;
        if negb ok then modify (fun w => w <| pending := None |>) ;; ret false else
          match st with
          | Playing => env_set_state Playing
          | Paused => env_set_state Paused
          | Stopped => modify (fun w => w <| current := pending w |> <| pending := None |>) ;; ret true
          end
  end.

(* the retry loops: `count` as in the Python, plus explicit fuel (Diverge when it runs out) *)
Fixpoint play_loop (fuel : nat) (p : option tlt) (count : Z) : M unit :=
  match p with
  | None => ret tt
  | Some x =>
      match fuel with
      | O => diverge
      | S f =>
          ok <- change p Playing ;;
          if ok then ret tt else
            mark_unplayable p ;;
            nxt <- next_track p ;;
            let count := count - 1 in
            if count =? 0 then ret tt else play_loop f nxt count
      end
  end.

Definition play (fuel : nat) (tid : option Z) : M unit :=
  w <- get ;;
  match tid, pstate w with
  | None, Paused => resume
  | _, _ =>
      match tid with
      | Some i => if i <? 1 then raise ValidationError else ret tt
      | None => ret tt
      end ;;
      let t := match tid with
               | Some i => find (fun x => tlid x =? i) (World.tl w)
               | None => None
               end in
      let cur := orelse (pending w) (current w) in
      first <- (match orelse t cur with
                | Some x => ret (Some x)
                | None => next_track None
                end) ;;
      w <- get ;;
      play_loop fuel first (zlen (World.tl w) * 2)
  end.

Fixpoint next_loop (fuel : nat) (cur : option tlt) (st : ps) (count : Z) : M unit :=
  match cur with
  | None => ret tt
  | Some _ =>
      match fuel with
      | O => diverge
      | S f =>
          p <- next_track cur ;;
          ok <- change p st ;;
          if ok then ret tt else
            mark_unplayable p ;;
            let count := count - 1 in
            if count =? 0 then ret tt else next_loop f p st count
      end
  end.

Definition next (fuel : nat) : M unit :=
  w <- get ;;
  next_loop fuel (orelse (pending w) (current w)) (pstate w) (zlen (World.tl w) * 2).

Fixpoint previous_loop (fuel : nat) (cur : option tlt) (st : ps) (count : Z) : M unit :=
  match cur with
  | None => ret tt
  | Some _ =>
      match fuel with
      | O => diverge
      | S f =>
          p <- previous_track cur ;;
          ok <- change p st ;;
          if ok then ret tt else
            mark_unplayable p ;;
            let count := count - 1 in
            if count <=? 0 then ret tt else previous_loop f p st count
      end
  end.

Definition previous (fuel : nat) : M unit :=
  modify (fun w => w <| previous_flag := true |>) ;;
  w <- get ;;
  previous_loop fuel (orelse (pending w) (current w)) (pstate w) (zlen (World.tl w) * 2).

Definition seek_backend (p : Z) : M bool :=      (* _seek *)
  w <- get ;;
  if has_backend w (current w) then env_set_position p else ret false.

Definition seek (fuel : nat) (t : Z) : M bool :=
  let t := if t <? 0 then 0 else t in
  w <- get ;;
  if zlen (World.tl w) =? 0 then ret false else
    (when ps_eqb (pstate w) Stopped do play fuel None) ;;
    w <- get ;;
    match orelse (current w) (pending w) with
    | None => ret false
    | Some x =>
        match len_of w (trk x) with
        | None => ret false
        | Some len =>
            if len <? t then next fuel ;; ret true else
              modify (fun w => w <| pending_position := Some t |>) ;;
              if is_some (current w) && is_some (pending w)
              then change (current w) (pstate w)
              else seek_backend t
        end
    end.

(* ---------------------------------------------------------------- notification handlers *)

Definition on_stream_changed (fuel : nat) : M unit :=
  w <- get ;;
  pos <- (match last_position w with
          | None => get_time_position
          | Some lp => modify (fun w => w <| last_position := None |>) ;; ret lp
          end) ;;
  w <- get ;;
  (when negb (is_some (pending_position w)) do trigger_ended pos) ;;
  w <- get ;;
  match pending w with
  | None => ret tt
  | Some _ =>
      modify (fun w => w <| current := pending w |> <| pending := None |>) ;;
      w <- get ;;
      match pending_position w with
      | None =>
          set_state Playing ;;
          trigger_started ;;
          w <- get ;;
          seek_ok <- (match start_at_position w with
                      | Some sp => if sp =? 0 then ret false else
                                     r <- seek fuel sp ;;
                                     modify (fun w => w <| start_at_position := None |>) ;; ret r
                      | None => ret false
                      end) ;;
          w <- get ;;
          when negb seek_ok && start_paused w do
            (pause ;; modify (fun w => w <| start_paused := false |>))
      | Some pp =>
          _ <- seek_backend pp ;;
          set_state Playing ;;
          trigger_started
      end
  end.

Definition on_position_changed : M unit :=
  w <- get ;;
  match pending_position w with
  | None => ret tt
  | Some pp =>
      emit (EvSeeked pp) ;;
      modify (fun w => w <| pending_position := None |>) ;;
      w <- get ;;
      when start_paused w do (modify (fun w => w <| start_paused := false |>) ;; pause)
  end.

Definition on_state_changed (o n : ps) : M unit :=       (* Core.state_changed, target None *)
  w <- get ;;
  when ps_eqb n Paused && negb (ps_eqb (pstate w) Paused) do (set_state Paused ;; trigger_paused).

Fixpoint atf_loop (fuel : nat) (p : option tlt) (count : Z) : M unit :=
  match p with
  | None => ret tt
  | Some x =>
      match fuel with
      | O => diverge
      | S f =>
          w <- get ;;
          ok <- (if has_backend w p then attempt_change (trk x) else ret false) ;;
          if ok then modify (fun w => w <| pending := p |>) else
            mark_unplayable p ;;
            nxt <- eot_track p ;;
            let count := count - 1 in
            if count <=? 0 then ret tt else atf_loop f nxt count
      end
  end.

Definition on_about_to_finish (fuel : nat) : M unit :=
  w <- get ;;
  if ps_eqb (pstate w) Stopped then ret tt else
    (match current w with
     | Some c => modify (fun w => w <| last_position := len_of w (trk c) |>)
     | None => ret tt
     end) ;;
    w <- get ;;
    p <- eot_track (current w) ;;
    w <- get ;;
    atf_loop fuel p (zlen (World.tl w) * 2).

(* ---------------------------------------------------------------- mixer *)

Definition set_volume (v : Z) : M bool :=
  if (v <? 0) || (100 <? v) then raise ValidationError else
    modify (fun w => w <| volume := Some v |>) ;; ret true.
Definition set_mute (m : bool) : M bool := modify (fun w => w <| mute := Some m |>) ;; ret true.

(* ---------------------------------------------------------------- save / load *)

Definition save_state : M unit :=
  p <- get_time_position ;;
  w <- get ;;
  modify (fun w => w <| saved := Some {|
    s_tl := World.tl w; s_next_tlid := next_tlid w;
    s_consume := consume w; s_random := random w; s_repeat := repeat w; s_single := single w;
    s_history := firstn 500 (history w);
    s_tlid := option_map tlid (current w); s_pos := p; s_state := pstate w;
    s_volume := volume w; s_mute := mute w |} |>).

Record coverage := mkCov { cov_tracklist : bool; cov_mode : bool; cov_play_last : bool;
                           cov_mixer : bool; cov_history : bool }.

Definition load_state (fuel : nat) (cov : coverage) (s : snapshot) : M unit :=
  (when cov_history cov do modify (fun w => w <| history := s_history s |>)) ;;
  (when cov_mode cov do
     (set_mode 0 (s_consume s) ;; set_mode 1 (s_random s) ;; set_mode 2 (s_repeat s) ;; set_mode 3 (s_single s))) ;;
  (when cov_tracklist cov do
     (modify (fun w => w <| next_tlid := Z.max (s_next_tlid s) (next_tlid w) |> <| tl := s_tl s |>) ;;
      increase_version)) ;;
  (when cov_mixer cov do
     ((match s_mute s with Some m => _ <- set_mute m ;; ret tt | None => ret tt end) ;;
      (match s_volume s with Some v => _ <- set_volume v ;; ret tt | None => ret tt end))) ;;
  match cov_play_last cov, s_tlid s with
  | true, Some i =>
      (when ps_eqb (s_state s) Paused do modify (fun w => w <| start_paused := true |>)) ;;
      if ps_eqb (s_state s) Stopped then ret tt else
        modify (fun w => w <| start_at_position := Some (s_pos s) |>) ;; play fuel (Some i)
  | _, _ => ret tt
  end.

End WithShuffle.

(* The executable shuffle oracle used by the correspondence: rotate left by seed mod len,
   then reverse when the seed is odd.  (harness/core_env.py: shuffle_perm) *)
Definition shuf_concrete (sd : Z) (l : list tlt) : list tlt :=
  match l with
  | [] => []
  | _ =>
      let n := zlen l in
      let r := Z.to_nat (sd mod n) in
      let rot := skipn r l ++ firstn r l in
      if Z.odd sd then rev rot else rot
  end.
