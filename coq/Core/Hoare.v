(* Preservation by construction for the state-and-result monad of World.v.

   [preserves I m]: running m from a state satisfying I ends (whatever the result: Ok, Raise
   or Diverge) in a state satisfying I.  [hoare P m Q] is the general triple; [rel R m] is
   the two-state version for transition relations.  The tactic [pres] decomposes a monadic
   program into its primitives; what is left are the [modify] steps, i.e. exactly the places
   where the Python writes an attribute. *)
From Coq Require Import ZArith List Bool.
From Common Require Import Res.
From Core Require Import World.
Import ListNotations.

Definition hoare {A} (P : world -> Prop) (m : M A) (Q : world -> Prop) : Prop :=
  forall w r w', P w -> m w = (r, w') -> Q w'.

Definition preserves (I : world -> Prop) {A} (m : M A) : Prop := hoare I m I.

Lemma hoare_ret {A} (P : world -> Prop) (a : A) : hoare P (ret a) P.
Proof. intros w r w' HP E. inversion E; subst; exact HP. Qed.

Lemma hoare_bind {A B} (P Q R : world -> Prop) (m : M A) (f : A -> M B) :
  hoare P m Q -> (forall w, Q w -> R w) -> (forall a, hoare Q (f a) R) -> hoare P (bind m f) R.
Proof.
  intros Hm HQR Hf w r w' HP E. unfold bind in E.
  destruct (m w) as [ra w1] eqn:Em. specialize (Hm _ _ _ HP Em).
  destruct ra as [a|e|]; [eapply Hf; eauto| |]; inversion E; subst; auto.
Qed.

Lemma preserves_bind {A B} (I : world -> Prop) (m : M A) (f : A -> M B) :
  preserves I m -> (forall a, preserves I (f a)) -> preserves I (bind m f).
Proof. intros Hm Hf. eapply hoare_bind; eauto. Qed.

Lemma hoare_get (P : world -> Prop) : hoare P get P.
Proof. intros w r w' HP E. inversion E; subst; exact HP. Qed.

Lemma hoare_raise {A} (P : world -> Prop) e : hoare P (@raise A e) P.
Proof. intros w r w' HP E. inversion E; subst; exact HP. Qed.

Lemma hoare_diverge {A} (P : world -> Prop) : hoare P (@diverge A) P.
Proof. intros w r w' HP E. inversion E; subst; exact HP. Qed.

Lemma hoare_modify (P Q : world -> Prop) f : (forall w, P w -> Q (f w)) -> hoare P (modify f) Q.
Proof. intros H w r w' HP E. inversion E; subst; auto. Qed.

Lemma hoare_weaken {A} (P P' Q Q' : world -> Prop) (m : M A) :
  hoare P' m Q' -> (forall w, P w -> P' w) -> (forall w, Q' w -> Q w) -> hoare P m Q.
Proof. intros H HP HQ w r w' Hw E. eauto. Qed.

(* result-aware sequencing *)
Lemma hoare_bind_res {A B} (P : world -> Prop) (Q : A -> world -> Prop) (R : world -> Prop)
      (m : M A) (f : A -> M B) :
  (forall w r w1, P w -> m w = (r, w1) -> match r with Ok a => Q a w1 | _ => R w1 end) ->
  (forall a, hoare (Q a) (f a) R) -> hoare P (bind m f) R.
Proof.
  intros Hm Hf w r w' HP E. unfold bind in E. destruct (m w) as [ra w1] eqn:Em.
  specialize (Hm _ _ _ HP Em). destruct ra as [a|e|]; [eapply Hf; eauto| |]; inversion E; subst; exact Hm.
Qed.

(* binding the state read by get: the continuation may use facts about it *)
Lemma hoare_bind_get {B} (P R : world -> Prop) (f : world -> M B) :
  (forall w0, hoare (fun w => P w /\ w = w0) (f w0) R) -> hoare P (bind get f) R.
Proof. intros H w r w' HP E. unfold bind, get in E. eapply H; eauto. Qed.

(* Two-state version: R relates the state before and after. *)
Definition rel {A} (R : world -> world -> Prop) (m : M A) : Prop :=
  forall w r w', m w = (r, w') -> R w w'.

Lemma rel_ret {A} (R : world -> world -> Prop) (a : A) : (forall w, R w w) -> rel R (ret a).
Proof. intros HR w r w' E. inversion E; subst; auto. Qed.

Lemma rel_bind {A B} (R : world -> world -> Prop) (m : M A) (f : A -> M B) :
  (forall a b c, R a b -> R b c -> R a c) ->
  rel R m -> (forall a, rel R (f a)) -> rel R (bind m f).
Proof.
  intros HT Hm Hf w r w' E. unfold bind in E.
  destruct (m w) as [ra w1] eqn:Em. specialize (Hm _ _ _ Em).
  destruct ra as [a|e|]; [eapply HT; [exact Hm|eapply Hf; eauto]| |]; inversion E; subst; auto.
Qed.

Lemma rel_get (R : world -> world -> Prop) : (forall w, R w w) -> rel R get.
Proof. intros HR w r w' E. inversion E; subst; auto. Qed.
Lemma rel_raise {A} (R : world -> world -> Prop) e : (forall w, R w w) -> rel R (@raise A e).
Proof. intros HR w r w' E. inversion E; subst; auto. Qed.
Lemma rel_diverge {A} (R : world -> world -> Prop) : (forall w, R w w) -> rel R (@diverge A).
Proof. intros HR w r w' E. inversion E; subst; auto. Qed.
Lemma rel_modify (R : world -> world -> Prop) f : (forall w, R w (f w)) -> rel R (modify f).
Proof. intros H w r w' E. inversion E; subst; auto. Qed.

(* Total version: the computation always returns Ok, and R relates the two states. *)
Definition okrel {A} (R : world -> world -> Prop) (m : M A) : Prop :=
  forall w, exists a w', m w = (Ok a, w') /\ R w w'.

Lemma okrel_ret {A} (R : world -> world -> Prop) (a : A) : (forall w, R w w) -> okrel R (ret a).
Proof. intros HR w. exists a, w. split; [reflexivity|apply HR]. Qed.
Lemma okrel_get (R : world -> world -> Prop) : (forall w, R w w) -> okrel R get.
Proof. intros HR w. exists w, w. split; [reflexivity|apply HR]. Qed.
Lemma okrel_modify (R : world -> world -> Prop) f : (forall w, R w (f w)) -> okrel R (modify f).
Proof. intros HR w. exists tt, (f w). split; [reflexivity|apply HR]. Qed.
Lemma okrel_bind {A B} (R : world -> world -> Prop) (m : M A) (f : A -> M B) :
  (forall a b c, R a b -> R b c -> R a c) ->
  okrel R m -> (forall a, okrel R (f a)) -> okrel R (bind m f).
Proof.
  intros HT Hm Hf w. destruct (Hm w) as (a & w1 & E1 & R1).
  destruct (Hf a w1) as (b & w2 & E2 & R2). exists b, w2. split; [|eauto].
  unfold bind. rewrite E1. exact E2.
Qed.
Lemma okrel_rel {A} (R : world -> world -> Prop) (m : M A) : okrel R m -> rel R m.
Proof. intros H w r w' E. destruct (H w) as (a & w1 & E1 & R1). rewrite E1 in E. inversion E; subst. exact R1. Qed.

(* Which exceptions a computation may raise. *)
Definition resok {A} (allowed : exn -> bool) (m : M A) : Prop :=
  forall w r w', m w = (r, w') -> match r with Raise e => allowed e = true | _ => True end.

Lemma resok_ret {A} al (a : A) : resok al (ret a).
Proof. intros w r w' E. inversion E; subst. exact I. Qed.
Lemma resok_get al : resok al get.
Proof. intros w r w' E. inversion E; subst. exact I. Qed.
Lemma resok_modify al f : resok al (modify f).
Proof. intros w r w' E. inversion E; subst. exact I. Qed.
Lemma resok_diverge {A} al : resok al (@diverge A).
Proof. intros w r w' E. inversion E; subst. exact I. Qed.
Lemma resok_raise {A} (al : exn -> bool) e : al e = true -> resok al (@raise A e).
Proof. intros H w r w' E. inversion E; subst. exact H. Qed.
Lemma resok_bind {A B} al (m : M A) (f : A -> M B) :
  resok al m -> (forall a, resok al (f a)) -> resok al (bind m f).
Proof.
  intros Hm Hf w r w' E. unfold bind in E. destruct (m w) as [ra w1] eqn:Em.
  specialize (Hm _ _ _ Em). destruct ra as [a|e|]; [eapply Hf; eauto| |]; inversion E; subst; auto.
Qed.
Lemma resok_weaken {A} (a b : exn -> bool) (m : M A) :
  resok a m -> (forall e, a e = true -> b e = true) -> resok b m.
Proof. intros H Hab w r w' E. specialize (H _ _ _ E). destruct r; auto. Qed.

(* No divergence from states satisfying P. *)
Definition nd {A} (P : world -> Prop) (m : M A) : Prop :=
  forall w r w', P w -> m w = (r, w') -> r <> Diverge.

Lemma nd_ret {A} P (a : A) : nd P (ret a).
Proof. intros w r w' _ E. inversion E; subst. discriminate. Qed.
Lemma nd_get P : nd P get.
Proof. intros w r w' _ E. inversion E; subst. discriminate. Qed.
Lemma nd_modify P f : nd P (modify f).
Proof. intros w r w' _ E. inversion E; subst. discriminate. Qed.
Lemma nd_raise {A} P e : nd P (@raise A e).
Proof. intros w r w' _ E. inversion E; subst. discriminate. Qed.
Lemma nd_bind {A B} P (m : M A) (f : A -> M B) :
  nd P m -> preserves P m -> (forall a, nd P (f a)) -> nd P (bind m f).
Proof.
  intros Hm Hp Hf w r w' HP E. unfold bind in E. destruct (m w) as [ra w1] eqn:Em.
  pose proof (Hm _ _ _ HP Em) as Hnd. pose proof (Hp _ _ _ HP Em) as HP1.
  destruct ra as [a|e|].
  - eapply Hf; eauto.
  - inversion E; subst. discriminate.
  - exfalso. apply Hnd. reflexivity.
Qed.
Lemma nd_weaken {A} (P Q : world -> Prop) (m : M A) : (forall w, P w -> Q w) -> nd Q m -> nd P m.
Proof. intros H Hm w r w' HP E. eapply Hm; eauto. Qed.
(* result-aware sequencing: the continuation is examined from the exact state m reached *)
Lemma nd_bind_res {A B} P (m : M A) (f : A -> M B) :
  nd P m ->
  (forall w a w1, P w -> m w = (Ok a, w1) -> forall r w2, f a w1 = (r, w2) -> r <> Diverge) ->
  nd P (bind m f).
Proof.
  intros Hm Hf w r w' HP E. unfold bind in E. destruct (m w) as [ra w1] eqn:Em.
  pose proof (Hm _ _ _ HP Em) as Hnd.
  destruct ra as [a|e|].
  - eapply Hf; eauto.
  - inversion E; subst. discriminate.
  - exfalso. apply Hnd. reflexivity.
Qed.
Lemma nd_bind_get {B} P (f : world -> M B) :
  (forall w0, nd (fun w => P w /\ w = w0) (f w0)) -> nd P (bind get f).
Proof. intros H w r w' HP E. unfold bind, get in E. eapply H; eauto. Qed.

(* the Ok results of a computation are always the constant c *)
Definition always {A} (c : A) (m : M A) : Prop := forall w b w', m w = (Ok b, w') -> b = c.
Lemma always_ret {A} (c : A) : always c (ret c).
Proof. intros w b w' E. inversion E; reflexivity. Qed.
Lemma always_bind {A B} (c : B) (m : M A) (f : A -> M B) : (forall a, always c (f a)) -> always c (bind m f).
Proof.
  intros Hf w b w' E. unfold bind in E. destruct (m w) as [[a|e|] w1]; [eapply Hf; eauto| |]; discriminate.
Qed.

Lemma bind_ok {A B} (m : M A) (f : A -> M B) w a w1 : m w = (Ok a, w1) -> bind m f w = f a w1.
Proof. intros E. unfold bind. rewrite E. reflexivity. Qed.

Create HintDb pres discriminated.

(* [pres solver]: decompose; [solver] closes the goals  forall w, I w -> I (f w)  left by
   modify steps. *)
Ltac pres_step solver :=
  lazymatch goal with
  | |- hoare ?P (bind _ _) ?P => apply preserves_bind; [ | intro ]
  | |- preserves _ (bind _ _) => apply preserves_bind; [ | intro ]
  | |- hoare ?P (ret _) ?P => apply hoare_ret
  | |- preserves _ (ret _) => apply hoare_ret
  | |- hoare ?P get ?P => apply hoare_get
  | |- preserves _ get => apply hoare_get
  | |- hoare ?P (raise _) ?P => apply hoare_raise
  | |- preserves _ (raise _) => apply hoare_raise
  | |- hoare ?P diverge ?P => apply hoare_diverge
  | |- preserves _ diverge => apply hoare_diverge
  | |- hoare _ (modify _) _ => apply hoare_modify; solver
  | |- preserves _ (modify _) => apply hoare_modify; solver
  | |- hoare _ (if ?b then _ else _) _ => destruct b
  | |- preserves _ (if ?b then _ else _) => destruct b
  | |- hoare _ (match ?x with _ => _ end) _ => destruct x
  | |- preserves _ (match ?x with _ => _ end) => destruct x
  | |- hoare _ (let '(_, _) := ?x in _) _ => destruct x
  | |- preserves _ (let '(_, _) := ?x in _) => destruct x
  end.

Ltac fold_preserves :=
  try match goal with |- hoare ?I ?m ?I => change (preserves I m) end.

Ltac pres solver := repeat (fold_preserves; first [ solve [eauto 3 with pres] | pres_step solver ]).

Ltac rel_step refl trans solver :=
  lazymatch goal with
  | |- rel _ (bind _ _) => apply rel_bind; [ exact trans | | intro ]
  | |- rel _ (ret _) => apply rel_ret; exact refl
  | |- rel _ get => apply rel_get; exact refl
  | |- rel _ (raise _) => apply rel_raise; exact refl
  | |- rel _ diverge => apply rel_diverge; exact refl
  | |- rel _ (modify _) => apply rel_modify; solver
  | |- rel _ (if ?b then _ else _) => destruct b
  | |- rel _ (match ?x with _ => _ end) => destruct x
  | |- rel _ (let '(_, _) := ?x in _) => destruct x
  end.

Ltac relp refl trans solver := repeat (first [ solve [eauto 3 with pres] | rel_step refl trans solver ]).

Ltac ok_step refl trans solver :=
  lazymatch goal with
  | |- okrel _ (bind _ _) => apply okrel_bind; [ exact trans | | intro ]
  | |- okrel _ (ret _) => apply okrel_ret; exact refl
  | |- okrel _ get => apply okrel_get; exact refl
  | |- okrel _ (modify _) => apply okrel_modify; solver
  | |- okrel _ (if ?b then _ else _) => destruct b
  | |- okrel _ (match ?x with _ => _ end) => destruct x
  end.
Ltac okp refl trans solver := repeat (first [ solve [eauto 3 with pres] | ok_step refl trans solver ]).

Ltac resok_step :=
  lazymatch goal with
  | |- resok _ (bind _ _) => apply resok_bind; [ | intro ]
  | |- resok _ (ret _) => apply resok_ret
  | |- resok _ get => apply resok_get
  | |- resok _ (modify _) => apply resok_modify
  | |- resok _ diverge => apply resok_diverge
  | |- resok _ (raise _) => apply resok_raise; reflexivity
  | |- resok _ (if ?b then _ else _) => destruct b
  | |- resok _ (match ?x with _ => _ end) => destruct x
  | |- resok _ (let '(_, _) := ?x in _) => destruct x
  end.
Ltac resokp := repeat (first [ solve [eauto 3 with pres] | resok_step ]).

Ltac nd_step presdb :=
  lazymatch goal with
  | |- nd _ (bind _ _) => apply nd_bind; [ | solve [presdb] | intro ]
  | |- nd _ (ret _) => apply nd_ret
  | |- nd _ get => apply nd_get
  | |- nd _ (modify _) => apply nd_modify
  | |- nd _ (raise _) => apply nd_raise
  | |- nd _ (if ?b then _ else _) => destruct b
  | |- nd _ (match ?x with _ => _ end) => destruct x
  | |- nd _ (let '(_, _) := ?x in _) => destruct x
  end.
Ltac ndp presdb := repeat (first [ solve [eauto 3 with pres] | nd_step presdb ]).
