(* Preservation by construction for the state-and-result monad of World.v.

   [preserves I m]: running m from a state satisfying I ends (whatever the result: Ok, Raise
   or Diverge) in a state satisfying I.  [hoare P m Q] is the general triple; [rel R m] is
   the two-state version for transition relations.  The tactic [pres] decomposes a monadic
   program into its primitives; what is left are the [modify] steps, i.e. exactly the places
   where the Python writes an attribute. *)
From Coq Require Import ZArith List Bool.
From Common Require Import Res.
From Core Require Import World.
Import ListNotations.

Definition hoare {A} (P : world -> Prop) (m : M A) (Q : world -> Prop) : Prop :=
  forall w r w', P w -> m w = (r, w') -> Q w'.

Definition preserves (I : world -> Prop) {A} (m : M A) : Prop := hoare I m I.

Lemma hoare_ret {A} (P : world -> Prop) (a : A) : hoare P (ret a) P.
Proof. intros w r w' HP E. inversion E; subst; exact HP. Qed.

Lemma hoare_bind {A B} (P Q R : world -> Prop) (m : M A) (f : A -> M B) :
  hoare P m Q -> (forall w, Q w -> R w) -> (forall a, hoare Q (f a) R) -> hoare P (bind m f) R.
Proof.
  intros Hm HQR Hf w r w' HP E. unfold bind in E.
  destruct (m w) as [ra w1] eqn:Em. specialize (Hm _ _ _ HP Em).
  destruct ra as [a|e|]; [eapply Hf; eauto| |]; inversion E; subst; auto.
Qed.

Lemma preserves_bind {A B} (I : world -> Prop) (m : M A) (f : A -> M B) :
  preserves I m -> (forall a, preserves I (f a)) -> preserves I (bind m f).
Proof. intros Hm Hf. eapply hoare_bind; eauto. Qed.

Lemma hoare_get (P : world -> Prop) : hoare P get P.
Proof. intros w r w' HP E. inversion E; subst; exact HP. Qed.

Lemma hoare_raise {A} (P : world -> Prop) e : hoare P (@raise A e) P.
Proof. intros w r w' HP E. inversion E; subst; exact HP. Qed.

Lemma hoare_diverge {A} (P : world -> Prop) : hoare P (@diverge A) P.
Proof. intros w r w' HP E. inversion E; subst; exact HP. Qed.

Lemma hoare_modify (P Q : world -> Prop) f : (forall w, P w -> Q (f w)) -> hoare P (modify f) Q.
Proof. intros H w r w' HP E. inversion E; subst; auto. Qed.

Lemma hoare_weaken {A} (P P' Q Q' : world -> Prop) (m : M A) :
  hoare P' m Q' -> (forall w, P w -> P' w) -> (forall w, Q' w -> Q w) -> hoare P m Q.
Proof. intros H HP HQ w r w' Hw E. eauto. Qed.

(* binding the state read by get: the continuation may use facts about it *)
Lemma hoare_bind_get {B} (P R : world -> Prop) (f : world -> M B) :
  (forall w0, hoare (fun w => P w /\ w = w0) (f w0) R) -> hoare P (bind get f) R.
Proof. intros H w r w' HP E. unfold bind, get in E. eapply H; eauto. Qed.

(* Two-state version: R relates the state before and after. *)
Definition rel {A} (R : world -> world -> Prop) (m : M A) : Prop :=
  forall w r w', m w = (r, w') -> R w w'.

Lemma rel_ret {A} (R : world -> world -> Prop) (a : A) : (forall w, R w w) -> rel R (ret a).
Proof. intros HR w r w' E. inversion E; subst; auto. Qed.

Lemma rel_bind {A B} (R : world -> world -> Prop) (m : M A) (f : A -> M B) :
  (forall a b c, R a b -> R b c -> R a c) ->
  rel R m -> (forall a, rel R (f a)) -> rel R (bind m f).
Proof.
  intros HT Hm Hf w r w' E. unfold bind in E.
  destruct (m w) as [ra w1] eqn:Em. specialize (Hm _ _ _ Em).
  destruct ra as [a|e|]; [eapply HT; [exact Hm|eapply Hf; eauto]| |]; inversion E; subst; auto.
Qed.

Lemma rel_get (R : world -> world -> Prop) : (forall w, R w w) -> rel R get.
Proof. intros HR w r w' E. inversion E; subst; auto. Qed.
Lemma rel_raise {A} (R : world -> world -> Prop) e : (forall w, R w w) -> rel R (@raise A e).
Proof. intros HR w r w' E. inversion E; subst; auto. Qed.
Lemma rel_diverge {A} (R : world -> world -> Prop) : (forall w, R w w) -> rel R (@diverge A).
Proof. intros HR w r w' E. inversion E; subst; auto. Qed.
Lemma rel_modify (R : world -> world -> Prop) f : (forall w, R w (f w)) -> rel R (modify f).
Proof. intros H w r w' E. inversion E; subst; auto. Qed.

Create HintDb pres discriminated.

(* [pres solver]: decompose; [solver] closes the goals  forall w, I w -> I (f w)  left by
   modify steps. *)
Ltac pres_step solver :=
  lazymatch goal with
  | |- hoare ?P (bind _ _) ?P => apply preserves_bind; [ | intro ]
  | |- preserves _ (bind _ _) => apply preserves_bind; [ | intro ]
  | |- hoare ?P (ret _) ?P => apply hoare_ret
  | |- preserves _ (ret _) => apply hoare_ret
  | |- hoare ?P get ?P => apply hoare_get
  | |- preserves _ get => apply hoare_get
  | |- hoare ?P (raise _) ?P => apply hoare_raise
  | |- preserves _ (raise _) => apply hoare_raise
  | |- hoare ?P diverge ?P => apply hoare_diverge
  | |- preserves _ diverge => apply hoare_diverge
  | |- hoare _ (modify _) _ => apply hoare_modify; solver
  | |- preserves _ (modify _) => apply hoare_modify; solver
  | |- hoare _ (if ?b then _ else _) _ => destruct b
  | |- preserves _ (if ?b then _ else _) => destruct b
  | |- hoare _ (match ?x with _ => _ end) _ => destruct x
  | |- preserves _ (match ?x with _ => _ end) => destruct x
  | |- hoare _ (let '(_, _) := ?x in _) _ => destruct x
  | |- preserves _ (let '(_, _) := ?x in _) => destruct x
  end.

Ltac pres solver := repeat (first [ solve [eauto 3 with pres] | pres_step solver ]).

Ltac rel_step refl trans solver :=
  lazymatch goal with
  | |- rel _ (bind _ _) => apply rel_bind; [ exact trans | | intro ]
  | |- rel _ (ret _) => apply rel_ret; exact refl
  | |- rel _ get => apply rel_get; exact refl
  | |- rel _ (raise _) => apply rel_raise; exact refl
  | |- rel _ diverge => apply rel_diverge; exact refl
  | |- rel _ (modify _) => apply rel_modify; solver
  | |- rel _ (if ?b then _ else _) => destruct b
  | |- rel _ (match ?x with _ => _ end) => destruct x
  | |- rel _ (let '(_, _) := ?x in _) => destruct x
  end.

Ltac relp refl trans solver := repeat (first [ solve [eauto 3 with pres] | rel_step refl trans solver ]).
