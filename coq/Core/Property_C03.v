(* C03 — Track selection follows the documented modes and its own predictions.
   Proved here: the consume-off frame rule for whole histories, and the closed forms of
   next/eot/previous selection for every tracklist, position and mode combination.  The
   end-to-end prediction clause ("the announced track becomes current after the notifications
   settle") is tied to the implementation by the settled-run monitor of harness/c03.py and the
   per-operation correspondence; see docs/C03.md (partial). *)
From Coq Require Import ZArith List Bool.
From RecordUpdate Require Import RecordSet.
From Common Require Import Res.
From Core Require Import World Model Step Reach Rel_Frame Proofs_C03 Proofs_C03b Proofs_C03c Proofs_C03d Proofs_C03e Proofs_C03f Proofs_C03g Proofs_C03h Proofs_C03i.
Import ListNotations RecordSetNotations.
Open Scope Z_scope.

Theorem C03_no_consume_frame :
  forall shuf fuel o w, playback_op o = true -> consume w = false ->
  let w' := stepw shuf fuel w o in
  World.tl w' = World.tl w /\ next_tlid w' = next_tlid w /\ consume w' = false.
Proof. exact no_consume_frame_lemma. Qed.
Print Assumptions C03_no_consume_frame.

Theorem C03_no_consume_frame_history :
  forall shuf fuel ops w, forallb playback_op ops = true -> consume w = false ->
  World.tl (run_world shuf fuel w ops) = World.tl w /\ consume (run_world shuf fuel w ops) = false.
Proof. exact no_consume_frame_history_lemma. Qed.
Print Assumptions C03_no_consume_frame_history.

Theorem C03_next_sequential :
  forall shuf x i w, random w = false -> py_index x (World.tl w) = Some i ->
  next_track shuf (Some x) w =
    (Ok (let n := zlen (World.tl w) in
         if repeat w then (if consume w && (n =? 1) then None else nth_z (World.tl w) ((i + 1) mod n))
         else if n <=? i + 1 then None else nth_z (World.tl w) (i + 1)), w).
Proof. exact next_track_sequential. Qed.
Print Assumptions C03_next_sequential.

Theorem C03_next_random :
  forall shuf t w, random w = true -> World.tl w <> [] -> shuffled w <> [] ->
  next_track shuf t w = (Ok (hd_error (shuffled w)), w).
Proof. exact next_track_random. Qed.
Print Assumptions C03_next_random.

Theorem C03_next_random_reshuffle :
  forall shuf t w, random w = true -> World.tl w <> [] -> shuffled w = [] -> (repeat w = true \/ t = None) ->
  next_track shuf t w =
    (Ok (hd_error (shuf (seed w) (World.tl w))),
     w <| seed := seed w + 1 |> <| shuffled := shuf (seed w) (World.tl w) |>).
Proof. exact next_track_random_reshuffle. Qed.
Print Assumptions C03_next_random_reshuffle.

Theorem C03_eot_single :
  forall shuf t w, single w = true -> eot_track shuf t w = (Ok (if repeat w then t else None), w).
Proof. exact eot_track_single. Qed.
Print Assumptions C03_eot_single.

Theorem C03_eot_not_single :
  forall shuf t w, single w = false -> eot_track shuf t w = next_track shuf t w.
Proof. exact eot_track_not_single. Qed.
Print Assumptions C03_eot_not_single.

Theorem C03_previous_spec :
  forall x i w, py_index x (World.tl w) = Some i ->
  previous_track (Some x) w =
    (Ok (if repeat w || consume w || random w then Some x
         else if i =? 0 then None else nth_z (World.tl w) (i - 1)), w).
Proof. exact previous_track_spec. Qed.
Print Assumptions C03_previous_spec.

Theorem C03_predictor_is_selection :
  forall shuf fuel w,
  run_op shuf fuel GetNext w =
    (let '(r, w') := next_track shuf (current w) w in
     (match r with Ok t => Ok (ROptZ (option_map tlid t)) | Raise e => Raise e | Diverge => Diverge end, w')).
Proof. exact predictor_is_selection. Qed.
Print Assumptions C03_predictor_is_selection.

(* The prediction clause, proved by symbolic execution of the model (Proofs_C03b.v).  A state is
   "settled on c": no notification pending, no switch or seek under way, c current with a
   playback backend, and the audio layer agrees with the reported state. *)
Theorem C03_next_prediction_playing :
  forall shuf f x c w, settled_on w c -> pstate w = Playing -> consume w = false -> accepts w x ->
  next_track shuf (Some c) w = (Ok (Some x), w) ->
  let w' := run_world shuf (S f) w [Next; Deliver; Deliver; Deliver; Deliver] in
  current w' = Some x /\ pstate w' = Playing /\ pending w' = None /\ queue w' = []
  /\ a_uri w' = Some (trk x) /\ a_state w' = Playing /\ World.tl w' = World.tl w.
Proof. exact next_prediction_playing. Qed.
Print Assumptions C03_next_prediction_playing.

Theorem C03_next_prediction_paused :
  forall shuf f x c w, settled_on w c -> pstate w = Paused -> consume w = false -> accepts w x ->
  next_track shuf (Some c) w = (Ok (Some x), w) ->
  let w' := run_world shuf (S f) w [Next; Deliver; Deliver; Deliver] in
  current w' = Some x /\ pstate w' = Paused /\ pending w' = None /\ queue w' = []
  /\ a_uri w' = Some (trk x) /\ a_state w' = Paused /\ World.tl w' = World.tl w.
Proof. exact next_prediction_paused. Qed.
Print Assumptions C03_next_prediction_paused.

Theorem C03_next_prediction_stopped :
  forall shuf f x c w, settled_on w c -> pstate w = Stopped -> accepts w x ->
  next_track shuf (Some c) w = (Ok (Some x), w) ->
  let w' := run_world shuf (S f) w [Next] in
  current w' = Some x /\ pstate w' = Stopped /\ pending w' = None /\ queue w' = []
  /\ World.tl w' = World.tl w.
Proof. exact next_prediction_stopped. Qed.
Print Assumptions C03_next_prediction_stopped.

Theorem C03_previous_prediction_playing :
  forall shuf f x c w, settled_on w c -> pstate w = Playing -> consume w = false -> accepts w x ->
  previous_track (Some c) w = (Ok (Some x), w) ->
  let w' := run_world shuf (S f) w [Previous; Deliver; Deliver; Deliver; Deliver] in
  current w' = Some x /\ pstate w' = Playing /\ pending w' = None /\ queue w' = []
  /\ a_uri w' = Some (trk x) /\ a_state w' = Playing /\ World.tl w' = World.tl w.
Proof. exact previous_prediction_playing. Qed.
Print Assumptions C03_previous_prediction_playing.

Theorem C03_previous_prediction_paused :
  forall shuf f x c w, settled_on w c -> pstate w = Paused -> consume w = false -> accepts w x ->
  previous_track (Some c) w = (Ok (Some x), w) ->
  let w' := run_world shuf (S f) w [Previous; Deliver; Deliver; Deliver] in
  current w' = Some x /\ pstate w' = Paused /\ pending w' = None /\ queue w' = []
  /\ a_uri w' = Some (trk x) /\ a_state w' = Paused /\ World.tl w' = World.tl w.
Proof. exact previous_prediction_paused. Qed.
Print Assumptions C03_previous_prediction_paused.

Theorem C03_previous_prediction_stopped :
  forall shuf f x c w, settled_on w c -> pstate w = Stopped -> accepts w x ->
  previous_track (Some c) w = (Ok (Some x), w) ->
  let w' := run_world shuf (S f) w [Previous] in
  current w' = Some x /\ pstate w' = Stopped /\ pending w' = None /\ queue w' = []
  /\ World.tl w' = World.tl w.
Proof. exact previous_prediction_stopped. Qed.
Print Assumptions C03_previous_prediction_stopped.

Example C03_previous_paused_example :
  let w := run_world shuf_concrete 50 (init_world 50 [Playable; Playable; Playable] [Some 900; Some 900; Some 900] [] None None)
             [Add [0; 1; 2] None; Play (Some 2); Deliver; Deliver; Deliver; Deliver; Pause; Deliver; Deliver; Deliver] in
  let w' := run_world shuf_concrete 50 w [Previous; Deliver; Deliver; Deliver] in
  option_map tlid (current w) = Some 2 /\ pstate w = Paused /\ queue w = [] /\ pending w = None
  /\ option_map tlid (current w') = Some 1 /\ pstate w' = Paused /\ a_state w' = Paused /\ queue w' = [].
Proof. vm_compute. repeat split; reflexivity. Qed.
Print Assumptions C03_previous_paused_example.

Theorem C03_eot_prediction_playing :
  forall shuf f x c len w, settled_on w c -> pstate w = Playing -> consume w = false -> a_atf_done w = false ->
  len_of w (trk c) = Some len -> accepts w x -> announces_eot shuf w c x ->
  let w' := run_world shuf (S f) w [AboutToFinish; Deliver; Deliver] in
  current w' = Some x /\ pstate w' = Playing /\ pending w' = None /\ queue w' = []
  /\ a_uri w' = Some (trk x) /\ a_state w' = Playing /\ World.tl w' = World.tl w.
Proof. exact eot_prediction_playing. Qed.
Print Assumptions C03_eot_prediction_playing.

(* Order clause: playing through an unchanged tracklist in the plain sequential mode (consume,
   random, repeat, single off) from a settled state on entry c visits the FOLLOWING entries in
   list order - for every tracklist `pre ++ c :: post` without duplicate IDs whose entries from c
   on are playable with known lengths: after |post| end-of-track blocks the player is settled on
   the last entry, the tracklist is untouched, and the events announced are, block by block,
   ended(previous, its length) / state playing->playing / started(next), in list order. *)
Theorem C03_play_through_in_order :
  forall shuf f (lens : track -> Z) post pre c w,
  World.tl w = pre ++ c :: post -> NoDup (map tlid (World.tl w)) ->
  settled_on w c -> pstate w = Playing -> sequential w -> a_atf_done w = false -> script w = [] ->
  (forall y, In y (c :: post) -> kind_of w (trk y) = Playable /\ len_of w (trk y) = Some (lens (trk y))) ->
  let w' := run_world shuf (S f) w (blocks (length post)) in
  settled_on w' (last post c) /\ pstate w' = Playing /\ World.tl w' = World.tl w
  /\ events w' = through_events c post lens ++ events w.
Proof. exact play_through. Qed.
Print Assumptions C03_play_through_in_order.

(* ... and then stops: at the last entry the end of the track ends playback (no current entry,
   state stopped, audio without URI, tracklist untouched). *)
Theorem C03_last_entry_stops :
  forall shuf f pre c len w,
  World.tl w = pre ++ [c] -> NoDup (map tlid (World.tl w)) -> sequential w ->
  settled_on w c -> pstate w = Playing -> a_atf_done w = false -> len_of w (trk c) = Some len ->
  let w' := run_world shuf (S f) w [AboutToFinish; Deliver] in
  current w' = None /\ pstate w' = Stopped /\ pending w' = None /\ queue w' = []
  /\ a_uri w' = None /\ World.tl w' = World.tl w
  /\ events w' = EvEnded c (a_pos w) :: EvStateChanged Playing Stopped :: events w.
Proof. exact last_entry_stops. Qed.
Print Assumptions C03_last_entry_stops.

(* repeat wraps around: at the last entry of a list with repeat on (consume/random/single off)
   the end of the track starts the first entry *)
Theorem C03_repeat_wraps :
  forall shuf f (x c : tlt) mid len w,
  World.tl w = x :: mid ++ [c] -> NoDup (map tlid (World.tl w)) ->
  consume w = false -> random w = false -> single w = false -> repeat w = true ->
  settled_on w c -> pstate w = Playing -> a_atf_done w = false -> len_of w (trk c) = Some len ->
  accepts w x ->
  let w' := run_world shuf (S f) w [AboutToFinish; Deliver; Deliver] in
  settled_on w' x /\ pstate w' = Playing /\ World.tl w' = World.tl w
  /\ events w' = EvStarted x :: EvStateChanged Playing Playing :: EvEnded c len :: events w.
Proof. exact repeat_wraps. Qed.
Print Assumptions C03_repeat_wraps.

(* random: one pass plays the current shuffle order entry by entry, each entry exactly once
   (the order is a permutation of the tracklist by C03_next_random_reshuffle and the oracle
   hypothesis); afterwards the order is used up *)
Theorem C03_random_pass_in_shuffle_order :
  forall shuf f (lens : track -> Z) order c w,
  World.tl w <> [] -> shuffled w = order ->
  settled_on w c -> pstate w = Playing -> consume w = false -> random w = true -> single w = false ->
  a_atf_done w = false -> script w = [] ->
  (forall y, In y (c :: order) -> kind_of w (trk y) = Playable /\ len_of w (trk y) = Some (lens (trk y))) ->
  let w' := run_world shuf (S f) w (blocks (length order)) in
  settled_on w' (last order c) /\ pstate w' = Playing /\ World.tl w' = World.tl w /\ shuffled w' = []
  /\ events w' = through_events c order lens ++ events w.
Proof. exact random_pass. Qed.
Print Assumptions C03_random_pass_in_shuffle_order.

(* non-vacuity: three playable entries, playing the first: two blocks visit 2 and 3 in order,
   the third block stops *)
Example C03_play_through_example :
  let w := run_world shuf_concrete 10 (init_world 50 [Playable; Playable; Playable] [Some 900; Some 800; Some 700] [] None None)
             [Add [0; 1; 2] None; Play None; Deliver; Deliver; Deliver; Deliver] in
  let w' := run_world shuf_concrete 10 w (blocks 2 ++ [AboutToFinish; Deliver]) in
  map (fun e => match e with EvStarted t => tlid t | _ => 0 end)
      (filter (fun e => match e with EvStarted _ => true | _ => false end) (rev (events w'))) = [1; 2; 3]
  /\ pstate w' = Stopped /\ current w' = None /\ map tlid (World.tl w') = [1; 2; 3].
Proof. vm_compute. repeat split; reflexivity. Qed.
Print Assumptions C03_play_through_example.

(* Consume ON (sequential order): when the announced successor x is another entry and playable,
   next() and the natural end of the track end on x, playing, the audio layer on x's URI - and
   exactly the finished entry c has left the tracklist (the consume clause of the property). *)
Theorem C03_next_prediction_consume :
  forall shuf f x c w,
  settled_on w c -> pstate w = Playing -> consume w = true -> random w = false ->
  NoDup (map tlid (World.tl w)) -> In x (World.tl w) -> tlid x <> tlid c -> accepts w x ->
  next_track shuf (Some c) w = (Ok (Some x), w) ->
  let w' := run_world shuf (S f) w [Next; Deliver; Deliver; Deliver; Deliver] in
  current w' = Some x /\ pstate w' = Playing /\ pending w' = None /\ queue w' = []
  /\ a_uri w' = Some (trk x) /\ a_state w' = Playing
  /\ World.tl w' = filter (fun t => negb (tlid t =? tlid c)) (World.tl w).
Proof. exact next_prediction_consume. Qed.
Print Assumptions C03_next_prediction_consume.

Theorem C03_eot_prediction_consume :
  forall shuf f x c len w,
  settled_on w c -> pstate w = Playing -> consume w = true -> random w = false -> a_atf_done w = false ->
  len_of w (trk c) = Some len ->
  NoDup (map tlid (World.tl w)) -> In x (World.tl w) -> tlid x <> tlid c -> accepts w x ->
  announces_eot shuf w c x ->
  let w' := run_world shuf (S f) w [AboutToFinish; Deliver; Deliver] in
  current w' = Some x /\ pstate w' = Playing /\ pending w' = None /\ queue w' = []
  /\ a_uri w' = Some (trk x) /\ a_state w' = Playing
  /\ World.tl w' = filter (fun t => negb (tlid t =? tlid c)) (World.tl w).
Proof. exact eot_prediction_consume. Qed.
Print Assumptions C03_eot_prediction_consume.

(* non-vacuity of the random pass: four entries, shuffle order [1; 4; 3] while entry 2 plays:
   three blocks play 1, 4, 3 in that order and use the order up *)
Example C03_random_pass_example :
  let w := run_world shuf_concrete 10 (init_world 50 [Playable; Playable; Playable; Playable]
                                         [Some 900; Some 800; Some 700; Some 600] [] None None)
             [Add [0; 1; 2; 3] None; SetMode 1 true; SetMode 1 false; SetMode 1 true; Play (Some 2);
              Deliver; Deliver; Deliver; Deliver] in
  let w' := run_world shuf_concrete 10 w (blocks 3) in
  option_map tlid (current w) = Some 2 /\ map tlid (shuffled w) = [1; 4; 3] /\ random w = true
  /\ map (fun e => match e with EvStarted t => tlid t | _ => 0 end)
         (filter (fun e => match e with EvStarted _ => true | _ => false end) (rev (events w'))) = [2; 1; 4; 3]
  /\ shuffled w' = [].
Proof. vm_compute. repeat split; reflexivity. Qed.
Print Assumptions C03_random_pass_example.

(* ---- The recorded known findings, as kernel-checked facts about the model (the model is the
   code line by line; the correspondence replays the same histories on the real Core).  Each
   exhibits a reachable settled state in which an announced track does not become current. *)
Definition D := Deliver.

(* consume on, the entry after the playing one is unplayable: get_next_tlid announces it (2); it
   is skipped - but next() then restarts the playing entry (1) from the top of the list instead
   of going on to entry 3 or stopping, and entry 1 is consumed while it plays *)
Example C03_refuted_consume_unplayable_successor :
  let w := run_world shuf_concrete 400 (init_world 50 [Playable; Refuse] [Some 1000; Some 1000] [] None None)
             [Add [0; 1; 1] None; SetMode 0 true; Play None; D; D; D; D] in
  (pstate w = Playing /\ option_map tlid (current w) = Some 1 /\ queue w = [] /\ map tlid (World.tl w) = [1; 2; 3]
   /\ fst (run_op shuf_concrete 400 GetNext w) = Ok (ROptZ (Some 2)))
  /\ let w' := run_world shuf_concrete 400 w [Next; D; D; D; D] in
     pstate w' = Playing /\ option_map tlid (current w') = Some 1 /\ queue w' = [] /\ map tlid (World.tl w') = [3].
Proof. vm_compute. repeat split; reflexivity. Qed.
Print Assumptions C03_refuted_consume_unplayable_successor.

(* consume + random, shuffle order rebuilt by a tracklist edit: get_next_tlid / get_eot_tlid
   announce the playing entry itself; at the end of the track it is consumed and playback stops *)
Example C03_refuted_consume_random_self_prediction :
  let w := run_world shuf_concrete 400 (init_world 50 [Playable] [Some 1000] [] None None)
             [Add [0] None; SetMode 0 true; SetMode 1 true; Play None; D; D; D; D; Move 0 0 0] in
  (pstate w = Playing /\ option_map tlid (current w) = Some 1 /\ queue w = []
   /\ fst (run_op shuf_concrete 400 GetEot w) = Ok (ROptZ (Some 1))
   /\ fst (run_op shuf_concrete 400 GetNext w) = Ok (ROptZ (Some 1)))
  /\ let w' := run_world shuf_concrete 400 w [AboutToFinish; D; D; D; D; D; D] in
     pstate w' = Stopped /\ current w' = None /\ queue w' = [] /\ World.tl w' = [].
Proof. vm_compute. repeat split; reflexivity. Qed.
Print Assumptions C03_refuted_consume_random_self_prediction.

(* consume + single + repeat: get_eot_tlid announces the playing entry itself; when the track
   ends playback stops with no current entry *)
Example C03_refuted_consume_single_repeat_eot :
  let w := run_world shuf_concrete 400 (init_world 50 [Playable] [Some 1000] [] None None)
             [Add [0] None; SetMode 0 true; SetMode 2 true; SetMode 3 true; Play (Some 1); D; D; D; D] in
  (pstate w = Playing /\ option_map tlid (current w) = Some 1 /\ queue w = []
   /\ fst (run_op shuf_concrete 400 GetEot w) = Ok (ROptZ (Some 1)))
  /\ let w' := run_world shuf_concrete 400 w [AboutToFinish; D; D; D; D; D; D; D; D] in
     pstate w' = Stopped /\ current w' = None /\ queue w' = [].
Proof. vm_compute. repeat split; reflexivity. Qed.
Print Assumptions C03_refuted_consume_single_repeat_eot.

(* single: the player stops after the current track - wherever the entry sits in the tracklist,
   whatever random is (consume off, repeat off) ... *)
Theorem C03_single_stops_after_current :
  forall shuf f c len w,
  single w = true -> repeat w = false -> consume w = false ->
  settled_on w c -> pstate w = Playing -> a_atf_done w = false -> len_of w (trk c) = Some len ->
  let w' := run_world shuf (S f) w [AboutToFinish; Deliver] in
  current w' = None /\ pstate w' = Stopped /\ pending w' = None /\ queue w' = []
  /\ a_uri w' = None /\ World.tl w' = World.tl w
  /\ events w' = EvEnded c (a_pos w) :: EvStateChanged Playing Stopped :: events w.
Proof. exact single_stops. Qed.
Print Assumptions C03_single_stops_after_current.

(* ... or repeats it when combined with repeat: the same entry starts again (ended / started
   announced for it), the tracklist untouched. *)
Theorem C03_single_repeat_repeats_current :
  forall shuf f c len w,
  single w = true -> repeat w = true -> consume w = false ->
  settled_on w c -> pstate w = Playing -> a_atf_done w = false -> len_of w (trk c) = Some len ->
  accepts w c ->
  let w' := run_world shuf (S f) w [AboutToFinish; Deliver; Deliver] in
  settled_on w' c /\ pstate w' = Playing /\ World.tl w' = World.tl w
  /\ events w' = EvStarted c :: EvStateChanged Playing Playing :: EvEnded c len :: events w.
Proof. exact single_repeat_repeats. Qed.
Print Assumptions C03_single_repeat_repeats_current.

Example C03_single_example :
  let w0 := run_world shuf_concrete 50 (init_world 50 [Playable; Playable; Playable] [Some 900; Some 900; Some 900] [] None None)
              [Add [0; 1; 2] None; SetMode 3 true; Play (Some 2); Deliver; Deliver; Deliver; Deliver] in
  let w1 := run_world shuf_concrete 50 w0 [AboutToFinish; Deliver] in
  let w2 := run_world shuf_concrete 50 w0 [SetMode 2 true; AboutToFinish; Deliver; Deliver] in
  option_map tlid (current w0) = Some 2 /\ pstate w0 = Playing /\ queue w0 = [] /\ single w0 = true
  /\ current w1 = None /\ pstate w1 = Stopped
  /\ option_map tlid (current w2) = Some 2 /\ pstate w2 = Playing.
Proof. vm_compute. repeat split; reflexivity. Qed.
Print Assumptions C03_single_example.

(* consume at the end of the list: the last entry finished playing and was succeeded by the end
   of the list - the player stops and exactly that entry has left the tracklist (announced by
   tracklist_changed between the state change and ended). *)
Theorem C03_consume_last_entry_removed :
  forall shuf f pre c x len w,
  World.tl w = pre ++ [c] -> In x pre -> NoDup (map tlid (World.tl w)) ->
  consume w = true -> random w = false -> repeat w = false -> single w = false ->
  settled_on w c -> pstate w = Playing -> a_atf_done w = false -> len_of w (trk c) = Some len ->
  let w' := run_world shuf (S f) w [AboutToFinish; Deliver] in
  current w' = None /\ pstate w' = Stopped /\ pending w' = None /\ queue w' = []
  /\ a_uri w' = None
  /\ World.tl w' = filter (fun t => negb (tlid t =? tlid c)) (World.tl w)
  /\ events w' = EvEnded c (a_pos w) :: EvTracklistChanged :: EvStateChanged Playing Stopped :: events w.
Proof. exact consume_last_entry_removed. Qed.
Print Assumptions C03_consume_last_entry_removed.

Example C03_consume_last_example :
  let w := run_world shuf_concrete 50 (init_world 50 [Playable; Playable; Playable] [Some 900; Some 900; Some 900] [] None None)
             [Add [0; 1; 2] None; SetMode 0 true; Play (Some 3); Deliver; Deliver; Deliver; Deliver] in
  let w' := run_world shuf_concrete 50 w [AboutToFinish; Deliver] in
  option_map tlid (current w) = Some 3 /\ pstate w = Playing /\ queue w = [] /\ consume w = true
  /\ current w' = None /\ pstate w' = Stopped /\ map tlid (World.tl w') = [1; 2].
Proof. vm_compute. repeat split; reflexivity. Qed.
Print Assumptions C03_consume_last_example.

(* random, walked with next(): from a state settled on c with the shuffle order `order` ahead
   (all playable), |order| next() calls - each followed by the delivery of its four
   notifications - start exactly the entries of the order, one after the other, each once
   (`starts` = the started entries, newest first), leave the order empty and the tracklist
   untouched. *)
Theorem C03_random_pass_by_next :
  forall shuf f order c w,
  World.tl w <> [] -> shuffled w = order ->
  settled_on w c -> pstate w = Playing -> consume w = false -> random w = true -> script w = [] ->
  (forall y, In y order -> kind_of w (trk y) = Playable) ->
  let w' := run_world shuf (S f) w (nblocks (length order)) in
  settled_on w' (last order c) /\ pstate w' = Playing /\ World.tl w' = World.tl w /\ shuffled w' = []
  /\ starts (events w') = rev order ++ starts (events w).
Proof. exact random_pass_next. Qed.
Print Assumptions C03_random_pass_by_next.

Example C03_random_pass_by_next_example :
  let w := run_world shuf_concrete 50 (init_world 50 [Playable; Playable; Playable; Playable] [Some 900; Some 900; Some 900; Some 900] [] None None)
             [Add [0; 1; 2; 3] None; SetMode 1 true; Play None; Deliver; Deliver; Deliver; Deliver] in
  let w' := run_world shuf_concrete 50 w (nblocks 3) in
  map tlid (shuffled w) = [2; 3; 4] /\ option_map tlid (current w) = Some 1 /\ pstate w = Playing /\ queue w = []
  /\ map tlid (starts (events w')) = [4; 3; 2; 1] /\ shuffled w' = [] /\ option_map tlid (current w') = Some 4.
Proof. vm_compute. repeat split; reflexivity. Qed.
Print Assumptions C03_random_pass_by_next_example.

(* random: an entry started by play(tlid) leaves the shuffle order wherever it sits in it, so the
   player does not select it again in this pass; it is announced exactly once (ended(c) /
   state / started(x)). *)
Theorem C03_play_tlid_leaves_shuffle_order :
  forall shuf f i x c w,
  settled_on w c -> consume w = false -> 1 <= i ->
  find (fun y => tlid y =? i) (World.tl w) = Some x -> accepts w x ->
  let w' := run_world shuf (S f) w [Play (Some i); Deliver; Deliver; Deliver; Deliver] in
  shuffled w' = (if random w && mem_tlt x (shuffled w) then remove_first x (shuffled w) else shuffled w)
  /\ events w' = EvStarted x :: EvStateChanged (pstate w) Playing :: EvEnded c (a_pos w) :: events w.
Proof. exact play_tlid_leaves_order. Qed.
Print Assumptions C03_play_tlid_leaves_shuffle_order.

Example C03_play_tlid_mid_pass_example :
  let w := run_world shuf_concrete 50 (init_world 50 [Playable; Playable; Playable; Playable] [Some 900; Some 900; Some 900; Some 900] [] None None)
             [Add [0; 1; 2; 3] None; SetMode 1 true; Play None; Deliver; Deliver; Deliver; Deliver] in
  let w' := run_world shuf_concrete 50 w [Play (Some 3); Deliver; Deliver; Deliver; Deliver] in
  map tlid (shuffled w) = [2; 3; 4] /\ option_map tlid (current w) = Some 1
  /\ map tlid (shuffled w') = [2; 4] /\ option_map tlid (current w') = Some 3.
Proof. vm_compute. repeat split; reflexivity. Qed.
Print Assumptions C03_play_tlid_mid_pass_example.

(* ... while a preloaded entry stays in the order until its stream starts (an abandoned preload
   is still visited in this pass). *)
Theorem C03_preload_keeps_shuffle_order :
  forall shuf f x c len w,
  settled_on w c -> pstate w = Playing -> a_atf_done w = false ->
  len_of w (trk c) = Some len -> accepts w x -> announces_eot shuf w c x ->
  let w' := run_world shuf (S f) w [AboutToFinish] in
  shuffled w' = shuffled w /\ pending w' = Some x /\ current w' = Some c /\ World.tl w' = World.tl w.
Proof. exact preload_keeps_order. Qed.
Print Assumptions C03_preload_keeps_shuffle_order.

(* switching random on always draws a complete new order over the whole tracklist (for every
   oracle: some permutation of it), whatever was left of an earlier order *)
Theorem C03_set_random_draws_full_order :
  forall shuf f w,
  let w' := snd (run_op shuf f (SetMode 1 true) w) in
  shuffled w' = shuf (seed w) (World.tl w) /\ random w' = true /\ World.tl w' = World.tl w
  /\ current w' = current w /\ pstate w' = pstate w /\ seed w' = seed w + 1.
Proof. exact set_random_draws_full_order. Qed.
Print Assumptions C03_set_random_draws_full_order.

(* every tracklist change (any edit, consume, a restored tracklist: they all go through
   _increase_version) redraws the order: a complete new order over the tracklist as it is now
   when random is on, an empty one otherwise *)
Theorem C03_tracklist_change_redraws_order :
  forall shuf w r w',
  increase_version shuf w = (r, w') ->
  r = Ok tt /\ World.tl w' = World.tl w
  /\ shuffled w' = (if random w then shuf (seed w) (World.tl w) else []).
Proof. exact tracklist_change_redraws. Qed.
Print Assumptions C03_tracklist_change_redraws_order.
