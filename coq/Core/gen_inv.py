#!/usr/bin/env python3
"""Emit the per-function preservation lemmas for one invariant (dev-time generator; the
emitted .v file is committed).  usage: gen_inv.py preserves|rel NAME HEADER.v > Inv_NAME.v
The header file defines the invariant, the solver tactic `SOLVER` and hand-proved leaf lemmas
(listed in a comment line `(* LEAVES: a b c *)`) and ends inside `Section S` with shuf bound."""
import re, sys

# (name, args, uses_shuf, kind)   kind: plain | loop_fuel | loop_list | step (needs fuel var)
FUNS = [
 ("emit", "e", 0, "plain"), ("do_shuffle", "l", 1, "plain"), ("bcall", "", 0, "plain"),
 ("acall_log", "c", 0, "plain"), ("enqueue", "n", 0, "plain"), ("env_prepare_change", "", 0, "plain"),
 ("env_set_uri", "u", 0, "plain"), ("env_set_state", "s", 0, "plain"), ("env_set_position", "p", 0, "plain"),
 ("env_get_position", "", 0, "plain"), ("attempt_change", "k", 0, "plain"), ("set_state", "s", 0, "plain"),
 ("get_time_position", "", 0, "plain"), ("stop", "", 0, "plain"), ("on_tracklist_change", "", 0, "plain"),
 ("trigger_tracklist_changed", "", 1, "plain"), ("increase_version", "", 1, "plain"),
 ("set_mode", "which v", 1, "plain"), ("tl_remove", "c", 1, "plain"), ("tl_index", "t", 0, "plain"),
 ("next_track", "t", 1, "plain"), ("eot_track", "t", 1, "plain"), ("previous_track", "t", 0, "plain"),
 ("mark_playing", "t", 0, "plain"), ("mark_unplayable", "t", 1, "plain"), ("mark_played", "t", 1, "plain"),
 ("add_loop", "ts pos added", 0, "loop_list"), ("tl_add", "ts pos", 1, "plain"), ("tl_clear", "", 1, "plain"),
 ("tl_move", "s e p", 1, "plain"), ("tl_shuffle", "s e", 1, "plain"), ("history_add", "k", 0, "plain"),
 ("trigger_paused", "", 0, "plain"), ("trigger_resumed", "", 0, "plain"), ("trigger_started", "", 0, "plain"),
 ("trigger_ended", "pos", 1, "plain"), ("on_end_of_stream", "", 1, "plain"), ("pause", "", 0, "plain"),
 ("resume", "", 0, "plain"), ("change", "p st", 1, "plain"),
 ("play_loop", "fuel p count", 1, "loop_fuel"), ("play", "fuel tid", 1, "plain"),
 ("next_loop", "fuel cur st count", 1, "loop_fuel"), ("next", "fuel", 1, "plain"),
 ("previous_loop", "fuel cur st count", 1, "loop_fuel"), ("previous", "fuel", 1, "plain"),
 ("seek_backend", "p", 0, "plain"), ("seek", "fuel t", 1, "plain"),
 ("on_stream_changed", "fuel", 1, "plain"), ("on_position_changed", "", 0, "plain"),
 ("on_state_changed", "o n", 0, "plain"),
 ("atf_loop", "fuel p count", 1, "loop_fuel"), ("on_about_to_finish", "fuel", 1, "plain"),
 ("set_volume", "v", 0, "plain"), ("set_mute", "m", 0, "plain"), ("save_state", "", 0, "plain"),
 ("load_state", "fuel cov s", 1, "plain"),
 ("deliver", "fuel", 1, "plain"), ("about_to_finish", "fuel", 1, "plain"), ("end_of_stream_env", "", 0, "plain"),
 ("tick", "d", 0, "plain"),
 ("do_load", "fuel cov", 1, "plain"), ("run_op", "fuel o", 1, "plain"),
]

def main():
    style, name, header = sys.argv[1], sys.argv[2], sys.argv[3]
    h = open(header).read()
    m = re.search(r"\(\* SKIP:([^*]*)\*\)", h)
    skip = set(m.group(1).split()) if m else set()
    custom = {}
    if "(*@@ LEAVES @@*)" in h:
        h, rest = h.split("(*@@ LEAVES @@*)", 1)
        for blk in re.split(r"\(\*@ ", rest)[1:]:
            fname, body = blk.split(" *)", 1)
            custom[fname.strip()] = body.strip()
    pred = {"preserves": "preserves", "rel": "rel", "resok": "resok", "nd": "nd"}[style]
    fixed_fuel = "(* FIXED_FUEL *)" in h
    out = [h.rstrip(), ""]
    for f, args, sh, kind in FUNS:
        if f in skip:
            continue
        call = f + (" shuf" if sh else "")
        argl = args.split()
        if fixed_fuel and kind == "plain":
            # fuel is a section variable: keep it in the call, drop it from the binders
            pass
        if f in custom:
            out.append(custom[f])
            if f"Hint" not in custom[f].split("\n")[-1]:
                out.append(f"#[local] Hint Resolve {f}_{name} : pres.")
            continue
        bl = [a for a in argl if not (fixed_fuel and a == "fuel")]
        binder = (" " + " ".join(bl)) if bl else ""
        app = " ".join([call] + argl)
        if kind == "plain":
            out.append(f"Lemma {f}_{name}{binder} : {pred} {name} ({app}).")
            out.append(f"Proof. unfold {f}. go. Qed.")
        elif kind == "loop_fuel":
            rest = argl[1:]
            out.append(f"Lemma {f}_{name} fuel : forall {' '.join(rest)}, {pred} {name} ({app}).")
            first = rest[0]
            out.append(f"Proof. induction fuel as [|f IH]; intros {' '.join(rest)}; destruct {first}; cbn [{f}]; go. Qed.")
        elif kind == "loop_list":
            rest = argl[1:]
            out.append(f"Lemma {f}_{name} ts : forall {' '.join(rest)}, {pred} {name} ({app}).")
            out.append(f"Proof. induction ts as [|k ts IH]; intros {' '.join(rest)}; cbn [{f}]; go. Qed.")
        out.append(f"#[local] Hint Resolve {f}_{name} : pres.")
    if "(*@END" in "".join(custom.keys()):
        pass
    out.append(custom.get("END", ""))
    out.append("End S.")
    m = re.search(r"\(\* EXPORT: (\w+) \*\)", h)
    if m:
        names = [f for f, *_ in FUNS if f not in skip and not (f in custom and "no Hint" in custom[f])]
        out.append(f"Create HintDb {m.group(1)} discriminated.")
        out.append("#[export] Hint Resolve " + " ".join(f"{f}_{name}" for f in names) + f" : {m.group(1)} pres.")
    print("\n".join(out))

main()
