(* C03, random: one pass walked with next() visits the shuffle order entry by entry, each exactly
   once (the same statement as C03_random_pass_in_shuffle_order, which walks it by the natural
   end of each track). *)
From Coq Require Import ZArith List Bool Lia ZifyBool.
From RecordUpdate Require Import RecordSet.
From Common Require Import Res.
From Core Require Import World Hoare Model Step Reach ListLemmas Proofs_C03b Proofs_C02b Proofs_C10b Proofs_C02c Proofs_C03c Proofs_C05b Proofs_C05c.
Import ListNotations RecordSetNotations.
Open Scope Z_scope.

Section P.
Variable shuf : Z -> list tlt -> list tlt.

Theorem next_block_effects f x c w :
  settled_on w c -> pstate w = Playing -> consume w = false -> accepts w x ->
  next_track shuf (Some c) w = (Ok (Some x), w) ->
  let w' := run_world shuf (S f) w [Next; Deliver; Deliver; Deliver; Deliver] in
  shuffled w' = (if random w && mem_tlt x (shuffled w) then remove_first x (shuffled w) else shuffled w)
  /\ events w' = EvStarted x :: EvStateChanged Playing Playing :: EvEnded c (a_pos w) :: events w
  /\ a_atf_done w' = false.
Proof.
  intros [Hq Hp Hpp Hsa Hsp Hpf Hc Hb Ha] Hst Hco Hacc Hn. rewrite Hst in Ha. destruct Ha as [Hu Has].
  cbv zeta. unfold run_world. cbn [fold_left].
  destruct Hacc as [Hk Hs].
  assert (Hbx : forall w0, tkinds w0 = tkinds w -> tkind_has_backend (kind_of w0 (trk x)) = true).
  { intros w0 E. unfold kind_of in *. rewrite E, Hk. reflexivity. }
  (* Next *)
  pose proof (next_run shuf f x c w Hp Hc Hpp Hb (conj Hk Hs) Hn) as E1. rewrite Hst in E1.
  set (w1 := fx_change x Playing w) in *.
  assert (G1 : get_time_position w1 = (Ok (a_pos w1), fx_gtp w1)).
  { apply (gtp_run w1 c); [exact Hpp|exact Hc|exact Hb]. }
  rewrite (stepw_eq shuf (S f) Next w RNone w1 _ _ (run_op_bind_none _ w tt w1 E1) G1).
  (* Deliver stream_changed *)
  set (w1' := fx_gtp w1).
  assert (Q1 : queue w1' = [NStreamChanged (Some (trk x)); NPositionChanged 0;
                            NStateChanged Playing Playing; NTagsChanged]).
  { unfold w1', w1, fx_gtp, fx_change, fx_set_state. cbn. rewrite Hq, Has. reflexivity. }
  pose proof (deliver_run shuf (S f) _ _ w1' Q1) as D1. cbv beta iota in D1.
  set (w1q := w1' <| queue := [NPositionChanged 0; NStateChanged Playing Playing; NTagsChanged] |>) in *.
  assert (S1 : on_stream_changed shuf (S f) w1q = (Ok tt, fx_promote x c (a_pos w) w1q)).
  { apply stream_changed_run; try reflexivity; unfold w1q, w1', w1; cbn; assumption. }
  rewrite S1 in D1.
  set (w2 := fx_promote x c (a_pos w) w1q) in *.
  assert (G2 : get_time_position w2 = (Ok (a_pos w2), fx_gtp w2)).
  { apply (gtp_run w2 x); [exact Hpp|reflexivity|apply Hbx; reflexivity]. }
  rewrite (stepw_eq shuf (S f) Deliver w1' RNone w2 _ _ (run_op_bind_none _ w1' tt w2 D1) G2).
  (* Deliver position_changed *)
  set (w2' := fx_gtp w2).
  assert (Q2 : queue w2' = [NPositionChanged 0; NStateChanged Playing Playing; NTagsChanged]) by reflexivity.
  pose proof (deliver_run shuf (S f) _ _ w2' Q2) as D2. cbv beta iota in D2.
  rewrite position_changed_noop in D2 by exact Hpp.
  set (w3 := w2' <| queue := [NStateChanged Playing Playing; NTagsChanged] |>) in *.
  assert (G3 : get_time_position w3 = (Ok (a_pos w3), fx_gtp w3)).
  { apply (gtp_run w3 x); [exact Hpp|reflexivity|apply Hbx; reflexivity]. }
  rewrite (stepw_eq shuf (S f) Deliver w2' RNone w3 _ _ (run_op_bind_none _ w2' tt w3 D2) G3).
  (* Deliver state_changed *)
  set (w3' := fx_gtp w3).
  assert (Q3 : queue w3' = [NStateChanged Playing Playing; NTagsChanged]) by reflexivity.
  pose proof (deliver_run shuf (S f) _ _ w3' Q3) as D3. cbv beta iota in D3.
  rewrite state_changed_not_paused in D3 by discriminate.
  set (w4 := w3' <| queue := [NTagsChanged] |>) in *.
  assert (G4 : get_time_position w4 = (Ok (a_pos w4), fx_gtp w4)).
  { apply (gtp_run w4 x); [exact Hpp|reflexivity|apply Hbx; reflexivity]. }
  rewrite (stepw_eq shuf (S f) Deliver w3' RNone w4 _ _ (run_op_bind_none _ w3' tt w4 D3) G4).
  (* Deliver tags_changed *)
  set (w4' := fx_gtp w4).
  assert (Q4 : queue w4' = [NTagsChanged]) by reflexivity.
  pose proof (deliver_run shuf (S f) _ _ w4' Q4) as D4. cbv beta iota in D4.
  set (w5 := w4' <| queue := [] |>) in *.
  assert (G5 : get_time_position w5 = (Ok (a_pos w5), fx_gtp w5)).
  { apply (gtp_run w5 x); [exact Hpp|reflexivity|apply Hbx; reflexivity]. }
  assert (D4' : (deliver shuf (S f) ;; ret RNone)%M w4' = (Ok RNone, w5)).
  { apply (run_op_bind_none _ w4' tt w5). exact D4. }
  rewrite (stepw_eq shuf (S f) Deliver w4' RNone w5 _ _ D4' G5).
  split; [reflexivity|]. split; [cbn; rewrite Hst; reflexivity|reflexivity].
Qed.


Definition starts (evs : list event) : list tlt :=
  flat_map (fun e => match e with EvStarted t => [t] | _ => [] end) evs.

Definition nblocks (n : nat) : list op := concat (List.repeat [Next; Deliver; Deliver; Deliver; Deliver] n).

Theorem random_pass_next f : forall order c w,
  World.tl w <> [] -> shuffled w = order ->
  settled_on w c -> pstate w = Playing -> consume w = false -> random w = true -> script w = [] ->
  (forall y, In y order -> kind_of w (trk y) = Playable) ->
  let w' := run_world shuf (S f) w (nblocks (length order)) in
  settled_on w' (last order c) /\ pstate w' = Playing /\ World.tl w' = World.tl w /\ shuffled w' = []
  /\ starts (events w') = rev order ++ starts (events w).
Proof.
  induction order as [|x order IH]; intros c w Hne Hsh Hso Hst Hco Hr Hscr Hall.
  - cbn. split; [exact Hso|split; [exact Hst|split; [reflexivity|split; [exact Hsh|reflexivity]]]].
  - cbv zeta. unfold nblocks. cbn [length List.repeat concat]. rewrite (run_world_app' shuf).
    assert (Hkx : kind_of w (trk x) = Playable) by (apply Hall; left; reflexivity).
    assert (Hacc : accepts w x) by (split; [exact Hkx|rewrite Hscr; reflexivity]).
    assert (Hn : next_track shuf (Some c) w = (Ok (Some x), w)) by (apply (next_random_head shuf (Some c) x order w Hne Hr Hsh)).
    pose proof (next_prediction_playing_full shuf f x c w Hso Hst Hco Hacc Hn) as Hb.
    pose proof (next_block_effects f x c w Hso Hst Hco Hacc Hn) as He.
    cbv zeta in Hb, He.
    set (w1 := run_world shuf (S f) w [Next; Deliver; Deliver; Deliver; Deliver]) in *.
    destruct Hb as (Hso1 & (T1 & K1 & L1 & C1 & R1 & P1 & S1 & Sc1 & _) & _ & Hst1 & _).
    destruct He as (Sh1 & Ev1 & _).
    rewrite Hr, Hsh, mem_tlt_head, remove_first_head in Sh1. cbn [andb] in Sh1.
    assert (Hall1 : forall y, In y order -> kind_of w1 (trk y) = Playable).
    { intros y Hy. unfold kind_of. rewrite K1. apply (Hall y). right. exact Hy. }
    assert (Hne1 : World.tl w1 <> []) by (rewrite T1; exact Hne).
    specialize (IH x w1 Hne1 Sh1 Hso1 Hst1 (eq_trans C1 Hco) (eq_trans R1 Hr) (Sc1 Hscr) Hall1).
    cbv zeta in IH. unfold nblocks in IH.
    destruct IH as (I1 & I2 & I3 & I4 & I5).
    split; [|split; [exact I2|split; [|split; [exact I4|]]]].
    + destruct order as [|t order]; [exact I1|]. change (last (x :: t :: order) c) with (last (t :: order) c).
      rewrite (last_cons_default order t c x). exact I1.
    + rewrite I3. exact T1.
    + rewrite I5, Ev1. cbn [rev starts flat_map app]. rewrite <- app_assoc. reflexivity.
Qed.

End P.
