(* C01: add() running into max_tracklist_length.  The entries that still fit are inserted as one
   contiguous block with consecutive fresh IDs, the version is bumped and tracklist_changed is
   announced for them (the defect repaired by a6953e1: they used to stay without either), the
   call raises TracklistFull, nothing of the rest is inserted and the length is exactly the
   maximum. *)
From Coq Require Import ZArith List Bool Lia ZifyBool Permutation Sorted.
From RecordUpdate Require Import RecordSet.
From Common Require Import Res.
From Core Require Import World Hoare Model Step ListLemmas Reach Inv_Tl Rel_Version Rel_Vtc Rel_Ids Proofs_C01.
Import ListNotations RecordSetNotations.
Open Scope Z_scope.

Section P.
Variable shuf : Z -> list tlt -> list tlt.
Variable fuel : nat.

Lemma add_loop_split a : forall b pos acc w,
  zlen (World.tl w) + zlen a <= max_len w ->
  exists w', add_loop (a ++ b) pos acc w
             = add_loop b (option_map (fun p => p + zlen a) pos) (acc ++ fresh_block (next_tlid w) a) w'
    /\ World.tl w' = (match pos with
                      | Some p => insert_block (World.tl w) p (fresh_block (next_tlid w) a)
                      | None => World.tl w ++ fresh_block (next_tlid w) a
                      end)
    /\ next_tlid w' = next_tlid w + zlen a /\ max_len w' = max_len w
    /\ version w' = version w /\ events w' = events w.
Proof.
  induction a as [|k a IH]; intros b pos acc w Hroom; cbn [add_loop fresh_block app].
  - exists w. rewrite app_nil_r. repeat split; auto.
    + f_equal. destruct pos as [p|]; cbn [option_map]; [f_equal; unfold zlen; cbn; lia|reflexivity].
    + destruct pos; [reflexivity|rewrite app_nil_r; reflexivity].
    + unfold zlen; cbn; lia.
  - rewrite zlen_cons in Hroom. pose proof (zlen_nonneg a) as Hts.
    unfold bind at 1. unfold get at 1. cbv beta iota.
    replace (max_len w <=? zlen (World.tl w)) with false by lia.
    unfold bind at 1. unfold modify at 1. cbv beta iota.
    destruct (add_one_facts k pos w) as (F1 & F2 & F3 & F4 & F5 & F6).
    destruct (IH b (option_map (fun p => p + 1) pos) (acc ++ [mkTlt (next_tlid w) k]) (add_one k pos w))
      as (w' & E & T & N & Mx & V & Ev).
    { rewrite F1, F2. lia. }
    exists w'. rewrite F3 in *. split; [|split; [|split; [|split; [|split]]]].
    + rewrite E. rewrite <- app_assoc. cbn [app]. f_equal.
      destruct pos as [p|]; cbn [option_map]; [f_equal; rewrite zlen_cons; lia|reflexivity].
    + rewrite T, F6. destruct pos; cbn [option_map insert_block]; [reflexivity|rewrite <- app_assoc; reflexivity].
    + rewrite N. rewrite zlen_cons. lia.
    + rewrite Mx. exact F2.
    + rewrite V. exact F4.
    + rewrite Ev. exact F5.
Qed.

Lemma add_loop_full k rest pos acc w :
  max_len w <= zlen (World.tl w) ->
  add_loop (k :: rest) pos acc w = (Ok (acc, Some TracklistFull), w).
Proof.
  intros H. cbn [add_loop]. unfold bind, get. replace (max_len w <=? zlen (World.tl w)) with true by lia.
  reflexivity.
Qed.

Theorem add_overflow_lemma (fits : list track) (k : track) (over : list track) pos w :
  existsb (fun t => t <? 0) (fits ++ k :: over) = false ->
  (match pos with Some p => 0 <= p | None => True end) ->
  zlen (World.tl w) + zlen fits = max_len w ->
  let new := fresh_block (next_tlid w) fits in
  exists w', run_op shuf fuel (Add (fits ++ k :: over) pos) w = (Raise TracklistFull, w')
    /\ World.tl w' = (match pos with
                      | Some p => firstn (Z.to_nat p) (World.tl w) ++ new ++ skipn (Z.to_nat p) (World.tl w)
                      | None => World.tl w ++ new
                      end)
    /\ next_tlid w' = next_tlid w + zlen fits
    /\ zlen (World.tl w') = max_len w
    /\ (fits = [] -> w' = w)
    /\ (fits <> [] -> version w < version w'
                      /\ exists evs, events w' = evs ++ events w /\ In EvTracklistChanged evs).
Proof.
  intros Hwt Hpos Hfull. cbv zeta. cbn [run_op]. rewrite Hwt.
  assert (Hroom : zlen (World.tl w) + zlen fits <= max_len w) by lia.
  destruct (add_loop_split fits (k :: over) pos [] w Hroom) as (w1 & E1 & T1 & N1 & Mx1 & V1 & Ev1).
  cbn [app] in E1.
  assert (Hlen1 : zlen (World.tl w1) = max_len w).
  { assert (Hf : zlen (fresh_block (next_tlid w) fits) = zlen fits) by (unfold zlen; rewrite fresh_block_length; reflexivity).
    rewrite T1. destruct pos as [p|].
    - rewrite insert_block_spec by exact Hpos. rewrite !zlen_app.
      assert (Hz : zlen (firstn (Z.to_nat p) (World.tl w)) + zlen (skipn (Z.to_nat p) (World.tl w)) = zlen (World.tl w)).
      { rewrite <- zlen_app, firstn_skipn. reflexivity. }
      clear - Hf Hz Hfull. lia.
    - rewrite zlen_app. clear - Hf Hfull. lia. }
  assert (Efull : add_loop (k :: over) (option_map (fun p => p + zlen fits) pos) (fresh_block (next_tlid w) fits) w1
                  = (Ok (fresh_block (next_tlid w) fits, Some TracklistFull), w1)).
  { apply add_loop_full. rewrite Mx1, Hlen1. apply Z.le_refl. }
  pose proof (eq_trans E1 Efull) as E1'. clear E1. rename E1' into E1.
  assert (Hv : (match pos with Some p => if p <? 0 then raise ValidationError else ret tt | None => ret tt end) w = (Ok tt, w)).
  { destruct pos as [p|]; [replace (p <? 0) with false by lia|]; reflexivity. }
  destruct fits as [|t fits'].
  - (* nothing fits: the call raises and leaves everything as it was *)
    cbn [fresh_block app] in *.
    assert (w1 = w).
    { assert (Hmx : max_len w <= zlen (World.tl w)). { clear - Hfull. unfold zlen in *. cbn [length] in Hfull. lia. }
      pose proof (add_loop_full k over pos [] w Hmx) as F. congruence. }
    subst w1. exists w.
    split; [|split; [|split; [|split; [|split]]]].
    + assert (Et : tl_add shuf (k :: over) pos w = (Raise TracklistFull, w)).
      { unfold tl_add. rewrite (bind_ok _ _ w tt w Hv). rewrite (bind_ok _ _ w _ w E1). reflexivity. }
      unfold bind at 1. rewrite Et. reflexivity.
    + destruct pos as [p|]; [rewrite firstn_skipn; reflexivity|rewrite app_nil_r; reflexivity].
    + unfold zlen. cbn [length]. lia.
    + clear - Hfull. unfold zlen in *. cbn [length] in Hfull. lia.
    + reflexivity.
    + intros H. contradiction.
  - destruct (increase_version_incr shuf w1) as ([] & w2 & E2 & (T2 & N2) & V2 & evs & Ev2 & In2).
    exists w2. split; [|split; [|split; [|split; [|split]]]].
    + assert (Et : tl_add shuf ((t :: fits') ++ k :: over) pos w = (Raise TracklistFull, w2)).
      { unfold tl_add. rewrite (bind_ok _ _ w tt w Hv). rewrite (bind_ok _ _ w _ w1 E1). cbn [fresh_block].
        rewrite (bind_ok _ _ w1 tt w2 E2). reflexivity. }
      unfold bind at 1. rewrite Et. reflexivity.
    + rewrite T2, T1. destruct pos as [p|]; [apply insert_block_spec; exact Hpos|reflexivity].
    + rewrite N2, N1. reflexivity.
    + rewrite T2. exact Hlen1.
    + intros H. discriminate.
    + intros _. split; [rewrite <- V1; exact V2|].
      exists evs. split; [rewrite Ev2, Ev1; reflexivity|exact In2].
Qed.


(* ---- a snapshot restored into a LIVE tracklist (the model's Load starts a new process; the
   controller's _load_state itself promises more: next_tlid := max saved current) *)
Theorem live_restore_keeps_ids cov s w r w' :
  load_state shuf fuel cov s w = (r, w') ->
  next_tlid w <= next_tlid w' /\ exists l, issued w' = l ++ issued w.
Proof. intros E. exact (load_state_ids_grow shuf fuel cov s w r w' E). Qed.

Theorem live_restore_ids_stay_used mx cov s w r w' :
  tl_inv_mx mx w -> load_state shuf fuel cov s w = (r, w') ->
  forall i, In i (issued w) -> i < next_tlid w'.
Proof.
  intros ((_ & _ & H3 & _) & _) E i Hi. destruct (live_restore_keeps_ids cov s w r w' E) as [Hle _].
  rewrite Forall_forall in H3. specialize (H3 i Hi). lia.
Qed.

Theorem step_keeps_ids o w : (forall c, o <> Load c) ->
  let w' := snd (run_op shuf fuel o w) in
  next_tlid w <= next_tlid w' /\ exists l, issued w' = l ++ issued w.
Proof.
  intros Hn. cbv zeta. destruct (run_op shuf fuel o w) as [r w'] eqn:E. cbn [snd].
  exact (run_op_ids_grow shuf fuel o Hn w r w' E).
Qed.

End P.
