(* Lifting per-operation facts to every reachable state (induction over operation lists). *)
From Coq Require Import ZArith List Bool.
From Common Require Import Res.
From Core Require Import World Hoare Model Step.
Import ListNotations.
Open Scope Z_scope.

Section R.
Variable shuf : Z -> list tlt -> list tlt.
Variable fuel : nat.

Definition stepw (w : world) (o : op) : world := fst (step shuf fuel w o).
Definition run_world (w : world) (ops : list op) : world := fold_left stepw ops w.

(* the state after the operation itself, before the harness reads the time position *)
Definition after_op (w : world) (o : op) : world := snd (run_op shuf fuel o w).

Lemma stepw_preserves (I : world -> Prop) :
  (forall o, preserves I (run_op shuf fuel o)) -> preserves I get_time_position ->
  forall w o, I w -> I (stepw w o).
Proof.
  intros Hop Hpos w o Hw. unfold stepw, step.
  destruct (run_op shuf fuel o w) as [r w1] eqn:E.
  assert (H1 : I w1) by (eapply Hop; eauto).
  destruct (get_time_position w1) as [p w2] eqn:Ep.
  assert (H2 : I w2) by (eapply Hpos; eauto).
  destruct r; cbn; auto.
Qed.

Lemma run_world_preserves (I : world -> Prop) :
  (forall o, preserves I (run_op shuf fuel o)) -> preserves I get_time_position ->
  forall ops w, I w -> I (run_world w ops).
Proof.
  intros Hop Hpos ops. induction ops as [|o ops IH]; intros w Hw; cbn; [exact Hw|].
  apply IH. apply stepw_preserves; auto.
Qed.

Lemma run_world_app w a b : run_world w (a ++ b) = run_world (run_world w a) b.
Proof. unfold run_world. apply fold_left_app. Qed.

(* two-state facts about one step *)
Lemma stepw_rel (R : world -> world -> Prop) o :
  (forall a b c, R a b -> R b c -> R a c) ->
  rel R (run_op shuf fuel o) -> rel R get_time_position ->
  forall w, R w (stepw w o).
Proof.
  intros HT Hop Hpos w. unfold stepw, step.
  destruct (run_op shuf fuel o w) as [r w1] eqn:E.
  assert (H1 : R w w1) by (eapply Hop; eauto).
  destruct (get_time_position w1) as [p w2] eqn:Ep.
  assert (H2 : R w1 w2) by (eapply Hpos; eauto).
  destruct r; cbn; eauto.
Qed.
End R.
