(* C02 — Playback state and event stream stay coherent under every event schedule.
   A schedule is a list of operations in which Deliver hands the oldest pending audio
   notification to the core; "every interleaving" = "every list". *)
From Coq Require Import ZArith List Bool.
From Common Require Import Res.
From Core Require Import World Model Step Reach Rel_History Res_NoRaise Proofs_C02 Proofs_C03b Proofs_C02b Proofs_C10b Proofs_C02c Proofs_C02d Proofs_C02e.
Import ListNotations.
Open Scope Z_scope.

(* T1+T3: for every schedule from the empty state, the events a listener has seen, replayed in
   order from `stopped`, form a gap-free playback_state_changed chain whose last new_state is
   the state currently reported; every track_playback_paused / resumed occurs while that
   chain is in paused / playing. *)
Theorem C02_state_chain :
  forall shuf fuel mx kinds lens scr vol mut ops,
  let w := run_world shuf fuel (init_world mx kinds lens scr vol mut) ops in
  replay Stopped (rev (events w)) = Some (pstate w).
Proof. exact state_chain_lemma. Qed.
Print Assumptions C02_state_chain.

Theorem C02_state_chain_step :
  forall shuf fuel w o, replay Stopped (rev (events w)) = Some (pstate w) ->
  let w' := stepw shuf fuel w o in replay Stopped (rev (events w')) = Some (pstate w').
Proof. exact state_chain_step_lemma. Qed.
Print Assumptions C02_state_chain_step.

(* T2: in any state, any operation of a running process (Load starts a new process, SetHistory
   is the harness's way of starting from a session with a long history): each track_playback_started adds exactly one entry for that
   track at the head of the history, and nothing else touches the history. *)
Theorem C02_started_feeds_history :
  forall shuf fuel o w, (forall c, o <> Load c) -> (forall ks, o <> SetHistory ks) ->
  let w' := stepw shuf fuel w o in
  exists new, events w' = new ++ events w /\ history w' = started new ++ history w.
Proof. exact started_feeds_history_lemma. Qed.
Print Assumptions C02_started_feeds_history.

(* T4: in any state (any pending notifications), an operation raises only its documented
   argument-validation error; backend failures never surface. *)
Theorem C02_schedule_no_raise :
  forall shuf fuel o w,
  match fst (run_op shuf fuel o w) with
  | Raise e => documented o e = true
  | _ => True
  end.
Proof. exact schedule_no_raise_lemma. Qed.
Print Assumptions C02_schedule_no_raise.

(* T5 (agreement clause), PARTIAL: proved for the model for pause, resume and stop (here) and
   for next / previous / natural end of track (Property_C03.v, whose conclusions include the
   audio URI and state), from any state that is settled on a track (no notification pending,
   no switch or seek under way, audio agreeing), with consume off; and for play() from the
   stopped state (with a current track, and play(tlid) in a process that has not played yet).
   Further below: seek within the track and edits that leave the playing entry in place.
   With consume on the clause is decided by the settled-run agreement monitor and the
   correspondence only; seek from stopped and replaying the current track under consume are
   recorded known findings. *)
Theorem C02_agreement_pause :
  forall shuf f c w, settled_on w c -> pstate w = Playing -> a_fresh w = false ->
  let w' := run_world shuf f w [Pause; Deliver; Deliver] in
  current w' = Some c /\ pstate w' = Paused /\ pending w' = None /\ queue w' = []
  /\ a_uri w' = Some (trk c) /\ a_state w' = Paused /\ World.tl w' = World.tl w.
Proof. exact pause_agreement. Qed.
Print Assumptions C02_agreement_pause.

Theorem C02_agreement_resume :
  forall shuf f c w, settled_on w c -> pstate w = Paused -> a_fresh w = false ->
  let w' := run_world shuf f w [Resume; Deliver; Deliver; Deliver] in
  current w' = Some c /\ pstate w' = Playing /\ pending w' = None /\ queue w' = []
  /\ a_uri w' = Some (trk c) /\ a_state w' = Playing /\ World.tl w' = World.tl w.
Proof. exact resume_agreement. Qed.
Print Assumptions C02_agreement_resume.

Theorem C02_agreement_stop :
  forall shuf f c w, settled_on w c -> pstate w <> Stopped -> consume w = false ->
  let w' := run_world shuf f w [Stop; Deliver; Deliver] in
  current w' = Some c /\ pstate w' = Stopped /\ pending w' = None /\ queue w' = []
  /\ a_uri w' = None /\ a_state w' = Stopped /\ World.tl w' = World.tl w.
Proof. exact stop_agreement. Qed.
Print Assumptions C02_agreement_stop.

(* play() while stopped or playing (while paused play() is resume, above): the current entry is
   (re)started *)
Theorem C02_agreement_play_stopped :
  forall shuf f c w, settled_on w c -> pstate w <> Paused -> consume w = false -> accepts w c ->
  let w' := run_world shuf (S f) w [Play None; Deliver; Deliver; Deliver; Deliver] in
  current w' = Some c /\ pstate w' = Playing /\ pending w' = None /\ queue w' = []
  /\ a_uri w' = Some (trk c) /\ a_state w' = Playing /\ World.tl w' = World.tl w.
Proof. exact play_stopped_agreement. Qed.
Print Assumptions C02_agreement_play_stopped.

Theorem C02_agreement_play_fresh :
  forall shuf f i x w, fresh_stopped w -> start_at_position w = None -> 1 <= i ->
  find (fun y => tlid y =? i) (World.tl w) = Some x -> accepts w x ->
  let w' := run_world shuf (S f) w [Play (Some i); Deliver; Deliver; Deliver; Deliver] in
  option_map tlid (current w') = Some i /\ pstate w' = Playing /\ pending w' = None /\ queue w' = []
  /\ a_uri w' = Some (trk x) /\ a_state w' = Playing /\ World.tl w' = World.tl w.
Proof. exact play_fresh_agreement. Qed.
Print Assumptions C02_agreement_play_fresh.

(* play(tlid) while any entry is current, in any state: switch to that entry *)
Theorem C02_agreement_play_tlid :
  forall shuf f i x c w, settled_on w c -> consume w = false -> 1 <= i ->
  find (fun y => tlid y =? i) (World.tl w) = Some x -> accepts w x ->
  let w' := run_world shuf (S f) w [Play (Some i); Deliver; Deliver; Deliver; Deliver] in
  current w' = Some x /\ pstate w' = Playing /\ pending w' = None /\ queue w' = []
  /\ a_uri w' = Some (trk x) /\ a_state w' = Playing /\ World.tl w' = World.tl w.
Proof. exact play_other_agreement. Qed.
Print Assumptions C02_agreement_play_tlid.

(* seek within the current track, playing or paused *)
Theorem C02_agreement_seek :
  forall shuf f p c len w,
  settled_on w c -> pstate w <> Stopped -> World.tl w <> [] ->
  len_of w (trk c) = Some len -> 0 <= p -> p <= len ->
  let w' := run_world shuf (S f) w [Seek p; Deliver] in
  current w' = Some c /\ pstate w' = pstate w /\ pending w' = None /\ pending_position w' = None
  /\ queue w' = [] /\ a_uri w' = a_uri w /\ a_state w' = a_state w /\ a_pos w' = p
  /\ events w' = EvSeeked p :: events w /\ World.tl w' = World.tl w.
Proof. exact seek_agreement. Qed.
Print Assumptions C02_agreement_seek.

(* edits that leave the playing entry in place: add / move / shuffle / remove with any arguments
   (also the rejected ones) - if the current entry is still in the tracklist afterwards, the player
   stays settled on it in the same state and the audio layer is untouched *)
Theorem C02_agreement_edit :
  forall shuf f o c w r w',
  is_edit o = true -> settled_on w c -> run_op shuf f o w = (r, w') ->
  mem_tlt c (World.tl w') = true ->
  settled_on w' c /\ pstate w' = pstate w /\ a_uri w' = a_uri w /\ a_state w' = a_state w /\ a_pos w' = a_pos w.
Proof. exact edit_agreement. Qed.
Print Assumptions C02_agreement_edit.

(* The agreement clause for whole SETTLED SCHEDULES: a session (playing, paused or stopped on an
   entry of a tracklist whose entries are all playable, consume off) stays settled - core and
   audio layer agree on entry and state, nothing pending - through EVERY finite sequence of
   client commands pause / resume / stop / play() / next / previous / play(tlid) / seek within
   the track, tracklist edits (add / move / shuffle / remove) that leave the playing entry in
   place and add only playable tracks, option changes (random / repeat / single, consume off),
   and natural ends of the playing track (about-to-finish
   with the announced successor), each
   issued after the notifications of the previous one were delivered (`ok`: the command fits
   the state, the announced successor/predecessor exists, the tlid exists, the seek is within
   the track). *)
Theorem C02_settled_schedule_agreement :
  forall shuf f ks w c,
  running w c -> all_ok shuf f w c ks ->
  running (fst (run_cmds shuf f w c ks)) (snd (run_cmds shuf f w c ks)).
Proof. exact settled_schedule_agreement. Qed.
Print Assumptions C02_settled_schedule_agreement.

(* what the invariant means for a client: the reported entry is current with nothing pending,
   the audio layer is in the reported state - running for "playing", not running for "paused",
   silent for "stopped" - and, unless stopped, it holds the reported entry's URI *)
Theorem C02_running_agrees :
  forall w c, running w c ->
  current w = Some c /\ pending w = None /\ queue w = [] /\ a_state w = pstate w
  /\ (pstate w <> Stopped -> a_uri w = Some (trk c)).
Proof. exact running_agrees. Qed.
Print Assumptions C02_running_agrees.

(* ---- A recorded known finding as a kernel-checked fact about the model: seek() from the
   stopped state with a current track leaves the core reporting `stopped` while the audio
   layer plays the track (play() is started, then _change(current, STOPPED) re-arms it). *)
Example C02_refuted_agreement_seek_from_stopped :
  let w := run_world shuf_concrete 400 (init_world 50 [Playable] [Some 1000] [] None None)
             [Add [0] None; Play None; Deliver; Deliver; Deliver; Deliver; Stop; Deliver; Deliver] in
  (pstate w = Stopped /\ option_map tlid (current w) = Some 1 /\ queue w = [] /\ a_uri w = None /\ a_state w = Stopped)
  /\ let w' := run_world shuf_concrete 400 w
                 [Seek 100; Deliver; Deliver; Deliver; Deliver; Deliver; Deliver; Deliver; Deliver] in
     pstate w' = Stopped /\ queue w' = [] /\ a_uri w' = Some 0 /\ a_state w' = Playing.
Proof. vm_compute. repeat split; reflexivity. Qed.
Print Assumptions C02_refuted_agreement_seek_from_stopped.

(* Reports of the audio layer that the core has to ignore: a position report that does not
   answer a pending seek, a state report of anything but `paused`, and a `paused` report while
   the core is paused already - each leaves the whole world as it is (no state change, no event). *)
Theorem C02_stray_position_report_ignored :
  forall w, pending_position w = None -> on_position_changed w = (Ok tt, w).
Proof. exact position_changed_noop. Qed.
Print Assumptions C02_stray_position_report_ignored.

Theorem C02_state_report_other_than_paused_ignored :
  forall o n w, n <> Paused -> on_state_changed o n w = (Ok tt, w).
Proof. exact state_changed_not_paused. Qed.
Print Assumptions C02_state_report_other_than_paused_ignored.

Theorem C02_paused_report_while_paused_ignored :
  forall o w, pstate w = Paused -> on_state_changed o Paused w = (Ok tt, w).
Proof. exact state_changed_paused_while_paused. Qed.
Print Assumptions C02_paused_report_while_paused_ignored.
