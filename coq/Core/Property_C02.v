(* C02 — Playback state and event stream stay coherent under every event schedule.
   A schedule is a list of operations in which Deliver hands the oldest pending audio
   notification to the core; "every interleaving" = "every list". *)
From Coq Require Import ZArith List Bool.
From Common Require Import Res.
From Core Require Import World Model Step Reach Rel_History Res_NoRaise Proofs_C02.
Import ListNotations.
Open Scope Z_scope.

(* T1+T3: for every schedule from the empty state, the events a listener has seen, replayed in
   order from `stopped`, form a gap-free playback_state_changed chain whose last new_state is
   the state currently reported; every track_playback_paused / resumed occurs while that
   chain is in paused / playing. *)
Theorem C02_state_chain :
  forall shuf fuel mx kinds lens scr vol mut ops,
  let w := run_world shuf fuel (init_world mx kinds lens scr vol mut) ops in
  replay Stopped (rev (events w)) = Some (pstate w).
Proof. exact state_chain_lemma. Qed.
Print Assumptions C02_state_chain.

Theorem C02_state_chain_step :
  forall shuf fuel w o, replay Stopped (rev (events w)) = Some (pstate w) ->
  let w' := stepw shuf fuel w o in replay Stopped (rev (events w')) = Some (pstate w').
Proof. exact state_chain_step_lemma. Qed.
Print Assumptions C02_state_chain_step.

(* T2: in any state, any operation of a running process (Load starts a new process, SetHistory
   is the harness's way of starting from a session with a long history): each track_playback_started adds exactly one entry for that
   track at the head of the history, and nothing else touches the history. *)
Theorem C02_started_feeds_history :
  forall shuf fuel o w, (forall c, o <> Load c) -> (forall ks, o <> SetHistory ks) ->
  let w' := stepw shuf fuel w o in
  exists new, events w' = new ++ events w /\ history w' = started new ++ history w.
Proof. exact started_feeds_history_lemma. Qed.
Print Assumptions C02_started_feeds_history.

(* T4: in any state (any pending notifications), an operation raises only its documented
   argument-validation error; backend failures never surface. *)
Theorem C02_schedule_no_raise :
  forall shuf fuel o w,
  match fst (run_op shuf fuel o w) with
  | Raise e => documented o e = true
  | _ => True
  end.
Proof. exact schedule_no_raise_lemma. Qed.
Print Assumptions C02_schedule_no_raise.
