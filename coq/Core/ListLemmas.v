(* Facts about the Python-list helpers of Model.v, relating them to firstn/skipn/++ and
   Permutation.  Used by the C01 theorems. *)
From Coq Require Import ZArith List Bool Lia ZifyBool Permutation.
From Core Require Import World Model.
Import ListNotations.
Open Scope Z_scope.

Lemma zlen_nonneg {A} (l : list A) : 0 <= zlen l.
Proof. unfold zlen. lia. Qed.

Lemma zlen_app {A} (a b : list A) : zlen (a ++ b) = zlen a + zlen b.
Proof. unfold zlen. rewrite app_length. lia. Qed.

Lemma zlen_cons {A} (x : A) l : zlen (x :: l) = zlen l + 1.
Proof. unfold zlen. change (length (x :: l)) with (S (length l)). lia. Qed.

Ltac case_ifs :=
  repeat match goal with
         | |- context [if ?b then _ else _] =>
             lazymatch b with
             | context [if _ then _ else _] => fail
             | _ => destruct b eqn:?
             end
         end.

Lemma clamp_in_range n i : 0 <= n -> 0 <= i <= n -> clamp_index n i = i.
Proof. intros Hn Hi. unfold clamp_index. cbv zeta. case_ifs; lia. Qed.

Lemma clamp_bounds n i : 0 <= n -> 0 <= clamp_index n i <= n.
Proof. intros Hn. unfold clamp_index. cbv zeta. case_ifs; lia. Qed.

Lemma clamp_big n i : 0 <= n -> n <= i -> clamp_index n i = n.
Proof. intros Hn Hi. unfold clamp_index. cbv zeta. case_ifs; lia. Qed.

(* ---------------------------------------------------------------- py_insert *)

Lemma py_insert_spec {A} (l : list A) i (x : A) :
  py_insert l i x = firstn (Z.to_nat (clamp_index (zlen l) i)) l ++ x :: skipn (Z.to_nat (clamp_index (zlen l) i)) l.
Proof. reflexivity. Qed.

Lemma py_insert_perm {A} (l : list A) i (x : A) : Permutation (py_insert l i x) (x :: l).
Proof.
  rewrite py_insert_spec. symmetry. etransitivity; [|apply Permutation_middle].
  rewrite firstn_skipn. reflexivity.
Qed.

Lemma py_insert_zlen {A} (l : list A) i (x : A) : zlen (py_insert l i x) = zlen l + 1.
Proof.
  unfold zlen. rewrite (Permutation_length (py_insert_perm l i x)). cbn [length]. lia.
Qed.

(* ---------------------------------------------------------------- remove_first / remove_all *)

Lemma remove_first_incl x l y : In y (remove_first x l) -> In y l.
Proof.
  induction l as [|z l IH]; cbn; [tauto|].
  destruct (tlt_eqb x z); cbn; intuition.
Qed.

Lemma remove_first_length x l : (length (remove_first x l) <= length l)%nat.
Proof. induction l as [|z l IH]; cbn; [lia|]. destruct (tlt_eqb x z); cbn; lia. Qed.

Lemma remove_first_map_incl x l i : In i (map tlid (remove_first x l)) -> In i (map tlid l).
Proof.
  rewrite !in_map_iff. intros [y [E H]]. exists y. split; [exact E|]. eapply remove_first_incl; eauto.
Qed.

Lemma remove_first_nodup x l : NoDup (map tlid l) -> NoDup (map tlid (remove_first x l)).
Proof.
  induction l as [|z l IH]; cbn; [auto|]. intros H. inversion H as [|? ? Hn Hd]; subst.
  destruct (tlt_eqb x z); [exact Hd|]. cbn. constructor; [|auto].
  intro Hin. apply Hn. eapply remove_first_map_incl; eauto.
Qed.

Lemma remove_first_forall (P : tlt -> Prop) x l : Forall P l -> Forall P (remove_first x l).
Proof.
  rewrite !Forall_forall. intros H y Hy. apply H. eapply remove_first_incl; eauto.
Qed.

Lemma remove_all_nodup ms l : NoDup (map tlid l) -> NoDup (map tlid (remove_all ms l)).
Proof.
  unfold remove_all. revert l. induction ms as [|m ms IH]; cbn; [auto|]. intros l H.
  apply IH. apply remove_first_nodup. exact H.
Qed.

Lemma remove_all_forall (P : tlt -> Prop) ms l : Forall P l -> Forall P (remove_all ms l).
Proof.
  unfold remove_all. revert l. induction ms as [|m ms IH]; cbn; [auto|]. intros l H.
  apply IH. apply remove_first_forall. exact H.
Qed.

Lemma remove_all_length ms l : (length (remove_all ms l) <= length l)%nat.
Proof.
  unfold remove_all. revert l. induction ms as [|m ms IH]; cbn; [lia|]. intros l.
  etransitivity; [apply IH|]. apply remove_first_length.
Qed.

Lemma remove_all_incl ms l y : In y (remove_all ms l) -> In y l.
Proof.
  unfold remove_all. revert l. induction ms as [|m ms IH]; cbn; [auto|]. intros l H.
  apply IH in H. eapply remove_first_incl; eauto.
Qed.

(* ---------------------------------------------------------------- slices *)

Lemma skipn_skipn' {A} (a b : nat) (l : list A) : skipn a (skipn b l) = skipn (a + b) l.
Proof.
  revert l. induction b as [|b IH]; intros l.
  - rewrite Nat.add_0_r. reflexivity.
  - rewrite Nat.add_succ_r. destruct l; [rewrite !skipn_nil; reflexivity|]. cbn [skipn]. apply IH.
Qed.

Lemma slice_prefix {A} (l : list A) s : 0 <= s <= zlen l ->
  py_slice l None (Some s) = firstn (Z.to_nat s) l.
Proof.
  intros H. unfold py_slice. rewrite clamp_in_range by (pose proof (zlen_nonneg l); lia).
  destruct (0 <? s) eqn:E.
  - cbn [skipn Z.to_nat]. rewrite Z.sub_0_r. reflexivity.
  - assert (s = 0) by lia. subst. reflexivity.
Qed.

Lemma slice_suffix {A} (l : list A) e : 0 <= e <= zlen l ->
  py_slice l (Some e) None = skipn (Z.to_nat e) l.
Proof.
  intros H. unfold py_slice. rewrite clamp_in_range by (pose proof (zlen_nonneg l); lia).
  destruct (e <? zlen l) eqn:E.
  - apply firstn_all2. rewrite skipn_length. unfold zlen. lia.
  - assert (e = zlen l) by lia. subst. unfold zlen. rewrite Nat2Z.id. rewrite skipn_all. reflexivity.
Qed.

Lemma slice_mid {A} (l : list A) s e : 0 <= s -> s <= e -> e <= zlen l ->
  py_slice l (Some s) (Some e) = firstn (Z.to_nat (e - s)) (skipn (Z.to_nat s) l).
Proof.
  intros H1 H2 H3. unfold py_slice. rewrite !clamp_in_range by (pose proof (zlen_nonneg l); lia).
  destruct (s <? e) eqn:E; [reflexivity|].
  assert (s = e) by lia. subst. rewrite Z.sub_diag. reflexivity.
Qed.

Lemma slices_partition {A} (l : list A) s e : 0 <= s -> s <= e -> e <= zlen l ->
  py_slice l None (Some s) ++ py_slice l (Some s) (Some e) ++ py_slice l (Some e) None = l.
Proof.
  intros H1 H2 H3.
  rewrite slice_prefix, slice_mid, slice_suffix by lia.
  replace (Z.to_nat e) with (Z.to_nat (e - s) + Z.to_nat s)%nat by lia.
  rewrite <- skipn_skipn', firstn_skipn, firstn_skipn. reflexivity.
Qed.

(* ---------------------------------------------------------------- insert_block / move *)

Lemma insert_block_perm b : forall l p, Permutation (insert_block l p b) (b ++ l).
Proof.
  induction b as [|x b IH]; intros l p; cbn [insert_block app]; [reflexivity|].
  rewrite IH. rewrite (py_insert_perm l p x). symmetry. apply Permutation_middle.
Qed.

Lemma firstn_succ_app {A} (a : list A) x c : firstn (S (length a)) (a ++ x :: c) = a ++ [x].
Proof. induction a as [|y a IH]; cbn [length app firstn]; [reflexivity|]. f_equal. exact IH. Qed.

Lemma skipn_succ_app {A} (a : list A) x c : skipn (S (length a)) (a ++ x :: c) = c.
Proof. induction a as [|y a IH]; cbn [length app skipn]; [reflexivity|]. exact IH. Qed.

(* inserting a block at position p (0 <= p) puts it, in order, after the first min p (len l)
   elements *)
Lemma insert_block_spec b : forall l p, 0 <= p ->
  insert_block l p b = firstn (Z.to_nat p) l ++ b ++ skipn (Z.to_nat p) l.
Proof.
  induction b as [|x b IH]; intros l p Hp; cbn [insert_block app].
  - rewrite firstn_skipn. reflexivity.
  - rewrite IH by lia. rewrite py_insert_spec.
    pose proof (zlen_nonneg l) as Hl.
    replace (Z.to_nat (p + 1)) with (S (Z.to_nat p)) by lia.
    destruct (Z_le_gt_dec p (zlen l)) as [Hle|Hgt].
    + rewrite clamp_in_range by lia.
      assert (Hk : (Z.to_nat p <= length l)%nat) by (unfold zlen in *; lia).
      assert (Ha : length (firstn (Z.to_nat p) l) = Z.to_nat p) by (rewrite firstn_length; lia).
      set (a := firstn (Z.to_nat p) l) in *. set (c := skipn (Z.to_nat p) l) in *.
      rewrite <- Ha.
      rewrite firstn_succ_app, skipn_succ_app, <- app_assoc. reflexivity.
    + rewrite clamp_big by lia.
      unfold zlen. rewrite Nat2Z.id, firstn_all, skipn_all.
      assert (H1 : (length l <= Z.to_nat p)%nat) by (unfold zlen in *; lia).
      rewrite (firstn_all2 (n := Z.to_nat p) l) by lia. rewrite (skipn_all2 (n := Z.to_nat p) l) by lia.
      assert (H2 : (length (l ++ [x]) <= S (Z.to_nat p))%nat) by (rewrite app_length; cbn [length]; lia).
      rewrite firstn_all2 by exact H2. rewrite skipn_all2 by exact H2.
      rewrite !app_nil_r, <- app_assoc. reflexivity.
Qed.

Lemma move_list_perm s e p l : 0 <= s -> s <= e -> e <= zlen l -> Permutation (move_list s e p l) l.
Proof.
  intros H1 H2 H3. unfold move_list. rewrite insert_block_perm.
  rewrite <- (slices_partition l s e) at 4 by lia.
  rewrite Permutation_app_comm, <- app_assoc. apply Permutation_app_head. apply Permutation_app_comm.
Qed.

(* move relocates the slice, keeping its order, to position p of the remaining list *)
Lemma move_list_spec s e p l : 0 <= s -> s <= e -> e <= zlen l -> 0 <= p ->
  let rest := firstn (Z.to_nat s) l ++ skipn (Z.to_nat e) l in
  let block := firstn (Z.to_nat (e - s)) (skipn (Z.to_nat s) l) in
  move_list s e p l = firstn (Z.to_nat p) rest ++ block ++ skipn (Z.to_nat p) rest.
Proof.
  intros H1 H2 H3 H4. cbn zeta. unfold move_list.
  rewrite slice_prefix, slice_mid, slice_suffix by lia.
  apply insert_block_spec. exact H4.
Qed.

(* ---------------------------------------------------------------- shuffle *)

Section Shuffle.
Variable shuf : Z -> list tlt -> list tlt.
Hypothesis shuf_perm : forall sd l, Permutation (shuf sd l) l.

Definition shuffle_valid (n : Z) (s e : option Z) : bool :=
  negb ((match s, e with Some s, Some e => e <=? s | _, _ => false end)
        || (match s with Some s => s <? 0 | None => false end)
        || (match e with Some e => n <? e | None => false end)).

Lemma slice_none_some {A} (l : list A) e :
  py_slice l None (Some e) ++ py_slice l (Some e) None = l.
Proof.
  pose proof (zlen_nonneg l) as Hn. pose proof (clamp_bounds (zlen l) e Hn) as Hc.
  unfold py_slice. set (c := clamp_index (zlen l) e) in *.
  destruct (0 <? c) eqn:E1; destruct (c <? zlen l) eqn:E2; cbn [skipn Z.to_nat].
  - rewrite Z.sub_0_r. rewrite (firstn_all2 (skipn _ _)) by (rewrite skipn_length; unfold zlen; lia).
    apply firstn_skipn.
  - rewrite Z.sub_0_r, app_nil_r. apply firstn_all2. unfold zlen in *. lia.
  - assert (c = 0) by lia. replace (Z.to_nat c) with 0%nat by lia. cbn [skipn app].
    apply firstn_all2. unfold zlen. lia.
  - assert (c = 0) by lia. assert (zlen l = 0) by lia. destruct l; [reflexivity|].
    rewrite zlen_cons in *. pose proof (zlen_nonneg l). lia.
Qed.

Lemma slice_to_end {A} (l : list A) s : 0 <= s ->
  py_slice l None (Some s) ++ py_slice l (Some s) None = l.
Proof. intros _. apply slice_none_some. Qed.

Lemma shuffle_partition s e (l : list tlt) :
  shuffle_valid (zlen l) s e = true ->
  py_slice l None (Some (match s with Some s => s | None => 0 end)) ++ py_slice l s e
    ++ (match e with Some e => py_slice l (Some e) None | None => @nil tlt end) = l.
Proof.
  unfold shuffle_valid. intros Hv.
  apply negb_true_iff in Hv. apply orb_false_iff in Hv. destruct Hv as [Hv H3].
  apply orb_false_iff in Hv. destruct Hv as [H1 H2].
  pose proof (zlen_nonneg l) as Hn.
  assert (Hnil : py_slice l None (Some 0) = []).
  { unfold py_slice. rewrite clamp_in_range by lia. reflexivity. }
  destruct s as [s|], e as [e|].
  - apply slices_partition; lia.
  - rewrite app_nil_r. apply slice_to_end. lia.
  - rewrite Hnil. cbn [app]. apply slice_none_some.
  - rewrite Hnil, app_nil_r. cbn [app]. unfold py_slice.
    destruct (0 <? zlen l) eqn:E.
    + cbn [skipn Z.to_nat]. rewrite Z.sub_0_r. unfold zlen. rewrite Nat2Z.id, firstn_all. reflexivity.
    + assert (zlen l = 0) by lia. destruct l; [reflexivity|].
      rewrite zlen_cons in *. pose proof (zlen_nonneg l). lia.
Qed.

Lemma shuffle_list_perm sd s e l :
  shuffle_valid (zlen l) s e = true -> Permutation (shuffle_list shuf sd s e l) l.
Proof.
  intros Hv. unfold shuffle_list.
  pose proof (shuffle_partition s e l Hv) as Hp.
  set (b := py_slice l None _) in *. set (m := py_slice l s e) in *.
  set (a := match e with Some e0 => py_slice l (Some e0) None | None => [] end) in *.
  rewrite <- Hp.
  apply Permutation_app_head. apply Permutation_app_tail. apply shuf_perm.
Qed.

(* the slice boundaries: everything before and after the chosen slice is untouched *)
Lemma shuffle_list_frame sd s e l :
  shuffle_list shuf sd s e l =
  py_slice l None (Some (match s with Some s => s | None => 0 end)) ++ shuf sd (py_slice l s e)
    ++ (match e with Some e => py_slice l (Some e) None | None => @nil tlt end).
Proof. reflexivity. Qed.
End Shuffle.
