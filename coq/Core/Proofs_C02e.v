(* C02 agreement clause at the level of whole SCHEDULES: for a running player (playing or
   paused on an entry of a tracklist whose entries are all playable, consume off), every finite
   sequence of client commands - pause, resume, next, previous, play(tlid), seek within the
   track - each issued after the notifications of the previous one were delivered, keeps the
   player settled: the core's state and current entry agree with the audio layer after every
   command.  Induction over the command list on top of the single-command theorems (the ones named ..._full). *)
From Coq Require Import ZArith List Bool Lia ZifyBool.
From RecordUpdate Require Import RecordSet.
From Common Require Import Res.
From Core Require Import World Hoare Model Step Reach Proofs_C03b Proofs_C03f Proofs_C02b Proofs_C10b Proofs_C02c Proofs_C03c Proofs_C02d.
Import ListNotations RecordSetNotations.
Open Scope Z_scope.

Section P.
Variable shuf : Z -> list tlt -> list tlt.

Record running (w : world) (c : tlt) : Prop := {
  rn_settled : settled_on w c;
  rn_state : pstate w = Playing \/ pstate w = Paused \/ pstate w = Stopped;
  rn_consume : consume w = false;
  rn_fresh : a_fresh w = false;
  rn_atf : a_atf_done w = false;
  rn_script : script w = [];
  rn_in : In c (World.tl w);
  rn_play : forall y, In y (World.tl w) ->
            kind_of w (trk y) = Playable /\ exists len, len_of w (trk y) = Some len
}.

Inductive cmd :=
| CPause | CResume
| CNext (x : tlt)            (* x: the entry get_next_tlid announces *)
| CPrevious (x : tlt)
| CPlay (i : Z) (x : tlt)    (* play(tlid=i), x the entry with that ID *)
| CSeek (p : Z)
| CEot (x : tlt)             (* the natural end of the track; x: the entry get_eot_tlid announces *)
| CStop
| CPlay0                     (* play() while stopped: the current entry starts again *)
| CEdit (o : op)             (* add / move / shuffle / remove that leaves the playing entry in place *)
| CSetMode (which : Z) (v : bool).   (* an option change (consume may only be switched off) *)

Definition D := Deliver.
Definition ops_of (st : ps) (c : cmd) : list op :=
  match c with
  | CPause => [Pause; D; D]
  | CResume => [Resume; D; D; D]
  | CNext _ => match st with Paused => [Next; D; D; D] | _ => [Next; D; D; D; D] end
  | CPrevious _ => match st with Paused => [Previous; D; D; D] | _ => [Previous; D; D; D; D] end
  | CPlay i _ => [Play (Some i); D; D; D; D]
  | CSeek p => [Seek p; D]
  | CEot _ => [AboutToFinish; D; D]
  | CStop => [Stop; D; D]
  | CPlay0 => [Play None; D; D; D; D]
  | CEdit o => [o]
  | CSetMode which v => [SetMode which v]
  end.

Definition target (c : tlt) (k : cmd) : tlt :=
  match k with CNext x | CPrevious x | CPlay _ x | CEot x => x | _ => c end.

(* what the client has to respect: the command fits the state, next/previous have a successor /
   predecessor (the announced one), the tlid exists, the seek stays within the track *)
Definition ok (f : nat) (w : world) (c : tlt) (k : cmd) : Prop :=
  match k with
  | CPause => pstate w = Playing
  | CResume => pstate w = Paused
  | CNext x => pstate w <> Stopped /\ next_track shuf (Some c) w = (Ok (Some x), w) /\ In x (World.tl w)
  | CPrevious x => pstate w <> Stopped /\ previous_track (Some c) w = (Ok (Some x), w) /\ In x (World.tl w)
  | CPlay i x => 1 <= i /\ find (fun y => tlid y =? i) (World.tl w) = Some x
  | CSeek p => pstate w <> Stopped /\ exists len, len_of w (trk c) = Some len /\ 0 <= p <= len
  | CEot x => pstate w = Playing /\ announces_eot shuf w c x /\ In x (World.tl w)
  | CStop => pstate w <> Stopped
  | CPlay0 => pstate w = Stopped
  | CEdit o =>
      is_edit o = true /\
      let w1 := snd (run_op shuf (S f) o w) in
      mem_tlt c (World.tl w1) = true
      /\ (forall y, In y (World.tl w1) -> kind_of w (trk y) = Playable /\ exists len, len_of w (trk y) = Some len)
  | CSetMode which v => (which =? 0) = false \/ v = false
  end.

Lemma running_accepts w c x : running w c -> In x (World.tl w) -> accepts w x.
Proof.
  intros R Hin. destruct (rn_play w c R x Hin) as [Hk _]. split; [exact Hk|].
  rewrite (rn_script w c R). reflexivity.
Qed.

Lemma running_next w c x w' st :
  running w c -> In x (World.tl w) -> settled_on w' x -> stable w w' -> pstate w' = st ->
  (st = Playing \/ st = Paused \/ st = Stopped) -> running w' x.
Proof.
  intros R Hin Hs (T & K & L & C & Rn & Rp & Sg & Sc & Fr & At) Hst Hor.
  constructor.
  - exact Hs.
  - rewrite Hst. exact Hor.
  - rewrite C. exact (rn_consume w c R).
  - apply Fr. exact (rn_fresh w c R).
  - apply At. exact (rn_atf w c R).
  - apply Sc. exact (rn_script w c R).
  - rewrite T. exact Hin.
  - intros y Hy. rewrite T in Hy. unfold kind_of, len_of. rewrite K, L. exact (rn_play w c R y Hy).
Qed.

Theorem play_other_agreement_full f i x c w :
  settled_on w c -> consume w = false -> 1 <= i ->
  find (fun y => tlid y =? i) (World.tl w) = Some x -> accepts w x ->
  let w' := run_world shuf (S f) w [Play (Some i); Deliver; Deliver; Deliver; Deliver] in
  settled_on w' x /\ stable w w' /\ pstate w' = Playing.
Proof.
  intros [Hq Hp Hpp Hsa Hsp Hpf Hc Hb Ha] Hco Hi Hf Hacc.
  pose proof (play_some_run shuf f i x c w Hi Hf Hc Hpp Hb Hacc) as E1.
  set (w1 := fx_change x Playing w) in *.
  assert (G1 : get_time_position w1 = (Ok (a_pos w1), fx_gtp w1)).
  { apply (gtp_run w1 c); [exact Hpp|exact Hc|exact Hb]. }
  cbv zeta. rewrite (run_world_cons shuf).
  rewrite (stepw_eq shuf (S f) (Play (Some i)) w RNone w1 _ _ (run_op_bind_none _ w tt w1 E1) G1).
  destruct (change_settles_full shuf f x c w Hq Hpp Hsa Hsp Hc Hb Hco Hacc) as (A & B & _ & C & _).
  split; [exact A|split; [exact B|exact C]].
Qed.

Theorem play_stopped_agreement_full f c w :
  settled_on w c -> pstate w = Stopped -> consume w = false -> accepts w c ->
  let w' := run_world shuf (S f) w [Play None; Deliver; Deliver; Deliver; Deliver] in
  settled_on w' c /\ stable w w' /\ pstate w' = Playing.
Proof.
  intros [Hq Hp Hpp Hsa Hsp Hpf Hc Hb Ha] Hst Hco Hacc.
  assert (Hnp : pstate w <> Paused) by (rewrite Hst; discriminate).
  pose proof (play_none_run shuf f c w Hnp Hp Hc Hpp Hb Hacc) as E1.
  set (w1 := fx_change c Playing w) in *.
  assert (G1 : get_time_position w1 = (Ok (a_pos w1), fx_gtp w1)).
  { apply (gtp_run w1 c); [exact Hpp|exact Hc|exact Hb]. }
  cbv zeta. rewrite (run_world_cons shuf).
  rewrite (stepw_eq shuf (S f) (Play None) w RNone w1 _ _ (run_op_bind_none _ w tt w1 E1) G1).
  destruct (change_settles_full shuf f c c w Hq Hpp Hsa Hsp Hc Hb Hco Hacc) as (A & B & _ & C & _).
  split; [exact A|split; [exact B|exact C]].
Qed.

(* the end-of-track block leaves the audio layer's "fresh stream" flag cleared *)
Lemma eot_block_fresh f x c len w :
  settled_on w c -> pstate w = Playing -> consume w = false -> a_atf_done w = false ->
  len_of w (trk c) = Some len -> accepts w x -> announces_eot shuf w c x ->
  a_fresh (run_world shuf (S f) w [AboutToFinish; Deliver; Deliver]) = false.
Proof.
  intros [Hq Hp Hpp Hsa Hsp Hpf Hc Hb Ha] Hst Hco Hd Hlen Hacc Hann. rewrite Hst in Ha. destruct Ha as [Hu Has].
  unfold run_world. cbn [fold_left].
  assert (Hk := proj1 Hacc).
  assert (Hbx : forall w0, tkinds w0 = tkinds w -> tkind_has_backend (kind_of w0 (trk x)) = true).
  { intros w0 E. unfold kind_of in *. rewrite E, Hk. reflexivity. }
  assert (Hns : pstate w <> Stopped) by (rewrite Hst; discriminate).
  pose proof (about_to_finish_run shuf f x c len w Hns Hc Hlen Hu Has Hd Hacc Hann) as E1.
  set (w1 := fx_about_to_finish x len w) in *.
  assert (G1 : get_time_position w1 = (Ok (a_pos w1), fx_gtp w1)).
  { apply (gtp_run w1 c); [exact Hpp|exact Hc|exact Hb]. }
  rewrite (stepw_eq shuf (S f) AboutToFinish w RNone w1 _ _ (run_op_bind_none _ w tt w1 E1) G1).
  set (w1' := fx_gtp w1).
  assert (Q1 : queue w1' = [NPositionChanged 0; NStreamChanged (Some (trk x))]).
  { unfold w1', w1, fx_gtp, fx_about_to_finish, fx_tail, fx_handler, fx_attempt. cbn. rewrite Hq. reflexivity. }
  pose proof (deliver_run shuf (S f) _ _ w1' Q1) as D1. cbv beta iota in D1.
  rewrite position_changed_noop in D1 by exact Hpp.
  set (w2 := w1' <| queue := [NStreamChanged (Some (trk x))] |>) in *.
  assert (G2 : get_time_position w2 = (Ok (a_pos w2), fx_gtp w2)).
  { apply (gtp_run w2 c); [exact Hpp|exact Hc|exact Hb]. }
  rewrite (stepw_eq shuf (S f) Deliver w1' RNone w2 _ _ (run_op_bind_none _ w1' tt w2 D1) G2).
  set (w2' := fx_gtp w2).
  assert (Q2 : queue w2' = [NStreamChanged (Some (trk x))]) by reflexivity.
  pose proof (deliver_run shuf (S f) _ _ w2' Q2) as D2. cbv beta iota in D2.
  set (w2q := w2' <| queue := [] |>) in *.
  assert (S2 : on_stream_changed shuf (S f) w2q = (Ok tt, fx_promote x c len w2q)).
  { apply stream_changed_run; try reflexivity; unfold w2q, w2', w2, w1', w1; cbn; assumption. }
  rewrite S2 in D2.
  set (w3 := fx_promote x c len w2q) in *.
  assert (G3 : get_time_position w3 = (Ok (a_pos w3), fx_gtp w3)).
  { apply (gtp_run w3 x); [exact Hpp|reflexivity|apply Hbx; reflexivity]. }
  rewrite (stepw_eq shuf (S f) Deliver w2' RNone w3 _ _ (run_op_bind_none _ w2' tt w3 D2) G3).
  reflexivity.
Qed.

(* ---- tracklist edits *)
Lemma mem_tlt_in c l : mem_tlt c l = true -> In c l.
Proof.
  unfold mem_tlt. intros H. apply existsb_exists in H. destruct H as (y & Hy & E).
  unfold tlt_eqb in E. apply andb_true_iff in E. destruct E as [E1 E2].
  destruct c as [ci ct], y as [yi yt]. cbn in E1, E2.
  assert (ci = yi) by lia. assert (ct = yt) by lia. subst. exact Hy.
Qed.

Lemma running_pb w w1 c :
  running w c -> pb_same w w1 -> In c (World.tl w1) ->
  (forall y, In y (World.tl w1) -> kind_of w (trk y) = Playable /\ exists len, len_of w (trk y) = Some len) ->
  running w1 c.
Proof.
  intros R P Hin Hall. destruct P. destruct (rn_settled w c R) as [Hq Hp Hpp Hsa Hsp Hpf Hc Hb Ha].
  constructor.
  - constructor; try congruence.
    + unfold kind_of in *. rewrite pb_kinds. exact Hb.
    + rewrite pb_pstate, pb_uri, pb_astate. exact Ha.
  - rewrite pb_pstate. exact (rn_state w c R).
  - rewrite pb_consume. exact (rn_consume w c R).
  - rewrite pb_fresh. exact (rn_fresh w c R).
  - rewrite pb_atf. exact (rn_atf w c R).
  - rewrite pb_script. exact (rn_script w c R).
  - exact Hin.
  - intros y Hy. unfold kind_of, len_of. rewrite pb_kinds, pb_lens. exact (Hall y Hy).
Qed.

Lemma running_gtp w c : running w c -> running (fx_gtp w) c.
Proof.
  intros R. destruct (rn_settled w c R) as [Hq Hp Hpp Hsa Hsp Hpf Hc Hb Ha].
  constructor.
  - constructor; assumption.
  - exact (rn_state w c R).
  - exact (rn_consume w c R).
  - exact (rn_fresh w c R).
  - exact (rn_atf w c R).
  - exact (rn_script w c R).
  - exact (rn_in w c R).
  - exact (rn_play w c R).
Qed.

Lemma edit_keeps_running f o c w :
  running w c -> is_edit o = true ->
  mem_tlt c (World.tl (snd (run_op shuf (S f) o w))) = true ->
  (forall y, In y (World.tl (snd (run_op shuf (S f) o w))) ->
             kind_of w (trk y) = Playable /\ exists len, len_of w (trk y) = Some len) ->
  running (run_world shuf (S f) w [o]) c.
Proof.
  intros R He Hm Hall. destruct (run_op shuf (S f) o w) as [r w1] eqn:E. cbn [snd] in *.
  destruct (rn_settled w c R) as [Hq Hp Hpp Hsa Hsp Hpf Hc Hb Ha].
  pose proof (edit_keeps_playback shuf (S f) o c w r w1 He Hc E Hm) as P.
  assert (R1 : running w1 c) by (apply (running_pb w w1 c R P); [apply mem_tlt_in; exact Hm|exact Hall]).
  unfold run_world. cbn [fold_left]. unfold stepw, step. rewrite E.
  assert (Ho : match o with Load _ => False | _ => True end) by (destruct o; try discriminate; exact I).
  destruct r as [v|e|].
  - destruct (rn_settled w1 c R1) as [_ _ Hpp1 _ _ _ Hc1 Hb1 _].
    rewrite (gtp_run w1 c Hpp1 Hc1 Hb1). cbn [fst]. destruct o; try discriminate; apply running_gtp; exact R1.
  - destruct (rn_settled w1 c R1) as [_ _ Hpp1 _ _ _ Hc1 Hb1 _].
    rewrite (gtp_run w1 c Hpp1 Hc1 Hb1). cbn [fst]. destruct o; try discriminate; apply running_gtp; exact R1.
  - cbn [fst]. destruct o; try discriminate; exact R1.
Qed.

(* ---- option changes *)
Lemma running_ext w w1 c :
  running w c ->
  queue w1 = queue w -> pending w1 = pending w -> pending_position w1 = pending_position w ->
  start_at_position w1 = start_at_position w -> start_paused w1 = start_paused w ->
  previous_flag w1 = previous_flag w -> current w1 = current w -> tkinds w1 = tkinds w -> tlens w1 = tlens w ->
  pstate w1 = pstate w -> a_uri w1 = a_uri w -> a_state w1 = a_state w ->
  consume w1 = false -> a_fresh w1 = a_fresh w -> a_atf_done w1 = a_atf_done w -> script w1 = script w ->
  World.tl w1 = World.tl w -> running w1 c.
Proof.
  intros R E1 E2 E3 E4 E5 E6 E7 E8 E9 E10 E11 E12 E13 E14 E15 E16 E17.
  destruct (rn_settled w c R) as [Hq Hp Hpp Hsa Hsp Hpf Hc Hb Ha].
  constructor.
  - constructor; try congruence.
    + unfold kind_of in *. rewrite E8. exact Hb.
    + rewrite E10, E11, E12. exact Ha.
  - rewrite E10. exact (rn_state w c R).
  - exact E13.
  - rewrite E14. exact (rn_fresh w c R).
  - rewrite E15. exact (rn_atf w c R).
  - rewrite E16. exact (rn_script w c R).
  - rewrite E17. exact (rn_in w c R).
  - intros y Hy. rewrite E17 in Hy. unfold kind_of, len_of. rewrite E8, E9. exact (rn_play w c R y Hy).
Qed.

Lemma set_mode_running which v c w r w' :
  running w c -> (which =? 0) = false \/ v = false ->
  set_mode shuf which v w = (r, w') -> running w' c.
Proof.
  intros R Hv E. pose proof (rn_consume w c R) as Hco.
  unfold set_mode, emit, do_shuffle, bind, get, modify, ret in E.
  destruct (which =? 0) eqn:E0.
  - destruct Hv as [Hv|Hv]; [discriminate|]. subst v.
    destruct (negb (Bool.eqb (consume w) false)); cbn in E; inversion E; subst;
      apply (running_ext w _ c R); try reflexivity.
  - destruct (which =? 1) eqn:E1; [|destruct (which =? 2) eqn:E2].
    + destruct (negb (Bool.eqb (random w) v)), v; cbn in E; inversion E; subst;
        apply (running_ext w _ c R); try reflexivity; exact Hco.
    + destruct (negb (Bool.eqb (repeat w) v)); cbn in E; inversion E; subst;
        apply (running_ext w _ c R); try reflexivity; exact Hco.
    + destruct (negb (Bool.eqb (single w) v)); cbn in E; inversion E; subst;
        apply (running_ext w _ c R); try reflexivity; exact Hco.
Qed.

Lemma set_mode_keeps_running f which v c w :
  running w c -> (which =? 0) = false \/ v = false ->
  running (run_world shuf (S f) w [SetMode which v]) c.
Proof.
  intros R Hv. unfold run_world. cbn [fold_left]. unfold stepw, step. cbn [run_op].
  destruct (set_mode shuf which v w) as [r0 w1] eqn:E.
  pose proof (set_mode_running which v c w r0 w1 R Hv E) as R1.
  unfold bind. rewrite E.
  destruct (rn_settled w1 c R1) as [_ _ Hpp1 _ _ _ Hc1 Hb1 _].
  destruct r0 as [[]|e|]; cbn [fst].
  - unfold ret. rewrite (gtp_run w1 c Hpp1 Hc1 Hb1). apply running_gtp. exact R1.
  - rewrite (gtp_run w1 c Hpp1 Hc1 Hb1). apply running_gtp. exact R1.
  - exact R1.
Qed.

(* one command keeps the player running and settled *)
Theorem command_keeps_running f k c w :
  running w c -> ok f w c k ->
  running (run_world shuf (S f) w (ops_of (pstate w) k)) (target c k).
Proof.
  intros R Hok. pose proof (rn_settled w c R) as Hs. pose proof (rn_consume w c R) as Hco.
  pose proof (rn_fresh w c R) as Hfr.
  destruct k as [| |x|x|i x|p|x| | |o|which v]; cbn [ok ops_of target] in *.
  - (* pause *)
    destruct (pause_agreement_full shuf (S f) c w Hs Hok Hfr) as (A & B & _ & C & _).
    apply (running_next w c c _ Paused R (rn_in w c R) A B C). right; left; reflexivity.
  - (* resume *)
    destruct (resume_agreement_full shuf (S f) c w Hs Hok Hfr) as (A & B & _ & C & _).
    apply (running_next w c c _ Playing R (rn_in w c R) A B C). left; reflexivity.
  - (* next *)
    destruct Hok as (Hns & Hn & Hin). pose proof (running_accepts w c x R Hin) as Hacc.
    destruct (rn_state w c R) as [Hst|[Hst|Hst]]; [| |contradiction]; rewrite Hst.
    + destruct (next_prediction_playing_full shuf f x c w Hs Hst Hco Hacc Hn) as (A & B & _ & C & _).
      apply (running_next w c x _ Playing R Hin A B C). left; reflexivity.
    + destruct (next_prediction_paused_full shuf f x c w Hs Hst Hco Hacc Hn) as (A & B & _ & C & _).
      apply (running_next w c x _ Paused R Hin A B C). right; left; reflexivity.
  - (* previous *)
    destruct Hok as (Hns & Hn & Hin). pose proof (running_accepts w c x R Hin) as Hacc.
    destruct (rn_state w c R) as [Hst|[Hst|Hst]]; [| |contradiction]; rewrite Hst.
    + destruct (previous_prediction_playing_full shuf f x c w Hs Hst Hco Hacc Hn) as (A & B & _ & C & _).
      apply (running_next w c x _ Playing R Hin A B C). left; reflexivity.
    + destruct (previous_prediction_paused_full shuf f x c w Hs Hst Hco Hacc Hn) as (A & B & _ & C & _).
      apply (running_next w c x _ Paused R Hin A B C). right; left; reflexivity.
  - (* play(tlid) *)
    destruct Hok as [Hi Hf]. assert (Hin : In x (World.tl w)) by (apply find_some in Hf; tauto).
    pose proof (running_accepts w c x R Hin) as Hacc.
    destruct (play_other_agreement_full f i x c w Hs Hco Hi Hf Hacc) as (A & B & C).
    apply (running_next w c x _ Playing R Hin A B C). left; reflexivity.
  - (* seek *)
    destruct Hok as (Hns & len & Hlen & Hp0 & Hle).
    assert (Htl : World.tl w <> []) by (intro E; pose proof (rn_in w c R) as Hin; rewrite E in Hin; exact Hin).
    destruct (seek_agreement_full shuf f p c len w Hs Hns Htl Hlen Hp0 Hle) as (A & B & _ & C & _).
    apply (running_next w c c _ (pstate w) R (rn_in w c R) A B C). exact (rn_state w c R).
  - (* the natural end of the track *)
    destruct Hok as (Hst & Hann & Hin). pose proof (running_accepts w c x R Hin) as Hacc.
    destruct (rn_play w c R c (rn_in w c R)) as [_ [len Hlen]].
    pose proof (eot_block_fresh f x c len w Hs Hst Hco (rn_atf w c R) Hlen Hacc Hann) as Hfresh.
    destruct (eot_block shuf f x c len w Hs Hst Hco (rn_atf w c R) Hlen Hacc Hann)
      as (A & B & Dn & (T & K & L & C & Rn & Rp & Sg & Sc) & _).
    apply (running_next w c x _ Playing R Hin A); [|exact B|left; reflexivity].
    unfold stable. repeat split; try assumption.
    + intros Hs0. rewrite Sc, Hs0. reflexivity.
    + intros _. exact Hfresh.
    + intros _. exact Dn.
  - (* stop *)
    destruct (stop_agreement_full shuf (S f) c w Hs Hok Hco) as (A & B & _ & C & _).
    apply (running_next w c c _ Stopped R (rn_in w c R) A B C). right; right; reflexivity.
  - (* play() while stopped *)
    pose proof (running_accepts w c c R (rn_in w c R)) as Hacc.
    destruct (play_stopped_agreement_full f c w Hs Hok Hco Hacc) as (A & B & C).
    apply (running_next w c c _ Playing R (rn_in w c R) A B C). left; reflexivity.
  - (* an edit that leaves the playing entry in place *)
    destruct Hok as (He & Hm & Hall). apply edit_keeps_running; assumption.
  - (* an option change *)
    apply set_mode_keeps_running; assumption.
Qed.

(* schedules *)
Fixpoint run_cmds (f : nat) (w : world) (c : tlt) (ks : list cmd) : world * tlt :=
  match ks with
  | [] => (w, c)
  | k :: rest => run_cmds f (run_world shuf (S f) w (ops_of (pstate w) k)) (target c k) rest
  end.

Fixpoint all_ok (f : nat) (w : world) (c : tlt) (ks : list cmd) : Prop :=
  match ks with
  | [] => True
  | k :: rest => ok f w c k /\ all_ok f (run_world shuf (S f) w (ops_of (pstate w) k)) (target c k) rest
  end.

Theorem settled_schedule_agreement f : forall ks w c,
  running w c -> all_ok f w c ks ->
  running (fst (run_cmds f w c ks)) (snd (run_cmds f w c ks)).
Proof.
  induction ks as [|k ks IH]; intros w c R Hok; [exact R|].
  cbn [run_cmds all_ok] in *. destruct Hok as [Hk Hrest].
  apply IH; [apply command_keeps_running; assumption|exact Hrest].
Qed.

(* what `running` means for a client: the reported state and entry are the audio layer's *)
Corollary running_agrees w c :
  running w c ->
  current w = Some c /\ pending w = None /\ queue w = [] /\ a_state w = pstate w
  /\ (pstate w <> Stopped -> a_uri w = Some (trk c)).
Proof.
  intros R. destruct (rn_settled w c R) as [Hq Hp _ _ _ _ Hc _ Ha].
  destruct (rn_state w c R) as [E|[E|E]]; rewrite E in *.
  - destruct Ha as [Hu Has]. repeat split; auto.
  - destruct Ha as [Hu Has]. repeat split; auto.
  - repeat split; auto. intros H; contradiction.
Qed.

End P.

(* non-vacuity: the reachable state of Proofs_C03b is a running player, and a schedule of six
   commands is admissible from it *)
Example running_example : running w_example (mkTlt 1 0).
Proof.
  constructor; try (vm_compute; auto; fail).
  - constructor; vm_compute; auto.
  - intros y Hy. vm_compute in Hy. destruct Hy as [<-|[<-|[<-|[]]]]; vm_compute; eauto.
Qed.

Example schedule_example :
  all_ok shuf_concrete 10 w_example (mkTlt 1 0)
    [CNext (mkTlt 2 1); CPause; CSeek 300; CNext (mkTlt 3 2); CResume; CPlay 1 (mkTlt 1 0); CStop; CPlay0; CPause; CStop].
Proof.
  cbn [all_ok ok target].
  repeat match goal with
         | |- _ /\ _ => split
         | |- exists len, _ => exists 900; split; [vm_compute; reflexivity|lia]
         | |- True => exact I
         | |- _ <= _ => lia
         | |- _ <> _ => vm_compute; discriminate
         | |- In _ _ => vm_compute; auto
         | |- _ = _ => vm_compute; reflexivity
         end.
Qed.

Example schedule_example_eot :
  all_ok shuf_concrete 10 w_example (mkTlt 1 0) [CEot (mkTlt 2 1); CPause; CResume; CEot (mkTlt 3 2)].
Proof.
  cbn [all_ok ok target ops_of].
  split; [split; [vm_compute; reflexivity|split; [|vm_compute; auto]]|].
  - apply (eot_seq shuf_concrete [] (mkTlt 1 0) (mkTlt 2 1) [mkTlt 3 2]); [vm_compute; reflexivity| |vm_compute; auto].
    vm_compute. repeat constructor; cbn; intuition discriminate.
  - split; [vm_compute; reflexivity|].
    split; [vm_compute; reflexivity|].
    split; [|exact I].
    split; [vm_compute; reflexivity|split; [|vm_compute; auto]].
    match goal with |- announces_eot _ ?w _ _ =>
      apply (eot_seq shuf_concrete [mkTlt 1 0] (mkTlt 2 1) (mkTlt 3 2) [] w); [vm_compute; reflexivity| |vm_compute; auto]
    end.
    vm_compute. repeat constructor; cbn; intuition discriminate.
Qed.

Example schedule_example_edit :
  all_ok shuf_concrete 10 w_example (mkTlt 1 0)
    [CEdit (Add [2; 1] (Some 1)); CSetMode 1 true; CPause; CEdit (Remove (mkCrit (Some [2]) None)); CSetMode 2 true; CResume].
Proof.
  cbn [all_ok ok target ops_of].
  repeat match goal with
         | |- _ /\ _ => split
         | |- True => exact I
         | |- _ \/ _ => left; reflexivity
         | |- forall y, In y _ -> _ =>
             let y := fresh "y" in let Hy := fresh "Hy" in
             intros y Hy; vm_compute in Hy;
             repeat (destruct Hy as [<-|Hy]; [vm_compute; eauto|]); contradiction
         | |- _ = _ => vm_compute; reflexivity
         end.
Qed.

Lemma state_changed_paused_while_paused o w : pstate w = Paused -> on_state_changed o Paused w = (Ok tt, w).
Proof. intros H. unfold on_state_changed, bind, get. rewrite H. reflexivity. Qed.
