(* C10 at position 0: a session saved right at the start of a track (playing or paused) comes
   back on the same entry, in the same state, at position 0 (no seek is issued; a paused session
   is paused as soon as the restored stream starts). *)
From Coq Require Import ZArith List Bool Lia ZifyBool.
From RecordUpdate Require Import RecordSet.
From Common Require Import Res.
From Core Require Import World Hoare Model Step Reach ListLemmas Proofs_C10 Proofs_C03b Proofs_C02b Proofs_C10b Proofs_C02c Proofs_C02d Proofs_C10c CostN.
Import ListNotations RecordSetNotations.
Open Scope Z_scope.

Section P.
Variable shuf : Z -> list tlt -> list tlt.

Lemma stream_changed_zero_run f x w :
  pending w = Some x -> current w = None -> pending_position w = None -> last_position w = Some 0 ->
  start_at_position w = Some 0 -> start_paused w = false ->
  on_stream_changed shuf (S f) w = (Ok tt, fx_first_started x w).
Proof.
  intros Hp Hc Hpp Hl Hsa Hsp. unfold on_stream_changed, fx_first_started.
  assert (E0 : get w = (Ok w, w)) by reflexivity. step E0. rewrite Hl.
  set (w1 := w <| last_position := None |>).
  assert (E1 : (modify (fun w => w <| last_position := None |>) ;; ret 0)%M w = (Ok 0, w1)) by reflexivity.
  step E1.
  assert (E2 : get w1 = (Ok w1, w1)) by reflexivity. step E2.
  change (pending_position w1) with (pending_position w). rewrite Hpp. cbn [is_some negb].
  step (trigger_ended_none shuf 0 w1 Hc). step E2.
  change (pending w1) with (pending w). rewrite Hp.
  set (w2 := w1 <| current := Some x |> <| pending := None |>).
  assert (E3 : modify (fun w0 => w0 <| current := pending w0 |> <| pending := None |>) w1 = (Ok tt, w2)).
  { unfold modify, w2. change (pending w1) with (pending w). rewrite Hp. reflexivity. }
  step E3.
  assert (E4 : get w2 = (Ok w2, w2)) by reflexivity. step E4.
  change (pending_position w2) with (pending_position w). rewrite Hpp.
  step (Proofs_C02b.set_state_run Playing w2).
  set (w3 := Proofs_C02b.fx_set_state Playing w2).
  step (trigger_started_run x w3 eq_refl).
  set (w4 := fx_started x w3).
  assert (E5 : get w4 = (Ok w4, w4)) by reflexivity. step E5.
  change (start_at_position w4) with (start_at_position w). rewrite Hsa. cbn [Z.eqb].
  assert (E6 : ret false w4 = (Ok false, w4)) by reflexivity. step E6. step E5.
  change (start_paused w4) with (start_paused w). rewrite Hsp. reflexivity.
Qed.

Definition fx_first_started_paused (x : tlt) (w : world) : world :=
  (fx_pause x (fx_first_started x w)) <| start_paused := false |>.

Lemma stream_changed_zero_paused_run f x u w :
  pending w = Some x -> current w = None -> pending_position w = None -> last_position w = Some 0 ->
  start_at_position w = Some 0 -> start_paused w = true ->
  tkind_has_backend (kind_of w (trk x)) = true -> a_uri w = Some u -> a_fresh w = false ->
  on_stream_changed shuf (S f) w = (Ok tt, fx_first_started_paused x w).
Proof.
  intros Hp Hc Hpp Hl Hsa Hsp Hb Hu Hfr. unfold on_stream_changed, fx_first_started_paused, fx_first_started.
  assert (E0 : get w = (Ok w, w)) by reflexivity. step E0. rewrite Hl.
  set (w1 := w <| last_position := None |>).
  assert (E1 : (modify (fun w => w <| last_position := None |>) ;; ret 0)%M w = (Ok 0, w1)) by reflexivity.
  step E1.
  assert (E2 : get w1 = (Ok w1, w1)) by reflexivity. step E2.
  change (pending_position w1) with (pending_position w). rewrite Hpp. cbn [is_some negb].
  step (trigger_ended_none shuf 0 w1 Hc). step E2.
  change (pending w1) with (pending w). rewrite Hp.
  set (w2 := w1 <| current := Some x |> <| pending := None |>).
  assert (E3 : modify (fun w0 => w0 <| current := pending w0 |> <| pending := None |>) w1 = (Ok tt, w2)).
  { unfold modify, w2. change (pending w1) with (pending w). rewrite Hp. reflexivity. }
  step E3.
  assert (E4 : get w2 = (Ok w2, w2)) by reflexivity. step E4.
  change (pending_position w2) with (pending_position w). rewrite Hpp.
  step (Proofs_C02b.set_state_run Playing w2).
  set (w3 := Proofs_C02b.fx_set_state Playing w2).
  step (trigger_started_run x w3 eq_refl).
  set (w4 := fx_started x w3).
  assert (E5 : get w4 = (Ok w4, w4)) by reflexivity. step E5.
  change (start_at_position w4) with (start_at_position w). rewrite Hsa. cbn [Z.eqb].
  assert (E6 : ret false w4 = (Ok false, w4)) by reflexivity. step E6. step E5.
  change (start_paused w4) with (start_paused w). rewrite Hsp. cbn [negb andb].
  assert (E7 : pause w4 = (Ok tt, fx_pause x w4)).
  { apply (pause_run w4 x u); try reflexivity; assumption. }
  step E7. reflexivity.
Qed.

Theorem restore_playing_at_zero f s i x w :
  s_tlid s = Some i -> s_state s = Playing -> s_pos s = 0 ->
  fresh_stopped w -> 1 <= i -> find (fun y => tlid y =? i) (World.tl w) = Some x -> accepts w x ->
  let w0 := snd (load_state shuf (S f) play_last_cov s w) in
  let w' := run_world shuf (S f) w0 [Deliver; Deliver; Deliver; Deliver] in
  option_map tlid (current w') = Some i /\ pstate w' = Playing /\ pending w' = None /\ queue w' = []
  /\ a_pos w' = 0 /\ a_uri w' = Some (trk x) /\ a_state w' = Playing /\ World.tl w' = World.tl w.
Proof.
  intros Ht Hs Hpos Hfs Hi Hf Ha.
  rewrite (load_play_last_run shuf f s i x 0 w Ht Hs Hpos Hfs Hi Hf Ha). cbn [snd].
  destruct Hfs as [Hst Hc Hpe Hpp Hq Hsp Hu Has]. destruct Ha as [Hk Hsc].
  assert (Hxi : tlid x = i).
  { apply find_some in Hf. destruct Hf as [_ Hf]. lia. }
  assert (Hbx : forall w0, tkinds w0 = tkinds w -> tkind_has_backend (kind_of w0 (trk x)) = true).
  { intros w0 E. unfold kind_of in *. rewrite E, Hk. reflexivity. }
  cbv zeta. unfold run_world. cbn [fold_left].
  set (w1 := fx_change0 x (w <| start_at_position := Some 0 |>)).
  assert (Q1 : queue w1 = [NStreamChanged (Some (trk x)); NPositionChanged 0; NStateChanged Stopped Playing; NTagsChanged]).
  { unfold w1, fx_change0, Proofs_C03b.fx_set_state. cbn. rewrite Hq, Has. reflexivity. }
  pose proof (deliver_run shuf (S f) _ _ w1 Q1) as D1. cbv beta iota in D1.
  set (w1q := w1 <| queue := [NPositionChanged 0; NStateChanged Stopped Playing; NTagsChanged] |>) in *.
  assert (S1 : on_stream_changed shuf (S f) w1q = (Ok tt, fx_first_started x w1q)).
  { apply stream_changed_zero_run; try reflexivity; unfold w1q, w1; cbn; assumption. }
  rewrite S1 in D1.
  set (w2 := fx_first_started x w1q) in *.
  assert (G2 : get_time_position w2 = (Ok (a_pos w2), fx_gtp w2)).
  { apply (gtp_run w2 x); [exact Hpp|reflexivity|apply Hbx; reflexivity]. }
  rewrite (stepw_eq shuf (S f) Deliver w1 RNone w2 _ _ (run_op_bind_none _ w1 tt w2 D1) G2).
  set (w2' := fx_gtp w2).
  assert (Q2 : queue w2' = [NPositionChanged 0; NStateChanged Stopped Playing; NTagsChanged]) by reflexivity.
  pose proof (deliver_run shuf (S f) _ _ w2' Q2) as D2. cbv beta iota in D2.
  rewrite position_changed_noop in D2 by exact Hpp.
  set (w3 := w2' <| queue := [NStateChanged Stopped Playing; NTagsChanged] |>) in *.
  assert (G3 : get_time_position w3 = (Ok (a_pos w3), fx_gtp w3)).
  { apply (gtp_run w3 x); [exact Hpp|reflexivity|apply Hbx; reflexivity]. }
  rewrite (stepw_eq shuf (S f) Deliver w2' RNone w3 _ _ (run_op_bind_none _ w2' tt w3 D2) G3).
  set (w3' := fx_gtp w3).
  assert (Q3 : queue w3' = [NStateChanged Stopped Playing; NTagsChanged]) by reflexivity.
  pose proof (deliver_run shuf (S f) _ _ w3' Q3) as D3. cbv beta iota in D3.
  rewrite state_changed_not_paused in D3 by discriminate.
  set (w4 := w3' <| queue := [NTagsChanged] |>) in *.
  assert (G4 : get_time_position w4 = (Ok (a_pos w4), fx_gtp w4)).
  { apply (gtp_run w4 x); [exact Hpp|reflexivity|apply Hbx; reflexivity]. }
  rewrite (stepw_eq shuf (S f) Deliver w3' RNone w4 _ _ (run_op_bind_none _ w3' tt w4 D3) G4).
  set (w4' := fx_gtp w4).
  assert (Q4 : queue w4' = [NTagsChanged]) by reflexivity.
  pose proof (deliver_run shuf (S f) _ _ w4' Q4) as D4. cbv beta iota in D4.
  set (w5 := w4' <| queue := [] |>) in *.
  assert (G5 : get_time_position w5 = (Ok (a_pos w5), fx_gtp w5)).
  { apply (gtp_run w5 x); [exact Hpp|reflexivity|apply Hbx; reflexivity]. }
  assert (D4' : (deliver shuf (S f) ;; ret RNone)%M w4' = (Ok RNone, w5)).
  { apply (run_op_bind_none _ w4' tt w5). exact D4. }
  rewrite (stepw_eq shuf (S f) Deliver w4' RNone w5 _ _ D4' G5).
  repeat split; try reflexivity. cbn. rewrite Hxi. reflexivity.
Qed.


Theorem restore_paused_at_zero f s i x w :
  s_tlid s = Some i -> s_state s = Paused -> s_pos s = 0 ->
  fresh_stopped w -> 1 <= i -> find (fun y => tlid y =? i) (World.tl w) = Some x -> accepts w x ->
  let w0 := snd (load_state shuf (S f) play_last_cov s w) in
  let w' := run_world shuf (S f) w0 [Deliver; Deliver; Deliver; Deliver; Deliver; Deliver] in
  option_map tlid (current w') = Some i /\ pstate w' = Paused /\ pending w' = None /\ queue w' = []
  /\ a_pos w' = 0 /\ a_uri w' = Some (trk x) /\ a_state w' = Paused /\ World.tl w' = World.tl w.
Proof.
  intros Ht Hs Hpos Hfs Hi Hf Ha.
  rewrite (load_play_last_paused_run shuf f s i x 0 w Ht Hs Hpos Hfs Hi Hf Ha). cbn [snd].
  destruct Hfs as [Hst Hc Hpe Hpp Hq Hsp Hu Has]. destruct Ha as [Hk Hsc].
  assert (Hxi : tlid x = i).
  { apply find_some in Hf. destruct Hf as [_ Hf]. lia. }
  assert (Hbx : forall w0, tkinds w0 = tkinds w -> tkind_has_backend (kind_of w0 (trk x)) = true).
  { intros w0 E. unfold kind_of in *. rewrite E, Hk. reflexivity. }
  cbv zeta. unfold run_world. cbn [fold_left].
  set (w1 := fx_change0 x (w <| start_paused := true |> <| start_at_position := Some 0 |>)).
  assert (Q1 : queue w1 = [NStreamChanged (Some (trk x)); NPositionChanged 0; NStateChanged Stopped Playing; NTagsChanged]).
  { unfold w1, fx_change0, Proofs_C03b.fx_set_state. cbn. rewrite Hq, Has. reflexivity. }
  pose proof (deliver_run shuf (S f) _ _ w1 Q1) as D1. cbv beta iota in D1.
  set (w1q := w1 <| queue := [NPositionChanged 0; NStateChanged Stopped Playing; NTagsChanged] |>) in *.
  assert (S1 : on_stream_changed shuf (S f) w1q = (Ok tt, fx_first_started_paused x w1q)).
  { apply (stream_changed_zero_paused_run f x (trk x)); try reflexivity; unfold w1q, w1; cbn; try assumption.
    apply Hbx. reflexivity. }
  rewrite S1 in D1.
  set (w2 := fx_first_started_paused x w1q) in *.
  assert (G2 : get_time_position w2 = (Ok (a_pos w2), fx_gtp w2)).
  { apply (gtp_run w2 x); [exact Hpp|reflexivity|apply Hbx; reflexivity]. }
  rewrite (stepw_eq shuf (S f) Deliver w1 RNone w2 _ _ (run_op_bind_none _ w1 tt w2 D1) G2).
  (* position_changed 0 *)
  set (w2' := fx_gtp w2).
  assert (Q2 : queue w2' = [NPositionChanged 0; NStateChanged Stopped Playing; NTagsChanged; NPositionChanged 0; NStateChanged Playing Paused]) by reflexivity.
  pose proof (deliver_run shuf (S f) _ _ w2' Q2) as D2. cbv beta iota in D2.
  rewrite position_changed_noop in D2 by exact Hpp.
  set (w3 := w2' <| queue := [NStateChanged Stopped Playing; NTagsChanged; NPositionChanged 0; NStateChanged Playing Paused] |>) in *.
  assert (G3 : get_time_position w3 = (Ok (a_pos w3), fx_gtp w3)).
  { apply (gtp_run w3 x); [exact Hpp|reflexivity|apply Hbx; reflexivity]. }
  rewrite (stepw_eq shuf (S f) Deliver w2' RNone w3 _ _ (run_op_bind_none _ w2' tt w3 D2) G3).
  (* state_changed stopped->playing *)
  set (w3' := fx_gtp w3).
  assert (Q3 : queue w3' = [NStateChanged Stopped Playing; NTagsChanged; NPositionChanged 0; NStateChanged Playing Paused]) by reflexivity.
  pose proof (deliver_run shuf (S f) _ _ w3' Q3) as D3. cbv beta iota in D3.
  rewrite state_changed_not_paused in D3 by discriminate.
  set (w4 := w3' <| queue := [NTagsChanged; NPositionChanged 0; NStateChanged Playing Paused] |>) in *.
  assert (G4 : get_time_position w4 = (Ok (a_pos w4), fx_gtp w4)).
  { apply (gtp_run w4 x); [exact Hpp|reflexivity|apply Hbx; reflexivity]. }
  rewrite (stepw_eq shuf (S f) Deliver w3' RNone w4 _ _ (run_op_bind_none _ w3' tt w4 D3) G4).
  (* tags *)
  set (w4' := fx_gtp w4).
  assert (Q4 : queue w4' = [NTagsChanged; NPositionChanged 0; NStateChanged Playing Paused]) by reflexivity.
  pose proof (deliver_run shuf (S f) _ _ w4' Q4) as D4. cbv beta iota in D4.
  set (w5 := w4' <| queue := [NPositionChanged 0; NStateChanged Playing Paused] |>) in *.
  assert (G5 : get_time_position w5 = (Ok (a_pos w5), fx_gtp w5)).
  { apply (gtp_run w5 x); [exact Hpp|reflexivity|apply Hbx; reflexivity]. }
  assert (D4' : (deliver shuf (S f) ;; ret RNone)%M w4' = (Ok RNone, w5)).
  { apply (run_op_bind_none _ w4' tt w5). exact D4. }
  rewrite (stepw_eq shuf (S f) Deliver w4' RNone w5 _ _ D4' G5).
  (* position_changed 0 (from pause) *)
  set (w5' := fx_gtp w5).
  assert (Q5 : queue w5' = [NPositionChanged 0; NStateChanged Playing Paused]) by reflexivity.
  pose proof (deliver_run shuf (S f) _ _ w5' Q5) as D5. cbv beta iota in D5.
  rewrite position_changed_noop in D5 by exact Hpp.
  set (w6 := w5' <| queue := [NStateChanged Playing Paused] |>) in *.
  assert (G6 : get_time_position w6 = (Ok (a_pos w6), fx_gtp w6)).
  { apply (gtp_run w6 x); [exact Hpp|reflexivity|apply Hbx; reflexivity]. }
  rewrite (stepw_eq shuf (S f) Deliver w5' RNone w6 _ _ (run_op_bind_none _ w5' tt w6 D5) G6).
  (* state_changed playing->paused *)
  set (w6' := fx_gtp w6).
  assert (Q6 : queue w6' = [NStateChanged Playing Paused]) by reflexivity.
  pose proof (deliver_run shuf (S f) _ _ w6' Q6) as D6. cbv beta iota in D6.
  rewrite state_changed_already_paused in D6 by reflexivity.
  set (w7 := w6' <| queue := [] |>) in *.
  assert (G7 : get_time_position w7 = (Ok (a_pos w7), fx_gtp w7)).
  { apply (gtp_run w7 x); [exact Hpp|reflexivity|apply Hbx; reflexivity]. }
  rewrite (stepw_eq shuf (S f) Deliver w6' RNone w7 _ _ (run_op_bind_none _ w6' tt w7 D6) G7).
  repeat split; try reflexivity. cbn. rewrite Hxi. reflexivity.
Qed.

Theorem save_restore_playing_at_zero f cov c w :
  cov_tracklist cov = true -> cov_play_last cov = true ->
  settled_on w c -> pstate w = Playing -> In c (World.tl w) -> NoDup (map tlid (World.tl w)) ->
  1 <= tlid c -> a_pos w = 0 -> accepts w c ->
  (match volume w with Some v => 0 <= v <= 100 | None => True end) ->
  let w' := run_world shuf (S f) w [Save; Load cov; Deliver; Deliver; Deliver; Deliver] in
  option_map tlid (current w') = Some (tlid c) /\ pstate w' = Playing /\ pending w' = None /\ queue w' = []
  /\ a_pos w' = 0
  /\ a_uri w' = Some (trk c) /\ a_state w' = Playing /\ World.tl w' = World.tl w.
Proof.
  intros Hct Hcp [Hq Hp Hpp Hsa Hsp Hpf Hc Hb Ha] Hst Hin Hnd Hi Hpos [Hk Hscr] Hvol.
  (* Save *)
  pose proof (save_run c w Hpp Hc Hb) as E1.
  set (ws := fx_save w) in *.
  assert (G1 : get_time_position ws = (Ok (a_pos ws), fx_gtp ws)).
  { apply (gtp_run ws c); [exact Hpp|exact Hc|exact Hb]. }
  cbv zeta. rewrite (run_world_cons shuf).
  rewrite (stepw_eq shuf (S f) Save w RNone ws _ _ (run_op_bind_none _ w tt ws E1) G1).
  set (w1 := fx_gtp ws).
  set (s := snapshot_of w (a_pos w)).
  assert (Hsaved : saved w1 = Some s) by reflexivity.
  (* Load: the value sections *)
  assert (Hvs : vol_ok s) by exact Hvol.
  destruct (restore_sections_lemma shuf (S f) (values_only cov) s w1 eq_refl Hvs) as (w4 & E4 & S4).
  pose proof (value_sections_es shuf (S f) (values_only cov) s (restart w1) (Ok tt) w4 eq_refl eq_refl eq_refl E4) as Es.
  unfold sess in S4. cbn [values_only cov_tracklist cov_mode cov_mixer cov_history] in S4. rewrite Hct in S4.
  assert (T4 : World.tl w4 = World.tl w) by (unfold s, snapshot_of in S4; cbn in S4; congruence).
  assert (P4 : pstate w4 = Stopped) by congruence.
  assert (C4 : current w4 = None) by congruence.
  assert (Pe4 : pending w4 = None) by congruence.
  clear S4.
  destruct Es as [_ _ _ Epp Esa Esp Eq Eu Eas Ek El Esc].
  assert (Hfs : fresh_stopped w4).
  { constructor; [exact P4|exact C4|exact Pe4|rewrite Epp; reflexivity|rewrite Eq; reflexivity
                  |rewrite Esp; reflexivity|rewrite Eu; reflexivity|rewrite Eas; reflexivity]. }
  assert (Hfind : find (fun y => tlid y =? tlid c) (World.tl w4) = Some c).
  { rewrite T4. apply find_by_tlid; assumption. }
  assert (Hacc4 : accepts w4 c).
  { split; [unfold kind_of in *; rewrite Ek; exact Hk|rewrite Esc; exact Hscr]. }
  assert (Hst' : s_tlid s = Some (tlid c)) by (unfold s, snapshot_of; cbn; rewrite Hc; reflexivity).
  assert (Hss : s_state s = Playing) by exact Hst.
  assert (Hsp' : s_pos s = 0) by exact Hpos.
  pose proof (load_play_last_run shuf f s (tlid c) c 0 w4 Hst' Hss Hsp' Hfs Hi Hfind Hacc4) as E5.
  set (w5 := fx_change0 c (w4 <| start_at_position := Some 0 |>)) in *.
  assert (EL : run_op shuf (S f) (Load cov) w1 = (Ok RNone, w5)).
  { assert (ED : do_load shuf (S f) cov w1 = (Ok tt, w5)).
    { unfold do_load.
      assert (Eg : get w1 = (Ok w1, w1)) by reflexivity. rewrite (bind_ok _ _ w1 w1 w1 Eg).
      assert (Em : modify restart w1 = (Ok tt, restart w1)) by reflexivity. rewrite (bind_ok _ _ w1 tt _ Em).
      rewrite Hsaved. rewrite (load_state_split shuf (S f) cov s (restart w1) Hcp).
      rewrite (bind_ok _ _ _ tt w4 E4). exact E5. }
    unfold run_op. rewrite (bind_ok _ _ w1 tt w5 ED). reflexivity. }
  assert (G5 : get_time_position w5 = (Ok 0, w5)).
  { apply gtp_none_run; [change (pending_position w4 = None); rewrite Epp; reflexivity|exact C4]. }
  rewrite (run_world_cons shuf).
  rewrite (stepw_eq shuf (S f) (Load cov) w1 RNone w5 _ _ EL G5).
  (* the notifications *)
  pose proof (restore_playing_at_zero f s (tlid c) c w4 Hst' Hss Hsp' Hfs Hi Hfind Hacc4) as R.
  cbv zeta in R. rewrite E5 in R. cbn [snd] in R.
  destruct R as (R1 & R2 & R3 & R4 & R5 & R6 & R7 & R8).
  repeat split; try assumption. rewrite R8. exact T4.
Qed.


Theorem save_restore_paused_at_zero f cov c w :
  cov_tracklist cov = true -> cov_play_last cov = true ->
  settled_on w c -> pstate w = Paused -> In c (World.tl w) -> NoDup (map tlid (World.tl w)) ->
  1 <= tlid c -> a_pos w = 0 -> accepts w c ->
  (match volume w with Some v => 0 <= v <= 100 | None => True end) ->
  let w' := run_world shuf (S f) w [Save; Load cov; Deliver; Deliver; Deliver; Deliver; Deliver; Deliver] in
  option_map tlid (current w') = Some (tlid c) /\ pstate w' = Paused /\ pending w' = None /\ queue w' = []
  /\ a_pos w' = 0
  /\ a_uri w' = Some (trk c) /\ a_state w' = Paused /\ World.tl w' = World.tl w.
Proof.
  intros Hct Hcp [Hq Hp Hpp Hsa Hsp Hpf Hc Hb Ha] Hst Hin Hnd Hi Hpos [Hk Hscr] Hvol.
  (* Save *)
  pose proof (save_run c w Hpp Hc Hb) as E1.
  set (ws := fx_save w) in *.
  assert (G1 : get_time_position ws = (Ok (a_pos ws), fx_gtp ws)).
  { apply (gtp_run ws c); [exact Hpp|exact Hc|exact Hb]. }
  cbv zeta. rewrite (run_world_cons shuf).
  rewrite (stepw_eq shuf (S f) Save w RNone ws _ _ (run_op_bind_none _ w tt ws E1) G1).
  set (w1 := fx_gtp ws).
  set (s := snapshot_of w (a_pos w)).
  assert (Hsaved : saved w1 = Some s) by reflexivity.
  (* Load: the value sections *)
  assert (Hvs : vol_ok s) by exact Hvol.
  destruct (restore_sections_lemma shuf (S f) (values_only cov) s w1 eq_refl Hvs) as (w4 & E4 & S4).
  pose proof (value_sections_es shuf (S f) (values_only cov) s (restart w1) (Ok tt) w4 eq_refl eq_refl eq_refl E4) as Es.
  unfold sess in S4. cbn [values_only cov_tracklist cov_mode cov_mixer cov_history] in S4. rewrite Hct in S4.
  assert (T4 : World.tl w4 = World.tl w) by (unfold s, snapshot_of in S4; cbn in S4; congruence).
  assert (P4 : pstate w4 = Stopped) by congruence.
  assert (C4 : current w4 = None) by congruence.
  assert (Pe4 : pending w4 = None) by congruence.
  clear S4.
  destruct Es as [_ _ _ Epp Esa Esp Eq Eu Eas Ek El Esc].
  assert (Hfs : fresh_stopped w4).
  { constructor; [exact P4|exact C4|exact Pe4|rewrite Epp; reflexivity|rewrite Eq; reflexivity
                  |rewrite Esp; reflexivity|rewrite Eu; reflexivity|rewrite Eas; reflexivity]. }
  assert (Hfind : find (fun y => tlid y =? tlid c) (World.tl w4) = Some c).
  { rewrite T4. apply find_by_tlid; assumption. }
  assert (Hacc4 : accepts w4 c).
  { split; [unfold kind_of in *; rewrite Ek; exact Hk|rewrite Esc; exact Hscr]. }
  assert (Hst' : s_tlid s = Some (tlid c)) by (unfold s, snapshot_of; cbn; rewrite Hc; reflexivity).
  assert (Hss : s_state s = Paused) by exact Hst.
  assert (Hsp' : s_pos s = 0) by exact Hpos.
  pose proof (load_play_last_paused_run shuf f s (tlid c) c 0 w4 Hst' Hss Hsp' Hfs Hi Hfind Hacc4) as E5.
  set (w5 := fx_change0 c (w4 <| start_paused := true |> <| start_at_position := Some 0 |>)) in *.
  assert (EL : run_op shuf (S f) (Load cov) w1 = (Ok RNone, w5)).
  { assert (ED : do_load shuf (S f) cov w1 = (Ok tt, w5)).
    { unfold do_load.
      assert (Eg : get w1 = (Ok w1, w1)) by reflexivity. rewrite (bind_ok _ _ w1 w1 w1 Eg).
      assert (Em : modify restart w1 = (Ok tt, restart w1)) by reflexivity. rewrite (bind_ok _ _ w1 tt _ Em).
      rewrite Hsaved. rewrite (load_state_split shuf (S f) cov s (restart w1) Hcp).
      rewrite (bind_ok _ _ _ tt w4 E4). exact E5. }
    unfold run_op. rewrite (bind_ok _ _ w1 tt w5 ED). reflexivity. }
  assert (G5 : get_time_position w5 = (Ok 0, w5)).
  { apply gtp_none_run; [change (pending_position w4 = None); rewrite Epp; reflexivity|exact C4]. }
  rewrite (run_world_cons shuf).
  rewrite (stepw_eq shuf (S f) (Load cov) w1 RNone w5 _ _ EL G5).
  (* the notifications *)
  pose proof (restore_paused_at_zero f s (tlid c) c w4 Hst' Hss Hsp' Hfs Hi Hfind Hacc4) as R.
  cbv zeta in R. rewrite E5 in R. cbn [snd] in R.
  destruct R as (R1 & R2 & R3 & R4 & R5 & R6 & R7 & R8).
  repeat split; try assumption. rewrite R8. exact T4.
Qed.


End P.
