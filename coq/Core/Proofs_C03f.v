(* C03: previous() keeps the paused and the stopped state too (the playing case is in
   Proofs_C03b): from any state settled on c, consume off, the announced predecessor x accepted. *)
From Coq Require Import ZArith List Bool Lia ZifyBool.
From RecordUpdate Require Import RecordSet.
From Common Require Import Res.
From Core Require Import World Hoare Model Step Reach ListLemmas Proofs_C03b.
Import ListNotations RecordSetNotations.
Open Scope Z_scope.

Section P.
Variable shuf : Z -> list tlt -> list tlt.

Theorem previous_prediction_paused_full f x c w :
  settled_on w c -> pstate w = Paused -> consume w = false -> accepts w x ->
  previous_track (Some c) w = (Ok (Some x), w) ->
  let w' := run_world shuf (S f) w [Previous; Deliver; Deliver; Deliver] in
  settled_on w' x /\ stable w w' /\
  current w' = Some x /\ pstate w' = Paused /\ pending w' = None /\ queue w' = []
  /\ a_uri w' = Some (trk x) /\ a_state w' = Paused /\ World.tl w' = World.tl w.
Proof.
  intros [Hq Hp Hpp Hsa Hsp Hpf Hc Hb Ha] Hst Hco Hacc Hn. rewrite Hst in Ha. destruct Ha as [Hu Has].
  cbv zeta. unfold run_world. cbn [fold_left].
  destruct Hacc as [Hk Hs].
  assert (Hbx : forall w0, tkinds w0 = tkinds w -> tkind_has_backend (kind_of w0 (trk x)) = true).
  { intros w0 E. unfold kind_of in *. rewrite E, Hk. reflexivity. }
  pose proof (previous_run shuf f x c w Hp Hc Hpp Hb (conj Hk Hs) Hn) as E1. rewrite Hst in E1.
  set (w1 := fx_change x Paused (w <| previous_flag := true |>)) in *.
  assert (G1 : get_time_position w1 = (Ok (a_pos w1), fx_gtp w1)).
  { apply (gtp_run w1 c); [exact Hpp|exact Hc|exact Hb]. }
  rewrite (stepw_eq shuf (S f) Previous w RNone w1 _ _ (run_op_bind_none _ w tt w1 E1) G1).
  set (w1' := fx_gtp w1).
  assert (Q1 : queue w1' = [NStreamChanged (Some (trk x)); NPositionChanged 0; NStateChanged Paused Paused]).
  { unfold w1', w1, fx_gtp, fx_change, fx_set_state. cbn. rewrite Hq, Has. reflexivity. }
  pose proof (deliver_run shuf (S f) _ _ w1' Q1) as D1. cbv beta iota in D1.
  set (w1q := w1' <| queue := [NPositionChanged 0; NStateChanged Paused Paused] |>) in *.
  assert (S1 : on_stream_changed shuf (S f) w1q = (Ok tt, fx_promote x c (a_pos w) w1q)).
  { apply stream_changed_run; try reflexivity; unfold w1q, w1', w1; cbn; assumption. }
  rewrite S1 in D1.
  set (w2 := fx_promote x c (a_pos w) w1q) in *.
  assert (G2 : get_time_position w2 = (Ok (a_pos w2), fx_gtp w2)).
  { apply (gtp_run w2 x); [exact Hpp|reflexivity|apply Hbx; reflexivity]. }
  rewrite (stepw_eq shuf (S f) Deliver w1' RNone w2 _ _ (run_op_bind_none _ w1' tt w2 D1) G2).
  set (w2' := fx_gtp w2).
  assert (Q2 : queue w2' = [NPositionChanged 0; NStateChanged Paused Paused]) by reflexivity.
  pose proof (deliver_run shuf (S f) _ _ w2' Q2) as D2. cbv beta iota in D2.
  rewrite position_changed_noop in D2 by exact Hpp.
  set (w3 := w2' <| queue := [NStateChanged Paused Paused] |>) in *.
  assert (G3 : get_time_position w3 = (Ok (a_pos w3), fx_gtp w3)).
  { apply (gtp_run w3 x); [exact Hpp|reflexivity|apply Hbx; reflexivity]. }
  rewrite (stepw_eq shuf (S f) Deliver w2' RNone w3 _ _ (run_op_bind_none _ w2' tt w3 D2) G3).
  set (w3' := fx_gtp w3).
  assert (Q3 : queue w3' = [NStateChanged Paused Paused]) by reflexivity.
  pose proof (deliver_run shuf (S f) _ _ w3' Q3) as D3. cbv beta iota in D3.
  set (w3q := w3' <| queue := [] |>) in *.
  assert (S3 : on_state_changed Paused Paused w3q = (Ok tt, fx_paused x w3q)).
  { apply state_changed_paused_run; [reflexivity|reflexivity|exact Hpp|apply Hbx; reflexivity]. }
  rewrite S3 in D3.
  set (w4 := fx_paused x w3q) in *.
  assert (G4 : get_time_position w4 = (Ok (a_pos w4), fx_gtp w4)).
  { apply (gtp_run w4 x); [exact Hpp|reflexivity|apply Hbx; reflexivity]. }
  rewrite (stepw_eq shuf (S f) Deliver w3' RNone w4 _ _ (run_op_bind_none _ w3' tt w4 D3) G4).
  split; [constructor; try reflexivity; try assumption; try (apply Hbx; reflexivity);
           try (cbn; split; first [reflexivity|assumption]); try (cbn; assumption)|].
  split; [unfold stable; repeat split; try reflexivity; try assumption;
           try (intros Hs0; cbn; rewrite ?Hs0; cbn; rewrite ?Hs0; first [reflexivity|assumption])|].
  repeat split; reflexivity.
Qed.

Theorem previous_prediction_paused f x c w :
  settled_on w c -> pstate w = Paused -> consume w = false -> accepts w x ->
  previous_track (Some c) w = (Ok (Some x), w) ->
  let w' := run_world shuf (S f) w [Previous; Deliver; Deliver; Deliver] in
  current w' = Some x /\ pstate w' = Paused /\ pending w' = None /\ queue w' = []
  /\ a_uri w' = Some (trk x) /\ a_state w' = Paused /\ World.tl w' = World.tl w.
Proof. intros. cbv zeta. eapply proj2. eapply proj2. eapply previous_prediction_paused_full; eassumption. Qed.

(* Stopped: previous() selects the announced entry at once and stays stopped *)
Theorem previous_prediction_stopped f x c w :
  settled_on w c -> pstate w = Stopped -> accepts w x ->
  previous_track (Some c) w = (Ok (Some x), w) ->
  let w' := run_world shuf (S f) w [Previous] in
  current w' = Some x /\ pstate w' = Stopped /\ pending w' = None /\ queue w' = []
  /\ World.tl w' = World.tl w.
Proof.
  intros [Hq Hp Hpp Hsa Hsp Hpf Hc Hb Ha] Hst [Hk Hs] Hn.
  cbv zeta. unfold run_world. cbn [fold_left].
  assert (Hbx : forall w0, tkinds w0 = tkinds w -> tkind_has_backend (kind_of w0 (trk x)) = true).
  { intros w0 E. unfold kind_of in *. rewrite E, Hk. reflexivity. }
  pose proof (previous_run shuf f x c w Hp Hc Hpp Hb (conj Hk Hs) Hn) as E1. rewrite Hst in E1.
  set (w1 := fx_change x Stopped (w <| previous_flag := true |>)) in *.
  assert (G1 : get_time_position w1 = (Ok (a_pos w1), fx_gtp w1)).
  { apply (gtp_run w1 x); [exact Hpp|reflexivity|apply Hbx; reflexivity]. }
  rewrite (stepw_eq shuf (S f) Previous w RNone w1 _ _ (run_op_bind_none _ w tt w1 E1) G1).
  repeat split; try reflexivity; [exact Hst|exact Hq].
Qed.

End P.
