(* C05 — Unplayable tracks and failing playback backends are skipped and contained. *)
From Coq Require Import ZArith List Bool.
From Common Require Import Res.
From Core Require Import World Model Step Reach Res_NoRaise Proofs_C05 Proofs_C03b Proofs_C03c Proofs_C05b Proofs_C05c.
Import ListNotations.
Open Scope Z_scope.

(* T1/T2/T5: for every history, schedule, mode combination, table of failure kinds and flaky
   script: a track whose backend refuses it, returns no URI, raises, or that has no backend
   (kind <> Playable) is never announced as started, never is the current track, and is never
   left pending after an operation. *)
Theorem C05_unplayable_never_selected :
  forall shuf fuel mx kinds lens scr vol mut ops,
  let w := run_world shuf fuel (init_world mx kinds lens scr vol mut) ops in
  (forall t, In (EvStarted t) (events w) -> playable_track kinds t)
  /\ (forall c, current w = Some c -> playable_track kinds c)
  /\ (forall p, pending w = Some p -> playable_track kinds p).
Proof. exact unplayable_never_selected_lemma. Qed.
Print Assumptions C05_unplayable_never_selected.

(* T3: such failures never propagate to the client as exceptions: in any state an operation
   raises only its documented argument-validation error. *)
Theorem C05_failure_contained :
  forall shuf fuel o w r w', run_op shuf fuel o w = (r, w') ->
  match r with Raise e => documented o e = true | _ => True end.
Proof. exact (fun shuf fuel o w r w' => run_op_documented shuf fuel o w r w'). Qed.
Print Assumptions C05_failure_contained.

(* T4: under consume the refused candidate is dropped from the tracklist. *)
Theorem C05_consume_drops_refused :
  forall shuf x w, consume w = true -> NoDup (map tlid (World.tl w)) ->
  exists w', mark_unplayable shuf (Some x) w = (Ok tt, w') /\ ~ In (tlid x) (map tlid (World.tl w')).
Proof. exact (fun shuf => consume_drops_refused_lemma shuf 0%nat). Qed.
Print Assumptions C05_consume_drops_refused.

(* T1', per attempt (flaky backends included): in every reachable state - any history,
   schedule, modes, failure table and flaky script - the tracks announced as started, the
   current entry and the entry left pending by an operation all have an ACCEPTED
   change_track call in the attempt log (which the correspondence compares with the real
   backend's log after every operation): a track that was only ever refused is never selected. *)
Theorem C05_only_accepted_selected :
  forall shuf fuel mx kinds lens scr vol mut ops,
  let w := run_world shuf fuel (init_world mx kinds lens scr vol mut) ops in
  (forall t, In (EvStarted t) (events w) -> In (trk t, true) (attempts w))
  /\ (forall c, current w = Some c -> In (trk c, true) (attempts w))
  /\ (forall p, pending w = Some p -> In (trk p, true) (attempts w)).
Proof. exact accepted_only_selected_lemma. Qed.
Print Assumptions C05_only_accepted_selected.

(* T6: next() tries the FOLLOWING candidates: for every tracklist pre ++ c :: us ++ x :: post
   without duplicate IDs in which every entry of us is unplayable in any of the four ways
   (backend refuses, no URI, raises, no backend for the scheme) and x is playable, next() from a
   state settled on c (sequential order, consume off) ends - once the notifications are
   delivered - on x, still playing, the audio layer on x's URI, nothing pending, tracklist
   untouched; however long the unplayable run is. *)
Theorem C05_next_tries_following_candidates :
  forall shuf f us pre c x post w,
  World.tl w = pre ++ c :: us ++ x :: post -> NoDup (map tlid (World.tl w)) ->
  settled_on w c -> pstate w = Playing -> consume w = false -> random w = false -> repeat w = false ->
  script w = [] -> (forall u, In u us -> kind_of w (trk u) <> Playable) -> kind_of w (trk x) = Playable ->
  let w' := run_world shuf (S (length us + f)) w [Next; Deliver; Deliver; Deliver; Deliver] in
  current w' = Some x /\ pstate w' = Playing /\ pending w' = None /\ queue w' = []
  /\ a_uri w' = Some (trk x) /\ a_state w' = Playing /\ World.tl w' = World.tl w.
Proof. exact next_skips_unplayable. Qed.
Print Assumptions C05_next_tries_following_candidates.

(* non-vacuity: one entry of each failure kind between two playable ones *)
Example C05_skip_example :
  let w := run_world shuf_concrete 50 (init_world 50 [Playable; Refuse; NoUri; Raises; NoBackend; Playable]
                                         [Some 900; Some 900; Some 900; Some 900; Some 900; Some 900] [] None None)
             [Add [0; 1; 2; 3; 4; 5] None; Play None; Deliver; Deliver; Deliver; Deliver] in
  let w' := run_world shuf_concrete 50 w [Next; Deliver; Deliver; Deliver; Deliver] in
  option_map tlid (current w) = Some 1 /\ option_map tlid (current w') = Some 6 /\ pstate w' = Playing
  /\ map fst (attempts w') = [5; 3; 2; 1; 0].
Proof. vm_compute. repeat split; reflexivity. Qed.
Print Assumptions C05_skip_example.

(* The same at the natural end of a track: the end-of-track handler walks over the run of
   unplayable entries (asking each backend at most once) and preloads x; after the two
   notifications of the gapless switch the player is on x, playing, and the block announced
   exactly ended(c) / state / started(x) - none of the skipped entries was announced, became
   current or stayed pending. *)
Theorem C05_eot_tries_following_candidates :
  forall shuf f us pre c x post len w,
  World.tl w = pre ++ c :: us ++ x :: post -> NoDup (map tlid (World.tl w)) ->
  settled_on w c -> pstate w = Playing -> sequential w -> a_atf_done w = false ->
  len_of w (trk c) = Some len -> script w = [] ->
  (forall u, In u us -> kind_of w (trk u) <> Playable) -> kind_of w (trk x) = Playable ->
  let w' := run_world shuf (S (length us + f)) w [AboutToFinish; Deliver; Deliver] in
  current w' = Some x /\ pstate w' = Playing /\ pending w' = None /\ queue w' = []
  /\ a_uri w' = Some (trk x) /\ a_state w' = Playing /\ World.tl w' = World.tl w
  /\ events w' = EvStarted x :: EvStateChanged Playing Playing :: EvEnded c len :: events w.
Proof. exact eot_skips_unplayable. Qed.
Print Assumptions C05_eot_tries_following_candidates.

Example C05_eot_skip_example :
  let w := run_world shuf_concrete 50 (init_world 50 [Playable; Refuse; NoUri; Raises; NoBackend; Playable]
                                         [Some 900; Some 900; Some 900; Some 900; Some 900; Some 900] [] None None)
             [Add [0; 1; 2; 3; 4; 5] None; Play None; Deliver; Deliver; Deliver; Deliver] in
  let w' := run_world shuf_concrete 50 w [AboutToFinish; Deliver; Deliver] in
  option_map tlid (current w) = Some 1 /\ option_map tlid (current w') = Some 6 /\ pstate w' = Playing
  /\ map fst (attempts w') = [5; 3; 2; 1; 0] /\ sequential w /\ script w = [] /\ a_atf_done w = false.
Proof. vm_compute. repeat split; reflexivity. Qed.
Print Assumptions C05_eot_skip_example.

(* ... and for play(tlid) of an unplayable entry, from any settled state (playing, paused or
   stopped on c): the entries following it are tried in list order and the first playable one
   plays. *)
Theorem C05_play_tries_following_candidates :
  forall shuf f u us pre c x post w,
  World.tl w = pre ++ (u :: us) ++ x :: post -> NoDup (map tlid (World.tl w)) -> 1 <= tlid u ->
  settled_on w c -> consume w = false -> random w = false -> repeat w = false ->
  script w = [] -> (forall y, In y (u :: us) -> kind_of w (trk y) <> Playable) -> kind_of w (trk x) = Playable ->
  let w' := run_world shuf (S (length (u :: us) + f)) w [Play (Some (tlid u)); Deliver; Deliver; Deliver; Deliver] in
  current w' = Some x /\ pstate w' = Playing /\ pending w' = None /\ queue w' = []
  /\ a_uri w' = Some (trk x) /\ a_state w' = Playing /\ World.tl w' = World.tl w.
Proof. exact play_skips_unplayable. Qed.
Print Assumptions C05_play_tries_following_candidates.

Example C05_play_skip_example :
  let w := run_world shuf_concrete 50 (init_world 50 [Playable; Refuse; NoUri; Raises; NoBackend; Playable]
                                         [Some 900; Some 900; Some 900; Some 900; Some 900; Some 900] [] None None)
             [Add [0; 1; 2; 3; 4; 5] None; Play None; Deliver; Deliver; Deliver; Deliver; Pause; Deliver; Deliver; Deliver] in
  let w' := run_world shuf_concrete 50 w [Play (Some 2); Deliver; Deliver; Deliver; Deliver] in
  option_map tlid (current w) = Some 1 /\ pstate w = Paused /\ queue w = []
  /\ option_map tlid (current w') = Some 6 /\ pstate w' = Playing
  /\ map fst (attempts w') = [5; 3; 2; 1; 0].
Proof. vm_compute. repeat split; reflexivity. Qed.
Print Assumptions C05_play_skip_example.

(* ... and for previous(), walking backwards: `rev us` is the run of unplayable entries between
   x and c in list order; previous() from c tries them from the nearest one down and ends on x. *)
Theorem C05_previous_tries_preceding_candidates :
  forall shuf f us pre c x post w,
  World.tl w = pre ++ x :: rev us ++ c :: post -> NoDup (map tlid (World.tl w)) ->
  settled_on w c -> pstate w = Playing -> consume w = false -> random w = false -> repeat w = false ->
  script w = [] -> (forall u, In u us -> kind_of w (trk u) <> Playable) -> kind_of w (trk x) = Playable ->
  let w' := run_world shuf (S (length us + f)) w [Previous; Deliver; Deliver; Deliver; Deliver] in
  current w' = Some x /\ pstate w' = Playing /\ pending w' = None /\ queue w' = []
  /\ a_uri w' = Some (trk x) /\ a_state w' = Playing /\ World.tl w' = World.tl w.
Proof. exact previous_skips_unplayable. Qed.
Print Assumptions C05_previous_tries_preceding_candidates.

Example C05_previous_skip_example :
  let w := run_world shuf_concrete 50 (init_world 50 [Playable; Refuse; NoUri; Raises; NoBackend; Playable]
                                         [Some 900; Some 900; Some 900; Some 900; Some 900; Some 900] [] None None)
             [Add [0; 1; 2; 3; 4; 5] None; Play (Some 6); Deliver; Deliver; Deliver; Deliver] in
  let w' := run_world shuf_concrete 50 w [Previous; Deliver; Deliver; Deliver; Deliver] in
  option_map tlid (current w) = Some 6 /\ pstate w = Playing /\ queue w = []
  /\ option_map tlid (current w') = Some 1 /\ pstate w' = Playing
  /\ map fst (attempts w') = [0; 1; 2; 3; 5].
Proof. vm_compute. repeat split; reflexivity. Qed.
Print Assumptions C05_previous_skip_example.

(* ... and in random mode: next() walks over the unplayable entries at the head of the shuffle
   order (each is dropped from the order, as _mark_unplayable does) and plays the first playable
   one; the bound on the run is the loop's own budget, twice the tracklist length. *)
Theorem C05_next_tries_following_candidates_random :
  forall shuf f us c x rest w,
  World.tl w <> [] -> shuffled w = us ++ x :: rest -> zlen us < zlen (World.tl w) * 2 ->
  settled_on w c -> pstate w = Playing -> consume w = false -> random w = true ->
  script w = [] -> (forall u, In u us -> kind_of w (trk u) <> Playable) -> kind_of w (trk x) = Playable ->
  let w' := run_world shuf (S (length us + f)) w [Next; Deliver; Deliver; Deliver; Deliver] in
  current w' = Some x /\ pstate w' = Playing /\ pending w' = None /\ queue w' = []
  /\ a_uri w' = Some (trk x) /\ a_state w' = Playing /\ World.tl w' = World.tl w.
Proof. exact next_skips_unplayable_random. Qed.
Print Assumptions C05_next_tries_following_candidates_random.

Example C05_random_skip_example :
  let w := run_world shuf_concrete 50 (init_world 50 [Refuse; NoBackend; Raises; Playable; Playable; Playable]
                                         [Some 900; Some 900; Some 900; Some 900; Some 900; Some 900] [] None None)
             [Add [0; 1; 2; 3; 4; 5] None; Play (Some 5); Deliver; Deliver; Deliver; Deliver; SetMode 1 true] in
  let w' := run_world shuf_concrete 50 w [Next; Deliver; Deliver; Deliver; Deliver] in
  map tlid (shuffled w) = [1; 2; 3; 4; 5; 6] /\ option_map tlid (current w) = Some 5 /\ pstate w = Playing /\ queue w = []
  /\ option_map tlid (current w') = Some 4 /\ pstate w' = Playing /\ map tlid (shuffled w') = [5; 6]
  /\ map fst (attempts w') = [3; 2; 0; 4].
Proof. vm_compute. repeat split; reflexivity. Qed.
Print Assumptions C05_random_skip_example.

Theorem C05_eot_tries_following_candidates_random :
  forall shuf f us c x rest len w,
  World.tl w <> [] -> shuffled w = us ++ x :: rest -> zlen us < zlen (World.tl w) * 2 ->
  settled_on w c -> pstate w = Playing -> consume w = false -> random w = true -> single w = false ->
  a_atf_done w = false -> len_of w (trk c) = Some len -> script w = [] ->
  (forall u, In u us -> kind_of w (trk u) <> Playable) -> kind_of w (trk x) = Playable ->
  let w' := run_world shuf (S (length us + f)) w [AboutToFinish; Deliver; Deliver] in
  current w' = Some x /\ pstate w' = Playing /\ pending w' = None /\ queue w' = []
  /\ a_uri w' = Some (trk x) /\ a_state w' = Playing /\ World.tl w' = World.tl w
  /\ events w' = EvStarted x :: EvStateChanged Playing Playing :: EvEnded c len :: events w.
Proof. exact eot_skips_unplayable_random. Qed.
Print Assumptions C05_eot_tries_following_candidates_random.

Example C05_random_eot_skip_example :
  let w := run_world shuf_concrete 50 (init_world 50 [Refuse; NoBackend; Raises; Playable; Playable; Playable]
                                         [Some 900; Some 900; Some 900; Some 900; Some 900; Some 900] [] None None)
             [Add [0; 1; 2; 3; 4; 5] None; Play (Some 5); Deliver; Deliver; Deliver; Deliver; SetMode 1 true] in
  let w' := run_world shuf_concrete 50 w [AboutToFinish; Deliver; Deliver] in
  map tlid (shuffled w) = [1; 2; 3; 4; 5; 6] /\ option_map tlid (current w) = Some 5 /\ pstate w = Playing /\ queue w = []
  /\ option_map tlid (current w') = Some 4 /\ pstate w' = Playing /\ map tlid (shuffled w') = [5; 6].
Proof. vm_compute. repeat split; reflexivity. Qed.
Print Assumptions C05_random_eot_skip_example.

(* under consume (sequential order) the refused entry that _mark_unplayable drops from the
   tracklist is forgotten as current entry in the same step (it is never "reported as current
   afterwards"), the removal is announced, every other entry stays *)
Theorem C05_consume_dropped_entry_not_current :
  forall shuf u x w,
  consume w = true -> random w = false -> current w = Some u ->
  NoDup (map tlid (World.tl w)) -> In x (World.tl w) -> tlid x <> tlid u ->
  let w' := snd (mark_unplayable shuf (Some u) w) in
  current w' = None /\ mem_tlt u (World.tl w') = false /\ In x (World.tl w')
  /\ version w' = version w + 1 /\ events w' = EvTracklistChanged :: events w.
Proof. exact consume_dropped_not_current. Qed.
Print Assumptions C05_consume_dropped_entry_not_current.
