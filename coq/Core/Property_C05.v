(* C05 — Unplayable tracks and failing playback backends are skipped and contained. *)
From Coq Require Import ZArith List Bool.
From Common Require Import Res.
From Core Require Import World Model Step Reach Res_NoRaise Proofs_C05.
Import ListNotations.
Open Scope Z_scope.

(* T1/T2/T5: for every history, schedule, mode combination, table of failure kinds and flaky
   script: a track whose backend refuses it, returns no URI, raises, or that has no backend
   (kind <> Playable) is never announced as started, never is the current track, and is never
   left pending after an operation. *)
Theorem C05_unplayable_never_selected :
  forall shuf fuel mx kinds lens scr vol mut ops,
  let w := run_world shuf fuel (init_world mx kinds lens scr vol mut) ops in
  (forall t, In (EvStarted t) (events w) -> playable_track kinds t)
  /\ (forall c, current w = Some c -> playable_track kinds c)
  /\ (forall p, pending w = Some p -> playable_track kinds p).
Proof. exact unplayable_never_selected_lemma. Qed.
Print Assumptions C05_unplayable_never_selected.

(* T3: such failures never propagate to the client as exceptions: in any state an operation
   raises only its documented argument-validation error. *)
Theorem C05_failure_contained :
  forall shuf fuel o w r w', run_op shuf fuel o w = (r, w') ->
  match r with Raise e => documented o e = true | _ => True end.
Proof. exact (fun shuf fuel o w r w' => run_op_documented shuf fuel o w r w'). Qed.
Print Assumptions C05_failure_contained.

(* T4: under consume the refused candidate is dropped from the tracklist. *)
Theorem C05_consume_drops_refused :
  forall shuf x w, consume w = true -> NoDup (map tlid (World.tl w)) ->
  exists w', mark_unplayable shuf (Some x) w = (Ok tt, w') /\ ~ In (tlid x) (map tlid (World.tl w')).
Proof. exact (fun shuf => consume_drops_refused_lemma shuf 0%nat). Qed.
Print Assumptions C05_consume_drops_refused.
