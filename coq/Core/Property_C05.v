(* C05 — Unplayable tracks and failing playback backends are skipped and contained. *)
From Coq Require Import ZArith List Bool.
From Common Require Import Res.
From Core Require Import World Model Step Reach Res_NoRaise Proofs_C05 Proofs_C03b Proofs_C05b.
Import ListNotations.
Open Scope Z_scope.

(* T1/T2/T5: for every history, schedule, mode combination, table of failure kinds and flaky
   script: a track whose backend refuses it, returns no URI, raises, or that has no backend
   (kind <> Playable) is never announced as started, never is the current track, and is never
   left pending after an operation. *)
Theorem C05_unplayable_never_selected :
  forall shuf fuel mx kinds lens scr vol mut ops,
  let w := run_world shuf fuel (init_world mx kinds lens scr vol mut) ops in
  (forall t, In (EvStarted t) (events w) -> playable_track kinds t)
  /\ (forall c, current w = Some c -> playable_track kinds c)
  /\ (forall p, pending w = Some p -> playable_track kinds p).
Proof. exact unplayable_never_selected_lemma. Qed.
Print Assumptions C05_unplayable_never_selected.

(* T3: such failures never propagate to the client as exceptions: in any state an operation
   raises only its documented argument-validation error. *)
Theorem C05_failure_contained :
  forall shuf fuel o w r w', run_op shuf fuel o w = (r, w') ->
  match r with Raise e => documented o e = true | _ => True end.
Proof. exact (fun shuf fuel o w r w' => run_op_documented shuf fuel o w r w'). Qed.
Print Assumptions C05_failure_contained.

(* T4: under consume the refused candidate is dropped from the tracklist. *)
Theorem C05_consume_drops_refused :
  forall shuf x w, consume w = true -> NoDup (map tlid (World.tl w)) ->
  exists w', mark_unplayable shuf (Some x) w = (Ok tt, w') /\ ~ In (tlid x) (map tlid (World.tl w')).
Proof. exact (fun shuf => consume_drops_refused_lemma shuf 0%nat). Qed.
Print Assumptions C05_consume_drops_refused.

(* T1', per attempt (flaky backends included): in every reachable state - any history,
   schedule, modes, failure table and flaky script - the tracks announced as started, the
   current entry and the entry left pending by an operation all have an ACCEPTED
   change_track call in the attempt log (which the correspondence compares with the real
   backend's log after every operation): a track that was only ever refused is never selected. *)
Theorem C05_only_accepted_selected :
  forall shuf fuel mx kinds lens scr vol mut ops,
  let w := run_world shuf fuel (init_world mx kinds lens scr vol mut) ops in
  (forall t, In (EvStarted t) (events w) -> In (trk t, true) (attempts w))
  /\ (forall c, current w = Some c -> In (trk c, true) (attempts w))
  /\ (forall p, pending w = Some p -> In (trk p, true) (attempts w)).
Proof. exact accepted_only_selected_lemma. Qed.
Print Assumptions C05_only_accepted_selected.

(* T6: next() tries the FOLLOWING candidates: for every tracklist pre ++ c :: us ++ x :: post
   without duplicate IDs in which every entry of us is unplayable in any of the four ways
   (backend refuses, no URI, raises, no backend for the scheme) and x is playable, next() from a
   state settled on c (sequential order, consume off) ends - once the notifications are
   delivered - on x, still playing, the audio layer on x's URI, nothing pending, tracklist
   untouched; however long the unplayable run is. *)
Theorem C05_next_tries_following_candidates :
  forall shuf f us pre c x post w,
  World.tl w = pre ++ c :: us ++ x :: post -> NoDup (map tlid (World.tl w)) ->
  settled_on w c -> pstate w = Playing -> consume w = false -> random w = false -> repeat w = false ->
  script w = [] -> (forall u, In u us -> kind_of w (trk u) <> Playable) -> kind_of w (trk x) = Playable ->
  let w' := run_world shuf (S (length us + f)) w [Next; Deliver; Deliver; Deliver; Deliver] in
  current w' = Some x /\ pstate w' = Playing /\ pending w' = None /\ queue w' = []
  /\ a_uri w' = Some (trk x) /\ a_state w' = Playing /\ World.tl w' = World.tl w.
Proof. exact next_skips_unplayable. Qed.
Print Assumptions C05_next_tries_following_candidates.

(* non-vacuity: one entry of each failure kind between two playable ones *)
Example C05_skip_example :
  let w := run_world shuf_concrete 50 (init_world 50 [Playable; Refuse; NoUri; Raises; NoBackend; Playable]
                                         [Some 900; Some 900; Some 900; Some 900; Some 900; Some 900] [] None None)
             [Add [0; 1; 2; 3; 4; 5] None; Play None; Deliver; Deliver; Deliver; Deliver] in
  let w' := run_world shuf_concrete 50 w [Next; Deliver; Deliver; Deliver; Deliver] in
  option_map tlid (current w) = Some 1 /\ option_map tlid (current w') = Some 6 /\ pstate w' = Playing
  /\ map fst (attempts w') = [5; 3; 2; 1; 0].
Proof. vm_compute. repeat split; reflexivity. Qed.
Print Assumptions C05_skip_example.
