(* C04, quantitative clause: the number of backend interactions (the ghost counter `bcalls`,
   incremented by every call the core makes on backend.playback / the audio proxy: the same
   counter the harness' scripted backend keeps) made by one operation is bounded linearly in
   the tracklist length.  Part 1: constant bounds for the loop-free functions. *)
From Coq Require Import ZArith List Bool Lia ZifyBool Permutation.
From RecordUpdate Require Import RecordSet.
From Common Require Import Res.
From Core Require Import World Hoare Model Step.
Import ListNotations RecordSetNotations.
Open Scope Z_scope.

Definition cost {A} (k : Z) (m : M A) : Prop :=
  forall w r w', m w = (r, w') -> bcalls w' <= bcalls w + k.

Lemma cost_ret {A} (a : A) : cost 0 (ret a).
Proof. intros w r w' E. inversion E; subst. lia. Qed.
Lemma cost_get : cost 0 get.
Proof. intros w r w' E. inversion E; subst. lia. Qed.
Lemma cost_raise {A} e : cost 0 (@raise A e).
Proof. intros w r w' E. inversion E; subst. lia. Qed.
Lemma cost_diverge {A} : cost 0 (@diverge A).
Proof. intros w r w' E. inversion E; subst. lia. Qed.
Lemma cost_modify f : (forall w, bcalls (f w) = bcalls w) -> cost 0 (modify f).
Proof. intros H w r w' E. inversion E; subst. rewrite H. lia. Qed.
Lemma cost_bcall : cost 1 bcall.
Proof. intros w r w' E. inversion E; subst. cbn. lia. Qed.

Lemma cost_bind {A B} k1 k2 (m : M A) (g : A -> M B) :
  cost k1 m -> (forall a, cost k2 (g a)) -> 0 <= k2 -> cost (k1 + k2) (bind m g).
Proof.
  intros H1 H2 Hk w r w' E. unfold bind in E. destruct (m w) as [[a|e|] w1] eqn:Em.
  - specialize (H1 _ _ _ Em). specialize (H2 a _ _ _ E). lia.
  - inversion E; subst. specialize (H1 _ _ _ Em). lia.
  - inversion E; subst. specialize (H1 _ _ _ Em). lia.
Qed.

(* the same rule with the total given: what is left after the first part pays for the rest *)
Lemma cost_bind_in {A B} K k1 (m : M A) (g : A -> M B) :
  cost k1 m -> 0 <= K - k1 -> (forall a, cost (K - k1) (g a)) -> cost K (bind m g).
Proof.
  intros H1 Hk H2. replace K with (k1 + (K - k1)) by lia. apply cost_bind; assumption.
Qed.

Lemma cost_weaken {A} k k' (m : M A) : cost k m -> k <= k' -> cost k' m.
Proof. intros H Hk w r w' E. specialize (H _ _ _ E). lia. Qed.

Lemma cost_if {A} k1 k2 (c : bool) (a b : M A) : cost k1 a -> cost k2 b -> cost (Z.max k1 k2) (if c then a else b).
Proof. intros H1 H2. destruct c; [eapply cost_weaken; [exact H1|lia]|eapply cost_weaken; [exact H2|lia]]. Qed.

Lemma cost_opt {A B} k1 k2 (x : option B) (a : M A) (b : B -> M A) :
  cost k1 a -> (forall y, cost k2 (b y)) -> cost (Z.max k1 k2) (match x with Some y => b y | None => a end).
Proof. intros H1 H2. destruct x; [eapply cost_weaken; [apply H2|lia]|eapply cost_weaken; [exact H1|lia]]. Qed.

Lemma cost_ps {A} k1 k2 k3 (x : ps) (a b c : M A) :
  cost k1 a -> cost k2 b -> cost k3 c ->
  cost (Z.max k1 (Z.max k2 k3)) (match x with Stopped => a | Playing => b | Paused => c end).
Proof. intros H1 H2 H3. destruct x; (eapply cost_weaken; [eassumption|lia]). Qed.

Lemma cost_list {A B} k1 k2 (x : list B) (a : M A) (b : B -> list B -> M A) :
  cost k1 a -> (forall y l, cost k2 (b y l)) -> cost (Z.max k1 k2) (match x with [] => a | y :: l => b y l end).
Proof. intros H1 H2. destruct x; [eapply cost_weaken; [exact H1|lia]|eapply cost_weaken; [apply H2|lia]]. Qed.

Create HintDb costdb discriminated.

(* cost_out: the goal is [cost ?k m]; instantiate ?k with a bound computed from the structure
   of m and the registered bounds.  cost_in: the goal is [cost K m] with K a closed number;
   case distinctions are free. *)
Ltac nonneg := vm_compute; discriminate.
Ltac cost_out :=
  lazymatch goal with
  | |- cost _ (bind _ _) => eapply cost_bind; [ cost_out | intro; cost_out | nonneg ]
  | |- cost _ (ret _) => apply cost_ret
  | |- cost _ get => apply cost_get
  | |- cost _ (raise _) => apply cost_raise
  | |- cost _ diverge => apply cost_diverge
  | |- cost _ (modify _) => apply cost_modify; intro; reflexivity
  | |- cost _ (match _ with Some _ => _ | None => _ end) => eapply cost_opt; [ cost_out | intro; cost_out ]
  | |- cost _ (match _ with [] => _ | _ :: _ => _ end) => eapply cost_list; [ cost_out | intros; cost_out ]
  | |- cost _ (match _ with Stopped => _ | Playing => _ | Paused => _ end) => eapply cost_ps; cost_out
  | |- cost _ (match _ with true => _ | false => _ end) => eapply cost_if; cost_out
  | |- cost _ _ => solve [ eauto 2 with costdb ]
  end.
Ltac cost_in :=
  lazymatch goal with
  | |- cost _ (bind _ _) => eapply cost_bind_in; [ cost_out | nonneg | intro; cost_in ]
  | |- cost _ (match ?x with _ => _ end) => destruct x; cost_in
  | |- cost _ (let '(_, _) := ?x in _) => destruct x; cost_in
  | |- cost _ _ => eapply cost_weaken; [ cost_out | nonneg ]
  end.

#[export] Hint Resolve cost_bcall : costdb.

Section S.
Variable shuf : Z -> list tlt -> list tlt.

Lemma emit_cost e : cost 0 (emit e).
Proof. unfold emit. cost_in. Qed.
Lemma acall_log_cost c : cost 0 (acall_log c).
Proof. unfold acall_log. cost_in. Qed.
Lemma enqueue_cost n : cost 0 (enqueue n).
Proof. unfold enqueue. cost_in. Qed.
Lemma do_shuffle_cost l : cost 0 (do_shuffle shuf l).
Proof. unfold do_shuffle. cost_in. Qed.
Hint Resolve emit_cost acall_log_cost enqueue_cost do_shuffle_cost : costdb.

Lemma env_prepare_change_cost : cost 1 (env_prepare_change).
Proof. unfold env_prepare_change. cost_in. Qed.
Hint Resolve env_prepare_change_cost : costdb.
Lemma env_set_uri_cost u : cost 0 (env_set_uri u).
Proof. unfold env_set_uri. cost_in. Qed.
Hint Resolve env_set_uri_cost : costdb.
Lemma env_set_state_cost s : cost 1 (env_set_state s).
Proof. unfold env_set_state. cost_in. Qed.
Hint Resolve env_set_state_cost : costdb.
Lemma env_set_position_cost p : cost 1 (env_set_position p).
Proof. unfold env_set_position. cost_in. Qed.
Hint Resolve env_set_position_cost : costdb.
Lemma env_get_position_cost : cost 1 (env_get_position).
Proof. unfold env_get_position. cost_in. Qed.
Hint Resolve env_get_position_cost : costdb.
Lemma attempt_change_cost k : cost 1 (attempt_change k).
Proof. unfold attempt_change. cost_in. Qed.
Hint Resolve attempt_change_cost : costdb.
Lemma set_state_cost s : cost 0 (set_state s).
Proof. unfold set_state. cost_in. Qed.
Hint Resolve set_state_cost : costdb.
Lemma get_time_position_cost : cost 1 (get_time_position).
Proof. unfold get_time_position. cost_in. Qed.
Hint Resolve get_time_position_cost : costdb.
Lemma stop_cost : cost 2 (stop).
Proof. unfold stop. cost_in. Qed.
Hint Resolve stop_cost : costdb.
Lemma on_tracklist_change_cost : cost 2 (on_tracklist_change).
Proof. unfold on_tracklist_change. cost_in. Qed.
Hint Resolve on_tracklist_change_cost : costdb.
Lemma trigger_tracklist_changed_cost : cost 0 (trigger_tracklist_changed shuf).
Proof. unfold trigger_tracklist_changed. cost_in. Qed.
Hint Resolve trigger_tracklist_changed_cost : costdb.
Lemma increase_version_cost : cost 2 (increase_version shuf).
Proof. unfold increase_version. cost_in. Qed.
Hint Resolve increase_version_cost : costdb.
Lemma set_mode_cost which v : cost 0 (set_mode shuf which v).
Proof. unfold set_mode. cost_in. Qed.
Hint Resolve set_mode_cost : costdb.
Lemma tl_remove_cost c : cost 2 (tl_remove shuf c).
Proof. unfold tl_remove. cost_in. Qed.
Hint Resolve tl_remove_cost : costdb.
Lemma tl_index_cost t : cost 0 (tl_index t).
Proof. unfold tl_index. cost_in. Qed.
Hint Resolve tl_index_cost : costdb.
Lemma next_track_cost t : cost 0 (next_track shuf t).
Proof. unfold next_track. cost_in. Qed.
Hint Resolve next_track_cost : costdb.
Lemma eot_track_cost t : cost 0 (eot_track shuf t).
Proof. unfold eot_track. cost_in. Qed.
Hint Resolve eot_track_cost : costdb.
Lemma previous_track_cost t : cost 0 (previous_track t).
Proof. unfold previous_track. cost_in. Qed.
Hint Resolve previous_track_cost : costdb.
Lemma mark_playing_cost t : cost 0 (mark_playing t).
Proof. unfold mark_playing. cost_in. Qed.
Hint Resolve mark_playing_cost : costdb.
Lemma mark_unplayable_cost t : cost 2 (mark_unplayable shuf t).
Proof. unfold mark_unplayable. cost_in. Qed.
Hint Resolve mark_unplayable_cost : costdb.
Lemma mark_played_cost t : cost 2 (mark_played shuf t).
Proof. unfold mark_played. cost_in. Qed.
Hint Resolve mark_played_cost : costdb.
Lemma tl_clear_cost : cost 2 (tl_clear shuf).
Proof. unfold tl_clear. cost_in. Qed.
Hint Resolve tl_clear_cost : costdb.
Lemma tl_move_cost s e p : cost 2 (tl_move shuf s e p).
Proof. unfold tl_move. cost_in. Qed.
Hint Resolve tl_move_cost : costdb.
Lemma tl_shuffle_cost s e : cost 2 (tl_shuffle shuf s e).
Proof. unfold tl_shuffle. cost_in. Qed.
Hint Resolve tl_shuffle_cost : costdb.
Lemma history_add_cost k : cost 0 (history_add k).
Proof. unfold history_add. cost_in. Qed.
Hint Resolve history_add_cost : costdb.
Lemma trigger_paused_cost : cost 1 (trigger_paused).
Proof. unfold trigger_paused. cost_in. Qed.
Hint Resolve trigger_paused_cost : costdb.
Lemma trigger_resumed_cost : cost 1 (trigger_resumed).
Proof. unfold trigger_resumed. cost_in. Qed.
Hint Resolve trigger_resumed_cost : costdb.
Lemma trigger_started_cost : cost 0 (trigger_started).
Proof. unfold trigger_started. cost_in. Qed.
Hint Resolve trigger_started_cost : costdb.
Lemma trigger_ended_cost pos : cost 2 (trigger_ended shuf pos).
Proof. unfold trigger_ended. cost_in. Qed.
Hint Resolve trigger_ended_cost : costdb.
Lemma on_end_of_stream_cost : cost 3 (on_end_of_stream shuf).
Proof. unfold on_end_of_stream. cost_in. Qed.
Hint Resolve on_end_of_stream_cost : costdb.
Lemma pause_cost : cost 2 (pause).
Proof. unfold pause. cost_in. Qed.
Hint Resolve pause_cost : costdb.
Lemma resume_cost : cost 2 (resume).
Proof. unfold resume. cost_in. Qed.
Hint Resolve resume_cost : costdb.
Lemma change_cost p st : cost 5 (change shuf p st).
Proof. unfold change. cost_in. Qed.
Hint Resolve change_cost : costdb.
Lemma seek_backend_cost p : cost 1 (seek_backend p).
Proof. unfold seek_backend. cost_in. Qed.
Hint Resolve seek_backend_cost : costdb.
Lemma on_position_changed_cost : cost 2 (on_position_changed).
Proof. unfold on_position_changed. cost_in. Qed.
Hint Resolve on_position_changed_cost : costdb.
Lemma on_state_changed_cost o n : cost 1 (on_state_changed o n).
Proof. unfold on_state_changed. cost_in. Qed.
Hint Resolve on_state_changed_cost : costdb.
Lemma set_volume_cost v : cost 0 (set_volume v).
Proof. unfold set_volume. cost_in. Qed.
Hint Resolve set_volume_cost : costdb.
Lemma set_mute_cost m : cost 0 (set_mute m).
Proof. unfold set_mute. cost_in. Qed.
Hint Resolve set_mute_cost : costdb.
Lemma save_state_cost : cost 1 (save_state).
Proof. unfold save_state. cost_in. Qed.
Hint Resolve save_state_cost : costdb.
Lemma end_of_stream_env_cost : cost 0 (end_of_stream_env).
Proof. unfold end_of_stream_env. cost_in. Qed.
Hint Resolve end_of_stream_env_cost : costdb.
Lemma tick_cost d : cost 0 (tick d).
Proof. unfold tick. cost_in. Qed.
Hint Resolve tick_cost : costdb.

Lemma add_one_bcalls k pos w : bcalls (add_one k pos w) = bcalls w.
Proof. reflexivity. Qed.

Lemma add_loop_cost ts : forall pos added, cost 0 (add_loop ts pos added).
Proof.
  induction ts as [|k ts IH]; intros pos added; cbn [add_loop]; [apply cost_ret|].
  eapply cost_bind_in; [apply cost_get|nonneg|intro w0].
  destruct (max_len w0 <=? zlen (World.tl w0)); [apply cost_ret|].
  eapply cost_bind_in; [apply cost_modify; intro; apply add_one_bcalls|nonneg|intros _]. apply IH.
Qed.
Hint Resolve add_loop_cost : costdb.

Lemma tl_add_cost ts pos : cost 2 (tl_add shuf ts pos).
Proof. unfold tl_add. cost_in. Qed.
Hint Resolve tl_add_cost : costdb.

End S.
#[export] Hint Resolve emit_cost acall_log_cost enqueue_cost do_shuffle_cost env_prepare_change_cost env_set_uri_cost env_set_state_cost env_set_position_cost env_get_position_cost attempt_change_cost set_state_cost get_time_position_cost stop_cost on_tracklist_change_cost trigger_tracklist_changed_cost increase_version_cost set_mode_cost tl_remove_cost tl_index_cost next_track_cost eot_track_cost previous_track_cost mark_playing_cost mark_unplayable_cost mark_played_cost tl_clear_cost tl_move_cost tl_shuffle_cost history_add_cost trigger_paused_cost trigger_resumed_cost trigger_started_cost trigger_ended_cost on_end_of_stream_cost pause_cost resume_cost change_cost seek_backend_cost on_position_changed_cost on_state_changed_cost set_volume_cost set_mute_cost save_state_cost end_of_stream_env_cost tick_cost add_loop_cost tl_add_cost : costdb.
