(* Backend-interaction cost of the loop-free model functions: each has a constant bound,
   computed by the proof itself (the witness of a sigma type). *)
From Coq Require Import ZArith List Bool Lia.
From RecordUpdate Require Import RecordSet.
From Common Require Import Res.
From Core Require Import World Hoare Model Step.
Import ListNotations RecordSetNotations.
Open Scope Z_scope.

Definition cost (k : Z) {A} (m : M A) : Prop :=
  forall w r w', m w = (r, w') -> bcalls w' <= bcalls w + k.

Lemma cost_ret {A} (a : A) : cost 0 (ret a).
Proof. intros w r w' E. inversion E; subst. lia. Qed.
Lemma cost_get : cost 0 get.
Proof. intros w r w' E. inversion E; subst. lia. Qed.
Lemma cost_raise {A} e : cost 0 (@raise A e).
Proof. intros w r w' E. inversion E; subst. lia. Qed.
Lemma cost_diverge {A} : cost 0 (@diverge A).
Proof. intros w r w' E. inversion E; subst. lia. Qed.
Lemma cost_modify f : (forall w, bcalls (f w) = bcalls w) -> cost 0 (modify f).
Proof. intros H w r w' E. inversion E; subst. rewrite H. lia. Qed.
Lemma cost_bcall : cost 1 bcall.
Proof. intros w r w' E. inversion E; subst. cbn. lia. Qed.
Lemma cost_bind {A B} k1 k2 (m : M A) (f : A -> M B) :
  cost k1 m -> (forall a, cost k2 (f a)) -> 0 <= k2 -> cost (k1 + k2) (bind m f).
Proof.
  intros Hm Hf H0 w r w' E. unfold bind in E. destruct (m w) as [ra w1] eqn:Em.
  specialize (Hm _ _ _ Em). destruct ra as [a|e|].
  - specialize (Hf a _ _ _ E). lia.
  - inversion E; subst. lia.
  - inversion E; subst. lia.
Qed.
Lemma cost_weaken {A} k k' (m : M A) : cost k m -> k <= k' -> cost k' m.
Proof. intros H Hk w r w' E. specialize (H _ _ _ E). lia. Qed.
Lemma cost_if {A} k1 k2 (b : bool) (x y : M A) : cost k1 x -> cost k2 y -> cost (Z.max k1 k2) (if b then x else y).
Proof. intros H1 H2. destruct b; [eapply cost_weaken; [exact H1|lia]|eapply cost_weaken; [exact H2|lia]]. Qed.
Lemma cost_nonneg_max a b : 0 <= a -> 0 <= b -> 0 <= Z.max a b. Proof. lia. Qed.

Lemma cost_opt {A B} k1 k2 (o : option B) (x : M A) (y : B -> M A) :
  cost k1 x -> (forall b, cost k2 (y b)) -> cost (Z.max k1 k2) (match o with Some b => y b | None => x end).
Proof. intros H1 H2. destruct o; eapply cost_weaken; eauto; lia. Qed.
Lemma cost_list {A B} k1 k2 (l : list B) (x : M A) (y : B -> list B -> M A) :
  cost k1 x -> (forall b t, cost k2 (y b t)) -> cost (Z.max k1 k2) (match l with [] => x | b :: t => y b t end).
Proof. intros H1 H2. destruct l; eapply cost_weaken; eauto; lia. Qed.
Lemma cost_ps {A} k1 k2 k3 (s : ps) (x y z : M A) :
  cost k1 x -> cost k2 y -> cost k3 z ->
  cost (Z.max k1 (Z.max k2 k3)) (match s with Stopped => x | Playing => y | Paused => z end).
Proof. intros H1 H2 H3. destruct s; eapply cost_weaken; eauto; lia. Qed.
Lemma cost_pair {A B C} k (p : B * C) (y : B -> C -> M A) :
  (forall b c, cost k (y b c)) -> cost k (let '(b, c) := p in y b c).
Proof. intros H. destruct p. apply H. Qed.

Create HintDb cost discriminated.

Ltac cost_step :=
  lazymatch goal with
  | |- cost _ (bind _ _) => eapply cost_bind; [ | intro | ]
  | |- cost _ (ret _) => apply cost_ret
  | |- cost _ get => apply cost_get
  | |- cost _ (raise _) => apply cost_raise
  | |- cost _ diverge => apply cost_diverge
  | |- cost _ bcall => apply cost_bcall
  | |- cost _ (modify _) => apply cost_modify; intro; reflexivity
  | |- cost _ (if _ then _ else _) => eapply cost_if
  | |- cost _ (match _ with Some _ => _ | None => _ end) => eapply cost_opt; [ | intro ]
  | |- cost _ (match _ with [] => _ | _ :: _ => _ end) => eapply cost_list; [ | intros ? ? ]
  | |- cost _ (match _ with Stopped => _ | Playing => _ | Paused => _ end) => eapply cost_ps
  | |- cost _ (let '(_, _) := _ in _) => eapply cost_pair; intros ? ?
  end.
Ltac nonneg := repeat first [ apply cost_nonneg_max | lia ].
Ltac costp := repeat first [ solve [eauto 2 with cost] | cost_step ]; try nonneg.

(* a function's constant is the witness of its proof *)
Notation costsig f := {k : Z | 0 <= k /\ f k}.

Section S.
Variable shuf : Z -> list tlt -> list tlt.

Definition emit_cost : {k : Z | 0 <= k /\ forall e, cost k (emit e)}.
Proof. eexists. split; [|intro e; unfold emit; costp]. lia. Defined.
Eval vm_compute in proj1_sig emit_cost.

Definition env_set_state_cost : {k : Z | 0 <= k /\ forall s, cost k (env_set_state s)}.
Proof.
  eexists. split; [|intro s; unfold env_set_state, acall_log, enqueue; costp].
  nonneg.
Defined.
Eval vm_compute in proj1_sig env_set_state_cost.
End S.
